#!/bin/bash
# usage: seedq.sh <round-tag> C04 C06 ...   the two changes of each property get the next free ids
export VERIF_DIR=/tmp/par/v5 VERIF_REPO=/tmp/par/r5
tag=$1; shift
for p in "$@"; do
  for n in 1 2; do
    last=$(ls /verif/seeded | grep -E "^S-$p-[0-9]+$" | sed "s/S-$p-//" | sort -n | tail -1)
    id=S-$p-$((last+1))
    python3 /verif/scripts/seedtest.py /tmp/seed/$p-$tag $n $p $id >> /tmp/par/seedq.log 2>&1
  done
done
