#!/usr/bin/env python3
"""extract_spike.py <start_line> <out>: write the first fenced code block that begins at or after start_line of DESIGN-spikes.md"""
import sys
lines = open('/verif/DESIGN-spikes.md').read().split('\n')
i = int(sys.argv[1]) - 1
while not lines[i].startswith('```'):
    i += 1
j = i + 1
while not lines[j].startswith('```'):
    j += 1
open(sys.argv[2], 'w').write('\n'.join(lines[i+1:j]) + '\n')
print(sys.argv[2], j - i - 1, 'lines')
