#!/usr/bin/env python3
"""Run the repository's pinned test suite with the verif guard OFF and compare with /root/.vp/BASELINE.json.
Exit 0 iff every stable_pass test passed."""
import json, os, subprocess, sys
env = dict(os.environ, GOFLAGS="-mod=mod", GOPROXY="off", GOSUMDB="off", GOTOOLCHAIN="local")
base = json.load(open("/root/.vp/BASELINE.json"))
want = set(base["stable_pass"])
p = subprocess.run(["go", "test", "-json", "-vet=off", "-count=1", "-timeout", "25m", "./..."],
                   cwd=os.environ.get("BASELINE_REPO", "/repo"), env=env, stdout=subprocess.PIPE, stderr=subprocess.STDOUT, text=True)
res = {}
for line in p.stdout.splitlines():
    try:
        ev = json.loads(line)
    except Exception:
        continue
    if ev.get("Test") and ev.get("Action") in ("pass", "fail", "skip"):
        res[ev["Package"] + "::" + ev["Test"]] = ev["Action"]
missing = sorted(t for t in want if res.get(t) != "pass")
passed = sum(1 for t in want if res.get(t) == "pass")
print(f"baseline: {passed}/{len(want)} stable tests passed; other failures: "
      f"{sorted(t for t, a in res.items() if a == 'fail' and t not in want)}")
for t in missing:
    print("NOT PASSING:", t, res.get(t))
sys.exit(1 if missing else 0)
