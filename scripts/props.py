"""Per-property configuration of ./check (data only; the theorems live in lean/Failsafe/Props)."""

import json, os, re, subprocess

PROPS = {}
NOT_APPLICABLE = {}


def _run(cmd, timeout=1800, env=None):
    p = subprocess.run(cmd, stdout=subprocess.PIPE, stderr=subprocess.STDOUT, text=True, timeout=timeout, env=env)
    return p.returncode, p.stdout


def make_cmd_runner(name, cmd, prefix, oracle, reps_thorough=5, timing=True, select=None):
    """runner for a harness sub-command that prints one line per scenario ending in ' ok' or a violation marker."""
    def run(ctx):
        reps = 1 if ctx["tier"] == "quick" else reps_thorough
        lines, bad = [], []
        for _ in range(reps):
            rc, out = _run([os.path.join(ctx["build"], "harness")] + cmd, timeout=900)
            for l in out.splitlines():
                if l.startswith(prefix) and (select is None or select in l):
                    lines.append(l)
                    if not l.endswith(" ok"):
                        bad.append(l)
        if bad and timing:
            again = 0
            for _ in range(3):
                rc, out = _run([os.path.join(ctx["build"], "harness")] + cmd, timeout=900)
                if any(l.startswith(prefix) and (select is None or select in l) and not l.endswith(" ok") for l in out.splitlines()):
                    again += 1
            if again < 3:
                bad = []
        res = {"name": name, "ok": not bad and bool(lines), "evaluations": len(lines), "nontrivial": len(lines), "traces": len(lines),
               "samples": lines[:2], "violations": []}
        if not lines:
            res["broken"] = [{"kind": "RUN", "name": name, "detail": "the scenario command produced no result lines"}]
        if bad:
            res["violations"].append({"kind": "counterexample", "obligation": name, "case": bad, "oracle": oracle,
                                      "replay_shell": "{harness} " + " ".join(cmd)})
        return res
    return run


def _race_blocks(out):
    """split race-detector output into reports; each: (text, [top frame file of each access stack], [creation site files])"""
    blocks = []
    for part in out.split("=================="):
        if "WARNING: DATA RACE" not in part:
            continue
        tops, created = [], []
        body = part.replace("WARNING: DATA RACE", "").strip()
        for sec in re.split(r"\n\s*\n", body):
            lines = [l for l in sec.strip().splitlines() if l.strip()]
            if not lines:
                continue
            head = lines[0]
            files = [l.strip().split(" ")[0] for l in lines[1:] if l.strip().startswith("/")]
            if "created at" in head:
                created.extend(files[:2])
            elif re.search(r"(Read|Write|read|write) at 0x", head) and files:
                tops.append(files[0])
        blocks.append((part.strip()[:3000], tops, created))
    return blocks


def _known_race(pid, tops, created):
    try:
        kfs = json.load(open("/verif/known_findings.json"))["findings"]
    except Exception:
        return None
    for kf in kfs:
        sig = kf.get("race_signature")
        if kf.get("property") != pid or kf.get("status") != "open" or not sig:
            continue
        if tops and all(sig["top_frames_in"] in t for t in tops) and any(sig["created_in"] in c for c in created):
            return kf
    return None


def stress_runner(scn, oracle, race=False, scale_quick=1, scale_thorough=6, confirm=2):
    """runner for `harness stress <scn>`: TRACE tie / search engine of a concurrency property. A violation must reproduce on
    `confirm` further runs (other seeds) before it counts, because the monitors observe a real scheduler. With race=True the
    race-enabled build is run: every race report is a violation unless it matches an open known finding's race signature."""
    name = "STRESS " + scn + (" (-race)" if race else "")
    def run(ctx):
        binary = os.path.join(ctx["build"], "harness-race" if race else "harness")
        if race and not os.path.exists(binary):
            return {"name": name, "ok": False, "broken": [{"kind": "BUILD", "name": name, "detail": "race-enabled harness was not built"}]}
        scale = scale_quick if ctx["tier"] == "quick" else scale_thorough
        if ctx.get("broken"):
            scale = max(scale, 3)
        def once(seed):
            env = dict(os.environ, GORACE="halt_on_error=0")
            try:
                rc, out = _run([binary, "stress", scn, "-seed", str(seed), "-scale", str(scale)], timeout=(240 if ctx["tier"] == "quick" else 1500), env=env)
            except subprocess.TimeoutExpired:
                return 1, "stress %s runs=0 violations={watchdog: 1} VIOLATION (timeout: deadlock?)" % scn, [], ""
            line = next((l for l in out.splitlines() if l.startswith("stress " + scn)), "stress %s produced no summary: %s" % (scn, out[-300:]))
            return rc, line, _race_blocks(out) if race else [], out
        rc, line, blocks, full = once(ctx["seed"])
        m = re.search(r"runs=(\d+)", line)
        runs = int(m.group(1)) if m else 0
        bad = not line.endswith(" ok")
        if bad and not race:
            again = sum(1 for k in range(confirm) if not once(ctx["seed"] + 101 * (k + 1))[1].endswith(" ok"))
            if again == 0:
                bad = False
                line += "  [a violation in the first run did not reproduce on %d further seeds: scheduling artefact of the monitor]" % confirm
        res = {"name": name, "ok": True, "evaluations": runs, "nontrivial": runs, "traces": runs, "samples": [line[:600]], "violations": [], "known": []}
        replay = ("{harness_race}" if race else "{harness}") + " stress %s -seed %d -scale %d" % (scn, ctx["seed"], scale)
        if bad:
            res["ok"] = False
            res["violations"].append({"kind": "counterexample", "obligation": name, "case": [line], "oracle": oracle, "replay_shell": replay})
        seen_known, new_races = set(), 0
        for text, tops, created in blocks:
            kf = _known_race(ctx["pid"], tops, created)
            if kf:
                if kf["id"] not in seen_known:
                    seen_known.add(kf["id"])
                    res["known"].append(kf["what"])
                continue
            new_races += 1
            if new_races <= 2:
                res["ok"] = False
                res["violations"].append({"kind": "counterexample", "obligation": name, "case": [text], "oracle": "the race detector reported a data race (happens-before based: the report does not depend on the failure manifesting)",
                                          "race_top_frames": tops, "race_created_at": created, "replay_shell": "GORACE=halt_on_error=0 " + replay})
        if race:
            res["samples"].append("race reports: %d (%d matching open known findings)" % (len(blocks), len(blocks) - new_races))
        return res
    return run


def runner_blocking(ctx):
    """C05: real-time lower bound of the blocking acquire paths (three API entry points + the policy executor)."""
    reps = 1 if ctx["tier"] == "quick" else 5
    lines, bad = [], []
    for _ in range(reps):
        rc, out = _run([os.path.join(ctx["build"], "harness"), "blocking"], timeout=300)
        for l in out.splitlines():
            if l.startswith("blocking "):
                lines.append(l)
                if not l.endswith(" ok"):
                    bad.append(l)
    # a timing disagreement must reproduce (3 more runs) before it counts
    if bad:
        again = 0
        for _ in range(3):
            rc, out = _run([os.path.join(ctx["build"], "harness"), "blocking"], timeout=300)
            if any(l.startswith("blocking ") and not l.endswith(" ok") for l in out.splitlines()):
                again += 1
        if again < 3:
            bad = []
    res = {"name": "TIMING blocking-acquire", "ok": not bad, "evaluations": len(lines), "nontrivial": len(lines), "traces": len(lines),
           "samples": lines[:2], "violations": []}
    if bad:
        res["violations"].append({"kind": "counterexample", "obligation": "TIMING blocking-acquire", "case": bad,
                                  "oracle": "a blocking acquire returned before the instant at which its permit becomes usable",
                                  "replay_shell": "{harness} blocking"})
    return res

runner_retrytiming_notbefore = make_cmd_runner("TIMING retry-not-before-delay", ["retrytiming"], "retrytiming ", select="notbefore/",
    oracle="an attempt started before the delay announced by OnRetryScheduled had elapsed, or a negative delay was scheduled, or a delay was scheduled that extends past the remaining max duration (also when the delay function itself takes 40 ms)")
runner_retrytiming_maxduration = make_cmd_runner("TIMING retry-max-duration", ["retrytiming"], "retrytiming ", select="maxduration/",
    oracle="an attempt was started after a failure that was handled when the max duration had already elapsed, or the execution did not end with ExceededError")


PROPS["C05"] = {
    "props": "Failsafe.Props.C05",
    "ties": ["Failsafe.Tie.Limiter"],
    "kernels": ["bursty_acquire", "smooth_acquire", "exceeds_max_wait", "round_down"],
    "required_theorems": [
        "Failsafe.Props.C05.smooth_refines_slots", "Failsafe.Props.C05.smooth_one_per_slot", "Failsafe.Props.C05.smooth_earliest",
        "Failsafe.Props.C05.smooth_k_eq_singles", "Failsafe.Props.C05.smooth_refusal_noop",
        "Failsafe.Props.C05.bursty_le_pp_per_period", "Failsafe.Props.C05.bursty_refines_ordinals",
        "Failsafe.Props.C05.bursty_k_eq_singles", "Failsafe.Props.C05.bursty_maxwait",
        "Failsafe.Props.C05.bursty_refusal_unobservable", "Failsafe.Props.C05.blocking_acquire_not_early",
        "Failsafe.Tie.Limiter.tie_bursty", "Failsafe.Tie.Limiter.tie_smooth",
    ],
    "facts": ["selects/ratelimiter.AcquirePermits", "selects/ratelimiter.acquirePermitsWithMaxWait",
              "effects/ratelimiter:rateLimiter.AcquirePermits", "effects/ratelimiter:rateLimiter.acquirePermitsWithMaxWait",
              "effects/ratelimiterexecutor:executor.Apply", "locks/smoothStats.acquirePermits", "locks/burstyStats.acquirePermits"],
    "runners": [runner_blocking],
    "diff": [{"slice": "limiter", "n_quick": 400, "n_thorough": 4000, "seeds_thorough": 6, "n_search": 4000},
             {"slice": "linzrl", "recorded": True, "n_quick": 120, "n_thorough": 1200, "seeds_thorough": 3, "n_search": 600, "par": 4}],
    "rule": "limiter slice: random smooth/bursty configurations (1 ns … 1 h), 60 (quick) or 300 (thorough) requests per case at "
            "boundary-biased instants (exact slot/period boundaries, ±1 ns, long idle gaps after deficits), permit counts 0–50 and "
            "around the period size, max waits {-1, 0, unit±1, time-to-boundary, random}; non-trivial = the request waited or was refused; "
            "linzrl slice: concurrent histories of ONE shared smooth or bursty limiter behind the virtual clock, 4-7 goroutines x one reserve / try-acquire operation each, "
            "most of them with a max wait of zero, checked for linearizability against the sequential model (see C14)",
    "assumptions": ["stopwatch instants are non-negative and non-decreasing", "no 64-bit overflow at generated magnitudes",
                    "Go timers never fire early (blocking acquire)"],
    "manifest": {
        "text": "Lean 4 theorems over the regenerated acquirePermits kernels: the smooth limiter refines a slot counter for every history (one permit per slot, earliest grant, k permits = k singles, a refusal is a no-op); the bursty limiter refines an ordinal counter, at most maxExecutions permits become usable per period for every history, k = k singles, a refusal is unobservable; a blocking acquire is never early in the timed model. Tie: GEN (Generated = Model proved on every run) + DIFF through the virtual stopwatch hook.",
        "note": "Trusted: Lean kernel; translator + schema; harness canonicalisation; stopwatch instants non-negative and non-decreasing; no int64 overflow; Go timers never early. The blocking select/timer is modelled; concurrent callers are serialised by the stats mutex.",
        "technique": "Lean 4 proof (refinement, induction over histories) + regenerated-kernel tie + differential correspondence"},
    "modelled": ["blocking AcquirePermit(s)WithMaxWait: timer/select modelled as a timed transition; concurrent callers are serialised by the stats mutex (FACTS)"],
}

PROPS["C03"] = {
    "props": "Failsafe.Props.C03",
    "ties": ["Failsafe.Tie.Breaker"],
    "kernels": ["closed_check", "halfopen_check", "open_try", "open_remaining", "halfopen_try", "closed_capacity", "halfopen_capacity",
                "ring_set_next", "counting_failure_rate", "counting_success_rate", "timed_execution_count", "timed_failure_count", "timed_success_count", "timed_failure_rate", "timed_success_rate", "counting_execution_count", "counting_failure_count", "counting_success_count"],
    "required_theorems": [
        "Failsafe.Props.C03.ring_refines_lastN", "Failsafe.Props.C03.ring_counts_sum", "Failsafe.Props.C03.buckets_refine_window",
        "Failsafe.Props.C03.closed_opens_iff", "Failsafe.Props.C03.closedShouldOpen_iff", "Failsafe.Props.C03.closed_count_opens_iff",
        "Failsafe.Props.C03.open_admits_nothing_until", "Failsafe.Props.C03.halfopens_at", "Failsafe.Props.C03.remainingDelay_eq",
        "Failsafe.Props.C03.open_ignores_records", "Failsafe.Props.C03.open_delay",
        "Failsafe.Props.C03.halfopen_decides_within_capacity", "Failsafe.Props.C03.trial_permit_roundtrip",
        "Failsafe.Props.C03.events_connected_path", "Failsafe.Props.C03.transition_evinv",
        "Failsafe.Tie.Breaker.tie_closedCheck", "Failsafe.Tie.Breaker.tie_halfOpenCheck", "Failsafe.Tie.Breaker.tie_openTry",
        "Failsafe.Tie.Breaker.tie_openRemaining", "Failsafe.Tie.Breaker.tie_setNext", "Failsafe.Tie.Breaker.tie_halfOpenCap",
        "Failsafe.Tie.Breaker.tie_closedCap", "Failsafe.Tie.Breaker.tie_failureRate",
    ],
    "diff": [{"slice": "breaker", "n_quick": 300, "n_thorough": 3000, "seeds_thorough": 6, "n_search": 3000},
             {"slice": "classify", "n_quick": 150, "n_thorough": 1500, "seeds_thorough": 3, "n_search": 1500}],
    "rule": "classify slice (see C12): what a breaker with handle conditions records as a failure, through executions and through the standalone Record* API; breaker slice through the virtual clock hook: configurations over count / ratio / period-count / period-rate failure thresholds x "
            "none / success threshold / success ratio x fixed delay (0-199 ns, or the maximal Duration: 'open until closed by hand') / delay function; 120 (quick) or 600 (thorough) operations per case from "
            "{RecordSuccess, RecordFailure, execution success/failure through the policy, TryAcquirePermit, Open, HalfOpen, Close, clock advance}; "
            "advances drawn from {0, 1 ns, remaining delay, remaining-1, to the next slice boundary, boundary-1, period+x, random}; "
            "non-trivial = the operation emitted a state-change event or refused a permit",
    "assumptions": ["clock values are non-negative and non-decreasing", "configuration is well-formed (Cfg.WF: thresholds within capacities, rate 1..100, period >= 10 ns)",
                    "rate function: native Float = Go float64 (validated by DIFF); PctComplement (pct f n + pct (n-f) n >= 100) is a hypothesis of the rate-threshold half-open theorem, validated for n <= 200 on every run"],
    "modelled": ["timedStats.currentBucket is tied by DIFF only (pointer aliasing in a loop is outside the translator's subset)",
                 "listeners are invoked under the breaker mutex; the model records the events in order"],
    "manifest": {
        "text": "Lean 4 theorems over the breaker model: the bit ring is the last-N window of the record history for every capacity and length; the ten time slices + summary are the per-slice counts of (head-10, head] for every history (uint subtractions never truncate); the closed state opens exactly on the record after which the threshold holds; open admits nothing before the delay and half-opens exactly at elapsed = delay; remaining delay exact; a fresh half-open state is decided within its trial capacity for every result sequence (WF configurations; rate case under PctComplement); events form a connected path with the old state's metrics, for every operation history. Tie: GEN for the ten decision/stat kernels (Generated = Model proved each run) + DIFF of every public operation through the virtual clock hook.",
        "note": "Trusted: Lean kernel; translator + schema; harness canonicalisation; native Float = float64 (validated differentially); clock non-decreasing; WF configurations. timedStats.currentBucket is DIFF-only.",
        "technique": "Lean 4 proof (refinement to history windows, inductive invariants, induction over operation histories) + regenerated-kernel tie + differential correspondence via clock hook"},
}

PROPS["C12"] = {
    "props": "Failsafe.Props.C12",
    "ties": ["Failsafe.Tie.Classify"],
    "kernels": ["is_failure", "is_abortable", "handle_result_closure", "abort_result_closure", "handle_errors_closure",
                "handle_types_closure", "abort_errors_closure"],
    "facts": ["errorsCheckedSetBy"],
    "required_theorems": [
        "Failsafe.Props.C12.isFailure_iff", "Failsafe.Props.C12.abort_iff", "Failsafe.Props.C12.cancel_iff",
        "Failsafe.Props.C12.isFailure_perm", "Failsafe.Props.C12.build_spec",
        "Failsafe.Tie.Classify.tie_isFailure", "Failsafe.Tie.Classify.tie_isAbortable", "Failsafe.Tie.Classify.tie_handleResult",
        "Failsafe.Tie.Classify.tie_abortResult", "Failsafe.Tie.Classify.tie_handleErrors", "Failsafe.Tie.Classify.tie_handleTypes",
    ],
    "diff": [{"slice": "classify", "n_quick": 250, "n_thorough": 1500, "seeds_thorough": 4, "n_search": 1500}],
    "rule": "classify slice: random registration lists (0-3 conditions each of HandleErrors/HandleErrorTypes/HandleResult/HandleIf, same for "
            "AbortOn*/CancelOn*) x outcomes: results 0..2 with nil, sentinel (library sentinels and user errors), fmt-wrapped, custom-wrapped, "
            "errors.Join-ed, custom multi-error, typed (value and pointer receiver) errors and ExceededError with and without a last error, "
            "tree depth <= 3; each outcome is observed through a real fallback, breaker (execution and standalone Record*), retry policy "
            "(retried / aborted) and hedge policy (first result accepted or hedged), all of them long-lived: one instance per configuration sees every outcome of the case, so a "
            "classification that depends on what the policy saw before disagrees with the model; plus one row per case of a deep-equality table (result types pointer / slice / map / "
            "comparable struct holding a pointer / interface / string; outcome an equal copy in a distinct allocation, or a different value) through HandleResult, AbortOnResult and a hedge policy's CancelOnResult; "
            "non-trivial = classified as failure or abort-matching; plus the compose slice (see C01): the same conditions inside random policy stacks",
    "assumptions": ["predicates passed to HandleIf/AbortIf/CancelIf are pure", "reflect.DeepEqual on the result type is equality (int results)"],
    "modelled": ["errors.Is / util.ErrorTypesMatch over error trees are modelled (Err.is, Err.typeMatch) and validated differentially against Go, not verified",
                 "interface-typed targets of HandleErrorTypes are not generated"],
    "manifest": {
        "text": "Lean 4 theorem isFailure_iff: for every registration list (any subset, order, multiplicity) and every outcome the policy's classification equals the documented rule (no conditions and an error; or some condition matches, result conditions only for outcomes without an error; or an error and no error-inspecting condition); abort_iff / cancel_iff likewise; order and multiplicity irrelevant. Tie: GEN for IsFailure, IsAbortable and the registered closures (Generated = Model proved each run), FACTS for which registrations mark errors as checked, DIFF observing real fallback/breaker/retry/hedge policies over error trees.",
        "note": "Trusted: Lean kernel; translator + schema; the tree model of errors.Is / type matching (validated by DIFF against Go on wrapped, joined, typed errors); pure predicates.",
        "technique": "Lean 4 proof (truth table for every registration list) + regenerated-kernel tie + differential correspondence"},
}

COMPOSE_DIFF = {"slice": "compose", "n_quick": 1920, "n_thorough": 6400, "seeds_thorough": 3, "n_search": 3200, "par": 16}
PROPS["C12"]["diff"].append(COMPOSE_DIFF)   # classification inside compositions (what a hedge / retry / fallback around other policies matches)
COMPOSE_RULE = ("compose slice (retry policies optionally with a max duration and scripts with outcomes that outlast it; scripted cancellation points, see C08): random stacks (depth 0-5, with repetition) of retry / breaker / bulkhead / rate limiter / fallback / cache / timeout "
                "(+ a hedge in 1 of 6 cases: innermost, or in a third of them at any position) built from the real builders with random configurations and handle/abort/cancel "
                "conditions; 1-5 successive executions per case against the same stateful instances, scripts of 0-8 outcomes (values 0-2, four "
                "error kinds, blocking-until-cancelled outcomes when something can release them), context cache keys, standalone bulkhead "
                "permits, clock advances, sync and async entry points; every listener the builders expose is recorded in one ordered log with "
                "Attempts/Executions sampled at each event; observed: result, error tree, verdict listener, invocations, Attempts/Executions/"
                "Retries/Hedges, log, breaker state+metrics, free permits, cache contents; cache policies with 0-2 CacheIf conditions; every builder that copies its configuration in Build "
                "(retry, fallback, timeout, hedge) is told other settings and listeners after Build, the executor is bound to another context (with a cache key of its own) before the "
                "real one, and a sibling executor derived from the same base gets listeners of its own: none of that may show; after an attempt its Timeout cut short a later invocation "
                "may be a scripted cancellation point (C07); StartTime / AttemptStartTime readings at every event are checked by a harness oracle (C17); "
                "non-trivial = more than the three executor events or an error result")
COMPOSE_ASSUME = ["instant outcomes complete long before any timer (hedge delay 15 ms, timeout 600 ms): schedules of racing timers belong to C07/C09",
                  "user functions, listeners and predicates do not panic and cooperate with cancellation"]
COMPOSE_MODELLED = ["a hedge at a position other than the innermost is exercised with instant outcomes only (a blocked attempt would run the policies inside the hedge concurrently with the next attempt); blocking outcomes only with an innermost hedge",
                    "rate limiter inside a stack uses max wait 0 (no real waiting) behind the virtual stopwatch"]
COMPOSE_FACTS = ["executeLoop", "effects/executor:executor.execute", "effects/policyexecutor:BaseExecutor.Apply", "effects/policyexecutor:BaseExecutor.PostExecute"]

PROPS["C10"] = {
    "props": "Failsafe.Props.C10", "ties": ["Failsafe.Tie.Classify"],
    "kernels": ["is_failure", "with_done", "with_failure"],
    "facts": COMPOSE_FACTS + ["effects/fallbackexecutor:executor.Apply", "bodies/fallback:config.Build"],
    "required_theorems": ["Failsafe.Props.C10.fallback_spec", "Failsafe.Props.C10.fallback_applied_iff", "Failsafe.Props.C10.fallback_output_reclassified",
                          "Failsafe.Props.C10.unhandled_passthrough", "Failsafe.Props.C10.no_fallback_output_under_cancel", "Failsafe.Props.C10.fallback_sees_failed_outcome"],
    "diff": [COMPOSE_DIFF], "rule": COMPOSE_RULE + "; STRESS future: (see C15) incl. executions on an executor on which an earlier async execution was cancelled: the ones nobody cancelled get their fallback applied", "assumptions": COMPOSE_ASSUME, "modelled": COMPOSE_MODELLED,
    "runners": [stress_runner("future", "an execution nobody cancelled, on an executor that an earlier async execution was cancelled on, did not get its handled failure replaced by the fallback")],
    "manifest": {
        "text": "Lean 4 theorems about the fallback layer of the composition model, each for an arbitrary inner layer and run state: the layer's complete behaviour (fallback_spec); applied iff the inner outcome is a failure by the fallback's own conditions and the execution is not cancelled, exactly once (event count); output replaces the result and is re-classified by the same conditions (verdict reset); unhandled results pass through unchanged; no fallback output under cancellation. Tie: FACTS (order of effects in fallback Apply), GEN (IsFailure, flag algebra), DIFF of random policy stacks incl. all fallback kinds against the real library.",
        "note": "Trusted: Lean kernel; translator/fact extractor; harness canonicalisation. WithFunc fallbacks are represented by WithResult/WithError (the builders reduce to WithFunc). The fallback function's view of the failed outcome is a theorem (fallback_sees_failed_outcome) and is observed by DIFF through a WithFunc fallback that records LastResult/LastError.",
        "technique": "Lean 4 proof (per-layer theorems over an arbitrary inner layer) + structural facts + differential correspondence"},
}
PROPS["C11"] = {
    "props": "Failsafe.Props.C11", "ties": [],
    "kernels": [],
    "facts": COMPOSE_FACTS + ["effects/cacheexecutor:executor.PreExecute", "effects/cacheexecutor:executor.PostExecute", "effects/cacheexecutor:executor.getCacheKey"],
    "runners": [stress_runner("shared", "executions sharing one cache policy with different context keys stored or returned a value under another execution's key")],
    "required_theorems": ["Failsafe.Props.C11.cache_hit_skips_inner", "Failsafe.Props.C11.cache_hit_world_unchanged", "Failsafe.Props.C11.cache_miss_spec",
                          "Failsafe.Props.C11.cache_store_iff", "Failsafe.Props.C11.cache_conditions_accumulate", "Failsafe.Props.C11.ctx_key_precedence", "Failsafe.Props.C11.no_key_no_io", "Failsafe.Props.C11.stored_lookup"],
    "diff": [COMPOSE_DIFF], "rule": COMPOSE_RULE, "assumptions": COMPOSE_ASSUME + ["the Cache implementation supplied by the user is a map (Get returns what Set stored)"],
    "modelled": COMPOSE_MODELLED,
    "manifest": {
        "text": "Lean 4 theorems about the cache layer for an arbitrary inner layer: on a hit the cached value is returned with no error and the result, world, counters and script are independent of the inner layer (it is never entered); on a miss the inner result is returned unchanged and stored iff it carries no error (or satisfies CacheIf) and the effective key is non-empty; a context key takes precedence even when empty; with no key the layer is the inner layer plus the miss event; a stored value is what the next lookup finds. Tie: FACTS (PreExecute/PostExecute/getCacheKey effect order), DIFF of random stacks with caches at any depth, shared instances, context keys equal/different/empty.",
        "note": "Trusted: Lean kernel; fact extractor; harness; the user's Cache behaves as a map.",
        "technique": "Lean 4 proof (per-layer theorems over an arbitrary inner layer) + structural facts + differential correspondence"},
}
PROPS["C17"] = {
    "props": "Failsafe.Props.C17", "ties": ["Failsafe.Tie.Execution"],
    "kernels": ["exec_is_first_attempt", "exec_is_retry", "exec_attempts", "exec_retries", "exec_hedges", "exec_executions"],
    "facts": COMPOSE_FACTS + ["effects/execution:execution.InitializeRetry", "effects/execution:execution.CopyForHedge", "effects/execution:execution.record",
                              "effects/execution:execution.RecordResult", "bodies/execution:execution.RecordResult", "bodies/execution:execution.InitializeRetry",
                              "bodies/execution:execution.CopyForHedge", "bodies/execution:execution.Cancel", "bodies/execution:execution.copy", "bodies/execution:.newExecution"],
    "required_theorems": ["Failsafe.Props.C17.attempts_eq_one_plus_retries_plus_hedges", "Failsafe.Props.C17.applyPolicy_preserves",
                          "Failsafe.Props.C17.executeStack_preserves", "Failsafe.Props.C17.breaker_rejection_not_an_execution",
                          "Failsafe.Props.C17.bulkhead_rejection_not_an_execution", "Failsafe.Props.C17.hedge_preserves", "Failsafe.Props.C17.retry_preserves",
                          "Failsafe.Props.C17.flags_agree", "Failsafe.Props.C17.seenBy_val", "Failsafe.Props.C17.seenBy_err", "Failsafe.Props.C17.seenBy_not_cancelled", "Failsafe.Props.C17.seenBy_cancelled", "Failsafe.Props.C17.first_xor_retry", "Failsafe.Props.C17.isRetry_iff_retries_or_hedges",
                          "Failsafe.Tie.Execution.tie_isFirstAttempt", "Failsafe.Tie.Execution.tie_isRetry", "Failsafe.Tie.Execution.tie_attempts"],
    "diff": [COMPOSE_DIFF], "rule": COMPOSE_RULE, "assumptions": COMPOSE_ASSUME, "modelled": COMPOSE_MODELLED + [
        "Executions sampled in listeners is compared only in stacks without a hedge (a cancelled hedge attempt completes asynchronously); its final value after quiescence is always compared",
        "start times / elapsed times are clock readings: not modelled in Lean; the compose harness evaluates them with an oracle of its own (StartTime constant, one AttemptStartTime per attempt number, non-decreasing across attempts) on executions without a hedge and without a retry policy inside a Timeout",
        "IsHedge is part of the function's event in model and DIFF (Run.hedgeAttempt, event name fnh); it is not the subject of a separate theorem"],
    "manifest": {
        "text": "Lean 4 theorems: Attempts = 1 + Retries + Hedges is an invariant of every policy layer over an arbitrary inner layer, hence of every execution of every policy list (induction over the list; retry and hedge by induction on their loops); an attempt rejected by an open breaker or a full bulkhead leaves invocations and Executions unchanged; the boolean flags agree with the counters (IsFirstAttempt iff Attempts = 1, IsRetry iff Attempts > 1, exactly one of them; proved about the getters regenerated from execution.go). Tie: GEN (the six statistics getters), FACTS (InitializeRetry / CopyForHedge / record bodies), DIFF sampling Attempts/Executions inside every listener and Retries/Hedges/Executions in the done event against the model's value at that point, and evaluating the flag clause on every execution object handed to the function, a fallback function or a listener.",
        "note": "Trusted: Lean kernel; fact extractor; harness. LastResult/LastError seen by each function invocation, by each fallback function, by every listener of a retry policy (OnFailure, OnSuccess, OnAbort, OnRetriesExceeded, OnRetryScheduled, OnRetry: the attempt's outcome, retry_onFailure_events) and by the policy-level OnSuccess / OnFailure listeners of breakers and fallbacks (the result they classified, read through LastError()'s context rule: seenBy_*) are part of the DIFF event log (model fields Run.last / Event.seen); time monotonicity is a harness-side oracle, not a theorem.",
        "technique": "Lean 4 proof (inductive invariant over layers and policy lists) + structural facts + differential correspondence"},
}

PROPS["C01"] = {
    "props": "Failsafe.Props.C01", "ties": ["Failsafe.Tie.Classify"],
    "kernels": ["with_done", "with_failure", "is_failure"],
    "facts": COMPOSE_FACTS + ["bodies/executor:executor.execute", "bodies/policyexecutor:BaseExecutor.Apply", "bodies/policyexecutor:BaseExecutor.PostExecute",
                              "effects/retryexecutor:executor.Apply", "effects/circuitbreakerexecutor:executor.PreExecute", "effects/bulkheadexecutor:executor.PreExecute",
                              "effects/bulkheadexecutor:executor.PostExecute", "effects/ratelimiterexecutor:executor.Apply", "effects/timeoutexecutor:executor.Apply",
                              "effects/hedgeexecutor:executor.Apply", "effects/fallbackexecutor:executor.Apply", "effects/cacheexecutor:executor.PreExecute"],
    "required_theorems": ["Failsafe.Props.C01.den_compositional", "Failsafe.Props.C01.execute_denotation", "Failsafe.Props.C01.applyDen_any_flags", "Failsafe.Props.C01.execute_is_nesting", "Failsafe.Props.C01.layer_done", "Failsafe.Props.C01.caller_gets_outermost",
                          "Failsafe.Props.C01.rejecting_layer_ignores_inner", "Failsafe.Props.C01.applyPolicy_done",
                          "Failsafe.Props.C01.applyPolicy_congr", "Failsafe.Props.C01.stack_congr", "Failsafe.Props.C01.flags_are_plumbing"],
    "diff": [COMPOSE_DIFF], "rule": COMPOSE_RULE, "assumptions": COMPOSE_ASSUME, "modelled": COMPOSE_MODELLED,
    "manifest": {
        "text": "Lean 4 theorems over the sequential composition model of all eight policies: the composition loop is the nesting P1(P2(...Pn(fn))) for every policy list with repetition (execute_is_nesting); every layer boundary of every stack returns a finished result (layer_done, induction over the list; retry and hedge by induction on their loops); the caller receives exactly the outermost layer's result and the completion listeners report its SuccessAll (caller_gets_outermost); a rejecting breaker / bulkhead / rate limiter returns its own result whatever is inside it (the function is invoked only when every enclosing policy admits); every policy layer, and hence every stack, depends on what is inside it only through (value, error, verdict, run state) - the Done / Success flags are plumbing (applyPolicy_congr, stack_congr: congruence by cases and by induction on the retry and hedge loops). Per-policy behaviour over an arbitrary inner layer is in C02/C10/C11/C16/C17. Tie: FACTS (composition loop, effect order of every executor), GEN (flag algebra, IsFailure), DIFF of random stacks of the real policies against the model (result, error tree, verdict, invocations, statistics, full event log, world).",
        "note": "Trusted: Lean kernel; translator/fact extractor; harness. Timeout and hedge are covered for deterministic timed scripts (instant or block-until-cancelled outcomes); their racing schedules are C07/C09. That the Done / Success flags never influence behaviour is proved (stack_congr), and the semantics is shown to factor through the flag-free domain of observable meanings (den_compositional / execute_denotation: every policy has a meaning function on (value, error, verdict, run), independent of the flag values chosen for a representative); the meaning functions are derived from the model, not written separately.",
        "technique": "Lean 4 proof (induction over policy lists, per-layer lemmas over arbitrary inner layers) + structural facts + differential correspondence"},
}
PROPS["C02"] = {
    "props": "Failsafe.Props.C02", "ties": ["Failsafe.Tie.Classify"],
    "kernels": ["is_failure", "is_abortable", "with_done", "with_failure"],
    "facts": COMPOSE_FACTS + ["bodies/retryexecutor:executor.OnFailure", "bodies/retryexecutor:executor.Apply", "bodies/retry:retryPolicy.ToExecutor",
                              "bodies/retry:config.Build", "effects/retry:config.allowsRetries"],
    "required_theorems": ["Failsafe.Props.C02.retry_budget", "Failsafe.Props.C02.retry_invocations_bounded", "Failsafe.Props.C02.retry_only_policy_invocations", "Failsafe.Props.C02.budget_fresh", "Failsafe.Props.C02.retry_stops_on_success",
                          "Failsafe.Props.C02.retry_final_result", "Failsafe.Props.C02.retry_abort_stops", "Failsafe.Props.C02.retry_exhausted_passthrough",
                          "Failsafe.Props.C02.retryOnFailure_failed", "Failsafe.Props.C02.retryOnFailure_exceeded", "Failsafe.Props.C02.retryOnFailure_not_done",
                          "Failsafe.Props.C02.retry_stops_after_max_duration"],
    "diff": [COMPOSE_DIFF, {"slice": "classify", "n_quick": 150, "n_thorough": 1500, "seeds_thorough": 3, "n_search": 1500}],
    "rule": COMPOSE_RULE + "; classify slice (see C12): what a retry policy treats as a failure / an abort, over random condition lists and error trees", "assumptions": COMPOSE_ASSUME, "runners": [runner_retrytiming_maxduration,
                stress_runner("shared", "an execution through a retry policy shared by concurrent and successive executions did not get exactly its own budget of invocations")],
    "modelled": COMPOSE_MODELLED + ["max duration: in the model `ElapsedTime() > maxDuration` holds exactly when a 'sleeping' outcome (75 ms against a 45 ms max duration) has occurred in the execution; scripts with sleeping outcomes contain no blocking ones and no hedge; the delay clamp is C13",
                                    "concurrent executions sharing one policy: the executor state is per execution by construction (ToExecutor body fact); schedules are sampled by the C14 stress run"],
    "manifest": {
        "text": "Lean 4 theorems about the retry layer for an arbitrary inner layer: with maxRetries = m >= 0 the executor counts at most m+1 failures per execution and is exhausted once the count passes m (inductive invariant Budget over the loop, any fuel), so it re-invokes what it wraps at most m times; around an inner layer that invokes the function at most once per call the function is invoked at most m+1 times (retry_invocations_bounded; for the stack consisting of the retry policy alone, every script and every scripted cancellation: retry_only_policy_invocations); a non-failure ends the loop at once unchanged; an abort match ends it; a failure handled once the max duration has elapsed ends the loop whatever the budget (retry_stops_after_max_duration); the final result is ExceededError{last result, last error} when exhausted (the last outcome itself with ReturnLastFailure), else the stopping outcome unchanged; an exhausted executor passes inner results through; every execution starts from an empty executor state. Tie: FACTS (bodies of OnFailure, Apply, ToExecutor, Build), GEN (IsFailure, IsAbortable, flag algebra), DIFF of random stacks incl. nested retries, maxRetries in {0,1,2,3,-1}, overlapping handle/abort conditions.",
        "note": "Trusted: Lean kernel; translator/fact extractor; harness. Max duration enters the model through scripted outcomes that outlast it (real time in the DIFF with wide margins). Concurrency clause rests on the per-execution executor (FACTS) and the C14 stress run.",
        "technique": "Lean 4 proof (inductive invariant over the retry loop, arbitrary inner layer) + structural facts + differential correspondence"},
}
PROPS["C16"] = {
    "props": "Failsafe.Props.C16", "ties": [],
    "kernels": [],
    "facts": COMPOSE_FACTS + ["effects/retryexecutor:executor.OnFailure", "effects/retryexecutor:executor.Apply", "effects/circuitbreaker:circuitBreaker.transitionTo",
                              "effects/bulkheadexecutor:executor.PreExecute", "effects/ratelimiterexecutor:executor.Apply", "effects/timeoutexecutor:executor.Apply",
                              "effects/fallbackexecutor:executor.Apply", "effects/hedgeexecutor:executor.Apply", "effects/cacheexecutor:executor.PreExecute",
                              "effects/cacheexecutor:executor.PostExecute"],
    "runners": [stress_runner("breaker", "under concurrent executions the breaker's state-change events, in the order the listener was told about them, did not form a connected path (or did not end in the breaker's state)"),
                stress_runner("shared", "executions sharing one retry policy did not each produce their own listener calls (3 failures, 2 scheduled and started retries, 1 exceeded, 1 failed completion per execution)")],
    "required_theorems": ["Failsafe.Props.C16.one_done_one_verdict", "Failsafe.Props.C16.retry_onFailure_events", "Failsafe.Props.C16.retry_scheduled_eq_started",
                          "Failsafe.Props.C16.bulkhead_onFull_iff", "Failsafe.Props.C16.limiter_event_iff", "Failsafe.Props.C16.breaker_events_connected"],
    "diff": [COMPOSE_DIFF], "rule": COMPOSE_RULE, "assumptions": COMPOSE_ASSUME,
    "modelled": COMPOSE_MODELLED + ["'at most once' for OnAbort/OnRetriesExceeded is per entry of the retry layer (an outer retry re-entering an inner retry is a new occurrence)",
                                    "concurrent executions sharing listeners are sampled by the C14 stress run"],
    "manifest": {
        "text": "Lean 4 theorems over the event log of the composition model: every execution ends with exactly one verdict event matching SuccessAll of the returned result followed by exactly one OnDone; per handled failure the retry policy emits OnFailure, OnAbort iff abort-matching, OnRetriesExceeded iff exhausted and not an abort, never both; OnRetryScheduled and OnRetry counts grow together for any inner layer (induction over the loop); OnFull / OnRateLimitExceeded fire exactly on rejection; cache/fallback/timeout events per C11/C10; breaker state-change events form a connected path (C03). Tie: FACTS (guarded effect order of every executor), DIFF recording every listener the builders expose into one ordered log with sampled statistics.",
        "note": "Trusted: Lean kernel; fact extractor; harness.",
        "technique": "Lean 4 proof (event-log invariants, induction over the retry loop) + structural facts + differential correspondence"},
}

PROPS["C13"] = {
    "props": "Failsafe.Props.C13", "ties": ["Failsafe.Tie.Delay"],
    "kernels": ["adjust_max_duration", "adjust_jitter", "get_delay", "fixed_or_random", "random_delay", "random_delay_factor", "random_delay_in_range"],
    "facts": ["selects/retry.Apply", "bodies/retryexecutor:executor.Apply"],
    "required_theorems": ["Failsafe.Props.C13.delay_nonneg", "Failsafe.Props.C13.clamped_by_max_duration", "Failsafe.Props.C13.backoff_le_maxDelay",
                          "Failsafe.Props.C13.backoff_sequence", "Failsafe.Props.C13.backoff_monotone", "Failsafe.Props.C13.fixed_exact",
                          "Failsafe.Props.C13.random_in_range", "Failsafe.Props.C13.delayFn_used", "Failsafe.Props.C13.jitter_within",
                          "Failsafe.Props.C13.jitter_not_accumulated", "Failsafe.Props.C13.lastSeq_independent_of_jitter", "Failsafe.Props.C13.attempt_not_before_delay",
                          "Failsafe.Tie.Delay.tie_getDelay", "Failsafe.Tie.Delay.tie_fixedOrRandom", "Failsafe.Tie.Delay.tie_adjustForMaxDuration", "Failsafe.Tie.Delay.tie_adjustForJitter"],
    "diff": [{"slice": "retrydelay", "n_quick": 1500, "n_thorough": 20000, "seeds_thorough": 4, "n_search": 20000}],
    "runners": [runner_retrytiming_notbefore],
    "rule": "retrydelay slice through the VerifDelaySequence hook (real executor, real getDelay, no waiting): fixed / backoff (factors 1, 1.001, 1.1, 1.5, 2, 7/3, 5) / "
            "random range / delay function (returning -1, 0, values; in half of those cases answering for the first 1-3 failures only, over a fixed delay or a backoff that takes over afterwards) x none / absolute jitter / jitter factor x with and without max duration, magnitudes 1 ns ... 7 h "
            "incl. 2^24+1 ns, 1-24 consecutive failures, elapsed time stepping past the max duration; deterministic sequences must equal the model (native Float32) exactly, "
            "sequences with draws must lie in the envelope around the model's un-jittered value; non-trivial = more than one delay in the sequence",
    "assumptions": ["IEEE-754: Lean native Float32/Float = Go float32/float64 (validated by exact equality of every deterministic backoff sequence)",
                    "math/rand draws lie in [0,1)", "Go timers never fire early"],
    "modelled": ["the wait itself (timer/select) is a timed transition; real time is sampled by the retrytiming runner (lower bound only)"],
    "manifest": {
        "text": "Lean 4 theorems over the retry delay model: every delay is non-negative and never extends past the remaining max duration (exact); the backoff state is min(scale(last), maxDelay) <= maxDelay and the k-th backoff delay is the k-fold iterate (backoff_sequence); non-decreasing given the stated IEEE fact; fixed delay exact; random delay is the draw in [min,max]; the delay function's value is used when it returns one; absolute jitter shifts by at most the jitter; the backoff state never depends on the jitter draws (jitter does not accumulate), for every sequence; the next attempt is not before the delay in the timed model. Tie: GEN for getDelay, getFixedOrRandomDelay, adjustForJitter, adjustForMaxDuration and the three util.Random* kernels (Generated = Model proved each run), DIFF of the real executor's delay sequences through the hook, real-time lower-bound scenarios.",
        "note": "Trusted: Lean kernel; translator; hook (calls the real getDelay with a stub attempt); native floats = Go floats; math/rand in [0,1); timers never early. Float facts needed by monotonicity/jitter-factor envelopes are hypotheses checked differentially.",
        "technique": "Lean 4 proof (exact integer envelope theorems, sequence induction) + regenerated-kernel tie + differential correspondence via hook + timing scenarios"},
}

PROPS["C18"] = {
    "props": "Failsafe.Props.C18", "ties": ["Failsafe.Tie.Adapters", "Failsafe.Tie.Delay"],
    "kernels": ["http_retry_handle", "http_delay_func", "grpc_retry_handle", "get_delay", "adjust_jitter", "adjust_max_duration"],
    "facts": ["httpReleaseOnBodyClose", "httpClosesPreviousResponse", "grpcRetryableCodes", "httpRetryBuilderChain", "grpcRetryBuilderChain", "httpRegexes",
              "bodies/http:.doRequest", "bodies/http:.bodyReader", "bodies/http:cancelOnCloseBody.Close", "bodies/http:roundTripper.RoundTrip", "bodies/http:Request.Do",
              "bodies/util:.MergeContexts", "bodies/client:.NewUnaryClientInterceptorWithExecutor", "bodies/server:.NewUnaryServerInterceptorWithExecutor"],
    "required_theorems": [
        "Failsafe.Props.C18.retryable_status_iff", "Failsafe.Props.C18.retryable_status_5xx", "Failsafe.Props.C18.retryable_error_iff",
        "Failsafe.Props.C18.generated_retryable_status_iff", "Failsafe.Props.C18.delayFn_spec", "Failsafe.Props.C18.retry_after_respected",
        "Failsafe.Props.C18.retryLoop_spec", "Failsafe.Props.C18.attempts_le", "Failsafe.Props.C18.next_attempt_iff", "Failsafe.Props.C18.returned_is_last_attempt",
        "Failsafe.Props.C18.body_replayed_in_full", "Failsafe.Props.C18.buffered_attempts_independent", "Failsafe.Props.C18.seekable_shared_witness",
        "Failsafe.Props.C18.attempt_ctx_carries_caller_values", "Failsafe.Props.C18.attempt_ctx_carries_caller_deadline",
        "Failsafe.Props.C18.attempt_ctx_done_when_caller_done", "Failsafe.Props.C18.attempt_ctx_done_when_exec_done", "Failsafe.Props.C18.attempt_ctx_done_only_if",
        "Failsafe.Props.C18.grpc_retryable_iff", "Failsafe.Props.C18.generated_grpc_retryable_iff", "Failsafe.Props.C18.grpc_next_attempt_iff", "Failsafe.Props.C18.grpc_returned_is_last",
        "Failsafe.Props.C18.returned_body_readable", "Failsafe.Props.C18.body_unreadable_witness", "Failsafe.Props.C18.http_release_shape",
        "Failsafe.Tie.Adapters.tie_retryHandle", "Failsafe.Tie.Adapters.tie_delayFn", "Failsafe.Tie.Adapters.tie_grpcHandle", "Failsafe.Tie.Adapters.grpc_table",
        "Failsafe.Tie.Delay.tie_getDelay", "Failsafe.Tie.Delay.tie_adjustForMaxDuration", "Failsafe.Tie.Delay.tie_adjustForJitter",
    ],
    "diff": [{"slice": "adapters", "n_quick": 160, "n_thorough": 1600, "seeds_thorough": 3, "n_search": 800, "par": 8}],
    "rule": "adapters slice: (i) exhaustive tables without network: the HTTP retry policy on fabricated responses with every status 100..599 (+0, 600, 999, -1) and on fabricated errors "
            "with every constructible combination of the six inspected features; failsafehttp.DelayFunc on 8 statuses x 22 Retry-After texts (signs, spaces, floats, "
            "underscores, hex, empty, overflow, HTTP-date); the gRPC retry policy on codes 0..17, a plain error and nil; MergeContexts observed through the gRPC client "
            "interceptor on 6 x 7 context kinds x which source fires; (ii) per case one random end-to-end HTTP scenario against a loopback server (entry point RoundTripper / "
            "Request.Do; body none / NoBody / bytes.Buffer / bytes.Reader / strings.Reader / seekable stream / seekable stream handed over at offset 10 / plain stream, sizes "
            "0..70000 (1 MiB thorough), non-periodic payload; request context background / TODO / values / cancellable / deadline; executor context likewise; stack = optional "
            "fallback, HTTP retry policy with 0-3 retries with or without ReturnLastFailure, in a quarter of the cases with an exponential backoff (2 ms .. 20 ms) or a random delay (1-3 ms) added, and transparent inner timeout / hedge / breaker; server script of 1-5 attempts "
            "from 13 statuses, Retry-After 0 / 1 / abc / -1, empty / small / 200 kB / streamed bodies, dropped connections), one timed scenario (timeout firing on slow "
            "attempts; a hedge overlapping two attempts; caller cancelling mid-attempt) and one gRPC scenario (client or server interceptor, fake invoker / handler, script of "
            "status codes, stacks with retry / timeout / hedge / breaker). Observed: requests as received by the server (method, URL, headers, body bytes, arrival times), "
            "final status / error class, the returned body read to the end after the call returned, the context seen by the inner RoundTripper / invoker / handler (values, "
            "deadline, metadata), argument / reply / error identity for gRPC. non-trivial = more than one attempt, or a classification that retries",
    "assumptions": ["net/http and grpc-go are modelled, not verified (a response is readable while its request context is alive; the transport sends Body as given)",
                    "Retry-After magnitudes stay below 2^63 ns", "Go timers never fire early"],
    "modelled": ["each attempt's request is the caller's request with a new context and body (doRequest body fact); method / URL / header fidelity is observed by DIFF, not a theorem",
                 "gRPC argument / reply / error pass-through is observed by DIFF (interceptor body facts), not a theorem",
                 "hedged attempts with a seekable stream body share the reader: open known finding D9 (witness replayed on every run)"],
    "manifest": {
        "text": "Lean 4 theorems over the adapter models: a response is retried iff its status is 429 or >= 500 and not 501, an error iff it is not one of the documented terminal errors (proved about the predicate regenerated from failsafehttp/policy.go); DelayFunc yields Retry-After seconds exactly for 429/503 with an integer header and the scheduled retry delay is then at least that long; the retry loop over any server script makes attempt j+1 iff all earlier attempts were retryable and not aborted and the budget allows, never more than maxRetries+1, and returns the last attempt's result (ExceededError only when the budget is used up); every body kind, content, hand-over offset and number of sequential attempts replays exactly the bytes a plain request would have sent; buffered bodies are independent under any interleaving of concurrent attempts (seekable streams are not: witness, known finding D9); the response of the last attempt is open and readable after any sequence of attempts (its per-attempt context is released only when its body is closed: shape from FACTS; witness for the release-on-return shape); the merged context carries the caller's values and deadline and is done iff the caller's, the execution's or its own release fires; the gRPC policy retries exactly Unavailable / DeadlineExceeded / ResourceExhausted (table extracted from the source). Tie: GEN for the three predicates (Generated = Model proved each run), FACTS (builder chains, regexes, code table, bodies of doRequest / bodyReader / MergeContexts / interceptors), DIFF end to end against a loopback server and fake invoker / handler.",
        "note": "Trusted: Lean kernel; translator + schema; fact extractor; harness and its loopback server. Partial: net/http, grpc-go and context propagation are modelled; request fidelity (method, URL, headers) and gRPC pass-through are validated by DIFF and body facts rather than proved; hedge + seekable body is an open known finding.",
        "technique": "Lean 4 proof (truth tables of the regenerated predicates, induction over the retry loop and over attempts, invariants over interleavings of reads, context algebra) + regenerated-kernel tie + structural facts + differential correspondence end to end"},
}

PROPS["C14"] = {
    "props": "Failsafe.Props.C14", "ties": [], "kernels": [], "race": True,
    "facts": ["accessTable", "unguardedAccesses", "callsUnderLock", "liveExecutionToUserCode", "unlockedGetterCallSites", "executeLoop", "spawnSites",
              "locks/circuitBreaker.TryAcquirePermit", "locks/circuitBreaker.RecordSuccess", "locks/circuitBreaker.RecordFailure", "locks/circuitBreaker.RecordResult",
              "locks/circuitBreaker.RecordError", "locks/circuitBreaker.Open", "locks/circuitBreaker.HalfOpen", "locks/circuitBreaker.Close", "locks/circuitBreaker.State",
              "locks/circuitBreaker.RemainingDelay", "locks/circuitBreaker.Executions", "locks/circuitBreaker.Failures", "locks/circuitBreaker.FailureRate",
              "locks/circuitBreaker.Successes", "locks/circuitBreaker.SuccessRate", "locks/smoothStats.acquirePermits", "locks/burstyStats.acquirePermits",
              "locks/execution.Cancel", "locks/execution.InitializeRetry", "locks/execution.RecordResult", "locks/execution.IsCanceledWithResult",
              "bodies/execution:execution.copy", "bodies/execution:execution.Cancel", "bodies/executor:executor.execute", "bodies/circuitbreakerexecutor:executor.OnFailure",
              "bodies/circuitbreakerexecutor:executor.OnSuccess", "bodies/retry:retryPolicy.ToExecutor", "bodies/timeoutexecutor:executor.Apply", "bodies/hedgeexecutor:executor.Apply",
              "bodies/result:executionResult.record", "bodies/policyexecutor:BaseExecutor.Apply", "bodies/execution:execution.InitializeRetry",
              "bodies/execution:execution.RecordResult"],
    "required_theorems": ["Failsafe.Props.C14.lock_discipline_orders_accesses", "Failsafe.Props.C14.no_unordered_pair", "Failsafe.Props.C14.unguarded_accesses_are_the_justified_ones",
                          "Failsafe.Props.C14.getter_call_sites", "Failsafe.Props.C14.live_execution_never_escapes", "Failsafe.Props.C14.calls_under_lock_are_the_listeners",
                          "Failsafe.Props.C14.no_deadlock", "Failsafe.Props.C14.linearizability_verdict_exact"],
    "diff": [{"slice": "linz", "recorded": True, "n_quick": 60, "n_thorough": 600, "seeds_thorough": 3, "n_search": 300, "par": 4}],
    "rule": "linz slice: concurrent histories of ONE shared breaker (count / ratio thresholds, success thresholds, delays) or rate limiter (smooth, bursty) behind the virtual "
            "clock: 12 (quick) or 40 (thorough) rounds of 2-4 goroutines x 1-2 standalone operations (TryAcquirePermit, RecordSuccess, RecordFailure, Open, Close, HalfOpen; "
            "ReservePermits, TryReservePermits, TryAcquirePermits) with call / return stamps from one atomic counter, a sequential status probe and a clock advance between rounds; "
            "the Lean driver searches a real-time-respecting order of every round in which the sequential model (the definitions of C03 / C05) returns every observed result, carrying "
            "the set of reachable model states from round to round (linearizability against the proved model); non-trivial = a round with more than two operations. "
            "STRESS shared under the race detector: 12 workers x 60 (x scale) executions (two thirds sync, one third async, a quarter of those cancelled) through ONE set of nine "
            "executors sharing ONE breaker, bulkhead, bursty and smooth limiter, retry policy (with a DelayFunc and listeners that read the attempt they are handed), timeout, hedge "
            "and fallback instance, with function durations 0-0.5 ms around the 0.4 ms timeout and 0.1 ms hedge delay, while another goroutine calls the standalone API "
            "(Record*, Metrics, RemainingDelay, State, Open / HalfOpen / Close, TryAcquirePermit, AcquirePermit with a deadline, ReleasePermit, TryAcquirePermits, ReservePermit, "
            "TryReservePermit); every race report must match an open known finding's signature (both access stacks and the goroutine creation site); watchdog for deadlock, "
            "recover for panics. Thorough tier additionally runs the per-property concurrent scenarios (timeout, bulkhead, breaker, hedge, cancel, future) under the race detector",
    "runners": [stress_runner("shared", "executions and standalone calls sharing policy instances deadlocked, panicked, or left a shared bulkhead / half-open breaker short of permits", race=False),
                stress_runner("cancel", "under load a cancelled execution reported an error other than its cause (C08 per execution)", race=False),
                stress_runner("future", "under load an ExecutionResult violated the future protocol (C15 per execution)", race=False),
                stress_runner("shared", "data race between goroutines using shared policy instances or one execution's state", race=True, scale_quick=2, scale_thorough=8)],
    "assumptions": ["the Go scheduler's interleavings are sampled; the race detector's verdict is happens-before based but only for the accesses a run performs",
                    "a breaker state-change listener does not call back into the breaker that invoked it (it runs under the breaker's mutex)",
                    "user functions cooperate with cancellation and do not panic"],
    "modelled": ["the Go memory model is modelled by traces of acquire / release / access events; atomics and channels count as synchronisation by their type",
                 "aliasing is approximated syntactically: accesses are `receiver.field` selectors in methods of the struct; state reached through other paths is covered by the race-detector run only",
                 "hedge attempts share the inner retry policy's executor: open known finding D4"],
    "manifest": {
        "text": "Lean 4 theorems: in every trace of any number of threads that respects mutex semantics and the lock discipline (every access to a variable is made while owning its mutex), two accesses to one variable by different threads are separated by a release by the first and a later acquisition by the second thread of that mutex - the happens-before chain of the Go memory model, hence no data race on mutex-guarded state; no deadlock among mutexes that are never acquired nested. The discipline is tied to the source by FACTS regenerated on every run: the access table of the seven shared structs (every receiver.field access, read / write, guard: mutex region, externally locked method whose callers all lock, atomic / channel, immutable, none), whose unguarded rows must equal the justified list proved by decide (unlocked getters on per-copy fields that user code only receives as copies; the retry executor's per-execution fields), the call sites of those getters, the call sites that hand an execution to user code, and what runs under a mutex (only the breaker's listeners). Correspondence for the standalone API under concurrency: histories of concurrent operations on one shared breaker / rate limiter are checked by the Lean driver for linearizability against the sequential models that the C03 / C05 theorems are about. Search / validation: the shared-instances stress run with and without the race detector; race reports are matched against open known findings by both access stacks and the creation site.",
        "note": "Trusted: Lean kernel; fact extractor (syntactic aliasing); harness; race detector. Partial: schedules are sampled; 'every property holds per execution' rests on the interleaving theorems of C02/C04/C06-C09/C15 and their stress oracles; hedge over retry is an open known finding (D4).",
        "technique": "Lean 4 proof (trace induction: lock discipline implies ordered accesses; no deadlock without nesting) + access-table facts decided against a justified list + linearizability of concurrent histories against the sequential Lean models + race-detector stress"},
}

PROPS["C19"] = {
    "props": "Failsafe.Props.C19", "ties": [], "kernels": [],
    "facts": ["spawnSites", "hedgeChanCap", "mergeReleaseStopsWatcher", "httpClosesPreviousResponse", "httpReleaseOnBodyClose",
              "timerStops",
              "bodies/hedgeexecutor:executor.Apply", "bodies/timeoutexecutor:executor.Apply", "bodies/executor:executor.executeAsync", "bodies/result:executionResult.record",
              "bodies/execution:execution.Cancel", "bodies/execution:execution.copy", "locks/execution.Cancel", "locks/execution.InitializeRetry", "locks/execution.RecordResult",
              "locks/execution.IsCanceledWithResult", "bodies/result:executionResult.Cancel",
              "bodies/util:.MergeContexts", "bodies/http:.doRequest", "bodies/http:cancelOnCloseBody.Close",
              "bodies/client:.NewUnaryClientInterceptorWithExecutor", "bodies/server:.NewUnaryServerInterceptorWithExecutor"],
    "required_theorems": ["Failsafe.Props.C19.spawn_sites_are_the_modelled_ones", "Failsafe.Props.C19.attempt_goroutines_finish", "Failsafe.Props.C19.hedge_chan_cap_ok",
                          "Failsafe.Props.C19.unbuffered_channel_leaks", "Failsafe.Props.C19.watcher_ends_on_release", "Failsafe.Props.C19.merge_release_stops_watcher",
                          "Failsafe.Props.C19.timeout_timer_quiesces", "Failsafe.Props.C19.async_runner_finishes", "Failsafe.Props.C19.retried_responses_closed",
                          "Failsafe.Props.C19.nothing_left_after_close", "Failsafe.Props.C19.http_shape_ok", "Failsafe.Props.C19.hinv_step"],
    "diff": [],
    "rule": "STRESS leaks: 200 (x scale) executions over nine scenarios (incl. an async result cancelled twice, a context cancel followed by Cancel, a losing hedge attempt whose own timeout elapses while it is slow to return) and six stacks of hedge / timeout / retry / fallback / bulkhead / rate limiter with successes, failures, rejections, timeouts, "
            "context deadlines, context cancellations and async Cancel, function durations 0-1.2 ms around the timeouts; STRESS adapterleaks: 120 (x scale) HTTP calls "
            "(RoundTripper and Request.Do; retry with Retry-After 0, ReturnLastFailure, timeouts that fire, hedges incl. pairs of attempts answered at the same instant, "
            "streamed bodies; long-lived caller context with values, long-lived executor context) and 120 gRPC client / server interceptor calls (retry, hedge, firing "
            "timeout); census after quiescence and a grace period: no goroutine with a frame of this module, goroutine count not grown, every response obtained by "
            "sequential attempts closed, no connection left open at the server; plus a hedge policy around the HTTP retry policy (the hedge branch is told to retry and then wins) and "
            "response bodies whose Close reports an error under an executor bound to a context of a non-standard type",
    "runners": [stress_runner("leaks", "goroutines started on behalf of finished executions are still alive after a grace period", confirm=2),
                stress_runner("adapterleaks", "after HTTP / gRPC calls through the adapters returned (and the returned bodies were closed) goroutines of this module, unclosed retried responses or open server connections remain", confirm=2)],
    "assumptions": CONC_ASSUME if False else ["the Go scheduler's interleavings are sampled (statistical), the model's are covered completely",
                    "user functions, listeners and fallbacks return (the property's premise)", "the caller closes the body of the response it is handed (also the one inside ExceededError)"],
    "modelled": ["goroutines, channel send/receive, time.AfterFunc / context.AfterFunc registration and Stop are modelled as atomic actions",
                 "a hedge loser that obtained a response is released by the cancellation of its attempt's context (net/http closes the connection): observed by the server-side connection census, not modelled",
                 "time.NewTimer timers are not processes: FACTS check that each is stopped on every branch that leaves its select without the timer having fired"],
    "manifest": {
        "text": "Lean 4 theorems over process models of everything the library starts (the spawn-site set is a decided FACTS expectation, so a new go statement or timer is a broken obligation): a hedge attempt goroutine whose function has returned has ended or completes its single send in one step, for any number of attempts and any schedule, also when the coordinator returned on cancellation without receiving (inductive invariant: pending sends + buffered + received = CAS flag; needs channel capacity >= 1, taken from FACTS; witness that an unbuffered channel leaks in every continuation); the context merger's watcher is gone (or finishing) once an attempt has released its context, in every reachable state (kernel-decided closure; needs the release to stop the watcher: FACTS; witness for the defective shape); once a call through a Timeout has returned its timer is stopped or its callback ends within three unconditional steps (decided over all reachable states of the C07 model); the async runner ends with three unconditional stores; over the retry loop of doRequest, for every outcome sequence, the only response still open and the only per-attempt context still alive is the last attempt's, and nothing is left once the caller closes it (induction; shape inputs from FACTS; witness for the unclosed-retried-responses shape). Tie: FACTS (spawn sites, channel capacity, release shape, timer stops, bodies), STRESS goroutine / connection / response census for the core library and for the HTTP and gRPC adapters.",
        "note": "Trusted: Lean kernel; fact extractor; census harness. Partial: the Go scheduler and runtime are sampled by the census; net/http connection handling is observed (server-side connection census), not modelled.",
        "technique": "Lean 4 proof (inductive invariant with unbounded goroutines, kernel-decided closures of finite process models, induction over attempt sequences) + structural facts + goroutine/connection census"},
}

CONC_ASSUME = ["the Go scheduler's interleavings are sampled (statistical), the model's are covered completely",
               "user functions cooperate with cancellation and do not panic", "Go timers never fire early"]

PROPS["C06"] = {
    "props": "Failsafe.Props.C06", "ties": [], "kernels": [],
    "facts": ["selects/bulkhead.AcquirePermit", "selects/bulkhead.AcquirePermitWithMaxWait", "selects/bulkhead.TryAcquirePermit",
              "bodies/bulkhead:bulkhead.AcquirePermitWithMaxWait", "bodies/bulkhead:bulkhead.ReleasePermit",
              "bodies/bulkheadexecutor:executor.PreExecute", "bodies/bulkheadexecutor:executor.PostExecute", "bodies/policyexecutor:BaseExecutor.Apply"],
    "required_theorems": ["Failsafe.Props.C06.inflight_le_cap", "Failsafe.Props.C06.release_exactly_once", "Failsafe.Props.C06.refused_never_release",
                          "Failsafe.Props.C06.quiescent_all_free"],
    "diff": [COMPOSE_DIFF, {"slice": "linzbh", "recorded": True, "n_quick": 80, "n_thorough": 800, "seeds_thorough": 3, "n_search": 400, "par": 4}],
    "rule": COMPOSE_RULE + "; linzbh slice: concurrent histories of ONE shared bulkhead (1-3 permits, max wait 0 or 150 us): 12 / 40 rounds of 2-4 goroutines x 1-2 operations from "
            "TryAcquirePermit, AcquirePermitWithMaxWait (0 / 100 us), ReleasePermit and executions through the bulkhead as a policy (function running 0-150 us, succeeding or failing; "
            "admission recorded as an acquire operation from call to function entry, completion as a release from function exit to return), stamped with one atomic counter; the Lean "
            "driver checks each round for linearizability against a counting semaphore and the free permits after each round; plus STRESS bulkhead: 1-3 permits, max wait {0, 0.3 ms, 5 ms}, 4x more concurrent executions than permits, sync/async, alone and under retry/timeout/hedge/fallback, context deadlines and timeouts striking while waiting or holding, a standalone permit held; monitors: in-flight <= capacity at every instant, all permits back after quiescence",
    "runners": [stress_runner("bulkhead", "more executions in progress than the bulkhead's capacity, or permits lost/duplicated after all executions finished")],
    "assumptions": CONC_ASSUME, "modelled": ["the semaphore channel and the select statements are modelled as atomic actions per branch"],
    "manifest": {
        "text": "Lean 4 theorems over an interleaving model with any number of executions and standalone callers: held = #holding + standalone <= capacity in every reachable state of every schedule (inductive invariant lifted over action lists); every admitted execution releases exactly once; refused or cancelled-while-waiting executions have no release enabled; all permits are back at quiescence. Correspondence: recorded concurrent histories of the real bulkhead (standalone calls and executions through the policy) are linearizable against the counting-semaphore model, checked by the proved search of Conc/Linearize.lean. Tie: FACTS (select-branch tables: only semaphore-send branches return nil; PostExecute releases once and returns its argument; Apply has no exit between inner and PostExecute), DIFF of sequential stacks (free permits in the world line), STRESS monitors under real concurrency.",
        "note": "Trusted: Lean kernel; fact extractor; harness monitors. Partial: the Go scheduler is sampled; channel/select semantics are modelled.",
        "technique": "Lean 4 proof (inductive invariant, unbounded threads, all schedules) + structural facts + linearizability of recorded histories against the semaphore model + stress monitors"},
}
PROPS["C04"] = {
    "props": "Failsafe.Props.C04", "ties": ["Failsafe.Tie.Breaker"],
    "kernels": ["open_try", "halfopen_try", "halfopen_check", "closed_check", "halfopen_capacity"],
    "facts": ["locks/circuitBreaker.TryAcquirePermit", "locks/circuitBreaker.RecordSuccess", "locks/circuitBreaker.RecordFailure", "locks/circuitBreaker.RecordResult",
              "locks/circuitBreaker.RecordError", "bodies/circuitbreakerexecutor:executor.PreExecute", "bodies/circuitbreakerexecutor:executor.OnSuccess",
              "bodies/circuitbreakerexecutor:executor.OnFailure", "bodies/policyexecutor:BaseExecutor.Apply", "bodies/policyexecutor:BaseExecutor.PostExecute"],
    "required_theorems": ["Failsafe.Props.C04.open_rejects_all", "Failsafe.Props.C04.rejected_never_runs", "Failsafe.Props.C04.halfopen_inflight_le_capacity",
                          "Failsafe.Props.C04.trial_returns_permit", "Failsafe.Props.C04.stale_record_breaks_bound_witness"],
    "diff": [{"slice": "breaker", "n_quick": 150, "n_thorough": 1500, "seeds_thorough": 3, "n_search": 1500}],
    "rule": "breaker slice (sequential, see C03) + STRESS breaker: per round a breaker with random thresholds behind the virtual clock; 6-15 concurrent gated executions (sync/async, alone or under fallback/timeout) race with the failures that open it; then 12 concurrent executions under a retry while open (clock held one ns before the delay): none may be invoked, all fail with ErrOpen; three more executions are started from inside the (slow) OnOpen listener and must be rejected too; then capacity+2..5 concurrent gated trials after the delay: concurrently running trials <= capacity, all permits back if still half-open",
    "runners": [stress_runner("breaker", "an open breaker admitted an execution before its delay elapsed, or more trials ran concurrently than the trial capacity, or a trial permit was lost")],
    "assumptions": CONC_ASSUME + ["the half-open bound is claimed for schedules in which no execution admitted before the opening is still in flight (the property's caveat)"],
    "modelled": ["thresholds are abstracted to a nondeterministic verdict in the interleaving model; their exact arithmetic is C03"],
    "manifest": {
        "text": "Lean 4 theorems over an interleaving model with any number of executions: an admission step taken while the breaker is open and its delay has not elapsed leaves the execution rejected (ErrOpen, never invoked) whatever the others do; in every reachable half-open state permits available + trials in flight = capacity (inductive invariant, all schedules under the property's caveat), so at most capacity trials run concurrently; a recorded trial returns its permit whatever the result; witness showing why the caveat is needed. Tie: GEN (open/half-open admission kernels), FACTS (every breaker method locks; PreExecute/OnSuccess/OnFailure bodies), sequential DIFF, STRESS with gated concurrent executions behind the virtual clock.",
        "note": "Trusted: Lean kernel; translator/fact extractor; harness monitors; mutex semantics. Partial: scheduler sampled.",
        "technique": "Lean 4 proof (inductive invariant, unbounded threads) + regenerated-kernel tie + structural facts + stress monitors"},
}
PROPS["C07"] = {
    "props": "Failsafe.Props.C07", "ties": [], "kernels": [],
    "facts": ["effects/timeoutexecutor:executor.Apply", "bodies/timeoutexecutor:executor.Apply", "bodies/timeoutexecutor:executor.IsFailure",
              "bodies/execution:execution.Cancel", "bodies/execution:execution.CopyForCancellable", "bodies/timeout:config.Build"],
    "required_theorems": ["Failsafe.Props.C07.timeout_exclusive", "Failsafe.Props.C07.timeout_safe", "Failsafe.Props.C07.timeout_not_early",
                          "Failsafe.Props.C07.blocked_fn_times_out", "Failsafe.Props.C07.reach_closed_false", "Failsafe.Props.C07.reach_closed_true",
                          "Failsafe.Props.C07.timeout_scope_local", "Failsafe.Props.C07.timeout_outcome_cases", "Failsafe.Props.C07.later_cancellation_reports_its_cause"],
    "diff": [COMPOSE_DIFF],
    "rule": COMPOSE_RULE + "; plus STRESS timeout: 2 ms limit, function durations far below / within +-200 us of the limit / far above / blocking until cancelled, alone, under a fallback, with bulkhead+limiter inside, async; listener counted again after a grace period; retry around the timeout with k blocking attempts (fresh limit per attempt)",
    "runners": [stress_runner("timeout", "an execution through a Timeout ended with the inner result AND a listener call/cancellation, or with ErrExceeded without exactly one listener call and cancellation, or ErrExceeded before the limit elapsed")],
    "assumptions": CONC_ASSUME, "modelled": ["atomic.Pointer CompareAndSwap, timer.Stop and the timer goroutine are modelled as atomic actions"],
    "manifest": {
        "text": "Lean 4 theorems over a finite interleaving model of one Timeout application (result cell, main path, timer callback, clock), checked for every interleaving inside the kernel (breadth-first closure + decide): when the call has returned and the timer side is quiet exactly one of the two outcomes holds (inner result, no listener, not cancelled | ErrExceeded, exactly one listener call, cancelled); at every instant at most one listener call and only with the timeout result; ErrExceeded never before the limit elapsed; a function that only returns on cancellation always ends in ErrExceeded. And over the composition model, for an arbitrary inner layer (every placement): the Timeout's cancel scope is local to one application (so the limit applies afresh to each attempt of an enclosing retry policy), the application returns the timeout result exactly when its own scope was cancelled and the inner value/error otherwise, and a cancellation from outside pending after a Timeout application is reported with its own cause, never with an earlier attempt's ErrExceeded. Tie: FACTS (listener and Cancel under the callback's successful CAS; main path CAS/Stop/PostExecute(Load)), sequential DIFF of stacks with timeouts, STRESS around the racing instant.",
        "note": "Trusted: Lean kernel; fact extractor; monitors; Go timers never early. Partial: scheduler sampled.",
        "technique": "Lean 4 proof (finite interleaving model closed and decided in the kernel) + structural facts + stress monitors"},
}
PROPS["C08"] = {
    "props": "Failsafe.Props.C08", "ties": [], "kernels": [],
    "facts": ["rootHasCancelFunc", "bulkheadWaitReportsCancelResult", "limiterWaitReportsCancelResult", "bodies/bulkheadexecutor:executor.PreExecute", "locks/execution.Cancel", "locks/execution.InitializeRetry", "locks/execution.RecordResult", "locks/execution.IsCanceledWithResult",
              "bodies/execution:execution.Cancel", "bodies/execution:execution.InitializeRetry", "bodies/execution:execution.RecordResult",
              "bodies/execution:execution.isCanceledWithResult", "bodies/result:executionResult.Cancel", "bodies/executor:executor.executeAsync",
              "selects/retry.Apply", "selects/ratelimiter.acquirePermitsWithMaxWait", "selects/bulkhead.AcquirePermitWithMaxWait",
              "bodies/retryexecutor:executor.Apply", "bodies/fallbackexecutor:executor.Apply", "bodies/hedgeexecutor:executor.Apply"],
    "required_theorems": ["Failsafe.Props.C08.cancel_result_is_cause", "Failsafe.Props.C08.waits_wake_on_cancel",
                          "Failsafe.Props.C08.closed_ctx", "Failsafe.Props.C08.closed_timeout", "Failsafe.Props.C08.closed_async",
                          "Failsafe.Props.C08.cancelRes_is_cause", "Failsafe.Props.C08.retry_stops_when_cancelled",
                          "Failsafe.Props.C08.retry_cancelled_during_delay", "Failsafe.Props.C08.trigger_ext",
                          "Failsafe.Props.C08.bulkhead_wait_reports_cause", "Failsafe.Props.C08.limiter_wait_reports_cause",
                          "Failsafe.Props.C08.wait_other_ends", "Failsafe.Props.C08.wait_misattribution_witness_previous_shape"],
    "diff": [COMPOSE_DIFF],
    "rule": COMPOSE_RULE + "; a quarter of the runs without blocking outcomes carry a scripted cancellation point: the harness cancels the execution (through its context, or through ExecutionResult.Cancel for async runs) from inside the k-th function invocation, from inside the k-th OnRetryScheduled listener, or before it starts, and the model predicts result, error, events, statistics and world exactly. STRESS cancel: 13 stacks (retry; fallback>retry; retry>breaker; retry>hedge; fallback>retry>hedge; retry>rate limiter waiting; retry>full bulkhead waiting; waiting rate limiter>retry; full bulkhead>retry; hedge; hedge>retry; full bulkhead>hedge; fallback>hedge - the stacks without a retry policy with attempts that only return once cancelled) x 4 sources (context cancel, context deadline, async Cancel, enclosing Timeout) x cancellation instant drawn over 0-1.5 ms (before the first attempt, inside the function, between attempts, during a policy's wait); monitors: error identifies the cause, enclosed fallback never applied, completes within 400 ms (the waits it must not sit out are 1 s long), at most one attempt starts after the cancellation",
    "runners": [stress_runner("cancel", "a cancelled execution reported an error other than its cause, or applied a fallback enclosed by the cancellation, or kept running attempts / waiting after the cancellation")],
    "assumptions": CONC_ASSUME + COMPOSE_ASSUME + ["exactly one cancellation source is active per scenario (the property's quantifier)"],
    "modelled": ["context propagation to child contexts, the mutex and channel close are modelled", "hedge/bulkhead/limiter waits are covered by FACTS (every wait has a cancellation branch) and the stress run",
                 "in the sequential model a pre-cancelled context is not combined with bulkhead / rate limiter / hedge (their selects race an already-cancelled context)"],
    "manifest": {
        "text": "Lean 4 theorems over the sequential composition model with external cancellation (Run.ext: cause; scripted cancellation points), each for an arbitrary inner layer: the result a cancelled execution reports carries its cause (or timeout.ErrExceeded when its Timeout fired first), is final and never a success; when what the retry policy wraps returns and the execution is cancelled the policy returns that result at once, whatever budget is left (no further attempt); a retry scheduled when the execution is cancelled during its delay is never started and the delay is not waited out; a cancelled fallback produces no output (C10); a wait of a bulkhead or rate limiter that ends because the execution was cancelled reports the execution's cancel result, not the wait's bare context error (shape inputs extracted from the two executors on every run; the previous, defective shape of the bulkhead executor - D12 - is kept as a witness theorem). And Lean 4 theorems over a finite interleaving model of one cancellation source (context, Timeout, async Cancel) racing the retry loop with the shared cancel-result cell, decided in the kernel for every interleaving, with the source fact rootHasCancelFunc (extracted from executeAsync) as a model input: whenever the loop returns because of the cancellation the error identifies the cause, and no attempt starts once the context is done; a delay wait is left at once when the context is done; the previous (defective) shape is kept as a witness theorem. Fallback-under-cancel is C10. Tie: FACTS (lock regions, bodies of Cancel/InitializeRetry/RecordResult/isCanceledWithResult, every wait has a cancellation branch), DIFF of random stacks with deterministic cancellation points against the model, STRESS over stacks x sources x instants.",
        "note": "Trusted: Lean kernel; fact extractor; monitors; context semantics. Partial: scheduler sampled.",
        "technique": "Lean 4 proof (per-layer theorems over the composition model with external cancellation; finite interleaving model with a source fact as input, decided in the kernel) + structural facts + differential correspondence with scripted cancellation points + stress monitors"},
}
PROPS["C09"] = {
    "props": "Failsafe.Props.C09", "ties": [], "kernels": [],
    "facts": ["hedgeChanCap", "effects/hedgeexecutor:executor.Apply", "bodies/hedgeexecutor:executor.Apply", "selects/hedge.Apply", "bodies/hedge:config.Build",
              "bodies/execution:execution.CopyForHedge", "bodies/execution:execution.CopyForCancellable"],
    "required_theorems": ["Failsafe.Props.C09.attempts_le", "Failsafe.Props.C09.hedge_k_not_before", "Failsafe.Props.C09.none_after_accept",
                          "Failsafe.Props.C09.at_most_one_send", "Failsafe.Props.C09.winner_produced_by_attempt", "Failsafe.Props.C09.cancellable_sent_at_once",
                          "Failsafe.Props.C09.losers_cancelled_winner_not"],
    "diff": [COMPOSE_DIFF, {"slice": "classify", "n_quick": 150, "n_thorough": 1500, "seeds_thorough": 3, "n_search": 1500}],
    "rule": COMPOSE_RULE + "; plus STRESS hedge: maxHedges 0-3, delays 0.3-0.8 ms, default and CancelIf conditions, per-attempt durations 0-1.5 ms or blocking (termination rule: a blocking attempt only if some finite attempt yields a cancellable result), every completion order the scheduler produces; monitors: attempts <= maxHedges+1, hedge k not before the first k delays (a third of the runs with a delay function whose delays grow with every hedge), none after return, result produced by a finished attempt, non-cancellable only after all finished, losers cancelled and winner not at return",
    "runners": [stress_runner("hedge", "a hedged execution started too many or too early attempts, returned a result no attempt produced, delivered a non-cancellable result early, or left a loser uncancelled / cancelled the winner")],
    "assumptions": CONC_ASSUME + ["'accepted' = received by the coordinating loop"], "modelled": ["goroutines, atomics and the result channel are modelled as atomic actions"],
    "manifest": {
        "text": "Lean 4 theorems over an interleaving model of the hedge coordinator and any number n = maxHedges+1 of attempts, for every schedule and every outcome assignment (inductive invariant with 12 clauses lifted over action lists): at most n attempts are started; attempts started <= delay timers fired + 1; nothing starts after acceptance; at most one result is ever sent; the accepted result was produced by a finished attempt, a non-cancellable one only once all n attempts finished; a cancellable result is sent in the very step its attempt finishes; on return all other started attempts are cancelled and the winner is not. Tie: FACTS (Apply body/effects/select table, channel capacity, default cancel condition), sequential DIFF with an innermost hedge, STRESS with per-attempt durations.",
        "note": "Trusted: Lean kernel; fact extractor; monitors. Partial: scheduler sampled; timers never early.",
        "technique": "Lean 4 proof (inductive invariant, unbounded attempts, all schedules) + structural facts + stress monitors"},
}
PROPS["C15"] = {
    "props": "Failsafe.Props.C15", "ties": [], "kernels": [],
    "facts": ["rootHasCancelFunc", "effects/result:executionResult.record", "bodies/result:executionResult.record", "bodies/result:executionResult.Get",
              "bodies/result:executionResult.Cancel", "bodies/executor:executor.executeAsync", "effects/executor:executor.executeSync", "effects/executor:executor.execute"],
    "required_theorems": ["Failsafe.Props.C15.future_protocol", "Failsafe.Props.C15.closed_once", "Failsafe.Props.C15.isDone_imp_result",
                          "Failsafe.Props.C15.closed_imp_isDone", "Failsafe.Props.C15.get_stable", "Failsafe.Props.C15.reach_closed"],
    "diff": [COMPOSE_DIFF],
    "rule": COMPOSE_RULE + " (a quarter of the runs go through GetWithExecutionAsync: async = sync); plus STRESS future: all four async entry points, 1-16 concurrent readers (half wait on Done, half poll IsDone), Cancel at a drawn instant; monitors: IsDone/Done only after the completion listener finished, all readers agree, Result()/Error() = Get(), ErrExecutionCanceled or the completed result after Cancel, same result as the synchronous execution",
    "runners": [stress_runner("future", "an ExecutionResult violated the future protocol (Done/IsDone before the result or the listeners, readers disagreeing, wrong result after Cancel, or a result different from the synchronous execution)")],
    "assumptions": CONC_ASSUME, "modelled": ["atomic stores and channel close are modelled as atomic actions; readers are read-only observers"],
    "manifest": {
        "text": "Lean 4 theorems over a finite model of the producer (listeners, store result, store done flag, close channel) interleaved with Cancel calls, decided in the kernel for every interleaving: Done is closed at most once; closed implies IsDone; IsDone implies the result is available and the completion listeners have run; the result cell is written exactly once, so every reader at every later instant gets the same values. Cancel attribution is C08 (same source fact). Async = sync: both entry points run the same execute (FACTS) and every compose DIFF case is run through either entry point at random against the same model. Tie: FACTS (record order, one record per async execution), DIFF, STRESS with concurrent readers.",
        "note": "Trusted: Lean kernel; fact extractor; monitors; sync/atomic and channel-close semantics. Partial: scheduler sampled.",
        "technique": "Lean 4 proof (finite interleaving model decided in the kernel) + structural facts + differential correspondence + stress monitors"},
}


# ---- regenerated *bodies* of execution.go's protected methods and of the executors' decision code (Generated/X*.lean): each is proved equal
# to its reference definition (Tie/X*.lean) and the composition model is proved to compute those reference definitions
# (Lemmas/ExecBodiesLink.lean). A property lists the areas its theorems rest on.
_LINK = "Failsafe.Lemmas.ExecBodiesLink"
_X = {
    "XExecution": ["exec_is_canceled", "exec_record_result", "exec_initialize_retry", "exec_cancel", "exec_copy_for_hedge", "exec_record",
                   "exec_last_error", "exec_copy_with_result", "exec_is_canceled_flag", "exec_is_hedge", "exec_last_result"],
    "XRetry": ["retry_on_failure"], "XBase": ["base_post_execute"], "XCache": ["cache_get_key", "cache_pre_execute", "cache_post_execute"],
    "XFallback": ["fallback_apply"], "XBulkhead": ["bulkhead_pre_execute"], "XRetryLoop": ["retry_loop_iteration"],
    "XAdmit": ["breaker_pre_execute", "breaker_on_success", "breaker_on_failure", "limiter_apply"],
    "XBreaker": ["brk_record_success", "brk_record_failure", "brk_record_result"],
    "XDelayable": ["compute_delay"],
}
def _extend(pid, areas, link=True):
    c = PROPS[pid]
    for a in areas:
        c["ties"] = c["ties"] + ["Failsafe.Tie." + a]
        c["kernels"] = c["kernels"] + [k for k in _X[a] if k not in c["kernels"]]
    if link and _LINK not in c["ties"]:
        c["ties"] = c["ties"] + [_LINK]
    c["manifest"]["text"] += " GEN also covers the bodies of the code this property runs through (%s): regenerated from the source on every run, proved equal to reference definitions, which the composition model is proved to compute." % ", ".join(areas)
_extend("C01", ["XBase", "XAdmit"])
_extend("C02", ["XRetry", "XBase", "XRetryLoop"])
_extend("C06", ["XBulkhead"], link=False)
_extend("C08", ["XExecution", "XBulkhead", "XRetryLoop"])
_extend("C10", ["XFallback", "XBase"])
_extend("C11", ["XCache"])
_extend("C15", ["XExecution"], link=False)
_extend("C07", ["XExecution"], link=False)
_extend("C09", ["XExecution"], link=False)
_extend("C16", ["XRetry", "XCache", "XFallback", "XRetryLoop", "XAdmit"])
_extend("C04", ["XAdmit", "XBase", "XBreaker", "XDelayable"])
_extend("C03", ["XBreaker", "XDelayable"], link=False)
_extend("C13", ["XDelayable"], link=False)
_extend("C09", ["XDelayable"], link=False)
_extend("C05", ["XAdmit"], link=False)
_extend("C17", ["XExecution"])
PROPS["C02"]["required_theorems"] += ["Failsafe.Props.C02." + t for t in ["kernel_exceeded_iff", "kernel_result", "kernel_result_not_success", "kernel_listeners", "model_retry_decision_is_the_codes", "model_retry_loop_is_the_codes", "kernel_loop_early_exits", "kernel_loop_continues_only_after_init"]]
PROPS["C08"]["required_theorems"] += ["Failsafe.Props.C08." + t for t in ["cancel_first_wins", "cancel_reports_result", "ctx_end_reports_ctx_error", "initializeRetry_cancelled", "initializeRetry_clears_cell", "recordResult_cancelled", "model_cancel_answers_are_the_codes"]]
PROPS["C10"]["required_theorems"] += ["Failsafe.Props.C10." + t for t in ["kernel_fn_called_iff", "kernel_result", "kernel_event_iff", "model_fallback_layer_is_the_codes"]]
PROPS["C11"]["required_theorems"] += ["Failsafe.Props.C11." + t for t in ["kernel_key_precedence", "kernel_hit_iff", "kernel_store_iff", "kernel_no_key_no_io", "model_cache_layer_is_the_codes"]]
PROPS["C17"]["required_theorems"] += ["Failsafe.Props.C17." + t for t in ["counters_invariant", "counter_steps", "executions_only_in_record", "model_last_outcome_views_are_the_codes"]]

# what "a failure the policy handles" means is decided by the classification code (policy/policy.go, internal/util): every property whose
# statement speaks of handled failures also runs the classify correspondence (round 9: a pointer target of HandleErrorTypes for an error
# type with value receivers was only exercised there)
_CLASSIFY_DIFF = {"slice": "classify", "n_quick": 150, "n_thorough": 1500, "seeds_thorough": 3, "n_search": 1500}
for _p in ["C01", "C04", "C10", "C16"]:
    if not any(d.get("slice") == "classify" for d in PROPS[_p]["diff"]):
        PROPS[_p]["diff"] = PROPS[_p]["diff"] + [_CLASSIFY_DIFF]

# the async cancellation source of C08 goes through ExecutionResult / executeAsync: the future stress (executor reuse after a cancelled async
# execution, Cancel after completion, Cancel then Timeout) is also a C08 runner (round 9: executeAsync writing the child context back into the executor)
PROPS["C08"]["runners"] = PROPS["C08"]["runners"] + [stress_runner("future", "an execution cancelled through its ExecutionResult did not report ErrExecutionCanceled, or an execution nobody cancelled (on an executor an earlier async execution was cancelled on) reported a cancellation")]

# TRACE tie (slice `trace`): real concurrent runs, instrumented only where user code can look, are replayed through the interleaving models with
# the exact acceptor `Failsafe.Conc.Trace.accepts` (accepts_iff: a recorded event list is rejected iff NO interleaving of the model shows it);
# the recorded list is the replay. Props/C07 and Props/C15 prove what acceptance implies (final_sample_exclusive, early_*_impossible, seen_*_imp).
_TRACE_DIFF = {"slice": "trace", "recorded": True, "n_quick": 400, "n_thorough": 3000, "seeds_thorough": 3, "n_search": 800, "par": 8}
for _p in ["C07", "C15"]:
    PROPS[_p]["diff"] = PROPS[_p]["diff"] + [dict(_TRACE_DIFF, slice={"C07": "tracetimeout", "C15": "tracefuture"}[_p])]
    PROPS[_p]["rule"] += ("; trace slice: per case 4 real Timeout applications (alone / under a fallback / async; function durations far below, within "
        "+-200 us and within +-90 us of the 2 ms limit, far above, or blocking until cancelled) and 4 real asynchronous executions (1-4 concurrent readers "
        "polling IsDone / Done and calling Get, a Cancel at a drawn instant in a third of them); every event user code sees is stamped with one atomic "
        "counter (monotone flags: true readings stamped after, false readings before the read); the event list must be shown by some interleaving of the Lean model")
    PROPS[_p]["manifest"]["text"] += " TRACE: recorded event lists of real concurrent runs are decided by an acceptor proved exact for the interleaving model (a list is rejected iff no interleaving of the model shows it); what acceptance implies is proved in the property file."
    PROPS[_p]["manifest"]["technique"] += " + trace acceptance against the interleaving model (acceptor proved sound and complete)"
PROPS["C07"]["required_theorems"] += ["Failsafe.Props.C07." + t for t in ["accepted_states_reachable", "final_sample_exclusive", "early_listener_impossible", "early_exceeded_impossible", "early_cancellation_impossible", "listener_count_is_events", "trace_listener_calls_match_outcome"]]
PROPS["C15"]["required_theorems"] += ["Failsafe.Props.C15." + t for t in ["accepted_states_reachable", "seen_isDone_imp", "seen_closed_imp", "got_imp", "listener_event_of_ran", "isDone_true_after_listener"]]

# C15's last clause names the hedge policy: the coordinating loop's cancellation check is one of the facts it rests on (round 9)
PROPS["C15"]["facts"] = PROPS["C15"]["facts"] + ["bodies/hedgeexecutor:executor.Apply", "effects/hedgeexecutor:executor.Apply", "bodies/retryexecutor:executor.Apply"]

# the adapters' end-to-end scenarios of the census (retried responses with stalled bodies, hedge around retry, caller giving up) also decide C18's
# "a retryable response is retried / the returned response is the last attempt's" under awkward server behaviour (round 9: a bounded drain of the
# retried response before closing it)
PROPS["C18"]["runners"] = PROPS["C18"].get("runners", []) + [stress_runner("adapterleaks", "an HTTP call through the adapter did not retry a retryable response (or waited for the body of the response it was about to discard), or returned something other than its last attempt's response", confirm=2)]

# the hedge coordinator's TRACE tie (Conc/TraceHedge.lean): per case 3 real hedged executions (maxHedges 0-3, no conditions / CancelIf, per-attempt
# durations around the 400 us hedge delay) are replayed through Conc.Hedge with the exact acceptor
PROPS["C09"]["diff"] = PROPS["C09"]["diff"] + [dict(_TRACE_DIFF, slice="tracehedge")]
PROPS["C09"]["rule"] += "; trace slice: real hedged executions (maxHedges 0-3, default and CancelIf conditions, attempt durations 0-2 ms around the 400 us hedge delay): OnHedge, every attempt's entry and return (with whether its value matches the cancel conditions), the returned value's attempt and every entered attempt's IsCanceled() after the return, stamped with one atomic counter, must be shown by some interleaving of the Lean model"
PROPS["C09"]["manifest"]["text"] += " TRACE: recorded event lists of real hedged executions are decided by an acceptor proved exact for the interleaving model; what acceptance implies is proved in the property file."
PROPS["C09"]["manifest"]["technique"] += " + trace acceptance against the interleaving model (acceptor proved sound and complete)"
PROPS["C09"]["required_theorems"] += ["Failsafe.Props.C09." + t for t in ["count_enqueues", "accepted_states_inv", "returned_value_was_produced", "hedge_event_needs_slot", "readings_after_return", "returned_needs_finish_event", "returned_value_after_its_finish"]]
PROPS["C04"]["required_theorems"] += ["Failsafe.Props.C04." + t for t in ["kernel_admission", "kernel_records_once", "model_breaker_layer_is_the_codes"]]
PROPS["C03"]["required_theorems"] += ["Failsafe.Props.C03.composition_clock_monotone", "Failsafe.Props.C03.layer_clock_monotone"]

# C17's "hedges started so far": the hedge trace's `settled` observation (every attempt the coordinator counted and announced was also started) is a
# C17 concern as much as a C09 one (round 10: a hedge counted by CopyForHedge / OnHedge but never launched)
PROPS["C17"]["diff"] = PROPS["C17"]["diff"] + [dict(_TRACE_DIFF, slice="tracehedge")]
PROPS["C17"]["ties"] = PROPS["C17"]["ties"] + ["Failsafe.Props.C09"]

PROPS["C17"]["required_theorems"] += ["Failsafe.Props.C17." + t for t in ["launched_step", "launched_counts_hedge_events", "settled_attempts_eq_hedge_events"]]

PROPS["C09"]["required_theorems"] += ["Failsafe.Props.C09." + t for t in ["step_core", "after_return_step", "cancOk_step", "reach_cancOk", "after_return_run", "readings_after_return_on_traces"]]

PROPS["C17"]["required_theorems"] += ["Failsafe.Props.C17." + t for t in ["core_n", "hedge_events_le_maxHedges"]]

# the breaker's small statistics / state functions the sequential breaker model transcribes (FACTS body text)
PROPS["C03"]["facts"] = PROPS["C03"].get("facts", []) + ['bodies/circuitstats:.newStats', 'bodies/circuitstats:countingStats.recordFailure', 'bodies/circuitstats:countingStats.recordSuccess', 'bodies/circuitstats:countingStats.reset', 'bodies/circuitstats:stat.remove', 'bodies/circuitstats:stat.reset', 'bodies/circuitstats:timedStats.recordFailure', 'bodies/circuitstats:timedStats.recordSuccess', 'bodies/circuitstats:timedStats.reset']
PROPS["C04"]["facts"] = PROPS["C04"].get("facts", []) + ['bodies/circuitbreaker:circuitBreaker.IsClosed', 'bodies/circuitbreaker:circuitBreaker.IsHalfOpen', 'bodies/circuitbreaker:circuitBreaker.IsOpen', 'bodies/circuitbreaker:circuitBreaker.Reset', 'bodies/circuitbreaker:circuitBreaker.close', 'bodies/circuitbreaker:circuitBreaker.halfOpen', 'bodies/circuitbreaker:circuitBreaker.open', 'bodies/circuitbreaker:circuitBreaker.tryAcquirePermit', 'bodies/circuitstates:.newOpenState', 'bodies/circuitstates:closedState.remainingDelay', 'bodies/circuitstates:closedState.tryAcquirePermit', 'bodies/circuitstates:halfOpenState.remainingDelay', 'bodies/circuitstates:openState.checkThresholdAndReleasePermit']

# glue around the modelled cores (FACTS body text): limiter public methods, future getters, ExceededError, condition registration
PROPS["C05"]["facts"] = PROPS["C05"].get("facts", []) + ['bodies/ratelimiter:rateLimiter.AcquirePermit', 'bodies/ratelimiter:rateLimiter.AcquirePermitWithMaxWait', 'bodies/ratelimiter:rateLimiter.AcquirePermits', 'bodies/ratelimiter:rateLimiter.AcquirePermitsWithMaxWait', 'bodies/ratelimiter:rateLimiter.ReservePermit', 'bodies/ratelimiter:rateLimiter.ReservePermits', 'bodies/ratelimiter:rateLimiter.Reset', 'bodies/ratelimiter:rateLimiter.TryAcquirePermit', 'bodies/ratelimiter:rateLimiter.TryAcquirePermits', 'bodies/ratelimiter:rateLimiter.TryReservePermit', 'bodies/ratelimiter:rateLimiter.TryReservePermits', 'bodies/ratelimiterstats:burstyStats.reset', 'bodies/ratelimiterstats:smoothStats.reset']
PROPS["C15"]["facts"] = PROPS["C15"].get("facts", []) + ['bodies/result:executionResult.Done', 'bodies/result:executionResult.Error', 'bodies/result:executionResult.IsDone', 'bodies/result:executionResult.Result']
PROPS["C02"]["facts"] = PROPS["C02"].get("facts", []) + ['bodies/retry:ExceededError.Error', 'bodies/retry:ExceededError.Is', 'bodies/retry:ExceededError.Unwrap']
PROPS["C12"]["facts"] = PROPS["C12"].get("facts", []) + ['bodies/policy:BaseAbortablePolicy.AbortIf', 'bodies/policy:BaseAbortablePolicy.AbortOnErrorTypes', 'bodies/policy:BaseAbortablePolicy.IsConfigured', 'bodies/policy:BaseFailurePolicy.HandleIf', 'bodies/util:.AppliesToAny', 'bodies/util:.ErrorTypesMatch', 'bodies/util:.errorAs']

# entry points, constructors and getters between the caller and the modelled executors (FACTS body text)
PROPS["C01"]["facts"] = PROPS["C01"].get("facts", []) + ['bodies/execution:.FailureResult', 'bodies/executor:.Get', 'bodies/executor:.GetAsync', 'bodies/executor:.GetWithExecution', 'bodies/executor:.GetWithExecutionAsync', 'bodies/executor:.NewExecutor', 'bodies/executor:.Run', 'bodies/executor:.RunAsync', 'bodies/executor:.RunWithExecution', 'bodies/executor:.RunWithExecutionAsync', 'bodies/executor:executor.Get', 'bodies/executor:executor.GetAsync', 'bodies/executor:executor.GetWithExecution', 'bodies/executor:executor.GetWithExecutionAsync', 'bodies/executor:executor.OnDone', 'bodies/executor:executor.OnFailure', 'bodies/executor:executor.OnSuccess', 'bodies/executor:executor.Run', 'bodies/executor:executor.RunAsync', 'bodies/executor:executor.RunWithExecution', 'bodies/executor:executor.RunWithExecutionAsync', 'bodies/executor:executor.WithContext']
PROPS["C02"]["facts"] = PROPS["C02"].get("facts", []) + ['bodies/retry:.WithDefaults']
PROPS["C03"]["facts"] = PROPS["C03"].get("facts", []) + ['bodies/circuitbreakerbuilder:.WithDefaults']
PROPS["C05"]["facts"] = PROPS["C05"].get("facts", []) + ['bodies/ratelimiter:rateLimiter.ToExecutor', 'bodies/util:.NewClock', 'bodies/util:.NewStopwatch', 'bodies/util:wallClock.CurrentUnixNano', 'bodies/util:wallClockStopwatch.ElapsedTime', 'bodies/util:wallClockStopwatch.Reset']
PROPS["C06"]["facts"] = PROPS["C06"].get("facts", []) + ['bodies/bulkhead:bulkhead.ToExecutor']
PROPS["C07"]["facts"] = PROPS["C07"].get("facts", []) + ['bodies/timeout:timeout.ToExecutor']
PROPS["C09"]["facts"] = PROPS["C09"].get("facts", []) + ['bodies/hedge:.WithDelay', 'bodies/hedge:.WithDelayFunc']
PROPS["C10"]["facts"] = PROPS["C10"].get("facts", []) + ['bodies/fallback:.WithError', 'bodies/fallback:.WithFunc', 'bodies/fallback:.WithResult']
PROPS["C11"]["facts"] = PROPS["C11"].get("facts", []) + ['bodies/cache:cachePolicy.ToExecutor']
PROPS["C16"]["facts"] = PROPS["C16"].get("facts", []) + ['bodies/events:.newExecutionDoneEvent']
PROPS["C17"]["facts"] = PROPS["C17"].get("facts", []) + ['bodies/execution:execution.AttemptStartTime', 'bodies/execution:execution.Canceled', 'bodies/execution:execution.Context', 'bodies/execution:execution.ElapsedAttemptTime', 'bodies/execution:execution.ElapsedTime', 'bodies/execution:execution.StartTime']
PROPS["C18"]["facts"] = PROPS["C18"].get("facts", []) + ['bodies/client:.NewUnaryClientInterceptor', 'bodies/http:.NewRequest', 'bodies/http:.NewRequestWithExecutor', 'bodies/http:.NewRoundTripper', 'bodies/http:.NewRoundTripperWithExecutor', 'bodies/server:.NewServerInHandle', 'bodies/server:.NewUnaryServerInterceptor']

PROPS["C15"]["required_theorems"] += ["Failsafe.Props.C15." + t for t in ["closed_after_listener", "got_after_listener"]]
