"""Per-property configuration of ./check (data only; the theorems live in lean/Failsafe/Props)."""

PROPS = {}
NOT_APPLICABLE = {}

PROPS["C05"] = {
    "props": "Failsafe.Props.C05",
    "ties": ["Failsafe.Tie.Limiter"],
    "kernels": ["bursty_acquire", "smooth_acquire", "exceeds_max_wait", "round_down"],
    "required_theorems": [
        "Failsafe.Props.C05.smooth_refines_slots", "Failsafe.Props.C05.smooth_one_per_slot", "Failsafe.Props.C05.smooth_earliest",
        "Failsafe.Props.C05.smooth_k_eq_singles", "Failsafe.Props.C05.smooth_refusal_noop",
        "Failsafe.Props.C05.bursty_le_pp_per_period", "Failsafe.Props.C05.bursty_refines_ordinals",
        "Failsafe.Props.C05.bursty_k_eq_singles", "Failsafe.Props.C05.bursty_maxwait",
        "Failsafe.Props.C05.bursty_refusal_unobservable", "Failsafe.Props.C05.blocking_acquire_not_early",
        "Failsafe.Tie.Limiter.tie_bursty", "Failsafe.Tie.Limiter.tie_smooth",
    ],
    "diff": [{"slice": "limiter", "n_quick": 400, "n_thorough": 4000, "seeds_thorough": 6, "n_search": 4000}],
    "rule": "limiter slice: random smooth/bursty configurations (1 ns … 1 h), 60 (quick) or 300 (thorough) requests per case at "
            "boundary-biased instants (exact slot/period boundaries, ±1 ns, long idle gaps after deficits), permit counts 0–50 and "
            "around the period size, max waits {-1, 0, unit±1, time-to-boundary, random}; non-trivial = the request waited or was refused",
    "assumptions": ["stopwatch instants are non-negative and non-decreasing", "no 64-bit overflow at generated magnitudes",
                    "Go timers never fire early (blocking acquire)"],
    "manifest": {
        "text": "Lean 4 theorems over the regenerated acquirePermits kernels: the smooth limiter refines a slot counter for every history (one permit per slot, earliest grant, k permits = k singles, a refusal is a no-op); the bursty limiter refines an ordinal counter, at most maxExecutions permits become usable per period for every history, k = k singles, a refusal is unobservable; a blocking acquire is never early in the timed model. Tie: GEN (Generated = Model proved on every run) + DIFF through the virtual stopwatch hook.",
        "note": "Trusted: Lean kernel; translator + schema; harness canonicalisation; stopwatch instants non-negative and non-decreasing; no int64 overflow; Go timers never early. The blocking select/timer is modelled; concurrent callers are serialised by the stats mutex.",
        "technique": "Lean 4 proof (refinement, induction over histories) + regenerated-kernel tie + differential correspondence"},
    "modelled": ["blocking AcquirePermit(s)WithMaxWait: timer/select modelled as a timed transition; concurrent callers are serialised by the stats mutex (FACTS)"],
}
