#!/usr/bin/env python3
"""Mechanical mutation sweep (calibration, complements the hand-written edits of selftest/mutations.py and the seeded changes).

  mutsweep.py gen   <n> <seed>     sample n single-line mutants of the library's non-test source -> /tmp/mut/mutants.json
  mutsweep.py filter [-j K]        keep the mutants that build and pass the pinned suite (scratch worktrees /tmp/wt/mut-<k>,
                                   removed afterwards) -> /tmp/mut/survivors.json
  mutsweep.py check                apply every survivor to /repo in turn, run the quick checks of the properties anchored in the
                                   mutated file, revert; writes /verif/selftest/MUTSWEEP.md (table) and MUTSWEEP.json

A surviving mutant that no check reports is either equivalent / outside every property, or a miss: the table is triaged by hand
(column `triage`, kept across runs in selftest/mutsweep_triage.json)."""
import json, os, random, re, subprocess, sys, time, shutil
from concurrent.futures import ThreadPoolExecutor

ENV = dict(os.environ, GOFLAGS="-mod=mod", GOPROXY="off", GOSUMDB="off", GOTOOLCHAIN="local")
OUT = "/tmp/mut"
os.makedirs(OUT, exist_ok=True)

def sh(cmd, cwd=None, timeout=1800, env=ENV):
    try:
        p = subprocess.run(cmd, shell=True, cwd=cwd, env=env, stdout=subprocess.PIPE, stderr=subprocess.STDOUT, text=True, timeout=timeout)
        return p.returncode, p.stdout
    except subprocess.TimeoutExpired:
        return 124, "timeout"

def anchors():
    """file -> property ids anchored there"""
    m = {}
    for l in open("/verif/properties.jsonl"):
        p = json.loads(l)
        for f in p["anchors"]["files"]:
            m.setdefault(f, []).append(p["id"])
    return m

OPS = [
    (r" <= ", " < "), (r" < ", " <= "), (r" >= ", " > "), (r" > ", " >= "), (r" == ", " != "), (r" != ", " == "),
    (r" && ", " || "), (r" \|\| ", " && "), (r"if !", "if "), (r" \+ 1\b", ""), (r" - 1\b", ""), (r"return true", "return false"),
    (r"return false", "return true"), (r"\.Add\(1\)", ".Add(2)"), (r"\bdefer ", ""), (r"DELETE-CALL", ""),
]
CALL = re.compile(r"^\s+[A-Za-z_][A-Za-z0-9_.\[\]\*]*\((.*)\)\s*$")

def gen(n, seed):
    rng = random.Random(seed)
    files = [f for f in anchors() if os.path.exists(os.path.join("/repo", f))]
    cands = []
    for f in sorted(files):
        lines = open(os.path.join("/repo", f)).read().split("\n")
        for i, line in enumerate(lines):
            s = line.strip()
            if not s or s.startswith("//") or "<-" in line or s.startswith("import") or s.startswith("package"):
                continue
            for pat, rep in OPS:
                if pat == "DELETE-CALL":
                    if CALL.match(line) and not s.startswith(("return", "if", "for", "go ", "defer", "switch", "case", "func", "}")):
                        cands.append((f, i, line, None, "delete statement"))
                    continue
                if re.search(pat, line):
                    new = re.sub(pat, rep, line, count=1)
                    if new != line:
                        cands.append((f, i, line, new, "%s -> %s" % (pat.replace("\\", ""), rep or "(removed)")))
    rng.shuffle(cands)
    # spread over files: at most n/len(files)*3 per file
    cap = max(3, 3 * n // max(1, len(files)))
    per, pick = {}, []
    for c in cands:
        if per.get(c[0], 0) < cap and len(pick) < n:
            pick.append(c); per[c[0]] = per.get(c[0], 0) + 1
    muts = [{"id": "%s%03d" % (os.environ.get("MUT_PREFIX", "X"), k), "file": f, "line": i + 1, "old": old, "new": new, "op": op} for k, (f, i, old, new, op) in enumerate(pick)]
    json.dump(muts, open(os.path.join(OUT, "mutants.json"), "w"), indent=1)
    print("generated", len(muts), "mutants over", len(per), "files from", len(cands), "candidates")

def apply_mut(root, m):
    p = os.path.join(root, m["file"])
    lines = open(p).read().split("\n")
    if lines[m["line"] - 1] != m["old"]:
        # the source moved (a fix commit since the mutants were generated): accept the line if it still occurs exactly once
        hits = [i for i, l in enumerate(lines) if l == m["old"]]
        assert len(hits) == 1, "source drifted"
        m = dict(m, line=hits[0] + 1)
    if m["new"] is None:
        del lines[m["line"] - 1]
    else:
        lines[m["line"] - 1] = m["new"]
    open(p, "w").write("\n".join(lines))

def filt(jobs):
    muts = json.load(open(os.path.join(OUT, "mutants.json")))
    wts = []
    for k in range(jobs):
        wt = "/tmp/wt/mut-%d" % k
        sh("git -C /repo worktree remove --force %s" % wt)
        rc, o = sh("git -C /repo worktree add -q --detach %s HEAD" % wt)
        assert rc == 0, o
        wts.append(wt)
    import queue
    q = queue.Queue()
    for wt in wts:
        q.put(wt)
    def one(m):
        wt = q.get()
        try:
            apply_mut(wt, m)
            rc, o = sh("go build ./... && go vet ./%s" % os.path.dirname(m["file"]) if os.path.dirname(m["file"]) else "go build ./... && go vet .", cwd=wt, timeout=300)
            if rc != 0:
                return dict(m, status="does-not-build")
            rc, o = sh("python3 /verif/scripts/baseline.py", cwd=wt, env=dict(ENV, BASELINE_REPO=wt), timeout=1500)
            if rc != 0:
                # a failing run under load may be a timing flake of the suite: a mutant is only "killed" if it fails twice
                rc2, o2 = sh("python3 /verif/scripts/baseline.py", cwd=wt, env=dict(ENV, BASELINE_REPO=wt), timeout=1500)
                if rc2 != 0:
                    return dict(m, status="killed-by-suite", detail=[l for l in o2.splitlines() if l.startswith("NOT PASSING")][:3])
            d = sh("git diff", cwd=wt)[1]
            return dict(m, status="survives-suite", diff=d)
        finally:
            sh("git checkout -- .", cwd=wt)
            q.put(wt)
    t0 = time.time()
    with ThreadPoolExecutor(jobs) as ex:
        res = list(ex.map(one, muts))
    for wt in wts:
        sh("git -C /repo worktree remove --force %s" % wt)
    sh("git -C /repo worktree prune")
    json.dump(res, open(os.path.join(OUT, "survivors.json"), "w"), indent=1)
    from collections import Counter
    print(Counter(r["status"] for r in res), "in %.0fs" % (time.time() - t0))

def check(shard=None):
    """shard = (k, n): every n-th survivor starting at k, in the copy VERIF_DIR against the worktree VERIF_REPO; rows go to
    /tmp/mut/rows-<k>.json and are merged by `mutsweep.py merge`"""
    VERIF = os.environ.get("VERIF_DIR", "/verif")
    REPO = os.environ.get("VERIF_REPO", "/repo")
    res = [r for r in json.load(open(os.path.join(OUT, "survivors.json"))) if r["status"] == "survives-suite"]
    if shard:
        res = [r for i, r in enumerate(res) if i % shard[1] == shard[0]]
    amap = anchors()
    tri_path = "/verif/selftest/mutsweep_triage.json"
    triage = json.load(open(tri_path)) if os.path.exists(tri_path) else {}
    rows = []
    assert sh("git -C %s status --porcelain" % REPO)[1].strip() == "", REPO + " not clean"
    for r in res:
        props = amap.get(r["file"], [])
        verdicts = {}
        apply_mut(REPO, r)
        try:
            for pid in props:
                rc, o = sh("cd %s && ./check %s --tier quick" % (VERIF, pid), timeout=3600)
                viol = [l for l in o.splitlines() if l.startswith("VIOLATION")]
                verdicts[pid] = "-" if not viol else ("no-input" if "no-failing-input-found" in viol[0] else "replay")
        finally:
            sh("git -C %s checkout -- ." % REPO)
            if VERIF == "/verif":
                sh("git -C /verif checkout -- evidence/")
        best = "replay" if "replay" in verdicts.values() else ("no-input" if "no-input" in verdicts.values() else "not reported")
        key = "%s:%s:%s" % (r["file"], r["old"].strip(), r["op"])
        rows.append(dict(id=r["id"], file=r["file"], line=r["line"], op=r["op"], old=r["old"].strip(), new=(r["new"] or "").strip(), verdicts=verdicts, best=best, triage=triage.get(key, ""), key=key))
        print(r["id"], r["file"], r["line"], r["op"], verdicts, flush=True)
        json.dump(rows, open(os.path.join(OUT, "rows-%s.json" % (shard[0] if shard else "all")), "w"), indent=1)
    if not shard:
        json.dump(rows, open("/verif/selftest/MUTSWEEP.json", "w"), indent=1)
        write_md(rows)

def write_md(rows):
    from collections import Counter
    c = Counter(r["best"] for r in rows)
    with open("/verif/selftest/MUTSWEEP.md", "w") as f:
        f.write("# Mechanical mutation sweep (suite-surviving single-line mutants of the anchored files)\n\n")
        f.write("Generated by `scripts/mutsweep.py` (gen / filter / check). Only mutants that build, pass `go vet` on their package and pass the pinned suite (twice, if the first run fails) are listed. "
                "`best` is the strongest verdict of the quick checks of the properties anchored in the mutated file. A mutant nobody reports is triaged by hand: equivalent, outside every property, or a miss.\n\n")
        f.write("Totals: %s\n\n" % dict(c))
        f.write("| id | file:line | operator | old -> new | verdicts | best | triage |\n|---|---|---|---|---|---|---|\n")
        for r in rows:
            f.write("| %s | %s:%d | %s | `%s` -> `%s` | %s | %s | %s |\n" % (r["id"], r["file"], r["line"], r["op"].replace("|", "\\|"), r["old"].replace("|", "\\|")[:90], r["new"].replace("|", "\\|")[:90],
                    ", ".join("%s:%s" % kv for kv in r["verdicts"].items()), r["best"], r.get("triage", "")))

if __name__ == "__main__":
    cmd = sys.argv[1]
    if cmd == "gen":
        gen(int(sys.argv[2]), int(sys.argv[3]))
    elif cmd == "filter":
        filt(int(sys.argv[3]) if len(sys.argv) > 3 and sys.argv[2] == "-j" else 4)
    elif cmd == "check":
        check((int(sys.argv[2]), int(sys.argv[3])) if len(sys.argv) > 3 else None)
    elif cmd == "merge":
        import glob
        rows = []
        for fn in sorted(glob.glob(os.path.join(OUT, "rows-*.json"))):
            rows += json.load(open(fn))
        # rows of earlier sweeps (other id prefixes) are kept
        try:
            have = {r["id"] for r in rows}
            rows += [r for r in json.load(open("/verif/selftest/MUTSWEEP.json")) if r["id"] not in have]
        except Exception:
            pass
        rows.sort(key=lambda r: r["id"])
        tri_path = "/verif/selftest/mutsweep_triage.json"
        triage = json.load(open(tri_path)) if os.path.exists(tri_path) else {}
        for r in rows:
            r["triage"] = triage.get(r["key"], r.get("triage", ""))
        json.dump(rows, open("/verif/selftest/MUTSWEEP.json", "w"), indent=1)
        write_md(rows)
        print("merged", len(rows))
    elif cmd == "md":
        rows = json.load(open("/verif/selftest/MUTSWEEP.json"))
        tri_path = "/verif/selftest/mutsweep_triage.json"
        triage = json.load(open(tri_path)) if os.path.exists(tri_path) else {}
        for r in rows:
            r["triage"] = triage.get(r["key"], r.get("triage", ""))
        json.dump(rows, open("/verif/selftest/MUTSWEEP.json", "w"), indent=1)
        write_md(rows)
