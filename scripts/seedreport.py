#!/usr/bin/env python3
"""seedreport.py [ids…] — re-run every seeded change (or the given ones) against the current checks and write seeded/REPORT.md.
For each seeded/<id>/: git -C /repo apply patch.diff ; ./check <property> --tier quick ; git -C /repo checkout -- .
Evidence files are restored afterwards (they must come from runs on the unchanged tree)."""
import json, os, re, subprocess, sys, time
# VERIF_DIR / VERIF_REPO: a shard runs in its own copy of /verif against its own worktree of /repo (scripts/seedreport_par.sh);
# --rows <file>: append the rows as JSON lines instead of writing REPORT.md (merged by `seedreport.py --merge <files…>`)
VERIF = os.environ.get("VERIF_DIR", "/verif")
REPO = os.environ.get("VERIF_REPO", "/repo")
args = sys.argv[1:]
rows_out = None
if args[:1] == ["--rows"]:
    rows_out, args = args[1], args[2:]
def write_report(rows):
    with open(os.path.join("/verif", "seeded", "REPORT.md"), "w") as f:
        f.write("# Seeded changes vs. the checks (quick tier)\n\nWritten by scripts/seedreport.py; each change was applied to the repository, the property's check was run, the change was undone.\n\n")
        from collections import Counter
        c = Counter(r[3] for r in rows)
        f.write("Totals: %d changes: %s\n\n" % (len(rows), ", ".join("%s: %d" % kv for kv in sorted(c.items()))))
        f.write("| change | property | files touched | verdict | obligations that broke | replay (last line of the failing case) |\n|---|---|---|---|---|---|\n")
        for sid, pid, files, verdict, broken, first in rows:
            f.write("| %s | %s | %s | %s | %s | %s |\n" % (sid, pid, "<br>".join(files), verdict, broken.replace("|", "/"), first))
if args[:1] == ["--merge"]:
    rows = []
    for fn in args[1:]:
        rows += [json.loads(l) for l in open(fn) if l.strip()]
    def key(r):
        m = re.match(r"S-(C\d+[a-z]?)-(\d+)", r[0]); return (m.group(1), int(m.group(2))) if m else (r[0], 0)
    rows.sort(key=key)
    for r in rows:
        mp = os.path.join("/verif", "seeded", r[0], "meta.json")
        meta = json.load(open(mp)); meta["check_verdict_now"] = r[3]; meta["check_broken_obligations_now"] = r[4]
        json.dump(meta, open(mp, "w"), indent=1)
    write_report(rows)
    print("merged", len(rows), "rows")
    sys.exit(0)
ids = args or sorted(os.listdir(os.path.join(VERIF, "seeded")))
ids = [i for i in ids if os.path.isdir(os.path.join(VERIF, "seeded", i))]
def sh(cmd, timeout=3600):
    p = subprocess.run(cmd, shell=True, stdout=subprocess.PIPE, stderr=subprocess.STDOUT, text=True, timeout=timeout)
    return p.returncode, p.stdout
assert sh("git -C %s status --porcelain" % REPO)[1].strip() == "", REPO + " not clean"
rows = []
for sid in ids:
    d = os.path.join(VERIF, "seeded", sid)
    meta = json.load(open(os.path.join(d, "meta.json")))
    pid = meta["property"]
    patch = os.path.join(d, "patch.diff")
    files = sorted(set(re.findall(r"^\+\+\+ b/(\S+)", open(patch).read(), re.M)))
    rc, o = sh("git -C %s apply %s" % (REPO, patch))
    if rc != 0:
        rows.append((sid, pid, files, "patch does not apply", "", ""))
        continue
    try:
        t0 = time.time()
        rc, o = sh("cd %s && ./check %s --tier quick" % (VERIF, pid))
        viol = [l for l in o.splitlines() if l.startswith("VIOLATION")]
        verdict = "MISSED" if not viol else ("caught (no-failing-input-found)" if "no-failing-input-found" in viol[0] else "caught (replay)")
        broken, first = "", ""
        try:
            ev = json.load(open(os.path.join(VERIF, "evidence", pid + ".json")))
            broken = ", ".join(sorted({b["name"] for b in ev["coverage"].get("broken", [])}))[:260]
            nd = [x for x in ev["coverage"].get("not_discharged", []) if x.startswith(("DIFF", "STRESS", "TIMING"))]
            if nd:
                broken = (broken + "; " if broken else "") + ", ".join(nd)
        except Exception:
            pass
        if viol:
            m = re.search(r"replay=(\S+)", viol[0])
            if m:
                try:
                    rp = json.load(open(os.path.join(VERIF, m.group(1))))
                    c = rp.get("case") or rp.get("obligation")
                    first = (c[-1] if isinstance(c, list) and c else str(c))[:200].replace("|", "/").replace("\n", " ")
                except Exception:
                    pass
        meta["check_verdict_now"] = verdict
        meta["check_broken_obligations_now"] = broken
        meta["checked_in_s"] = round(time.time() - t0)
        json.dump(meta, open(os.path.join(d, "meta.json"), "w"), indent=1)
        rows.append((sid, pid, files, verdict, broken, first))
        print(sid, pid, verdict, broken[:120], flush=True)
    finally:
        sh("git -C %s checkout -- ." % REPO)
    if rows_out and rows:
        with open(rows_out, "a") as f:
            f.write(json.dumps(rows[-1]) + "\n")
if VERIF == "/verif":
    sh("cd /verif && git checkout -- evidence/")
if rows_out:
    sys.exit(0)
write_report(rows)
