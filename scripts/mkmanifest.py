#!/usr/bin/env python3
"""Regenerate /verif/MANIFEST.json from scripts/props.py (single source of truth for the claimed checks)."""
import json, os, sys
sys.path.insert(0, os.path.dirname(os.path.abspath(__file__)))
from props import PROPS, NOT_APPLICABLE
ids = [json.loads(l)["id"] for l in open("/verif/properties.jsonl")]
checks = []
for pid in ids:
    if pid not in PROPS:
        continue
    c = PROPS[pid]
    m = c["manifest"]
    checks.append({
        "property_id": pid,
        "quick_cmd": "cd /verif && ./check %s --tier quick" % pid,
        "thorough_cmd": "cd /verif && ./check %s --tier thorough" % pid,
        "evidence_file": "/verif/evidence/%s.json" % pid,
        "replay_cmd_template": "cd /verif && ./check replay {path}",
        "engine": "lean-proof",
        "level_claimed": {"category": "proof", "text": m["text"], "design_ref": "DESIGN.md §5 " + pid},
        "level_note": m["note"],
        "technique": m["technique"],
    })
na = [{"property_id": p, "reason": NOT_APPLICABLE.get(p, "check not wired up yet in this revision (work in progress; plan in DESIGN.md Appendix D)")}
      for p in ids if p not in PROPS]
man = {
    "version": 1,
    "setup_cmd": "cd /verif && ./check setup",
    "hooks": {"guard": "verif",
              "enable": "go build -tags verif (the harness module replaces github.com/failsafe-go/failsafe-go with /repo)",
              "baseline_off_cmd": "python3 /verif/scripts/baseline.py",
              "source_commits": ["c0e4ec1"], "add_only": True},
    "engines": [{"name": "lean-proof", "path": "/verif/lean", "serves_properties": [c["property_id"] for c in checks],
                 "kind_free_text": "Lean 4 models + theorems (lake project Failsafe); kernels and structural facts regenerated from /repo by /verif/translate on every run and tied by proved equalities / decided expectations; differential and trace correspondence through /verif/harness and the compiled Lean driver"}],
    "checks": checks,
    "not_applicable": na,
    "notes": "Technique family: machine-checked proof in Lean 4. ./check <id> regenerates the model kernels from /repo, rebuilds the proofs, audits axioms, rebuilds the harness from /repo's working tree (-tags verif) and runs the correspondence checks. Repaired defects and open findings: known_findings.json.",
}
json.dump(man, open("/verif/MANIFEST.json", "w"), indent=1)
print("MANIFEST.json:", len(checks), "checks,", len(na), "not_applicable")
