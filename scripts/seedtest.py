#!/usr/bin/env python3
"""seedtest.py <out-dir> <n> <property> <seed-id>
Confirm a seeded change produced by a sub-agent, then run the property's check against it.
 1. scratch worktree /tmp/wt/confirm: demo passes on the unchanged tree, fails with the change, suite green with the change
 2. apply to /repo, ./check <property>, revert
 3. store under /verif/seeded/<seed-id>/ (patch.diff, demo, meta.json)"""
import json, os, shutil, subprocess, sys, time
out, n, pid, sid = sys.argv[1], sys.argv[2], sys.argv[3], sys.argv[4]
VERIF = os.environ.get("VERIF_DIR", "/verif")   # a copy of /verif to run the check in (the seed is always stored under /verif/seeded)
REPO = os.environ.get("VERIF_REPO", "/repo")    # the worktree the change is applied to for the check
ENV = dict(os.environ, GOFLAGS="-mod=mod", GOPROXY="off", GOSUMDB="off", GOTOOLCHAIN="local")
def sh(cmd, cwd=None, timeout=1800, env=ENV):
    p = subprocess.run(cmd, shell=True, cwd=cwd, env=env, stdout=subprocess.PIPE, stderr=subprocess.STDOUT, text=True, timeout=timeout)
    return p.returncode, p.stdout
WT = "/tmp/wt/confirm-" + sid
sh("git -C /repo worktree remove --force %s" % WT)
rc, o = sh("git -C /repo worktree add -q --detach %s HEAD" % WT)
assert rc == 0, o
try:
    diff = os.path.join(out, "change%s.diff" % n)
    demo_src = [f for f in os.listdir(out) if f.startswith("demo%s" % n) and f.endswith(".go")]
    demo_dir = os.path.join(WT, "zz_demo")
    os.makedirs(demo_dir, exist_ok=True)
    for f in demo_src:
        txt = open(os.path.join(out, f)).read()
        # normalise the package name to the directory
        import re
        txt = re.sub(r"^package \w+", "package zz_demo", txt, count=1, flags=re.M)
        open(os.path.join(demo_dir, f if f.endswith("_test.go") else f.replace(".go", "_test.go")), "w").write(txt)
    rc0, o0 = sh("go test -count=1 ./zz_demo/...", cwd=WT, timeout=600)
    rc, o = sh("git apply %s" % diff, cwd=WT)
    assert rc == 0, "patch does not apply: " + o
    rcb, ob = sh("go build ./...", cwd=WT)
    rc1, o1 = sh("go test -count=1 ./zz_demo/...", cwd=WT, timeout=600)
    shutil.rmtree(demo_dir)
    rcs, os_ = sh("python3 /verif/scripts/baseline.py", cwd=WT, env=dict(ENV, BASELINE_REPO=WT), timeout=1800)
    confirmed = (rc0 == 0 and rcb == 0 and rc1 != 0 and rcs == 0)
    print("confirm: demo on unchanged tree rc=%d, build rc=%d, demo with change rc=%d, suite rc=%d -> %s" % (rc0, rcb, rc1, rcs, "CONFIRMED" if confirmed else "NOT CONFIRMED"))
    if not confirmed:
        print(o0[-800:], o1[-800:], os_[-600:])
finally:
    sh("git -C /repo worktree remove --force %s" % WT)
verdict = None
if confirmed:
    assert sh("git -C %s status --porcelain" % REPO)[1].strip() == "", REPO + " not clean"
    sh("git -C %s apply %s" % (REPO, diff))
    try:
        t0 = time.time()
        rc, o = sh("cd %s && ./check %s --tier quick" % (VERIF, pid), timeout=3600)
        viol = [l for l in o.splitlines() if l.startswith("VIOLATION")]
        verdict = "MISSED" if not viol else ("caught(no-input)" if "no-failing-input-found" in viol[0] else "caught(replay)")
        print("check %s: %s in %.0fs %s" % (pid, verdict, time.time() - t0, viol[:1]))
    finally:
        sh("git -C %s checkout -- ." % REPO)
        if VERIF == "/verif":
            sh("git -C /verif checkout -- evidence/")  # evidence files must come from runs on the unchanged tree
    d = os.path.join("/verif/seeded", sid)
    os.makedirs(d, exist_ok=True)
    shutil.copyfile(diff, os.path.join(d, "patch.diff"))
    for f in demo_src:
        shutil.copyfile(os.path.join(out, f), os.path.join(d, f))
    notes = open(os.path.join(out, "notes.md")).read() if os.path.exists(os.path.join(out, "notes.md")) else ""
    meta = {"property": pid, "source": "independent sub-agent given only the property text and a scratch worktree",
            "confirmed": {"demo_passes_unchanged": rc0 == 0, "demo_fails_with_change": rc1 != 0, "suite_green_with_change": rcs == 0,
                          "ran": ["go test ./zz_demo/... in a scratch worktree without and with the patch", "python3 /verif/scripts/baseline.py on the patched worktree"]},
            "check_verdict_when_first_tried": verdict, "notes_excerpt": notes[:3000]}
    json.dump(meta, open(os.path.join(d, "meta.json"), "w"), indent=1)
