#!/usr/bin/env python3
"""selftest.py [ids…]: apply each calibration edit to /repo's working tree, run the property's quick check, revert.
Prints one line per edit: caught (VIOLATION with/without a concrete replay) or MISSED. Never commits anything to /repo."""
import os, subprocess, sys, time
sys.path.insert(0, "/verif/selftest")
from mutations import M
sys.path.insert(0, "/verif/scripts")
from props import PROPS

def sh(cmd, **kw):
    return subprocess.run(cmd, shell=True, stdout=subprocess.PIPE, stderr=subprocess.STDOUT, text=True, **kw)

want = set(sys.argv[1:])
assert sh("git -C /repo status --porcelain").stdout.strip() == "", "/repo working tree not clean"
for (mid, pid, path, old, new, desc) in M:
    if want and mid not in want and pid not in want:
        continue
    if pid not in PROPS:
        print(f"{mid} {pid} SKIP (property not wired yet): {desc}")
        continue
    p = os.path.join("/repo", path)
    src = open(p).read()
    if src.count(old) != 1:
        print(f"{mid} {pid} SKIP (pattern occurs {src.count(old)} times): {desc}")
        continue
    open(p, "w").write(src.replace(old, new))
    try:
        b = sh("cd /repo && GOFLAGS=-mod=mod GOPROXY=off go build ./... 2>&1 | tail -3")
        t0 = time.time()
        r = sh(f"cd /verif && ./check {pid} --tier quick")
        viol = [l for l in r.stdout.splitlines() if l.startswith("VIOLATION")]
        verdict = "MISSED"
        if viol:
            verdict = "caught(no-input)" if "no-failing-input-found" in viol[0] else "caught(replay)"
        print(f"{mid} {pid} {verdict} {time.time()-t0:.0f}s: {desc} | {viol[0] if viol else ''}", flush=True)
    finally:
        sh("git -C /repo checkout -- .")
        sh("git -C /verif checkout -- evidence/")  # evidence files must come from runs on the unchanged tree
