#!/usr/bin/env python3-vt
import json, jsonschema, sys, glob
m=json.load(open('/verif/MANIFEST.json')); jsonschema.validate(m,json.load(open('/root/.vp/MANIFEST.schema.json'))); print("manifest ok", len(m["checks"]), "checks")
s=json.load(open('/root/.vp/EVIDENCE.schema.json'))
for f in sorted(glob.glob('/verif/evidence/*.json')):
    jsonschema.validate(json.load(open(f)), s); print("evidence ok", f)
ids=[json.loads(l)["id"] for l in open('/verif/properties.jsonl')]
claimed={c["property_id"] for c in m["checks"]}; na={n["property_id"] for n in m.get("not_applicable",[])}
print("unlisted:", [i for i in ids if i not in claimed and i not in na])
