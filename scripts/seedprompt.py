#!/usr/bin/env python3
"""Write the prompt file for a seeding sub-agent: seedprompt.py <prop> <round-tag>  ->  /tmp/seed/<prop>-<tag>/prompt.txt
The agent is given only the property text, a scratch worktree and the list of already explored ideas (from the seed patches)."""
import json, os, re, sys, glob, subprocess
prop, tag = sys.argv[1], sys.argv[2]
P = None
for l in open("/verif/properties.jsonl"):
    d = json.loads(l)
    if d["id"] == prop:
        P = d
wt, out = f"/tmp/wt/{prop}-{tag}", f"/tmp/seed/{prop}-{tag}"
os.makedirs(out, exist_ok=True)
ideas = []
for sd in sorted(glob.glob(f"/verif/seeded/S-{prop}-*")):
    patch = open(os.path.join(sd, "patch.diff")).read()
    files = sorted(set(re.findall(r"^\+\+\+ b/(\S+)", patch, re.M)))
    added = [l[1:].strip() for l in patch.splitlines() if l.startswith("+") and not l.startswith("+++") and l[1:].strip() and not l[1:].strip().startswith("//")]
    ideas.append("- edit in %s (first added line: `%s`)" % (", ".join(files), (added[0] if added else "(only deletions)")[:110]))
tmpl = open("/verif/scripts/seedprompt.txt").read()
txt = tmpl.replace("@WT@", wt).replace("@OUT@", out).replace("@PROP@", json.dumps(P, indent=1)).replace("@IDEAS@", "\n".join(ideas) or "- (none)")
open(os.path.join(out, "prompt.txt"), "w").write(txt)
subprocess.run(["git", "-C", "/repo", "worktree", "add", "-f", "--detach", wt, "HEAD"], check=True, stdout=subprocess.DEVNULL, stderr=subprocess.DEVNULL)
print(out)
