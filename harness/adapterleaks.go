package main

import (
	"github.com/failsafe-go/failsafe-go/circuitbreaker"
	"context"
	"errors"
	"fmt"
	"io"
	"math/rand"
	"net"
	"net/http"
	"net/http/httptest"
	"runtime"
	"strings"
	"sync"
	"sync/atomic"
	"time"

	"github.com/failsafe-go/failsafe-go"
	"github.com/failsafe-go/failsafe-go/failsafegrpc"
	"github.com/failsafe-go/failsafe-go/failsafehttp"
	"github.com/failsafe-go/failsafe-go/hedgepolicy"
	"github.com/failsafe-go/failsafe-go/retrypolicy"
	"github.com/failsafe-go/failsafe-go/timeout"
	"google.golang.org/grpc"
	"google.golang.org/grpc/codes"
	"google.golang.org/grpc/status"
)

// countingTransport wraps every response body so that unclosed responses can be counted.
type countingTransport struct {
	next           http.RoundTripper
	opened, closed atomic.Int64
}

type countedBody struct {
	io.ReadCloser
	t    *countingTransport
	once sync.Once
}

func (b *countedBody) Close() error {
	b.once.Do(func() { b.t.closed.Add(1) })
	return b.ReadCloser.Close()
}

func (c *countingTransport) RoundTrip(r *http.Request) (*http.Response, error) {
	resp, err := c.next.RoundTrip(r)
	if err == nil && resp != nil && resp.Body != nil {
		c.opened.Add(1)
		resp.Body = &countedBody{ReadCloser: resp.Body, t: c}
	}
	return resp, err
}

func libraryGoroutines() (int, string) {
	buf := make([]byte, 1<<22)
	n := runtime.Stack(buf, true)
	cnt := 0
	var sample string
	for _, g := range strings.Split(string(buf[:n]), "\n\n") {
		if strings.Contains(g, "failsafe-go/failsafe-go") && !strings.Contains(g, "verif/harness.libraryGoroutines") && !strings.Contains(g, "main.libraryGoroutines") {
			if strings.Contains(g, "main.stressAdapterLeaks") || strings.Contains(g, "main.stressLeaks") {
				continue
			}
			cnt++
			if sample == "" {
				sample = g
			}
		}
	}
	return cnt, sample
}

// stressAdapterLeaks (C19): HTTP and gRPC calls with long-lived caller and executor contexts, retried responses,
// timeouts and hedges; afterwards no goroutine with a frame of this module is left, the goroutine count is flat and every
// response the inner transport produced has been closed (the returned one by the caller).
func stressAdapterLeaks(seed int64, scale int) int {
	v := newViol()
	rng := rand.New(rand.NewSource(seed))
	var n atomic.Int64
	var pairMu sync.Mutex
	var pairWait chan struct{}
	var conns sync.Map // server-side connections that are not closed
	var hrCalls sync.Map
	srv := httptest.NewUnstartedServer(http.HandlerFunc(func(w http.ResponseWriter, r *http.Request) {
		io.Copy(io.Discard, r.Body)
		k := n.Add(1)
		switch r.URL.Query().Get("mode") {
		case "pair":
			// two overlapping (hedged) attempts are answered at the same instant: the loser may well obtain its response
			pairMu.Lock()
			if pairWait == nil {
				ch := make(chan struct{})
				pairWait = ch
				pairMu.Unlock()
				select {
				case <-ch:
				case <-time.After(20 * time.Millisecond):
					pairMu.Lock()
					if pairWait == ch {
						pairWait = nil
					}
					pairMu.Unlock()
				}
			} else {
				close(pairWait)
				pairWait = nil
				pairMu.Unlock()
			}
		case "flaky":
			if k%3 != 0 {
				w.Header().Set("Retry-After", "0")
				w.WriteHeader(503)
				w.Write([]byte("unavailable, try again"))
				return
			}
		case "slow":
			if k%2 == 0 {
				select {
				case <-r.Context().Done():
				case <-time.After(30 * time.Millisecond):
				}
			}
		case "hr":
			// hedge around retry: the first attempt of a call is held until it is abandoned; on the hedge branch the first
			// attempt is told to retry and the second one succeeds (and wins)
			c, _ := hrCalls.LoadOrStore(r.URL.Query().Get("call"), new(atomic.Int32))
			switch c.(*atomic.Int32).Add(1) {
			case 1:
				select {
				case <-r.Context().Done():
				case <-time.After(300 * time.Millisecond):
				}
			case 2:
				w.Header().Set("Retry-After", "0")
				w.WriteHeader(503)
				w.Write([]byte("unavailable, try again"))
				return
			}
		case "ra503":
			w.Header().Set("Retry-After", "1")
			w.WriteHeader(503)
			w.Write([]byte(strings.Repeat("x", 70000)))
			return
		case "first503":
			c, _ := hrCalls.LoadOrStore("first503-"+r.URL.Query().Get("call"), new(atomic.Int32))
			if c.(*atomic.Int32).Add(1) == 1 {
				w.Header().Set("Retry-After", "0")
				w.WriteHeader(503)
				w.Write([]byte(strings.Repeat("unavailable, try again ", 200)))
				return
			}
		case "stall":
			// the first attempt of a call is told to retry by a response whose body never ends (headers and a first piece are
			// flushed, then the handler hangs until the client goes away): nothing may wait for that body
			c, _ := hrCalls.LoadOrStore("stall-"+r.URL.Query().Get("call"), new(atomic.Int32))
			if c.(*atomic.Int32).Add(1) == 1 {
				w.Header().Set("Retry-After", "0")
				w.Header().Set("Content-Length", "1000000")
				w.WriteHeader(503)
				w.Write([]byte("unavailable, and the rest of this body never arrives"))
				if fl, ok := w.(http.Flusher); ok {
					fl.Flush()
				}
				select {
				case <-r.Context().Done():
				case <-time.After(5 * time.Second):
				}
				return
			}
		case "fail":
			w.WriteHeader(500)
			w.Write([]byte("broken"))
			return
		}
		w.WriteHeader(200)
		fl, _ := w.(http.Flusher)
		for i := 0; i < 3; i++ {
			w.Write([]byte("chunk-of-a-streamed-body;"))
			if fl != nil {
				fl.Flush()
			}
		}
	}))
	srv.Config.ConnState = func(c net.Conn, st http.ConnState) {
		if st == http.StateClosed || st == http.StateHijacked {
			conns.Delete(c)
		} else {
			conns.Store(c, st)
		}
	}
	srv.Start()
	defer srv.Close()
	tr := &http.Transport{}
	ct := &countingTransport{next: tr}    // stacks without a hedge: every response must be closed by the adapter or the caller
	cth := &countingTransport{next: tr}   // hedged stacks: a losing attempt's response is released by cancelling its context
	callerCtx, callerCancel := context.WithCancel(context.WithValue(context.Background(), keyA, "a"))
	execCtx, execCancel := context.WithCancel(context.Background())
	// warm up once so that lazily started runtime / net goroutines are in the baseline
	if resp, err := (&http.Client{Transport: ct}).Get(srv.URL); err == nil {
		io.Copy(io.Discard, resp.Body)
		resp.Body.Close()
	}
	tr.CloseIdleConnections()
	time.Sleep(50 * time.Millisecond)
	runtime.GC()
	before := runtime.NumGoroutine()
	runs := 120 * scale
	for i := 0; i < runs; i++ {
		var ps []failsafe.Policy[*http.Response]
		mode := pick(rng, "ok", "flaky", "flaky", "slow", "fail", "pair", "pair")
		switch i % 5 {
		case 0:
			ps = append(ps, failsafehttp.RetryPolicyBuilder().WithMaxRetries(3).Build(), timeout.With[*http.Response](time.Second))
		case 1:
			ps = append(ps, timeout.With[*http.Response](10*time.Millisecond))
		case 2:
			ps = append(ps, failsafehttp.RetryPolicyBuilder().WithMaxRetries(2).ReturnLastFailure().Build(), hedgepolicy.BuilderWithDelay[*http.Response](5*time.Millisecond).Build())
		case 3:
			ps = append(ps, failsafehttp.RetryPolicyBuilder().WithMaxRetries(1).Build())
		case 4:
			ps = append(ps, hedgepolicy.BuilderWithDelay[*http.Response](time.Millisecond).WithMaxHedges(2).Build(), timeout.With[*http.Response](time.Second))
		}
		ex := failsafe.NewExecutor[*http.Response](ps...)
		if i%2 == 0 {
			ex = ex.WithContext(execCtx)
		}
		req, _ := http.NewRequestWithContext(callerCtx, "POST", srv.URL+"/?mode="+mode, strings.NewReader("request-body"))
		var resp *http.Response
		var err error
		var inner http.RoundTripper = ct
		if i%5 == 2 || i%5 == 4 {
			inner = cth
		}
		if i%3 == 0 {
			resp, err = failsafehttp.NewRequestWithExecutor(req, &http.Client{Transport: inner}, ex).Do()
		} else {
			resp, err = (&http.Client{Transport: failsafehttp.NewRoundTripperWithExecutor(inner, ex)}).Do(req)
		}
		var exc retrypolicy.ExceededError
		if errors.As(err, &exc) {
			if r, ok := exc.LastResult.(*http.Response); ok && r != nil {
				resp = r
			}
		}
		if resp != nil && resp.Body != nil {
			io.Copy(io.Discard, resp.Body)
			resp.Body.Close()
		}
		v.count(fmt.Sprintf("http/%s/stack%d", mode, i%5))
	}
	longLived := customCtx{make(chan struct{})}
	defer close(longLived.done)
	// a hedge policy around the retry policy: the attempts a hedge branch retries are that branch's own previous attempts, and
	// their responses have to be closed like any other retried response
	for i := 0; i < runs/6; i++ {
		ex := failsafe.NewExecutor[*http.Response](hedgepolicy.BuilderWithDelay[*http.Response](2*time.Millisecond).Build(),
			failsafehttp.RetryPolicyBuilder().WithMaxRetries(2).Build())
		req, _ := http.NewRequestWithContext(callerCtx, "POST", fmt.Sprintf("%s/?mode=hr&call=%d", srv.URL, i), strings.NewReader("request-body"))
		resp, err := (&http.Client{Transport: failsafehttp.NewRoundTripperWithExecutor(cth, ex)}).Do(req)
		if err != nil || resp == nil || resp.StatusCode != 200 {
			v.add(fmt.Sprintf("hedge around retry: the hedge branch's second attempt succeeds, yet the call returned %v", err))
		}
		if resp != nil && resp.Body != nil {
			io.Copy(io.Discard, resp.Body)
			resp.Body.Close()
		}
		v.count("http/hedge-around-retry")
	}
	// a retried response whose body stalls: the retry goes ahead, and neither a goroutine nor the connection stays behind
	for i := 0; i < runs/12+1; i++ {
		ex := failsafe.NewExecutor[*http.Response](failsafehttp.RetryPolicyBuilder().WithMaxRetries(2).Build())
		req, _ := http.NewRequestWithContext(callerCtx, "POST", fmt.Sprintf("%s/?mode=stall&call=%d", srv.URL, i), strings.NewReader("request-body"))
		t0 := time.Now()
		resp, err := (&http.Client{Transport: failsafehttp.NewRoundTripperWithExecutor(ct, ex)}).Do(req)
		if err != nil || resp == nil || resp.StatusCode != 200 {
			v.add(fmt.Sprintf("retried response with a stalled body: the second attempt succeeds, yet the call returned %v", err))
		} else if time.Since(t0) > 2*time.Second {
			v.add("retried response with a stalled body: the retry waited for the body")
		}
		if resp != nil && resp.Body != nil {
			io.Copy(io.Discard, resp.Body)
			resp.Body.Close()
		}
		v.count("http/retried-body-stalls")
	}
	// the documented delay function under a circuit breaker: the response that opens the breaker is the one the caller receives,
	// and its body is the caller's to read
	for i := 0; i < runs/12+1; i++ {
		cb := circuitbreaker.Builder[*http.Response]().HandleIf(func(r *http.Response, err error) bool { return r != nil && r.StatusCode == 503 }).
			WithFailureThreshold(1).WithDelayFunc(failsafehttp.DelayFunc).Build()
		ex := failsafe.NewExecutor[*http.Response](cb)
		req, _ := http.NewRequestWithContext(callerCtx, "GET", srv.URL+"/?mode=ra503", nil)
		var resp *http.Response
		var err error
		if i%2 == 0 {
			resp, err = (&http.Client{Transport: failsafehttp.NewRoundTripperWithExecutor(ct, ex)}).Do(req)
		} else {
			resp, err = failsafehttp.NewRequestWithExecutor(req, &http.Client{Transport: ct}, ex).Do()
		}
		if err != nil || resp == nil {
			v.add(fmt.Sprintf("breaker with the HTTP delay function: the 503 that opens it is returned, yet the call reported %v", err))
		} else {
			n, rerr := io.Copy(io.Discard, resp.Body)
			resp.Body.Close()
			if rerr != nil || n != 70000 {
				v.add(fmt.Sprintf("breaker with the HTTP delay function: the returned response's body read %d of 70000 bytes (%v)", n, rerr))
			}
			if !cb.IsOpen() || cb.RemainingDelay() > time.Second || cb.RemainingDelay() < 500*time.Millisecond {
				v.add(fmt.Sprintf("breaker with the HTTP delay function: after a 503 with Retry-After: 1 the breaker is open=%v with %v remaining", cb.IsOpen(), cb.RemainingDelay()))
			}
		}
		v.count("http/breaker-delay-func")
	}
	// a retried response followed by an attempt that fails before anything is sent (the request body cannot be rewound once it
	// has been consumed): the retried response is released all the same
	for i := 0; i < runs/12+1; i++ {
		ex := failsafe.NewExecutor[*http.Response](failsafehttp.RetryPolicyBuilder().WithMaxRetries(2).Build())
		req, _ := http.NewRequestWithContext(callerCtx, "POST", fmt.Sprintf("%s/?mode=first503&call=%d", srv.URL, i), nil)
		req.Body = &seekOnceBody{r: strings.NewReader("request-body")}
		req.ContentLength = int64(len("request-body"))
		var resp *http.Response
		var err error
		if i%2 == 0 {
			resp, err = (&http.Client{Transport: failsafehttp.NewRoundTripperWithExecutor(ct, ex)}).Do(req)
		} else {
			resp, err = failsafehttp.NewRequestWithExecutor(req, &http.Client{Transport: ct}, ex).Do()
		}
		if err == nil {
			v.add("the request body cannot be rewound for the second attempt, yet the call reported no error")
		}
		if resp != nil && resp.Body != nil {
			io.Copy(io.Discard, resp.Body)
			resp.Body.Close()
		}
		v.count("http/retried-then-body-cannot-rewind")
	}
	// response bodies whose Close reports an error (a wrapping transport may do that): the attempt's context is released all
	// the same, also when it had to be merged from a context of a non-standard type
	for i := 0; i < runs/6; i++ {
		ex := failsafe.NewExecutor[*http.Response](failsafehttp.RetryPolicyBuilder().WithMaxRetries(3).Build()).WithContext(longLived)
		req, _ := http.NewRequestWithContext(callerCtx, "POST", srv.URL+"/?mode=flaky", strings.NewReader("request-body"))
		resp, _ := (&http.Client{Transport: failsafehttp.NewRoundTripperWithExecutor(closeErrTransport{ct}, ex)}).Do(req)
		if resp != nil && resp.Body != nil {
			io.Copy(io.Discard, resp.Body)
			resp.Body.Close()
		}
		v.count("http/close-reports-error")
	}
	// the caller gives up while an attempt is in flight (or before the returned body is closed), under an executor bound to a
	// long-lived context of a non-standard type: whatever the merger registered on that context must be detached again
	for i := 0; i < runs/2; i++ {
		ex := failsafe.NewExecutor[*http.Response](failsafehttp.RetryPolicyBuilder().WithMaxRetries(1).Build()).WithContext(longLived)
		cctx, ccancel := context.WithCancel(callerCtx)
		req, _ := http.NewRequestWithContext(cctx, "POST", srv.URL+"/?mode="+pick(rng, "ok", "slow", "slow"), strings.NewReader("request-body"))
		if i%2 == 0 {
			go func() { time.Sleep(time.Duration(1+rng.Intn(3)) * time.Millisecond); ccancel() }()
		}
		resp, err := (&http.Client{Transport: failsafehttp.NewRoundTripperWithExecutor(ct, ex)}).Do(req)
		if i%2 == 1 {
			ccancel() // cancelled after the call returned, before the body is closed
		}
		if err == nil && resp != nil && resp.Body != nil {
			io.Copy(io.Discard, resp.Body)
			resp.Body.Close()
		}
		ccancel()
		v.count("http/caller-gives-up")
	}
	for i := 0; i < runs/2; i++ {
		ex := failsafe.NewExecutor[any]().WithContext(longLived)
		cctx, ccancel := context.WithCancel(callerCtx)
		failsafegrpc.NewUnaryClientInterceptorWithExecutor[any](ex)(cctx, "/s/m", 1, new(int), nil,
			func(ctx context.Context, method string, req, reply any, cc *grpc.ClientConn, opts ...grpc.CallOption) error {
				ccancel() // the caller's context ends while the call is in flight
				<-ctx.Done()
				return ctx.Err()
			})
		ccancel()
		v.count("grpc/caller-gives-up")
	}
	// the request's own context is long-lived and of a non-standard type (a server framework's), the execution has a context of
	// its own (a Timeout that does not fire): whatever the interceptor derives from the two is released when the call returns
	for i := 0; i < runs/2; i++ {
		ex := failsafe.NewExecutor[any](timeout.With[any](time.Minute))
		if i%2 == 0 {
			failsafegrpc.NewUnaryServerInterceptorWithExecutor[any](ex)(longLived, 1, &grpc.UnaryServerInfo{}, func(ctx context.Context, req any) (any, error) {
				return 1, nil
			})
		} else {
			failsafegrpc.NewUnaryClientInterceptorWithExecutor[any](ex)(longLived, "/s/m", 1, new(int), nil,
				func(ctx context.Context, method string, req, reply any, cc *grpc.ClientConn, opts ...grpc.CallOption) error {
					return nil
				})
		}
		v.count("grpc/request-context-non-standard")
	}
	// gRPC interceptors
	for i := 0; i < runs; i++ {
		var ps []failsafe.Policy[any]
		switch i % 3 {
		case 0:
			ps = append(ps, failsafegrpc.RetryPolicyBuilder[any]().WithMaxRetries(2).Build(), timeout.With[any](time.Second))
		case 1:
			ps = append(ps, hedgepolicy.BuilderWithDelay[any](time.Millisecond).Build())
		case 2:
			ps = append(ps, timeout.With[any](2*time.Millisecond))
		}
		ex := failsafe.NewExecutor[any](ps...)
		if i%2 == 0 {
			ex = ex.WithContext(execCtx)
		}
		k := 0
		if i%2 == 0 {
			failsafegrpc.NewUnaryClientInterceptorWithExecutor[any](ex)(callerCtx, "/s/m", 1, new(int), nil,
				func(ctx context.Context, method string, req, reply any, cc *grpc.ClientConn, opts ...grpc.CallOption) error {
					k++
					if i%3 == 2 {
						<-ctx.Done()
						return ctx.Err()
					}
					if k < 3 {
						return status.Error(codes.Unavailable, "x")
					}
					return nil
				})
		} else {
			failsafegrpc.NewUnaryServerInterceptorWithExecutor[any](ex)(callerCtx, 1, &grpc.UnaryServerInfo{}, func(ctx context.Context, req any) (any, error) {
				k++
				if i%3 == 2 {
					<-ctx.Done()
					return nil, ctx.Err()
				}
				if k < 2 {
					return nil, status.Error(codes.Unavailable, "x")
				}
				return 1, nil
			})
		}
		v.count(fmt.Sprintf("grpc/stack%d", i%3))
	}
	tr.CloseIdleConnections()
	deadline := time.Now().Add(2 * time.Second)
	var after, lib int
	var sample string
	for {
		runtime.GC()
		after = runtime.NumGoroutine()
		lib, sample = libraryGoroutines()
		if (after <= before+2 && lib == 0) || time.Now().After(deadline) {
			break
		}
		time.Sleep(50 * time.Millisecond)
	}
	v.c["goroutines-before"] = before
	v.c["goroutines-after"] = after
	openConns := 0
	for t0 := time.Now(); ; {
		openConns = 0
		conns.Range(func(_, _ any) bool { openConns++; return true })
		if openConns == 0 || time.Since(t0) > time.Second {
			break
		}
		time.Sleep(20 * time.Millisecond)
	}
	v.c["server-connections-left"] = openConns
	if openConns > 0 {
		v.add(fmt.Sprintf("%d connections are still open at the server after every call returned, every returned body was closed and idle connections were dropped", openConns))
	}
	v.c["responses-opened"] = int(ct.opened.Load())
	v.c["responses-closed"] = int(ct.closed.Load())
	if lib > 0 {
		v.add(fmt.Sprintf("%d goroutines with frames of this module are still alive although the caller's and the executor's contexts are: %s", lib, strings.ReplaceAll(firstLines(sample, 8), "\n", " | ")))
	}
	if after > before+2 {
		v.add(fmt.Sprintf("goroutines grew from %d to %d over %d calls", before, after, 2*runs))
	}
	// responses of hedge losers are released by cancelling their attempt's context (their connection is closed), which the
	// body counter cannot see: only sequential stacks must balance exactly
	v.c["hedged-responses-opened"] = int(cth.opened.Load())
	v.c["hedged-responses-closed"] = int(cth.closed.Load())
	if ct.opened.Load() != ct.closed.Load() {
		v.add(fmt.Sprintf("%d of %d responses obtained from the inner transport by sequential attempts were never closed", ct.opened.Load()-ct.closed.Load(), ct.opened.Load()))
	}
	callerCancel()
	execCancel()
	return v.report("adapterleaks", 2*runs)
}

// seekOnceBody: a seekable request body that cannot be rewound once it has been read
type seekOnceBody struct {
	r        *strings.Reader
	consumed atomic.Bool
}

func (b *seekOnceBody) Read(p []byte) (int, error) { b.consumed.Store(true); return b.r.Read(p) }
func (b *seekOnceBody) Close() error               { return nil }
func (b *seekOnceBody) Seek(off int64, whence int) (int64, error) {
	if b.consumed.Load() {
		return 0, errors.New("seek: the body has been consumed")
	}
	return b.r.Seek(off, whence)
}

// closeErrTransport: every response body's Close does its work and then reports an error
type closeErrTransport struct{ next http.RoundTripper }

type closeErrBody struct{ io.ReadCloser }

func (b closeErrBody) Close() error {
	b.ReadCloser.Close()
	return errors.New("close: reported by the transport")
}

func (t closeErrTransport) RoundTrip(r *http.Request) (*http.Response, error) {
	resp, err := t.next.RoundTrip(r)
	if err == nil && resp != nil && resp.Body != nil {
		resp.Body = closeErrBody{resp.Body}
	}
	return resp, err
}

// customCtx is a context of a type the standard library does not know: propagation to or from it needs a goroutine.
type customCtx struct{ done chan struct{} }

func (customCtx) Deadline() (time.Time, bool) { return time.Time{}, false }
func (c customCtx) Done() <-chan struct{}     { return c.done }
func (c customCtx) Err() error {
	select {
	case <-c.done:
		return context.Canceled
	default:
		return nil
	}
}
func (customCtx) Value(any) any { return nil }

func firstLines(s string, n int) string {
	ls := strings.Split(s, "\n")
	if len(ls) > n {
		ls = ls[:n]
	}
	return strings.Join(ls, "\n")
}
