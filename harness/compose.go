package main

import (
	"context"
	"fmt"
	"math/rand"
	"sort"
	"strconv"
	"strings"
	"sync"
	"time"

	"github.com/failsafe-go/failsafe-go"
	"github.com/failsafe-go/failsafe-go/bulkhead"
	"github.com/failsafe-go/failsafe-go/cachepolicy"
	"github.com/failsafe-go/failsafe-go/circuitbreaker"
	"github.com/failsafe-go/failsafe-go/fallback"
	"github.com/failsafe-go/failsafe-go/hedgepolicy"
	"github.com/failsafe-go/failsafe-go/ratelimiter"
	"github.com/failsafe-go/failsafe-go/retrypolicy"
	"github.com/failsafe-go/failsafe-go/timeout"
)

// compose slice: stacks of real policies around a scripted function; see lean/Driver/Compose.lean for the protocol.

const composeTimeout = 600 * time.Millisecond
const composeHedgeDelay = 15 * time.Millisecond

// a retry policy's max duration and the duration of a "sleeping" outcome: everything else finishes well within the former
const composeMaxDuration = 45 * time.Millisecond
const composeSleep = 75 * time.Millisecond

type mapCache struct {
	mu sync.Mutex
	m  map[string]int
}

func (c *mapCache) Get(k string) (int, bool) { c.mu.Lock(); defer c.mu.Unlock(); v, ok := c.m[k]; return v, ok }
func (c *mapCache) Set(k string, v int)      { c.mu.Lock(); defer c.mu.Unlock(); c.m[k] = v }

type composeSlice struct {
	onEvent func(name string)
	now      int64
	mute     map[int]bool // positions whose policy is built WITHOUT any listener (code paths guarded by `listener != nil`)
	breakers []circuitbreaker.CircuitBreaker[int]
	bulks    []bulkhead.Bulkhead[int]
	bulkCaps []int
	bulkExt  []int
	caches   []*mapCache
	limiters []ratelimiter.RateLimiter[int]
	polLines [][]string
	breakerBuilders []circuitbreaker.CircuitBreakerBuilder[int]
	policies []failsafe.Policy[int]
	built    bool
	hasHedge bool

	mu  sync.Mutex
	log []string
}

func init() {
	slices["compose"] = func() slice { return &composeSlice{} }
	generators["compose"] = genCompose
}

func (s *composeSlice) reset() { *s = composeSlice{} }

func (s *composeSlice) emit(name string, pos int, att, exe int) {
	s.mu.Lock()
	if s.hasHedge {
		s.log = append(s.log, fmt.Sprintf("%s@%d:%d/*", name, pos, att))
	} else {
		s.log = append(s.log, fmt.Sprintf("%s@%d:%d/%d", name, pos, att, exe))
	}
	hook := s.onEvent
	s.mu.Unlock()
	if hook != nil {
		hook(name) // scripted cancellation point: the harness cancels from inside this very callback
	}
}

// flagOracle evaluates C17's flag clause on what a listener / the function is handed: IsFirstAttempt <=> Attempts == 1 and
// IsRetry <=> Attempts > 1 (checked only when Attempts did not change while the flags were read: hedges start concurrently).
type flagged interface {
	Attempts() int
	IsFirstAttempt() bool
	IsRetry() bool
}

// timeOracle evaluates C17's clause on clock readings for executions whose events are sequential (no hedge) and in which no
// retry policy sits inside a Timeout (such a policy stamps the Timeout's copy of the execution, which the policies outside
// do not see): StartTime never changes during an execution, every observer of attempt k sees the same AttemptStartTime,
// and that stamp does not decrease from one attempt to the next.
type timedAttempt interface {
	Attempts() int
	StartTime() time.Time
	AttemptStartTime() time.Time
}

var timeOracle struct {
	mu     sync.Mutex
	on     bool
	start  time.Time
	stamps map[int]time.Time
	lastK  int
}

func timeOracleReset(on bool) {
	timeOracle.mu.Lock()
	timeOracle.on, timeOracle.start, timeOracle.stamps, timeOracle.lastK = on, time.Time{}, map[int]time.Time{}, 0
	timeOracle.mu.Unlock()
}

func timeFlags(e any) string {
	t, ok := e.(timedAttempt)
	if !ok {
		return ""
	}
	timeOracle.mu.Lock()
	defer timeOracle.mu.Unlock()
	if !timeOracle.on {
		return ""
	}
	out := ""
	k, st, ast := t.Attempts(), t.StartTime(), t.AttemptStartTime()
	if timeOracle.start.IsZero() {
		timeOracle.start = st
	} else if !st.Equal(timeOracle.start) {
		out += "!startTimeChanged"
	}
	if prev, seen := timeOracle.stamps[k]; seen {
		if !prev.Equal(ast) {
			out += fmt.Sprintf("!attemptStartTime(att=%d:differs-by-%s)", k, map[bool]string{true: "later", false: "earlier"}[ast.After(prev)])
		}
	} else {
		timeOracle.stamps[k] = ast
		if prev, ok := timeOracle.stamps[timeOracle.lastK]; ok && k > timeOracle.lastK && ast.Before(prev) {
			out += fmt.Sprintf("!attemptStartTime(att=%d:before-att-%d)", k, timeOracle.lastK)
		}
		if k > timeOracle.lastK {
			timeOracle.lastK = k
		}
	}
	if ast.Before(st) {
		out += "!attemptStartBeforeStart"
	}
	return out
}

// seenBy: the LastResult / LastError a listener is shown (C17: those of the most recent completed attempt)
func seenBy(e interface {
	LastResult() int
	LastError() error
}) string {
	return fmt.Sprintf("[%d,%s]", e.LastResult(), errTreeStr(e.LastError()))
}

func fl(e flagged) string {
	return flagsOf(e) + timeFlags(e)
}

func flagsOf(e flagged) string {
	a1 := e.Attempts()
	first, retry := e.IsFirstAttempt(), e.IsRetry()
	if a2 := e.Attempts(); a1 != a2 {
		return ""
	}
	if first != (a1 == 1) || retry != (a1 > 1) {
		return fmt.Sprintf("!flags(att=%d,first=%v,retry=%v)", a1, first, retry)
	}
	return ""
}

func (s *composeSlice) build() {
	s.built = true
	for pos, t := range s.polLines {
		pos := pos
		switch t[0] {
		case "retry":
			b := retrypolicy.Builder[int]().WithMaxRetries(int(atoi(t[1])))
			if t[2] == "1" {
				b.ReturnLastFailure()
			}
			if len(t) > 5 && t[5] == "md" {
				b.WithMaxDuration(composeMaxDuration)
				if pos%2 == 0 {
					// a delay configured after the max duration must leave the max duration alone (builder call order is free)
					b.WithRandomDelay(time.Nanosecond, 2*time.Nanosecond)
				}
			}
			applyConds(t[3], func(e ...error) { b.HandleErrors(e...) }, func(a ...any) { b.HandleErrorTypes(a...) }, func(r int) { b.HandleResult(r) }, func(p func(int, error) bool) { b.HandleIf(p) })
			applyConds(t[4], func(e ...error) { b.AbortOnErrors(e...) }, func(a ...any) { b.AbortOnErrorTypes(a...) }, func(r int) { b.AbortOnResult(r) }, func(p func(int, error) bool) { b.AbortIf(p) })
			if s.mute[pos] {
				s.policies = append(s.policies, b.Build())
				continue
			}
			b.OnFailure(func(e failsafe.ExecutionEvent[int]) { s.emit("rp.onFailure"+seenBy(e)+fl(e), pos, e.Attempts(), e.Executions()) }).
				OnSuccess(func(e failsafe.ExecutionEvent[int]) { s.emit("rp.onSuccess"+seenBy(e)+fl(e), pos, e.Attempts(), e.Executions()) }).
				OnAbort(func(e failsafe.ExecutionEvent[int]) { s.emit("rp.onAbort"+seenBy(e)+fl(e), pos, e.Attempts(), e.Executions()) }).
				OnRetriesExceeded(func(e failsafe.ExecutionEvent[int]) { s.emit("rp.onRetriesExceeded"+seenBy(e)+fl(e), pos, e.Attempts(), e.Executions()) }).
				OnRetryScheduled(func(e failsafe.ExecutionScheduledEvent[int]) { s.emit("rp.onRetryScheduled"+seenBy(e)+fl(e), pos, e.Attempts(), e.Executions()) }).
				OnRetry(func(e failsafe.ExecutionEvent[int]) { s.emit("rp.onRetry"+seenBy(e)+fl(e), pos, e.Attempts(), e.Executions()) })
			s.policies = append(s.policies, b.Build())
			// a built policy is a snapshot of its builder (retry, fallback, timeout, hedge copy their configuration in Build):
			// what the builder is told afterwards must not reach it. The handle / abort conditions and OnSuccess / OnFailure
			// live behind a pointer the copy shares ("TODO copy base fields" in the source), so those are left alone.
			decoy := func(e failsafe.ExecutionEvent[int]) { s.emit("DECOY.rp", pos, e.Attempts(), e.Executions()) }
			b.WithMaxRetries(0).OnAbort(decoy).OnRetriesExceeded(decoy).OnRetry(decoy).
				OnRetryScheduled(func(e failsafe.ExecutionScheduledEvent[int]) { s.emit("DECOY.rp", pos, e.Attempts(), e.Executions()) })
			_ = b.Build()
		case "breaker":
			// breakers are built at registration (they carry state across runs); listeners need the position of the
			// policy, so a breaker instance may be used at one position only per case
			id := int(atoi(t[1]))
			s.policies = append(s.policies, s.breakers[id])
		case "bulkhead":
			s.policies = append(s.policies, s.bulks[int(atoi(t[1]))])
		case "limiter":
			s.policies = append(s.policies, s.limiters[int(atoi(t[1]))])
		case "fallback":
			// WithFunc (what WithResult / WithError reduce to), so that the function's view of the failed outcome is observed
			var fbVal int
			var fbErr error
			if t[1] == "v" {
				fbVal = int(atoi(t[2]))
			} else {
				fbErr = parseErrTree(t[2])
			}
			b := fallback.BuilderWithFunc[int](func(exec failsafe.Execution[int]) (int, error) {
				s.emit(fmt.Sprintf("fb.fn[%d,%s]", exec.LastResult(), errTreeStr(exec.LastError()))+fl(exec), pos, exec.Attempts(), exec.Executions())
				return fbVal, fbErr
			})
			applyConds(t[3], func(e ...error) { b.HandleErrors(e...) }, func(a ...any) { b.HandleErrorTypes(a...) }, func(r int) { b.HandleResult(r) }, func(p func(int, error) bool) { b.HandleIf(p) })
			if s.mute[pos] {
				s.policies = append(s.policies, b.Build())
				continue
			}
			b.OnFailure(func(e failsafe.ExecutionEvent[int]) { s.emit("fb.onFailure"+seenBy(e)+fl(e), pos, e.Attempts(), e.Executions()) }).
				OnSuccess(func(e failsafe.ExecutionEvent[int]) { s.emit("fb.onSuccess"+seenBy(e)+fl(e), pos, e.Attempts(), e.Executions()) }).
				OnFallbackExecuted(func(e failsafe.ExecutionDoneEvent[int]) { s.emit("fb.onFallbackExecuted", pos, e.Attempts(), e.Executions()) })
			s.policies = append(s.policies, b.Build())
			_ = b.OnFallbackExecuted(func(e failsafe.ExecutionDoneEvent[int]) { s.emit("DECOY.fb", pos, e.Attempts(), e.Executions()) }).Build()
		case "cache":
			id := int(atoi(t[1]))
			b := cachepolicy.Builder[int](s.caches[id])
			if t[2] != "-" {
				b.WithKey(t[2])
			}
			if t[3] != "-" {
				// every CacheIf call adds a condition; a result is stored if any of them accepts it
				for _, c := range strings.Split(t[3], ",") {
					b.CacheIf(predicate(int(atoi(c))))
				}
			}
			if s.mute[pos] {
				s.policies = append(s.policies, b.Build())
				continue
			}
			b.OnCacheHit(func(e failsafe.ExecutionDoneEvent[int]) { s.emit("ca.onHit", pos, e.Attempts(), e.Executions()) }).
				OnCacheMiss(func(e failsafe.ExecutionEvent[int]) { s.emit("ca.onMiss"+fl(e), pos, e.Attempts(), e.Executions()) }).
				OnResultCached(func(e failsafe.ExecutionEvent[int]) { s.emit("ca.onCache"+fl(e), pos, e.Attempts(), e.Executions()) })
			s.policies = append(s.policies, b.Build())
		case "timeout":
			if s.mute[pos] {
				s.policies = append(s.policies, timeout.Builder[int](composeTimeout).Build())
				continue
			}
			tb := timeout.Builder[int](composeTimeout).OnTimeoutExceeded(func(e failsafe.ExecutionDoneEvent[int]) {
				s.emit("to.onTimeoutExceeded", pos, e.Attempts(), e.Executions())
			})
			to := tb.Build()
			s.policies = append(s.policies, to)
			_ = tb.OnTimeoutExceeded(func(e failsafe.ExecutionDoneEvent[int]) { s.emit("DECOY.to", pos, e.Attempts(), e.Executions()) }).Build()
		case "hedge":
			b := hedgepolicy.BuilderWithDelay[int](composeHedgeDelay).WithMaxHedges(int(atoi(t[1])))
			applyConds(t[2], func(e ...error) { b.CancelOnErrors(e...) }, func(a ...any) { b.CancelOnErrorTypes(a...) }, func(r int) { b.CancelOnResult(r) }, func(p func(int, error) bool) { b.CancelIf(p) })
			if s.mute[pos] {
				s.policies = append(s.policies, b.Build())
				continue
			}
			b.OnHedge(func(e failsafe.ExecutionEvent[int]) { s.emit("hp.onHedge"+fl(e), pos, e.Attempts(), e.Executions()) })
			s.policies = append(s.policies, b.Build())
			_ = b.WithMaxHedges(0).OnHedge(func(e failsafe.ExecutionEvent[int]) { s.emit("DECOY.hp", pos, e.Attempts(), e.Executions()) }).Build()
		}
	}
}

func (s *composeSlice) unlimitedRetry() bool {
	for _, t := range s.polLines {
		if t[0] == "retry" && t[1] == "-1" {
			return true
		}
	}
	return false
}

// timeOracleOn: no hedge, and no retry policy inside a Timeout
func (s *composeSlice) timeOracleOn() bool {
	inTimeout := false
	for _, t := range s.polLines {
		switch t[0] {
		case "hedge":
			return false
		case "timeout":
			inTimeout = true
		case "retry":
			if inTimeout {
				return false
			}
		}
	}
	return true
}

// posOf returns the position at which instance `id` of a kind is used (needed by listeners registered at build time of
// the instance); instances are registered before the pol lines, so the position is resolved lazily.
func (s *composeSlice) posOf(kind string, id int) int {
	for pos, t := range s.polLines {
		if t[0] == kind && int(atoi(t[1])) == id {
			return pos
		}
	}
	return -1
}

func (s *composeSlice) exec(t []string) string {
	switch t[0] {
	case "br":
		id := len(s.breakers)
		ft, frt, ftc, fet, period, st, stc, delay, t0 := uint(atoi(t[1])), uint(atoi(t[2])), uint(atoi(t[3])), uint(atoi(t[4])), atoi(t[5]), uint(atoi(t[6])), uint(atoi(t[7])), atoi(t[8]), atoi(t[9])
		b := circuitbreaker.Builder[int]()
		switch {
		case frt != 0:
			b.WithFailureRateThreshold(frt, fet, time.Duration(period))
		case period != 0:
			b.WithFailureThresholdPeriod(ft, time.Duration(period))
		default:
			b.WithFailureThresholdRatio(ft, ftc)
		}
		if st != 0 {
			b.WithSuccessThresholdRatio(st, stc)
		}
		b.WithDelay(time.Duration(delay))
		s.now = t0
		b.OnFailure(func(e failsafe.ExecutionEvent[int]) { s.emit("cb.onFailure"+seenBy(e)+fl(e), s.posOf("breaker", id), e.Attempts(), e.Executions()) }).
			OnSuccess(func(e failsafe.ExecutionEvent[int]) { s.emit("cb.onSuccess"+seenBy(e)+fl(e), s.posOf("breaker", id), e.Attempts(), e.Executions()) }).
			OnStateChanged(func(e circuitbreaker.StateChangedEvent) {
				m := e.Metrics()
				s.mu.Lock()
				s.log = append(s.log, fmt.Sprintf("cb[%s>%s:%d_%d_%d_%d_%d]@%d", e.OldState, e.NewState, m.Executions(), m.Failures(), m.FailureRate(), m.Successes(), m.SuccessRate(), s.posOf("breaker", id)))
				s.mu.Unlock()
			})
		circuitbreaker.VerifSetClock(b, func() int64 { return s.now })
		// handle conditions come with the pol line; they are applied when the pol line is seen
		s.breakerBuilders = append(s.breakerBuilders, b)
		s.breakers = append(s.breakers, nil)
		return ""
	case "bh":
		id := len(s.bulks)
		cap := int(atoi(t[1]))
		bh := bulkhead.Builder[int](uint(cap)).OnFull(func(e failsafe.ExecutionEvent[int]) { s.emit("bh.onFull"+fl(e), s.posOf("bulkhead", id), e.Attempts(), e.Executions()) }).Build()
		s.bulks = append(s.bulks, bh)
		s.bulkCaps = append(s.bulkCaps, cap)
		s.bulkExt = append(s.bulkExt, 0)
		return ""
	case "ca":
		s.caches = append(s.caches, &mapCache{m: map[string]int{}})
		return ""
	case "rl":
		id := len(s.limiters)
		var b ratelimiter.RateLimiterBuilder[int]
		if t[1] == "smooth" {
			b = ratelimiter.SmoothBuilderWithMaxRate[int](time.Duration(atoi(t[2])))
		} else {
			b = ratelimiter.BurstyBuilder[int](uint(atoi(t[2])), time.Duration(atoi(t[3])))
		}
		b.OnRateLimitExceeded(func(e failsafe.ExecutionEvent[int]) {
			s.emit("rl.onRateLimitExceeded", s.posOf("limiter", id), e.Attempts(), e.Executions())
		})
		l := b.Build()
		ratelimiter.VerifSetStopwatch(l, func() time.Duration { return time.Duration(s.now) })
		s.limiters = append(s.limiters, l)
		return ""
	case "pol":
		if t[1] == "breaker" {
			id := int(atoi(t[2]))
			b := s.breakerBuilders[id]
			applyConds(t[3], func(e ...error) { b.HandleErrors(e...) }, func(a ...any) { b.HandleErrorTypes(a...) }, func(r int) { b.HandleResult(r) }, func(p func(int, error) bool) { b.HandleIf(p) })
			s.breakers[id] = b.Build()
		}
		if t[1] == "hedge" {
			s.hasHedge = true
		}
		s.polLines = append(s.polLines, t[1:])
		return ""
	case "ext":
		id, k := int(atoi(t[1])), int(atoi(t[2]))
		for s.bulkExt[id] < k {
			s.bulks[id].TryAcquirePermit()
			s.bulkExt[id]++
		}
		for s.bulkExt[id] > k {
			s.bulks[id].ReleasePermit()
			s.bulkExt[id]--
		}
		return ""
	case "adv":
		s.now += atoi(t[1])
		return ""
	case "mute":
		if s.mute == nil {
			s.mute = map[int]bool{}
		}
		for _, p := range strings.Split(t[1], ",") {
			s.mute[int(atoi(p))] = true
		}
		return ""
	case "run", "runa":
		if !s.built {
			s.build()
		}
		x := ""
		if len(t) > 3 {
			x = t[3]
		}
		return s.run(t[0] == "runa", t[1], t[2], x)
	}
	return "bad-op"
}

type scriptItem struct {
	val    int
	err    error
	blocks bool
	sleeps bool
	adv    int64 // the invocation advances the virtual clock of the breakers / rate limiters by this much
}

func parseScript(text string) []scriptItem {
	var out []scriptItem
	if text == "-" {
		return out
	}
	for _, it := range strings.Split(text, ";") {
		f := strings.Split(it, ",")
		// the error tree may itself contain commas: the item is `val,<tree>[,B]`
		val, _ := strconv.Atoi(f[0])
		rest := it[len(f[0])+1:]
		blocks, sleeps := false, false
		adv := int64(0)
		if i := strings.LastIndex(rest, ",+"); i >= 0 {
			adv = atoi(rest[i+2:])
			rest = rest[:i]
		}
		if strings.HasSuffix(rest, ",B") {
			blocks = true
			rest = strings.TrimSuffix(rest, ",B")
		}
		if strings.HasSuffix(rest, ",S") {
			sleeps = true
			rest = strings.TrimSuffix(rest, ",S")
		}
		out = append(out, scriptItem{val, parseErrTree(rest), blocks, sleeps, adv})
	}
	return out
}

// run executes the stack once. x = "" or "x=<fn|sched|pre>:<k>:<ctx|async>": the execution is cancelled from inside the k-th
// function invocation / the k-th OnRetryScheduled listener / before it starts, through its context or ExecutionResult.Cancel.
func (s *composeSlice) run(async bool, ck string, scriptText string, x string) string {
	script := parseScript(scriptText)
	s.mu.Lock()
	s.log = s.log[:0]
	s.mu.Unlock()
	timeOracleReset(s.timeOracleOn())
	var fnMu sync.Mutex
	inv, completed := 0, 0
	var wg sync.WaitGroup
	var doneAtt, doneExe, doneRet, doneHed int
	verdict := "?"
	// the executor is first bound to another context (cancellable, with a cache key of its own): a later WithContext replaces it
	decoyCtx, decoyCancel := context.WithCancel(context.WithValue(context.Background(), cachepolicy.CacheKey, "DECOY"))
	defer decoyCancel()
	base := failsafe.NewExecutor[int](s.policies...)
	ex := base.WithContext(decoyCtx)
	// runaway guard: an execution that invokes the function more than 3000 times is cancelled and reported
	guardCtx, guardCancel := context.WithCancel(context.Background())
	defer guardCancel()
	runaway := false
	if ck != "-" {
		key := ck
		if ck == "''" {
			key = ""
		}
		parent := context.Context(guardCtx)
		if x == "" && len(scriptText)%2 == 0 && !s.unlimitedRetry() {
			// a context that only carries values (its Done() is nil): the key must reach a cache policy inside a Timeout / hedge too
			parent = context.Background()
		}
		ex = ex.WithContext(context.WithValue(parent, cachepolicy.CacheKey, key))
	} else {
		ex = ex.WithContext(guardCtx)
	}
	ex = ex.OnDone(func(e failsafe.ExecutionDoneEvent[int]) {
		s.emit(fmt.Sprintf("ex.onDone[%d,%s]", e.Result, errTreeStr(e.Error)), 0, e.Attempts(), e.Executions())
		doneAtt, doneExe, doneRet, doneHed = e.Attempts(), e.Executions(), e.Retries(), e.Hedges()
	}).OnSuccess(func(e failsafe.ExecutionDoneEvent[int]) {
		s.emit(fmt.Sprintf("ex.onSuccess[%d,%s]", e.Result, errTreeStr(e.Error)), 0, e.Attempts(), e.Executions())
		verdict = "S"
	}).OnFailure(func(e failsafe.ExecutionDoneEvent[int]) {
		s.emit(fmt.Sprintf("ex.onFailure[%d,%s]", e.Result, errTreeStr(e.Error)), 0, e.Attempts(), e.Executions())
		verdict = "F"
	})
	// an executor derived from the same base with listeners of its own: executors derived with WithContext are independent
	sibling := func(e failsafe.ExecutionDoneEvent[int]) { s.emit("DECOY.ex", 0, e.Attempts(), e.Executions()) }
	_ = base.WithContext(decoyCtx).OnDone(sibling).OnSuccess(sibling).OnFailure(sibling)
	fn := func(exec failsafe.Execution[int]) (int, error) {
		wg.Add(1)
		defer wg.Done()
		s.emit(fmt.Sprintf("%s[%d,%s]", map[bool]string{false: "fn", true: "fnh"}[exec.IsHedge()], exec.LastResult(), errTreeStr(exec.LastError()))+fl(exec), 0, exec.Attempts(), exec.Executions())
		fnMu.Lock()
		inv++
		if inv > 3000 {
			runaway = true
			guardCancel()
		}
		var o scriptItem
		if len(script) > 0 {
			o = script[0]
			script = script[1:]
			s.now += o.adv // time passes while the function runs: the next policy decision sees the later clock
		}
		fnMu.Unlock()
		if o.blocks {
			<-exec.Canceled()
		}
		if o.sleeps {
			time.Sleep(composeSleep)
		}
		fnMu.Lock()
		completed++
		fnMu.Unlock()
		return o.val, o.err
	}
	var val int
	var err error
	var asyncRes failsafe.ExecutionResult[int]
	asyncReady := make(chan struct{})
	if strings.HasPrefix(x, "x=") {
		f := strings.Split(x[2:], ":")
		point, k, cause := f[0], int(atoi(f[1])), f[2]
		cancelNow := func() {
			if cause == "async" {
				<-asyncReady
				asyncRes.Cancel()
			} else {
				guardCancel()
			}
		}
		want := map[string]string{"fn": "fn[", "sched": "rp.onRetryScheduled"}[point]
		if point == "pre" {
			guardCancel()
		} else {
			seen := 0
			var hmu sync.Mutex
			s.mu.Lock()
			s.onEvent = func(name string) {
				if !strings.HasPrefix(name, want) && !(want == "fn[" && strings.HasPrefix(name, "fnh[")) {
					return
				}
				hmu.Lock()
				seen++
				fire := seen == k
				hmu.Unlock()
				if fire {
					cancelNow()
				}
			}
			s.mu.Unlock()
			defer func() { s.mu.Lock(); s.onEvent = nil; s.mu.Unlock() }()
		}
	}
	if async {
		asyncRes = ex.GetWithExecutionAsync(fn)
		close(asyncReady)
		val, err = asyncRes.Get()
	} else {
		val, err = ex.GetWithExecution(fn)
	}
	wg.Wait() // quiescence: cancelled hedge attempts have returned
	if runaway {
		return "runaway"
	}
	exe := strconv.Itoa(completed)
	if !s.hasHedge && doneExe != completed {
		exe = fmt.Sprintf("%d!=%d", doneExe, completed)
	}
	var brs, bhs, cas []string
	for _, cb := range s.breakers {
		if cb == nil {
			brs = append(brs, "unused")
			continue
		}
		m := cb.Metrics()
		brs = append(brs, fmt.Sprintf("%s:%d %d %d %d %d", cb.State(), m.Executions(), m.Failures(), m.FailureRate(), m.Successes(), m.SuccessRate()))
	}
	for _, bh := range s.bulks {
		free := 0
		for bh.TryAcquirePermit() {
			free++
		}
		for i := 0; i < free; i++ {
			bh.ReleasePermit()
		}
		bhs = append(bhs, strconv.Itoa(free))
	}
	for _, mc := range s.caches {
		var kv []string
		for k, v := range mc.m {
			kv = append(kv, fmt.Sprintf("%s=%d", k, v))
		}
		sort.Strings(kv)
		cas = append(cas, strings.Join(kv, ","))
	}
	s.mu.Lock()
	logText := strings.Join(s.log, ";")
	s.mu.Unlock()
	return fmt.Sprintf("res %d %s verdict=%s inv=%d att=%d exe=%s ret=%d hed=%d log=%s br[%s] bh[%s] ca[%s]",
		val, errTreeStr(err), verdict, inv, doneAtt, exe, doneRet, doneHed, logText,
		strings.Join(brs, ";"), strings.Join(bhs, ";"), strings.Join(cas, ";"))
}

// ---------------------------------------------------------------------------------------------------- generator

func genCondsCompose(r *rand.Rand) string {
	pool := []string{"I1", "I2", "I107", "I100", "I101", "I102", "I103", "R0", "R1", "T12", "P1", "T0"}
	n := r.Intn(4)
	if r.Intn(3) == 0 {
		n = 0
	}
	var picked []string
	for i := 0; i < n; i++ {
		picked = append(picked, pick(r, pool...))
	}
	if len(picked) == 0 {
		return "-"
	}
	return strings.Join(picked, ",")
}

func genCompose(r *rand.Rand, n int, tier string, emit func(string) string) {
	for c := 0; c < n; c++ {
		emit(fmt.Sprintf("case compose-%d", c))
		now := int64(r.Intn(1000))
		var pre, pols []string
		nb, nbh, nca, nrl := 0, 0, 0, 0
		var bulkCaps []int
		depth := r.Intn(6)
		hasTimeout, hasHedge := false, false
		hasMd := false // some retry policy has a max duration: scripts may contain sleeping outcomes, never blocking ones
		wantHedge := r.Intn(6) == 0
		for pos := 0; pos < depth; pos++ {
			kind := r.Intn(7)
			if kind == 6 && hasTimeout {
				kind = 0
			}
			switch kind {
			case 0:
				m := pick(r, 0, 1, 2, 3, 1, 2, -1)
				a := genCondsCompose(r)
				if r.Intn(2) == 0 {
					a = "-"
				}
				h := genCondsCompose(r)
				if m == -1 && (pos != depth-1 || strings.Contains(h, "R0")) {
					// unlimited retries only directly around the function (nothing inside that can fail forever) and with
					// conditions that the exhausted script's outcome (0, nil) cannot match
					m = 2
				}
				md := ""
				if !wantHedge && r.Intn(4) == 0 {
					md = " md"
					hasMd = true
				}
				pols = append(pols, fmt.Sprintf("pol retry %d %d %s %s%s", m, r.Intn(2), h, a, md))
			case 1:
				var ft, frt, ftc, fet, st, stc int
				ft, ftc = 1, 1
				if r.Intn(2) == 0 {
					ft = 1 + r.Intn(3)
					ftc = ft
				} else {
					ftc = 1 + r.Intn(4)
					ft = 1 + r.Intn(ftc)
				}
				if r.Intn(2) == 0 {
					stc = 1 + r.Intn(3)
					st = 1 + r.Intn(stc)
				}
				pre = append(pre, fmt.Sprintf("br %d %d %d %d %d %d %d %d %d", ft, frt, ftc, fet, 0, st, stc, r.Intn(100), now))
				pols = append(pols, fmt.Sprintf("pol breaker %d %s", nb, genCondsCompose(r)))
				nb++
			case 2:
				cap := 1 + r.Intn(3)
				if r.Intn(8) == 0 {
					cap = 0 // a legal configuration: the bulkhead refuses everything
				}
				pre = append(pre, fmt.Sprintf("bh %d", cap))
				bulkCaps = append(bulkCaps, cap)
				pols = append(pols, fmt.Sprintf("pol bulkhead %d", nbh))
				nbh++
			case 3:
				if r.Intn(2) == 0 {
					pols = append(pols, fmt.Sprintf("pol fallback v %d %s", r.Intn(3), genCondsCompose(r)))
				} else {
					pols = append(pols, fmt.Sprintf("pol fallback e L%d:0 %s", 1+r.Intn(2), genCondsCompose(r)))
				}
			case 4:
				pre = append(pre, "ca")
				cif := "-"
				switch r.Intn(6) {
				case 0:
					cif = strconv.Itoa(r.Intn(3))
				case 1:
					cif = fmt.Sprintf("%d,%d", r.Intn(3), r.Intn(3)) // two CacheIf calls
				}
				pols = append(pols, fmt.Sprintf("pol cache %d %s %s", nca, pick(r, "-", "k1", "k2"), cif))
				nca++
			case 5:
				if r.Intn(2) == 0 {
					pre = append(pre, fmt.Sprintf("rl smooth %d", pick(r, 10, 50, 100)))
				} else {
					pre = append(pre, fmt.Sprintf("rl bursty %d %d", 1+r.Intn(3), pick(r, 50, 100, 200)))
				}
				pols = append(pols, fmt.Sprintf("pol limiter %d", nrl))
				nrl++
			case 6:
				hasTimeout = true
				pols = append(pols, "pol timeout")
			}
		}
		hedgeMax, hedgeAny := 0, false
		hedgeOuter := false
		if wantHedge {
			hasHedge = true
			hedgeMax = r.Intn(4)
			co := pick(r, "-", "-", "R1", "I1", "R0,I2")
			hedgeAny = co == "-"
			if hasTimeout && !hedgeAny {
				// a result that does not match the cancel conditions waits out the hedge delays; the waits of one Timeout scope
				// (rounds of the retry policies in between x maxHedges x delay) must stay far below the time limit, or the
				// "instant outcomes finish before any timer" assumption of the model would not hold
				rounds := 1
				for _, pl := range pols {
					f := strings.Fields(pl)
					if f[1] == "retry" {
						m := int(atoi(f[2]))
						if m < 0 {
							m = 8 // bounded by the script length
						}
						rounds *= m + 1
					}
				}
				budget := int(composeTimeout/4/composeHedgeDelay) / rounds
				if hedgeMax > budget {
					hedgeMax = budget
				}
			}
			hp := fmt.Sprintf("pol hedge %d %s", hedgeMax, co)
			if len(pols) > 0 && r.Intn(3) == 0 {
				// a hedge that is not innermost: its attempts run the policies inside it; only instant outcomes then (a blocked
				// attempt would run those policies concurrently with the next one)
				idx := r.Intn(len(pols))
				pols = append(pols[:idx], append([]string{hp}, pols[idx:]...)...)
				hedgeOuter = true
			} else {
				pols = append(pols, hp)
			}
		}
		for _, l := range pre {
			emit("compose " + l)
		}
		for _, l := range pols {
			emit("compose " + l)
		}
		// a quarter of the cases build some of their policies without any listener: the library guards every listener call with
		// `!= nil`, and what it computes for a listener (execution copies, results) must not be what the execution itself uses
		retryMuted := false
		if len(pols) > 0 && r.Intn(4) == 0 {
			var mp []string
			for pos, pl := range pols {
				kind := strings.Fields(pl)[1]
				if (kind == "retry" || kind == "fallback" || kind == "cache" || kind == "timeout" || kind == "hedge") && r.Intn(2) == 0 {
					mp = append(mp, strconv.Itoa(pos))
					if kind == "retry" {
						retryMuted = true
					}
				}
			}
			if len(mp) > 0 {
				emit("compose mute " + strings.Join(mp, ","))
			}
		}
		runs := 1 + r.Intn(5)
		for k := 0; k < runs; k++ {
			if nbh > 0 && r.Intn(3) == 0 {
				id := r.Intn(nbh)
				emit(fmt.Sprintf("compose ext %d %d", id, r.Intn(bulkCaps[id]+1)))
			}
			if r.Intn(2) == 0 {
				d := r.Intn(120)
				now += int64(d)
				emit(fmt.Sprintf("compose adv %d", d))
			}
			var parts []string
			blockedSeen := false
			firstBlocked := 0
			blockedCount := 0
			sleepCount := 0
			for i, l := 0, r.Intn(9); i < l; i++ {
				e := "-"
				if r.Intn(2) == 0 {
					e = pick(r, "L1:0", "L2:0", "L7:0", "L3:1")
				}
				it := fmt.Sprintf("%d,%s", r.Intn(3), e)
				advSuffix := ""
				if !hasHedge && (nb > 0 || nrl > 0) && r.Intn(3) == 0 {
					// time passes during the execution: a breaker's delay elapses between two attempts, a limiter's next permit becomes free
					advSuffix = fmt.Sprintf(",+%d", pick(r, 1, 10, 50, 99, 100, 101, 200, 1000))
				}
				// blocking outcomes must be released by something: an enclosing Timeout, or (hedge accepting any result) a
				// later attempt — at most maxHedges blocked attempts in the whole script keeps every hedge execution finite
				if hasMd {
					if (sleepCount < 1 || (sleepCount < 2 && !hasTimeout)) && r.Intn(5) == 0 {
						it += ",S"
						sleepCount++
					}
				} else if !hedgeOuter && (hasTimeout || (hasHedge && hedgeAny && blockedCount < hedgeMax)) && r.Intn(4) == 0 {
					it += ",B"
					if !blockedSeen {
						firstBlocked = i + 1
					}
					blockedSeen = true
					blockedCount++
				}
				parts = append(parts, it+advSuffix)
			}
			_ = blockedSeen
			st := "-"
			if len(parts) > 0 {
				st = strings.Join(parts, ";")
			}
			op := "run"
			if r.Intn(4) == 0 {
				op = "runa"
			}
			x := ""
			if (!blockedSeen && r.Intn(4) == 0) || (blockedSeen && !hasHedge && r.Intn(2) == 0) {
				// a scripted cancellation point (C08): inside the k-th invocation, inside the k-th OnRetryScheduled listener, or
				// before the start (only where no select races an already-cancelled context: no bulkhead / limiter / hedge)
				cause := "ctx"
				if op == "runa" && r.Intn(2) == 0 {
					cause = "async"
				}
				point := pick(r, "fn", "fn", "sched")
				if retryMuted {
					point = "fn" // the OnRetryScheduled listener is the cancellation point: it must exist
				}
				if blockedSeen {
					// after an attempt its Timeout cut short, only a later invocation is a cancellation point: the Timeout's
					// stored result stays the execution's cancel result until the next attempt is initialised, so a cancellation
					// in between is a second source in the same attempt (outside what C08 quantifies over)
					point = "fn"
				}
				if cause == "ctx" && nbh == 0 && nrl == 0 && !hasHedge && r.Intn(4) == 0 {
					point = "pre"
				}
				k := 1 + r.Intn(3)
				if blockedSeen && r.Intn(2) == 0 {
					// the invocation after the first one a Timeout cut short: the cancel result that Timeout stored must not
					// be what a cancellation in a later attempt reports (C07: the limit applies afresh to each attempt)
					k = firstBlocked + 1 + r.Intn(2)
				}
				x = fmt.Sprintf(" x=%s:%d:%s", point, k, cause)
			}
			emit(fmt.Sprintf("compose %s %s %s%s", op, pick(r, "-", "-", "k1", "k2", "''"), st, x))
		}
	}
}
