package main

import (
	"errors"
	"context"
	"fmt"
	"time"

	"github.com/failsafe-go/failsafe-go"
	"github.com/failsafe-go/failsafe-go/ratelimiter"
)

// blocking: real-time lower bounds for the blocking acquire paths of the rate limiter (C05: "a blocking acquire does
// not succeed before its wait has elapsed"). n sequential single-permit acquires on a fresh limiter cannot complete
// before the instant at which the n-th permit becomes usable.
func init() {
	commands["blocking"] = func(args []string) int {
		bad := 0
		type scenario struct {
			name    string
			mk      func() ratelimiter.RateLimiter[any]
			n       int
			minimum time.Duration
		}
		const I = 3 * time.Millisecond
		const P = 12 * time.Millisecond
		scs := []scenario{
			{"smooth", func() ratelimiter.RateLimiter[any] { return ratelimiter.SmoothBuilderWithMaxRate[any](I).WithMaxWaitTime(time.Second).Build() }, 15, 14 * I},
			{"bursty", func() ratelimiter.RateLimiter[any] { return ratelimiter.BurstyBuilder[any](2, P).WithMaxWaitTime(time.Second).Build() }, 9, 4 * P},
		}
		for _, sc := range scs {
			paths := map[string]func(l ratelimiter.RateLimiter[any]) error{
				"AcquirePermit":            func(l ratelimiter.RateLimiter[any]) error { return l.AcquirePermit(context.Background()) },
				"AcquirePermitNilCtx":      func(l ratelimiter.RateLimiter[any]) error { return l.AcquirePermit(nil) },
				"AcquirePermitWithMaxWait": func(l ratelimiter.RateLimiter[any]) error { return l.AcquirePermitWithMaxWait(context.Background(), time.Second) },
				"policy": func(l ratelimiter.RateLimiter[any]) error {
					return failsafe.Run(func() error { return nil }, failsafe.Policy[any](l))
				},
			}
			for pname, acquire := range paths {
				l := sc.mk()
				start := time.Now()
				var err error
				for i := 0; i < sc.n && err == nil; i++ {
					err = acquire(l)
				}
				el := time.Since(start)
				verdict := "ok"
				// the limiter's stopwatch started at Build(), slightly before `start`: allow that skew (well under 1ms)
				if err != nil {
					verdict = "ERROR:" + err.Error()
					bad++
				} else if el < sc.minimum-time.Millisecond {
					verdict = "EARLY"
					bad++
				}
				fmt.Printf("blocking %s/%s n=%d min_expected_ns=%d elapsed_ns=%d %s\n", sc.name, pname, sc.n, int64(sc.minimum), int64(el), verdict)
			}
		}
		// a caller whose context ends (deadline or cancel) before the wait has elapsed must get that context's error: it must
		// never be told that it acquired the permit before the instant at which the permit becomes usable
		const W = 80 * time.Millisecond
		ctxPaths := map[string]func(l ratelimiter.RateLimiter[any], ctx context.Context) error{
			"AcquirePermit":            func(l ratelimiter.RateLimiter[any], ctx context.Context) error { return l.AcquirePermit(ctx) },
			"AcquirePermits":           func(l ratelimiter.RateLimiter[any], ctx context.Context) error { return l.AcquirePermits(ctx, 1) },
			"AcquirePermitWithMaxWait": func(l ratelimiter.RateLimiter[any], ctx context.Context) error { return l.AcquirePermitWithMaxWait(ctx, time.Second) },
			"policy": func(l ratelimiter.RateLimiter[any], ctx context.Context) error {
				return failsafe.NewExecutor[any](failsafe.Policy[any](l)).WithContext(ctx).Run(func() error { return nil })
			},
		}
		for _, kind := range []string{"smooth", "bursty"} {
			for pname, acquire := range ctxPaths {
				for _, how := range []string{"deadline", "cancel"} {
					var l ratelimiter.RateLimiter[any]
					if kind == "smooth" {
						l = ratelimiter.SmoothBuilderWithMaxRate[any](W).WithMaxWaitTime(time.Second).Build()
					} else {
						l = ratelimiter.BurstyBuilder[any](1, W).WithMaxWaitTime(time.Second).Build()
					}
					l.TryAcquirePermit() // the next permit is usable one interval / period after the limiter was built
					var ctx context.Context
					var cancel context.CancelFunc
					if how == "deadline" {
						ctx, cancel = context.WithTimeout(context.Background(), 8*time.Millisecond)
					} else {
						ctx, cancel = context.WithCancel(context.Background())
						go func() { time.Sleep(8 * time.Millisecond); cancel() }()
					}
					start := time.Now()
					err := acquire(l, ctx)
					el := time.Since(start)
					cancel()
					verdict := "ok"
					if err == nil && el < W-15*time.Millisecond {
						verdict = "EARLY(acquired although its context ended first)"
						bad++
					} else if errors.Is(err, ratelimiter.ErrExceeded) {
						// told "refused": then the limiter must be exactly as if the request had never been made - the next permit
						// is the one that becomes usable one interval / period after the first (at most W away), not the one after
						if w := l.ReservePermit(); w > W+5*time.Millisecond {
							verdict = fmt.Sprintf("REFUSED-BUT-CONSUMED(next permit %v away, at most %v if the refusal had no effect)", w, W)
							bad++
						}
					}
					fmt.Printf("blocking %s/%s-ctx-%s n=1 min_expected_ns=%d elapsed_ns=%d %s\n", kind, pname, how, int64(W), int64(el), verdict)
				}
			}
		}
		if bad > 0 {
			return 1
		}
		return 0
	}
}
