package main

import (
	"context"
	"errors"
	"fmt"
	"strconv"
	"strings"

	"github.com/failsafe-go/failsafe-go"
	"github.com/failsafe-go/failsafe-go/bulkhead"
	"github.com/failsafe-go/failsafe-go/circuitbreaker"
	"github.com/failsafe-go/failsafe-go/ratelimiter"
	"github.com/failsafe-go/failsafe-go/retrypolicy"
	"github.com/failsafe-go/failsafe-go/timeout"
)

// Error trees of the line protocol:  L<id>:<ty>  W<id>:<ty>(<tree>)  J<id>:<ty>(<tree>,<tree>)  N<id>:<ty>(<tree>)  X(<val>,<tree>|-)
// (N: a custom aggregate whose Unwrap() []error is [nil, <tree>]; the model reads it as a wrapper of <tree>)
// Identities 1..6 are user errors whose dynamic type is fixed by the id; 100.. are the library's sentinels.

type ValErr struct{ ID int }

func (e ValErr) Error() string { return "val" + strconv.Itoa(e.ID) }

type PtrErr struct{ ID int }

func (e *PtrErr) Error() string { return "ptr" + strconv.Itoa(e.ID) }

type WrapErr struct {
	ID    int
	Inner error
}

func (e *WrapErr) Error() string { return "wrap" + strconv.Itoa(e.ID) }
func (e *WrapErr) Unwrap() error { return e.Inner }

type MultiErr struct {
	ID   int
	Errs []error
}

func (e *MultiErr) Error() string   { return "multi" + strconv.Itoa(e.ID) }
func (e *MultiErr) Unwrap() []error { return e.Errs }

const (
	tyPlain, tyVal, tyPtr, tyWrapC, tyMultiC, tyWrap, tyJoin, tyExceeded, tyDeadline = 0, 1, 2, 4, 5, 10, 11, 12, 13
)

var leafByID = map[int]error{
	1: errors.New("E1"), 2: errors.New("E2"), 3: ValErr{3}, 4: &PtrErr{4}, 7: errors.New("E7"), 8: ValErr{8}, 9: &PtrErr{9},
	100: circuitbreaker.ErrOpen, 101: bulkhead.ErrFull, 102: timeout.ErrExceeded, 103: ratelimiter.ErrExceeded,
	104: failsafe.ErrExecutionCanceled, 105: context.Canceled, 106: context.DeadlineExceeded, 107: retrypolicy.ErrExceeded,
}
var leafTy = map[int]int{1: tyPlain, 2: tyPlain, 3: tyVal, 4: tyPtr, 7: tyPlain, 8: tyVal, 9: tyPtr,
	100: tyPlain, 101: tyPlain, 102: tyPlain, 103: tyPlain, 104: tyPlain, 105: tyPlain, 106: tyDeadline, 107: tyPlain}

// custom wrappers / joins are created per id on demand and remembered, so that they can also be targets
var wrapByID = map[int]*WrapErr{}
var multiByID = map[int]*MultiErr{}

type treeParser struct {
	s string
	i int
}

func (p *treeParser) num() int {
	j := p.i
	if j < len(p.s) && p.s[j] == '-' {
		j++
	}
	for j < len(p.s) && p.s[j] >= '0' && p.s[j] <= '9' {
		j++
	}
	v, _ := strconv.Atoi(p.s[p.i:j])
	p.i = j
	return v
}

func (p *treeParser) expect(c byte) {
	if p.i < len(p.s) && p.s[p.i] == c {
		p.i++
		return
	}
	panic(fmt.Sprintf("bad tree %q at %d", p.s, p.i))
}

func (p *treeParser) tree() error {
	switch p.s[p.i] {
	case 'L':
		p.i++
		id := p.num()
		p.expect(':')
		p.num()
		e, ok := leafByID[id]
		if !ok {
			panic("unknown leaf id")
		}
		return e
	case 'W':
		p.i++
		id := p.num()
		p.expect(':')
		ty := p.num()
		p.expect('(')
		c := p.tree()
		p.expect(')')
		if ty == tyWrap {
			return fmt.Errorf("w%d: %w", id, c)
		}
		w := &WrapErr{ID: id, Inner: c}
		if old, ok := wrapByID[id]; ok {
			old.Inner = c
			return old
		}
		wrapByID[id] = w
		return w
	case 'J':
		p.i++
		id := p.num()
		p.expect(':')
		ty := p.num()
		p.expect('(')
		a := p.tree()
		p.expect(',')
		b := p.tree()
		p.expect(')')
		if ty == tyJoin {
			return errors.Join(a, b)
		}
		if old, ok := multiByID[id]; ok {
			old.Errs = []error{a, b}
			return old
		}
		m := &MultiErr{ID: id, Errs: []error{a, b}}
		multiByID[id] = m
		return m
	case 'N':
		// a custom aggregate error whose Unwrap() []error is [nil, child]
		p.i++
		id := p.num()
		p.expect(':')
		p.num()
		p.expect('(')
		c := p.tree()
		p.expect(')')
		if old, ok := multiByID[id]; ok {
			old.Errs = []error{nil, c}
			return old
		}
		m := &MultiErr{ID: id, Errs: []error{nil, c}}
		multiByID[id] = m
		return m
	case 'X':
		p.i++
		p.expect('(')
		lv := p.num()
		p.expect(',')
		var le error
		if p.s[p.i] == '-' {
			p.i++
		} else {
			le = p.tree()
		}
		p.expect(')')
		return retrypolicy.ExceededError{LastResult: lv, LastError: le}
	}
	panic(fmt.Sprintf("bad tree %q at %d", p.s, p.i))
}

func parseErrTree(s string) error {
	if s == "-" {
		return nil
	}
	p := &treeParser{s: s}
	return p.tree()
}

// errTreeStr canonicalises an error produced by the library back into protocol text.
func errTreeStr(err error) string {
	if err == nil {
		return "-"
	}
	for id, e := range leafByID {
		if id != 107 && e == err {
			return fmt.Sprintf("L%d:%d", id, leafTy[id])
		}
	}
	switch x := err.(type) {
	case retrypolicy.ExceededError:
		lv := 0
		if v, ok := x.LastResult.(int); ok {
			lv = v
		}
		return fmt.Sprintf("X(%d,%s)", lv, errTreeStr(x.LastError))
	case *WrapErr:
		return fmt.Sprintf("W%d:%d(%s)", x.ID, tyWrapC, errTreeStr(x.Inner))
	case *MultiErr:
		if x.Errs[0] == nil {
			return fmt.Sprintf("N%d:%d(%s)", x.ID, tyMultiC, errTreeStr(x.Errs[1]))
		}
		return fmt.Sprintf("J%d:%d(%s,%s)", x.ID, tyMultiC, errTreeStr(x.Errs[0]), errTreeStr(x.Errs[1]))
	case ValErr:
		return fmt.Sprintf("L%d:%d", x.ID, tyVal)
	}
	if u, ok := err.(interface{ Unwrap() []error }); ok && len(u.Unwrap()) == 2 {
		return fmt.Sprintf("J0:%d(%s,%s)", tyJoin, errTreeStr(u.Unwrap()[0]), errTreeStr(u.Unwrap()[1]))
	}
	if u, ok := err.(interface{ Unwrap() error }); ok {
		id := 0
		if s := err.Error(); strings.HasPrefix(s, "w") {
			fmt.Sscanf(s, "w%d:", &id)
		}
		return fmt.Sprintf("W%d:%d(%s)", id, tyWrap, errTreeStr(u.Unwrap()))
	}
	return "?" + strings.ReplaceAll(err.Error(), " ", "_")
}

// targetValue returns the error value used as a HandleErrors / AbortOnErrors target for an identity.
func targetValue(id int) error {
	if e, ok := leafByID[id]; ok {
		return e
	}
	if w, ok := wrapByID[id]; ok {
		return w
	}
	if m, ok := multiByID[id]; ok {
		return m
	}
	// wrappers that have not been built yet: create empty ones so that identity is stable
	if id >= 20 && id < 30 {
		wrapByID[id] = &WrapErr{ID: id}
		return wrapByID[id]
	}
	if id >= 30 && id < 40 {
		multiByID[id] = &MultiErr{ID: id}
		return multiByID[id]
	}
	panic("unknown target id " + strconv.Itoa(id))
}

// typeTarget returns a value of the dynamic type used as a HandleErrorTypes target; ptr selects the other of the two
// forms the library documents as equivalent (pointer vs non-pointer target).
func typeTarget(ty int, ptr bool) any {
	switch ty {
	case tyPlain:
		return errors.New("any")
	case tyVal:
		if ptr {
			return &ValErr{}
		}
		return ValErr{}
	case tyPtr:
		if ptr {
			return &PtrErr{}
		}
		return PtrErr{} // non-pointer target for an error implemented with pointer receivers
	case tyWrapC:
		if ptr {
			return WrapErr{}
		}
		return &WrapErr{}
	case tyMultiC:
		if ptr {
			return &MultiErr{}
		}
		return MultiErr{}
	case tyWrap:
		return fmt.Errorf("%w", errors.New("x"))
	case tyJoin:
		return errors.Join(errors.New("a"), errors.New("b"))
	case tyExceeded:
		if ptr {
			return &retrypolicy.ExceededError{}
		}
		return retrypolicy.ExceededError{}
	case tyDeadline:
		return context.DeadlineExceeded
	}
	panic("unknown type target")
}

// predicates shared with the model (Failsafe.Classify.predicate)
func predicate(id int) func(int, error) bool {
	switch id {
	case 0:
		return func(v int, err error) bool { return v == 1 }
	case 1:
		return func(v int, err error) bool { return err != nil && v == 0 }
	case 2:
		return func(v int, err error) bool { return errors.Is(err, leafByID[1]) }
	}
	return func(int, error) bool { return false }
}

// applyConds registers a condition list "I<id>,T<ty>,U<ty>,R<v>,P<id>" in order. Consecutive error (resp. type) conditions
// are registered with ONE variadic call, as users do (HandleErrors(a, b, c)). U<ty> is the pointer form of the type target.
var errDecoyTarget = errors.New("decoy target written into the caller's slice after the registration")

func applyConds(text string, onErrs func(...error), onTypes func(...any), onRes func(int), onPred func(func(int, error) bool)) {
	if text == "-" || text == "" {
		return
	}
	var errs []error
	var types []any
	flush := func() {
		if len(errs) > 0 {
			onErrs(errs...)
			// the caller's slice is the caller's: what it does with it afterwards must not reach the policy that was told the targets
			for i := range errs {
				errs[i] = errDecoyTarget
			}
			errs = nil
		}
		if len(types) > 0 {
			onTypes(types...)
			for i := range types {
				types[i] = errDecoyTarget
			}
			types = nil
		}
	}
	for _, p := range strings.Split(text, ",") {
		n, _ := strconv.Atoi(p[1:])
		switch p[0] {
		case 'E':
			// the error-list call with an empty list (a retryable-errors list from configuration that happens to be empty)
			flush()
			onErrs()
		case 'Y':
			flush()
			onTypes()
		case 'I':
			if len(types) > 0 {
				flush()
			}
			errs = append(errs, targetValue(n))
		case 'T', 'U':
			if len(errs) > 0 {
				flush()
			}
			types = append(types, typeTarget(n, p[0] == 'U'))
		case 'R':
			flush()
			onRes(n)
		case 'P':
			flush()
			onPred(predicate(n))
		}
	}
	flush()
}
