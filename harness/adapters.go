package main

import (
	"bytes"
	"context"
	"crypto/sha256"
	"crypto/x509"
	"errors"
	"fmt"
	"io"
	"math/rand"
	"net"
	"net/http"
	"net/http/httptest"
	"net/url"
	"sort"
	"strconv"
	"strings"
	"sync"
	"sync/atomic"
	"time"

	"github.com/failsafe-go/failsafe-go"
	"github.com/failsafe-go/failsafe-go/circuitbreaker"
	"github.com/failsafe-go/failsafe-go/failsafegrpc"
	"github.com/failsafe-go/failsafe-go/failsafehttp"
	"github.com/failsafe-go/failsafe-go/fallback"
	"github.com/failsafe-go/failsafe-go/hedgepolicy"
	"github.com/failsafe-go/failsafe-go/retrypolicy"
	"github.com/failsafe-go/failsafe-go/timeout"
	"google.golang.org/grpc"
	"google.golang.org/grpc/codes"
	"google.golang.org/grpc/metadata"
	"google.golang.org/grpc/status"
)

// adapters slice (C18): the HTTP and gRPC adapters observed from both ends.
//
//	adapters cls s <status>                                   => retry=<0|1>     (HTTP retry policy, fabricated response)
//	adapters cls e us=<b> url=<b> cert=<b> redir=<b> ua=<b> canc=<b>   => retry=<0|1>     (fabricated error with these features)
//	adapters delay <status|nil> <none|hdr:<escaped text>>     => <ns>            (failsafehttp.DelayFunc)
//	adapters gcls <code|plain|nil>                            => retry=<0|1>     (gRPC retry policy)
//	adapters merge a=<kind> b=<kind> fire=<a|b|fn|none>       => va=.. vb=.. vs=.. dl=.. done=.. cause=..
//	adapters http entry=<rt|req> body=<kind>:<size> rctx=<kind> ectx=<kind> stack=<p,p,..> srv=<a;a;..>
//	     => att=<n> fin=<status|error class> per-attempt fidelity flags, context view, returned body, gaps
//	adapters grpc side=<client|server> ctx=<kind> ectx=<kind> stack=<..> script=<code;code;..>
//	     => att=<n> fin=<code> pass=<ok|..> ctx=<..>
type adaptersSlice struct{}

func init() {
	slices["adapters"] = func() slice { return &adaptersSlice{} }
	generators["adapters"] = genAdapters
}

func (s *adaptersSlice) reset() {}

func b2i(b bool) int {
	if b {
		return 1
	}
	return 0
}

func kv(toks []string) map[string]string {
	m := map[string]string{}
	for _, t := range toks {
		if i := strings.Index(t, "="); i > 0 {
			m[t[:i]] = t[i+1:]
		}
	}
	return m
}

func (s *adaptersSlice) exec(t []string) string {
	switch t[0] {
	case "cls":
		return adaptersCls(t[1:])
	case "delay":
		return adaptersDelay(t[1:])
	case "gcls":
		return adaptersGcls(t[1:])
	case "merge":
		return adaptersMerge(kv(t[1:]))
	case "http":
		return adaptersHTTP(kv(t[1:]))
	case "grpc":
		return adaptersGRPC(kv(t[1:]))
	}
	return "bad-op"
}

// ---------------------------------------------------------------------------------------------------- classification

func fabricateErr(m map[string]string) error {
	on := func(k string) bool { return m[k] == "1" }
	msg := "boom"
	if on("us") {
		msg = "unsupported protocol scheme \"ftp\""
	}
	var inner error = errors.New(msg)
	if on("redir") {
		inner = errors.New(msg + " stopped after 10 redirects")
	}
	if on("ua") {
		inner = x509.UnknownAuthorityError{}
	}
	if on("canc") {
		inner = context.Canceled
	}
	if on("dl") {
		// what net/http's own per-attempt time-outs look like to errors.Is
		inner = fmt.Errorf("net/http: timeout awaiting response headers: %w", context.DeadlineExceeded)
	}
	if on("url") {
		u := "http://host/path"
		if on("cert") {
			u = "http://host/certificate is not trusted"
		}
		if on("us") && (on("ua") || on("canc") || on("dl")) {
			u += "/unsupported protocol scheme"
		}
		return &url.Error{Op: "Get", URL: u, Err: inner}
	}
	if on("cert") && !on("ua") && !on("canc") && !on("dl") {
		return errors.New("x: certificate is not trusted; " + inner.Error())
	}
	return inner
}

func adaptersCls(t []string) string {
	var resp *http.Response
	var err error
	if t[0] == "s" {
		resp = &http.Response{StatusCode: int(atoi(t[1])), Header: http.Header{}}
	} else {
		err = fabricateErr(kv(t[1:]))
	}
	inv := 0
	rp := failsafehttp.RetryPolicyBuilder().WithMaxRetries(1).Build()
	failsafe.Get(func() (*http.Response, error) { inv++; return resp, err }, rp)
	return fmt.Sprintf("retry=%d", inv-1)
}

func adaptersGcls(t []string) string {
	var err error
	switch t[0] {
	case "nil":
	case "plain":
		err = errors.New("plain")
	default:
		err = status.Error(codes.Code(atoi(t[0])), "scripted")
	}
	inv := 0
	rp := failsafegrpc.RetryPolicyBuilder[any]().WithMaxRetries(1).Build()
	failsafe.Get(func() (any, error) { inv++; return nil, err }, rp)
	return fmt.Sprintf("retry=%d", inv-1)
}

type stubAttempt struct{ resp *http.Response }

func (a *stubAttempt) Context() context.Context          { return context.Background() }
func (a *stubAttempt) Attempts() int                     { return 1 }
func (a *stubAttempt) Executions() int                   { return 1 }
func (a *stubAttempt) Retries() int                      { return 0 }
func (a *stubAttempt) Hedges() int                       { return 0 }
func (a *stubAttempt) StartTime() time.Time              { return time.Time{} }
func (a *stubAttempt) ElapsedTime() time.Duration        { return 0 }
func (a *stubAttempt) LastResult() *http.Response        { return a.resp }
func (a *stubAttempt) LastError() error                  { return nil }
func (a *stubAttempt) IsFirstAttempt() bool              { return true }
func (a *stubAttempt) IsRetry() bool                     { return false }
func (a *stubAttempt) IsHedge() bool                     { return false }
func (a *stubAttempt) AttemptStartTime() time.Time       { return time.Time{} }
func (a *stubAttempt) ElapsedAttemptTime() time.Duration { return 0 }

func unescape(s string) string {
	u, err := url.PathUnescape(s)
	if err != nil {
		return s
	}
	return u
}

func adaptersDelay(t []string) string {
	var resp *http.Response
	if t[0] != "nil" {
		resp = &http.Response{StatusCode: int(atoi(t[0])), Header: http.Header{}}
		if strings.HasPrefix(t[1], "hdr:") {
			resp.Header.Set("Retry-After", unescape(t[1][4:]))
		}
	}
	return strconv.FormatInt(int64(failsafehttp.DelayFunc(&stubAttempt{resp})), 10)
}

// ---------------------------------------------------------------------------------------------------- context merge

type ctxKey string

const (
	keyA      ctxKey = "ka"
	keyB      ctxKey = "kb"
	keyShared ctxKey = "shared"
)

var farDeadlineA = time.Now().Add(3 * time.Hour)
var farDeadlineB = time.Now().Add(5 * time.Hour)

// mkCtx builds a context of the given kind for side "a" (request / caller) or "b" (executor).
// kinds: bg todo val cancel deadline valcancel
func mkCtx(kind, side string) (context.Context, context.CancelFunc) {
	key, dl := keyA, farDeadlineA
	if side == "b" {
		key, dl = keyB, farDeadlineB
	}
	withVals := func(c context.Context) context.Context {
		return context.WithValue(context.WithValue(c, key, side), keyShared, side)
	}
	switch kind {
	case "bg":
		return context.Background(), func() {}
	case "todo":
		return context.TODO(), func() {}
	case "val":
		return withVals(context.Background()), func() {}
	case "cancel":
		return context.WithCancel(context.Background())
	case "valcancel":
		return context.WithCancel(withVals(context.Background()))
	case "deadline":
		return context.WithDeadline(withVals(context.Background()), dl)
	}
	panic("ctx kind " + kind)
}

func ctxView(c context.Context) string {
	sv := func(k ctxKey) string {
		if v, ok := c.Value(k).(string); ok {
			return v
		}
		return "-"
	}
	dl := "-"
	if d, ok := c.Deadline(); ok {
		switch {
		case d.Equal(farDeadlineA):
			dl = "a"
		case d.Equal(farDeadlineB):
			dl = "b"
		default:
			dl = "other"
		}
	}
	return fmt.Sprintf("va=%s vb=%s vs=%s dl=%s", sv(keyA), sv(keyB), sv(keyShared), dl)
}

func doneSoon(c context.Context, d time.Duration) bool {
	select {
	case <-c.Done():
		return true
	case <-time.After(d):
		return false
	}
}

// ---------------------------------------------------------------------------------------------------- HTTP end to end

type bodySpec struct {
	kind string
	size int
}

func payload(n int) []byte {
	// non-periodic content: a reordering or truncation never looks like a valid prefix
	b := make([]byte, n)
	x := uint32(2463534242)
	for i := range b {
		x ^= x << 13
		x ^= x >> 17
		x ^= x << 5
		b[i] = byte(x >> 11)
	}
	return b
}

// seekBody is a seekable stream body (what *os.File is to the adapter: io.ReadSeeker + io.Closer).
type seekBody struct {
	r      *bytes.Reader
	closed atomic.Int32
}

var errBodyClosed = errors.New("seekBody: file already closed")

func (s *seekBody) Read(p []byte) (int, error) {
	if s.closed.Load() > 0 {
		return 0, errBodyClosed // like *os.File: once closed, the body cannot be replayed
	}
	if len(p) > 1500 {
		p = p[:1500] // small reads, as a file or network source would give
	}
	return s.r.Read(p)
}
func (s *seekBody) Seek(o int64, w int) (int64, error) {
	if s.closed.Load() > 0 {
		return 0, errBodyClosed
	}
	return s.r.Seek(o, w)
}
func (s *seekBody) Close() error                        { s.closed.Add(1); return nil }

// streamBody is a plain (non-seekable) stream.
type streamBody struct {
	r      io.Reader
	closed atomic.Int32
	delay  time.Duration
	chunk  int
}

func (s *streamBody) Read(p []byte) (int, error) {
	lim := 1000
	if s.chunk > 0 {
		lim = s.chunk
		time.Sleep(s.delay)
	}
	if len(p) > lim {
		p = p[:lim]
	}
	return s.r.Read(p)
}
func (s *streamBody) Close() error { s.closed.Add(1); return nil }

type recvReq struct {
	method, path, hdr string
	body              []byte
	bodyErr           error
	at                time.Time
	clen              int64
}

type scriptedServer struct {
	mu      sync.Mutex
	script  []string
	reqs    []recvReq
	n       int
	gate    chan struct{} // closed when a second request's body has been read (hedge scripts)
	// lazy: the first request to arrive is not read before the second one has been read completely, and the second one is
	// not answered before the first one has been read: with a body larger than the socket buffers the two uploads overlap
	lazy      bool
	arrivals  atomic.Int32
	firstRead chan struct{}
	srv     *httptest.Server
	respond map[string][]byte
}

func respBody(tag string) []byte {
	switch tag {
	case "e":
		return nil
	case "L":
		return payload(200000)
	}
	return []byte("hello-" + tag)
}

// script element: <status>[r<retry-after text>][b<body tag>][s(treamed)]  |  err (connection dropped)  |  slow (responds after 400ms)
// | gate<status> (waits until another request has arrived and been read, then responds)
func (s *scriptedServer) handler(w http.ResponseWriter, r *http.Request) {
	arr := int(s.arrivals.Add(1)) - 1
	if s.lazy && arr == 0 {
		select {
		case <-s.gate:
		case <-time.After(5 * time.Second):
		}
	}
	body, berr := io.ReadAll(r.Body)
	if s.lazy && arr == 0 {
		close(s.firstRead)
	}
	s.mu.Lock()
	i := s.n
	s.n++
	hk := []string{}
	for k, v := range r.Header {
		if strings.HasPrefix(k, "X-") {
			hk = append(hk, k+"="+strings.Join(v, ","))
		}
	}
	sort.Strings(hk)
	s.reqs = append(s.reqs, recvReq{r.Method, r.URL.RequestURI(), strings.Join(hk, "&"), body, berr, time.Now(), r.ContentLength})
	el := "200"
	if i < len(s.script) {
		el = s.script[i]
	}
	if s.lazy {
		if arr == 1 {
			close(s.gate)
		}
	} else if i == 1 && s.gate != nil {
		close(s.gate)
	}
	s.mu.Unlock()
	if s.lazy && arr == 1 {
		select {
		case <-s.firstRead:
		case <-time.After(5 * time.Second):
		}
	}
	switch {
	case el == "err":
		if hj, ok := w.(http.Hijacker); ok {
			c, _, _ := hj.Hijack()
			c.Close()
		}
		return
	case el == "slow":
		select {
		case <-r.Context().Done():
		case <-time.After(400 * time.Millisecond):
		}
		w.WriteHeader(200)
		return
	case strings.HasPrefix(el, "gate"):
		select {
		case <-s.gate:
		case <-time.After(2 * time.Second):
		}
		el = el[4:]
	}
	st, ra, bt, streamed := parseEl(el)
	if ra != "" {
		w.Header().Set("Retry-After", unescape(ra))
	}
	w.WriteHeader(st)
	rb := respBody(bt)
	if !streamed {
		w.Write(rb)
		return
	}
	fl, _ := w.(http.Flusher)
	for off := 0; off < len(rb); {
		n := min(len(rb)-off, 1+len(rb)/4)
		w.Write(rb[off : off+n])
		if fl != nil {
			fl.Flush()
		}
		off += n
		time.Sleep(3 * time.Millisecond)
	}
}

func parseEl(el string) (st int, ra, bt string, streamed bool) {
	i := 0
	for i < len(el) && el[i] >= '0' && el[i] <= '9' {
		i++
	}
	st = int(atoi(el[:i]))
	rest := el[i:]
	bt = "x"
	for len(rest) > 0 {
		switch rest[0] {
		case 'r':
			j := strings.IndexAny(rest[1:], "bs")
			if j < 0 {
				ra, rest = rest[1:], ""
			} else {
				ra, rest = rest[1:1+j], rest[1+j:]
			}
		case 'b':
			bt, rest = rest[1:2], rest[2:]
		case 's':
			streamed, rest = true, rest[1:]
		default:
			rest = rest[1:]
		}
	}
	return
}

type ctxRecorder struct {
	next  http.RoundTripper
	mu    sync.Mutex
	views []string
	ctxs  []context.Context
}

func (c *ctxRecorder) RoundTrip(r *http.Request) (*http.Response, error) {
	c.mu.Lock()
	c.views = append(c.views, ctxView(r.Context()))
	c.ctxs = append(c.ctxs, r.Context())
	c.mu.Unlock()
	return c.next.RoundTrip(r)
}

func httpStack(spec string) ([]failsafe.Policy[*http.Response], string) {
	var ps []failsafe.Policy[*http.Response]
	if spec == "" || spec == "-" {
		return ps, ""
	}
	for _, p := range strings.Split(spec, ",") {
		switch {
		case strings.HasPrefix(p, "rp"):
			// rp<m> | rpl<m> (ReturnLastFailure), optional suffix b: an exponential backoff far below any Retry-After is configured
			// as well (the server's Retry-After must still be waited out: the delay function takes precedence)
			b := failsafehttp.RetryPolicyBuilder()
			q := p[2:]
			if strings.HasPrefix(q, "l") {
				b.ReturnLastFailure()
				q = q[1:]
			}
			if strings.HasSuffix(q, "b") {
				b.WithBackoff(2*time.Millisecond, 20*time.Millisecond)
				q = q[:len(q)-1]
			} else if strings.HasSuffix(q, "d") {
				// suffix d: a random delay is configured on the HTTP retry builder as well (the Retry-After still takes precedence)
				b.WithRandomDelay(time.Millisecond, 3*time.Millisecond)
				q = q[:len(q)-1]
			}
			ps = append(ps, b.WithMaxRetries(int(atoi(q))).Build())
		case p == "to":
			ps = append(ps, timeout.With[*http.Response](5*time.Second))
		case p == "tos":
			ps = append(ps, timeout.With[*http.Response](60*time.Millisecond))
		case p == "hp":
			ps = append(ps, hedgepolicy.BuilderWithDelay[*http.Response](5*time.Second).Build())
		case p == "hps":
			ps = append(ps, hedgepolicy.BuilderWithDelay[*http.Response](20*time.Millisecond).Build())
		case p == "cb":
			ps = append(ps, circuitbreaker.Builder[*http.Response]().WithFailureThreshold(50).Build())
		case p == "fb":
			ps = append(ps, fallback.BuilderWithFunc(func(e failsafe.Execution[*http.Response]) (*http.Response, error) {
				return &http.Response{StatusCode: 299, Header: http.Header{}, Body: io.NopCloser(strings.NewReader("fallback"))}, nil
			}).Build())
		default:
			panic("stack element " + p)
		}
	}
	return ps, spec
}

func errClass(err error) string {
	if err == nil {
		return "-"
	}
	var ex retrypolicy.ExceededError
	switch {
	case errors.As(err, &ex):
		inner := "-"
		if ex.LastError != nil {
			inner = errClass(ex.LastError)
		} else if r, ok := ex.LastResult.(*http.Response); ok && r != nil {
			inner = strconv.Itoa(r.StatusCode)
		}
		return "exceeded(" + inner + ")"
	case errors.Is(err, timeout.ErrExceeded):
		return "timeout"
	case errors.Is(err, failsafe.ErrExecutionCanceled):
		return "execcanceled"
	case errors.Is(err, circuitbreaker.ErrOpen):
		return "open"
	case errors.Is(err, context.Canceled):
		return "canceled"
	case errors.Is(err, context.DeadlineExceeded):
		return "deadline"
	case errors.Is(err, io.EOF) || errors.Is(err, io.ErrUnexpectedEOF) || strings.Contains(err.Error(), "EOF") || strings.Contains(err.Error(), "connection reset"):
		return "conn"
	}
	return "other:" + strings.ReplaceAll(err.Error(), " ", "_")
}

func adaptersHTTP(m map[string]string) string {
	script := strings.Split(m["srv"], ";")
	ss := &scriptedServer{script: script}
	if strings.Contains(m["srv"], "gate") {
		ss.gate = make(chan struct{})
		if m["lazy"] == "1" {
			ss.lazy, ss.firstRead = true, make(chan struct{})
		}
	}
	ss.srv = httptest.NewServer(http.HandlerFunc(ss.handler))
	defer ss.srv.Close()

	bk := strings.Split(m["body"], ":")
	bs := bodySpec{bk[0], 0}
	if len(bk) > 1 {
		bs.size = int(atoi(bk[1]))
	}
	content := payload(bs.size)
	method := "POST"
	var body io.Reader
	var direct io.ReadCloser
	var seek *seekBody
	var stream *streamBody
	switch bs.kind {
	case "none":
		method = "GET"
		content = nil
	case "nobody":
		direct = http.NoBody
		content = nil
	case "buf":
		body = bytes.NewBuffer(append([]byte{}, content...))
	case "rdr":
		body = bytes.NewReader(content)
	case "str":
		body = strings.NewReader(string(content))
	case "seek":
		seek = &seekBody{r: bytes.NewReader(content)}
		direct = seek
	case "seekoff":
		// a seekable body handed over after its first 10 bytes were consumed: the remaining bytes are the body
		seek = &seekBody{r: bytes.NewReader(content)}
		io.CopyN(io.Discard, seek, int64(min(10, len(content))))
		content = content[min(10, len(content)):]
		direct = seek
	case "stream":
		stream = &streamBody{r: bytes.NewReader(content)}
		direct = stream
	case "slowstream":
		// a plain stream that is produced slowly (slower than a hedge delay): attempts may overlap with its production
		stream = &streamBody{r: bytes.NewReader(content), delay: 8 * time.Millisecond, chunk: max(1, len(content)/6)}
		direct = stream
	default:
		panic("body kind " + bs.kind)
	}
	rctx, rcancel := mkCtx(m["rctx"], "a")
	defer rcancel()
	req, err := http.NewRequestWithContext(rctx, method, ss.srv.URL+"/p/q?x=1&y=2", body)
	if err != nil {
		return "newrequest-error"
	}
	if direct != nil {
		req.Body = direct
		if direct != http.NoBody {
			req.ContentLength = int64(len(content))
		}
	}
	req.Header.Set("X-One", "1")
	req.Header.Add("X-Two", "a")
	req.Header.Add("X-Two", "b")

	ps, _ := httpStack(m["stack"])
	ex := failsafe.NewExecutor[*http.Response](ps...)
	if m["ectx"] != "none" && m["ectx"] != "" {
		ectx, ecancel := mkCtx(m["ectx"], "b")
		defer ecancel()
		ex = ex.WithContext(ectx)
	}
	if m["cancel"] == "1" {
		// the caller gives up while the first attempt is in flight
		go func() { time.Sleep(30 * time.Millisecond); rcancel() }()
	}
	tr := &http.Transport{DisableKeepAlives: true} // no transparent re-sends by the transport on reused connections
	defer tr.CloseIdleConnections()
	rec := &ctxRecorder{next: tr}
	var resp *http.Response
	switch m["entry"] {
	case "req":
		resp, err = failsafehttp.NewRequestWithExecutor(req, &http.Client{Transport: rec}, ex).Do()
	default:
		resp, err = (&http.Client{Transport: failsafehttp.NewRoundTripperWithExecutor(rec, ex)}).Do(req)
	}

	fin, rbody := "", "-"
	var ex2 retrypolicy.ExceededError
	if err != nil {
		fin = errClass(err)
		if errors.As(err, &ex2) {
			if r, ok := ex2.LastResult.(*http.Response); ok && r != nil && r.Body != nil {
				resp = r
			}
		}
	} else {
		fin = strconv.Itoa(resp.StatusCode)
	}
	if resp != nil && resp.Body != nil {
		// read slowly, after the call has returned
		time.Sleep(2 * time.Millisecond)
		got, rerr := io.ReadAll(resp.Body)
		resp.Body.Close()
		st, _, bt, _ := parseEl(lastEl(script, ss.n))
		want := respBody(bt)
		if resp.StatusCode == 299 {
			want = []byte("fallback")
		}
		if resp.StatusCode == 204 {
			want = nil // No Content: net/http sends no body
		}
		_ = st
		switch {
		case rerr != nil:
			rbody = "readerr:" + errClass(rerr)
		case !bytes.Equal(got, want):
			rbody = fmt.Sprintf("mismatch(%d/%d)", len(got), len(want))
		default:
			rbody = "ok"
		}
	}
	// after the body was closed every attempt context must be done (released) — C19 side condition, reported separately
	time.Sleep(time.Millisecond)
	ss.mu.Lock()
	defer ss.mu.Unlock()
	var sb strings.Builder
	fmt.Fprintf(&sb, "att=%d fin=%s rbody=%s", len(ss.reqs), fin, rbody)
	wantHdr := "X-One=1&X-Two=a,b"
	gaps := []string{}
	for i, r := range ss.reqs {
		b := "ok"
		if r.bodyErr != nil {
			b = "err"
		} else if !bytes.Equal(r.body, content) {
			b = fmt.Sprintf("bad(%d/%d)", len(r.body), len(content))
		}
		fmt.Fprintf(&sb, " a%d=%s,%s,%s,%s", i, r.method, b2s(r.path == "/p/q?x=1&y=2", "url", "URL!"), b2s(r.hdr == wantHdr, "hdr", "HDR!"+r.hdr), b)
		if i > 0 {
			gaps = append(gaps, strconv.FormatInt(int64(r.at.Sub(ss.reqs[i-1].at)/time.Millisecond), 10))
		}
	}
	rec.mu.Lock()
	views := map[string]int{}
	for _, v := range rec.views {
		views[strings.ReplaceAll(v, " ", ",")]++
	}
	rec.mu.Unlock()
	vk := []string{}
	for k := range views {
		vk = append(vk, k)
	}
	sort.Strings(vk)
	fmt.Fprintf(&sb, " ctx=%s gaps=%s", strings.Join(vk, "|"), strings.Join(gaps, ","))
	return sb.String()
}

func lastEl(script []string, n int) string {
	if n == 0 {
		return "200"
	}
	if n-1 < len(script) {
		el := script[n-1]
		return strings.TrimPrefix(el, "gate")
	}
	return "200"
}

func b2s(b bool, t, f string) string {
	if b {
		return t
	}
	return f
}

func sha(b []byte) string { h := sha256.Sum256(b); return fmt.Sprintf("%x", h[:4]) }

// ---------------------------------------------------------------------------------------------------- merge

func adaptersMerge(m map[string]string) string {
	// observed through the gRPC client interceptor: the invoker receives MergeContexts(callerCtx, exec.Context())
	a, ca := mkCtx(m["a"], "a")
	defer ca()
	var b context.Context
	cb := func() {}
	ex := failsafe.NewExecutor[any]()
	if m["b"] != "none" {
		b, cb = mkCtx(m["b"], "b")
		ex = ex.WithContext(b)
	}
	defer cb()
	var view, doneAfter, cause string
	inter := failsafegrpc.NewUnaryClientInterceptorWithExecutor[any](ex)
	var seen context.Context
	err := inter(a, "/svc/m", "req", "reply", nil, func(ctx context.Context, method string, req, reply any, cc *grpc.ClientConn, opts ...grpc.CallOption) error {
		seen = ctx
		view = ctxView(ctx)
		pre := doneSoon(ctx, 0)
		switch m["fire"] {
		case "a":
			ca()
		case "b":
			cb()
		}
		d := doneSoon(ctx, 200*time.Millisecond)
		if m["fire"] == "none" {
			d = doneSoon(ctx, 5*time.Millisecond)
		}
		doneAfter = fmt.Sprintf("%d%d", b2i(pre), b2i(d))
		if ctx.Err() != nil {
			cause = errClass(ctx.Err())
		} else {
			cause = "-"
		}
		return nil
	})
	_ = err
	released := "-"
	if seen != nil && seen != a && (b == nil || seen != b) {
		released = strconv.Itoa(b2i(doneSoon(seen, 100*time.Millisecond)))
	}
	return fmt.Sprintf("%s done=%s err=%s released=%s", view, doneAfter, cause, released)
}

// ---------------------------------------------------------------------------------------------------- gRPC

type grpcReq struct{ N int }
type grpcReply struct{ V int }

func grpcStack(spec string) []failsafe.Policy[any] {
	var ps []failsafe.Policy[any]
	if spec == "" || spec == "-" {
		return ps
	}
	for _, p := range strings.Split(spec, ",") {
		switch {
		case strings.HasPrefix(p, "rp"):
			ps = append(ps, failsafegrpc.RetryPolicyBuilder[any]().WithMaxRetries(int(atoi(p[2:]))).Build())
		case p == "to":
			ps = append(ps, timeout.With[any](5*time.Second))
		case p == "hp":
			ps = append(ps, hedgepolicy.BuilderWithDelay[any](5*time.Second).Build())
		case p == "cb":
			ps = append(ps, circuitbreaker.Builder[any]().WithFailureThreshold(50).Build())
		default:
			panic("stack element " + p)
		}
	}
	return ps
}

func grpcErrClass(err error) string {
	if err == nil {
		return "ok"
	}
	var ex retrypolicy.ExceededError
	if errors.As(err, &ex) {
		return "exceeded(" + grpcErrClass(ex.LastError) + ")"
	}
	if s, ok := status.FromError(err); ok {
		return "c" + strconv.Itoa(int(s.Code()))
	}
	return "plain"
}

func adaptersGRPC(m map[string]string) string {
	script := strings.Split(m["script"], ";")
	ctx, cancel := mkCtx(m["ctx"], "a")
	defer cancel()
	ex := failsafe.NewExecutor[any](grpcStack(m["stack"])...)
	if m["ectx"] != "none" && m["ectx"] != "" {
		ectx, ecancel := mkCtx(m["ectx"], "b")
		defer ecancel()
		ex = ex.WithContext(ectx)
	}
	n := 0
	scriptErr := func() error {
		el := "ok"
		if n < len(script) {
			el = script[n]
		}
		n++
		switch el {
		case "ok":
			return nil
		case "plain":
			return errors.New("plain")
		}
		return status.Error(codes.Code(atoi(el)), "scripted")
	}
	pass := "ok"
	views := map[string]int{}
	var lastErr error
	var retErr error
	var retVal any
	req, reply := &grpcReq{7}, &grpcReply{}
	if m["side"] == "client" {
		ctx = metadata.NewOutgoingContext(ctx, metadata.Pairs("k", "out"))
		cc := &grpc.ClientConn{}
		opt := grpc.WaitForReady(true)
		inter := failsafegrpc.NewUnaryClientInterceptorWithExecutor[any](ex)
		retErr = inter(ctx, "/svc/method", req, reply, cc, func(c context.Context, method string, rq, rp any, cc2 *grpc.ClientConn, opts ...grpc.CallOption) error {
			md, _ := metadata.FromOutgoingContext(c)
			views[strings.ReplaceAll(ctxView(c), " ", ",")+",md="+strings.Join(md.Get("k"), "")]++
			if method != "/svc/method" || rq != any(req) || rp != any(reply) || cc2 != cc || len(opts) != 1 {
				pass = "args-changed"
			}
			rp.(*grpcReply).V = n + 1
			lastErr = scriptErr()
			return lastErr
		}, opt)
		if reply.V != n {
			pass = "reply-lost"
		}
	} else {
		ctx = metadata.NewIncomingContext(ctx, metadata.Pairs("k", "in"))
		inter := failsafegrpc.NewUnaryServerInterceptorWithExecutor[any](ex)
		info := &grpc.UnaryServerInfo{FullMethod: "/svc/method"}
		var lastResp any
		retVal, retErr = inter(ctx, req, info, func(c context.Context, rq any) (any, error) {
			md, _ := metadata.FromIncomingContext(c)
			views[strings.ReplaceAll(ctxView(c), " ", ",")+",md="+strings.Join(md.Get("k"), "")]++
			if rq != any(req) {
				pass = "args-changed"
			}
			lastErr = scriptErr()
			lastResp = &grpcReply{n}
			return lastResp, lastErr
		})
		var ex2 retrypolicy.ExceededError
		if !errors.As(retErr, &ex2) && retVal != lastResp {
			pass = "reply-lost"
		}
	}
	var ex2 retrypolicy.ExceededError
	if errors.As(retErr, &ex2) {
		if ex2.LastError != lastErr {
			pass = "error-changed"
		}
	} else if retErr != lastErr {
		pass = "error-changed"
	}
	vk := []string{}
	for k := range views {
		vk = append(vk, k)
	}
	sort.Strings(vk)
	return fmt.Sprintf("att=%d fin=%s pass=%s ctx=%s", n, grpcErrClass(retErr), pass, strings.Join(vk, "|"))
}

// ---------------------------------------------------------------------------------------------------- generator

func genAdapters(r *rand.Rand, n int, tier string, emit func(string) string) {
	id := 0
	newCase := func() { id++; emit(fmt.Sprintf("case adapters-%d", id)) }
	// exhaustive tables first (cheap, no network)
	newCase()
	for st := 100; st <= 599; st++ {
		emit(fmt.Sprintf("adapters cls s %d", st))
	}
	for _, st := range []int{0, 600, 999, -1} {
		emit(fmt.Sprintf("adapters cls s %d", st))
	}
	newCase()
	for mask := 0; mask < 128; mask++ {
		bit := func(i int) int { return (mask >> i) & 1 }
		us, u, cert, redir, ua, canc, dl := bit(0), bit(1), bit(2), bit(3), bit(4), bit(5), bit(6)
		special := ua + canc + dl // the inner error is one of these sentinels
		if special > 1 || (redir == 1 && special > 0) {
			continue // the redirect phrase must end the inner error's text; one sentinel at a time
		}
		if u == 0 && (us == 1 || cert == 1) && special > 0 {
			continue // a plain sentinel error cannot also carry the phrase
		}
		emit(fmt.Sprintf("adapters cls e us=%d url=%d cert=%d redir=%d ua=%d canc=%d dl=%d", us, u, cert, redir, ua, canc, dl))
	}
	newCase()
	hdrs := []string{"none", "hdr:0", "hdr:1", "hdr:7", "hdr:120", "hdr:-1", "hdr:-5", "hdr:+3", "hdr:%203", "hdr:3%20", "hdr:abc", "hdr:1.5", "hdr:1_0", "hdr:0x10",
		"hdr:", "hdr:007", "hdr:9223372036", "hdr:99999999999999999999", "hdr:Wed,%2021%20Oct%202015%2007:28:00%20GMT", "hdr:-", "hdr:+", "hdr:-0"}
	for _, st := range []string{"nil", "200", "429", "500", "502", "503", "504", "301"} {
		for _, h := range hdrs {
			emit(fmt.Sprintf("adapters delay %s %s", st, h))
		}
	}
	newCase()
	for c := 0; c <= 17; c++ {
		emit(fmt.Sprintf("adapters gcls %d", c))
	}
	emit("adapters gcls plain")
	emit("adapters gcls nil")
	newCase()
	kinds := []string{"bg", "todo", "val", "cancel", "valcancel", "deadline"}
	for _, a := range kinds {
		for _, b := range append([]string{"none"}, kinds...) {
			for _, f := range []string{"none", "a", "b"} {
				if f == "a" && !strings.Contains(a, "cancel") && a != "deadline" {
					continue
				}
				if f == "b" && !strings.Contains(b, "cancel") && b != "deadline" {
					continue
				}
				emit(fmt.Sprintf("adapters merge a=%s b=%s fire=%s", a, b, f))
			}
		}
	}
	// random end-to-end scenarios
	bodies := []string{"none", "nobody", "buf", "rdr", "str", "seek", "seekoff", "stream"}
	sizes := []int{0, 1, 11, 1000, 4096, 70000}
	if tier == "thorough" {
		sizes = append(sizes, 1<<20)
	}
	rctxs := []string{"bg", "todo", "val", "valcancel", "deadline"}
	ectxs := []string{"none", "none", "bg", "val", "valcancel", "deadline"}
	statuses := []string{"200", "200", "204", "301", "400", "404", "429", "500", "501", "502", "503", "504", "505", "511", "599"}
	for i := 0; i < n; i++ {
		newCase()
		bk := pick(r, bodies...)
		size := pick(r, sizes...)
		if bk == "none" || bk == "nobody" {
			size = 0
		}
		stackInner := pick(r, "", "", "to", "hp", "cb", "to,cb", "hp,to", "to,hp")
		m := r.Intn(4)
		rpk := pick(r, "rp", "rp", "rpl")
		stack := fmt.Sprintf("%s%d", rpk, m)
		backoff := r.Intn(3) == 0 && m > 0
		if backoff {
			stack += pick(r, "b", "d")
		}
		if stackInner != "" {
			stack += "," + stackInner
		}
		switch r.Intn(8) {
		case 0:
			stack = stackInner
			if stack == "" {
				stack = "-"
			}
		case 1:
			stack = "fb," + stack
		}
		var els []string
		ln := 1 + r.Intn(5)
		waited := false
		for j := 0; j < ln; j++ {
			el := pick(r, statuses...)
			if r.Intn(7) == 0 {
				el = "err"
			}
			if backoff && j == 0 {
				el = pick(r, "429", "503") // the first answer asks to come back later (Retry-After, below)
			}
			if el != "err" {
				if (el == "429" || el == "503") && (r.Intn(3) == 0 || (backoff && !waited)) {
					if !waited && (backoff || r.Intn(4) == 0) {
						el += "r1"
						waited = true
					} else {
						el += "r" + pick(r, "0", "0", "abc", "-1")
					}
				}
				el += "b" + pick(r, "x", "y", "e", "L")
				if r.Intn(3) == 0 {
					el += "s"
				}
			}
			els = append(els, el)
		}
		emit(fmt.Sprintf("adapters http entry=%s body=%s:%d rctx=%s ectx=%s stack=%s srv=%s", pick(r, "rt", "req"), bk, size,
			pick(r, rctxs...), pick(r, ectxs...), stack, strings.Join(els, ";")))
		// timed scenarios: a timeout that fires, a hedge that overlaps two attempts, a caller that gives up mid-attempt
		switch i % 5 {
		case 0:
			k := 1 + r.Intn(2)
			els := []string{}
			for j := 0; j < k; j++ {
				els = append(els, "slow")
			}
			els = append(els, pick(r, "200bx", "404by", "503be"))
			emit(fmt.Sprintf("adapters http entry=%s body=%s:%d rctx=%s ectx=%s stack=rp%d,tos srv=%s", pick(r, "rt", "req"), pick(r, "buf", "seek", "stream", "none"), pick(r, 0, 11, 4096),
				pick(r, rctxs...), pick(r, ectxs...), 1+r.Intn(3), strings.Join(els, ";")))
		case 1:
			bk := pick(r, "buf", "rdr", "str", "stream", "nobody", "slowstream", "slowstream")
			if i%10 == 1 {
				// two uploads of one buffered body that overlap in time: each attempt needs its own view of the buffer
				emit(fmt.Sprintf("adapters http entry=%s body=%s:%d rctx=%s ectx=%s stack=%s srv=gate200bx;200bx lazy=1", pick(r, "rt", "req"), pick(r, "buf", "rdr", "str", "stream"), 16<<20,
					pick(r, rctxs...), pick(r, ectxs...), pick(r, "hps", "hps,to")))
			} else {
				emit(fmt.Sprintf("adapters http entry=%s body=%s:%d rctx=%s ectx=%s stack=%s srv=gate200bx;200bx", pick(r, "rt", "req"), bk, pick(r, 1, 1000, 70000),
					pick(r, rctxs...), pick(r, ectxs...), pick(r, "hps", "rp1,hps", "hps,to")))
			}
		case 2:
			emit(fmt.Sprintf("adapters http entry=%s body=%s:%d rctx=%s ectx=%s stack=%s srv=slow;200bx cancel=1", pick(r, "rt", "req"), pick(r, "buf", "seek", "none"), pick(r, 0, 1000),
				pick(r, "valcancel", "deadline"), pick(r, ectxs...), pick(r, "rp2", "rp1,to", "rp2,hp", "fb,rp1")))
		}
		// gRPC
		gl := 1 + r.Intn(4)
		var gs []string
		for j := 0; j < gl; j++ {
			gs = append(gs, pick(r, "ok", "ok", "plain", "1", "2", "4", "8", "13", "14", "14", "16"))
		}
		gstack := fmt.Sprintf("rp%d", r.Intn(4))
		if x := pick(r, "", "to", "hp", "cb", "to,hp"); x != "" {
			gstack += "," + x
		}
		if r.Intn(6) == 0 {
			gstack = pick(r, "-", "to", "hp")
		}
		emit(fmt.Sprintf("adapters grpc side=%s ctx=%s ectx=%s stack=%s script=%s", pick(r, "client", "server"), pick(r, rctxs...), pick(r, ectxs...), gstack, strings.Join(gs, ";")))
	}
}

var _ = net.Dial
var _ = sha
