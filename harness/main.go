// harness: drives the real failsafe-go code (built from /repo's working tree with -tags verif) for the DIFF and TRACE ties.
//
//	harness gen  <slice> -seed S -n N [-tier quick|thorough]   print generated cases (operation lines only)
//	harness exec                                               read operation lines on stdin, execute them against the
//	                                                           implementation, print each line followed by " => <observation>"
//	harness run  <slice> -seed S -n N [-tier …]                gen | exec in one process
//	harness <other sub-commands>                               concurrent / adapter scenarios, see the respective files
package main

import (
	"bufio"
	"flag"
	"fmt"
	"math/rand"
	"os"
	"strings"
	"time"
)

// slice interprets the operation lines of one slice against the real implementation.
type slice interface {
	// reset is called at every `case` line.
	reset()
	// exec executes one operation (tokens after the slice name); it returns the canonical observation, or "" if the
	// operation has none.
	exec(toks []string) string
}

// generator writes the cases of one slice.
// generator writes the cases of one slice. emit returns the implementation's observation for the line when the harness is in
// `run` mode (online generation may steer towards boundaries using it) and "" in `gen` mode.
type generator func(r *rand.Rand, n int, tier string, emit func(string) string)

var slices = map[string]func() slice{}
var generators = map[string]generator{}

type executor struct {
	live map[string]slice
	out  *bufio.Writer
}

// line executes one protocol line, prints it (with its observation) and returns the observation.
func (e *executor) line(line string) string {
	if i := strings.Index(line, " => "); i >= 0 {
		line = line[:i]
	}
	toks := strings.Fields(line)
	if len(toks) == 0 {
		return ""
	}
	if toks[0] == "case" {
		for _, s := range e.live {
			s.reset()
		}
		fmt.Fprintln(e.out, line)
		return ""
	}
	mk, ok := slices[toks[0]]
	if !ok {
		fmt.Fprintln(e.out, line+" => unknown-slice")
		return "unknown-slice"
	}
	s, ok := e.live[toks[0]]
	if !ok {
		s = mk()
		e.live[toks[0]] = s
	}
	obs, hung := safeExec(s, toks[1:])
	if hung {
		// the operation is still running on its own goroutine: abandon this slice instance
		delete(e.live, toks[0])
	}
	if obs == "" {
		fmt.Fprintln(e.out, line)
	} else {
		fmt.Fprintln(e.out, line+" => "+obs)
	}
	return obs
}

func execStream(in *bufio.Scanner, out *bufio.Writer) {
	e := &executor{live: map[string]slice{}, out: out}
	for in.Scan() {
		e.line(strings.TrimRight(in.Text(), "\r\n"))
	}
}

// opWatchdog bounds one protocol operation: an implementation that no longer terminates on a case (an unlimited retry loop
// whose stop condition was lost, a wait nobody wakes) is reported as the observation "hang" instead of stalling the run.
var opWatchdog = 20 * time.Second

func safeExec(s slice, toks []string) (obs string, hung bool) {
	done := make(chan string, 1)
	go func() {
		defer func() {
			if r := recover(); r != nil {
				done <- strings.ReplaceAll(fmt.Sprintf("panic:%v", r), "\n", " ")
			}
		}()
		done <- s.exec(toks)
	}()
	select {
	case o := <-done:
		return o, false
	case <-time.After(opWatchdog):
		return fmt.Sprintf("hang: the operation did not return within %v", opWatchdog), true
	}
}

func main() {
	if len(os.Args) < 2 {
		fmt.Fprintln(os.Stderr, "usage: harness gen|exec|run|… ")
		os.Exit(2)
	}
	cmd := os.Args[1]
	out := bufio.NewWriterSize(os.Stdout, 1<<20)
	defer out.Flush()
	switch cmd {
	case "exec":
		sc := bufio.NewScanner(os.Stdin)
		sc.Buffer(make([]byte, 1<<20), 1<<26)
		execStream(sc, out)
	case "gen", "run":
		if len(os.Args) < 3 {
			fmt.Fprintln(os.Stderr, "usage: harness gen|run <slice> -seed S -n N")
			os.Exit(2)
		}
		name := os.Args[2]
		fs := flag.NewFlagSet(cmd, flag.ExitOnError)
		seed := fs.Int64("seed", 1, "PRNG seed")
		n := fs.Int("n", 100, "number of cases")
		tier := fs.String("tier", "quick", "quick|thorough")
		fs.Parse(os.Args[3:])
		g, ok := generators[name]
		if !ok {
			fmt.Fprintln(os.Stderr, "unknown slice", name)
			os.Exit(2)
		}
		r := rand.New(rand.NewSource(*seed))
		if cmd == "gen" {
			g(r, *n, *tier, func(l string) string { fmt.Fprintln(out, l); return "" })
			return
		}
		e := &executor{live: map[string]slice{}, out: out}
		g(r, *n, *tier, e.line)
	default:
		if f, ok := commands[cmd]; ok {
			out.Flush()
			os.Exit(f(os.Args[2:]))
		}
		fmt.Fprintln(os.Stderr, "unknown command", cmd)
		os.Exit(2)
	}
}

// commands are the non-line-protocol sub-commands (stress, trace, adapters …).
var commands = map[string]func(args []string) int{}

func pick[T any](r *rand.Rand, xs ...T) T { return xs[r.Intn(len(xs))] }
