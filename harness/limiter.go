package main

import (
	"context"
	"fmt"
	"math/rand"
	"strconv"
	"time"

	"github.com/failsafe-go/failsafe-go/ratelimiter"
)

// limiter slice: the real rate limiter behind the virtual stopwatch hook.
//
//	limiter cfg smooth <intervalNs> | cfg smoothp <maxExecutions> <periodNs> | cfg bursty <permits> <periodNs>
//	limiter t <ns>                      set the virtual stopwatch
//	limiter acq <k> <maxWaitNs|-1>      ReservePermits(k) when maxWait = -1, else TryReservePermits(k, maxWait)  => wait | -1
//	limiter try <k>                     TryAcquirePermits(k)                                                   => true | false
type limiterSlice struct {
	l   ratelimiter.RateLimiter[any]
	now time.Duration
}

func init() {
	slices["limiter"] = func() slice { return &limiterSlice{} }
	generators["limiter"] = genLimiter
}

func (s *limiterSlice) reset() { s.l = nil; s.now = 0 }

func atoi(s string) int64 { v, _ := strconv.ParseInt(s, 10, 64); return v }

func (s *limiterSlice) exec(t []string) string {
	switch t[0] {
	case "cfg":
		if t[1] == "smooth" {
			s.l = ratelimiter.SmoothBuilderWithMaxRate[any](time.Duration(atoi(t[2]))).Build()
		} else if t[1] == "smoothp" {
			// the (max executions, period) constructor: one permit per period / maxExecutions, also when that does not divide evenly
			s.l = ratelimiter.SmoothBuilder[any](uint(atoi(t[2])), time.Duration(atoi(t[3]))).Build()
		} else {
			s.l = ratelimiter.BurstyBuilder[any](uint(atoi(t[2])), time.Duration(atoi(t[3]))).Build()
		}
		s.now = 0
		ratelimiter.VerifSetStopwatch(s.l, func() time.Duration { return s.now })
		return ""
	case "t":
		s.now = time.Duration(atoi(t[1]))
		return ""
	case "acq":
		k, mw := uint(atoi(t[1])), atoi(t[2])
		if mw == -1 {
			return strconv.FormatInt(int64(s.l.ReservePermits(k)), 10)
		}
		return strconv.FormatInt(int64(s.l.TryReservePermits(k, time.Duration(mw))), 10)
	case "try":
		return strconv.FormatBool(s.l.TryAcquirePermits(uint(atoi(t[1]))))
	case "bacq":
		// a blocking AcquirePermits whose context is cancelled 5 ms (real time) into the wait; the stopwatch is frozen, so the wait
		// is the model's: 0 (acquired at once) or at least a quarter of a 10 s unit (cancelled). The reservation it made stays.
		ctx, cancel := context.WithCancel(context.Background())
		go func() { time.Sleep(5 * time.Millisecond); cancel() }()
		err := s.l.AcquirePermits(ctx, uint(atoi(t[1])))
		cancel()
		if err == nil {
			return "ok"
		}
		return "canceled"
	}
	return "bad-op"
}

func genLimiter(r *rand.Rand, n int, tier string, emit func(string) string) {
	ops := 60
	if tier == "thorough" {
		ops = 300
	}
	units := []int64{1, 3, 7, 10, 100, 1000, 1e6, 25e6, 1e9, 60e9, 3600e9}
	// cases with blocking acquires that are cancelled while waiting: unit 10 s, instants on quarter units, so that every wait is
	// either 0 or at least 2.5 s (never waited out: the context is cancelled after 5 ms)
	for c := 0; c < max(2, n/10); c++ {
		emit(fmt.Sprintf("case limiter-blocking-%d", c))
		const unit = int64(10e9)
		pp := pick(r, int64(1), 2, 3)
		if r.Intn(2) == 0 {
			if mx := int64(2 + r.Intn(9)); r.Intn(4) == 0 && unit >= 2 {
				// the same limiter through the (max executions, period) constructor, with a period that leaves a remainder
				emit(fmt.Sprintf("limiter cfg smoothp %d %d", mx, unit*mx+int64(r.Intn(int(mx)))))
			} else {
				emit(fmt.Sprintf("limiter cfg smooth %d", unit))
			}
		} else {
			emit(fmt.Sprintf("limiter cfg bursty %d %d", pp, unit))
		}
		var now int64
		for i := 0; i < 12; i++ {
			now += unit / 4 * int64(r.Intn(4))
			emit(fmt.Sprintf("limiter t %d", now))
			switch r.Intn(4) {
			case 0:
				emit(fmt.Sprintf("limiter bacq %d", pick(r, int64(1), 1, 2, pp)))
			case 1:
				emit(fmt.Sprintf("limiter try %d", pick(r, int64(1), pp)))
			default:
				emit(fmt.Sprintf("limiter acq %d %d", pick(r, int64(1), 1, 2, pp+1), pick(r, int64(-1), -1, 0, unit)))
			}
		}
	}
	for c := 0; c < n; c++ {
		emit(fmt.Sprintf("case limiter-%d", c))
		var unit int64 // slot or period length
		var pp int64 = 1
		if r.Intn(2) == 0 {
			unit = pick(r, units...)
			if mx := int64(2 + r.Intn(9)); r.Intn(4) == 0 && unit >= 2 {
				// the same limiter through the (max executions, period) constructor, with a period that leaves a remainder
				emit(fmt.Sprintf("limiter cfg smoothp %d %d", mx, unit*mx+int64(r.Intn(int(mx)))))
			} else {
				emit(fmt.Sprintf("limiter cfg smooth %d", unit))
			}
		} else {
			unit = pick(r, units...)
			pp = pick(r, int64(1), 2, 3, 5, 10, 100)
			emit(fmt.Sprintf("limiter cfg bursty %d %d", pp, unit))
		}
		var now int64
		lastWait := int64(0)
		for i := 0; i < ops; i++ {
			// advance the clock: boundary-biased
			switch r.Intn(10) {
			case 0, 1, 2: // stay
			case 3:
				now++
			case 4: // next boundary exactly
				now = (now/unit + 1) * unit
			case 5: // just before the next boundary
				if nb := (now/unit+1)*unit - 1; nb > now {
					now = nb
				}
			case 6: // just after
				now = (now/unit+1)*unit + 1
			case 7: // long idle gap (after a possible deficit)
				now += unit * int64(1+r.Intn(50))
			case 8: // to the end of the last returned wait, ±1
				if lastWait > 0 {
					now += lastWait + int64(r.Intn(3)) - 1
				}
			default:
				now += r.Int63n(unit*3 + 1)
			}
			if now < 0 {
				now = 0
			}
			emit(fmt.Sprintf("limiter t %d", now))
			k := pick(r, int64(1), 1, 1, 2, 3, pp, pp+1, 2*pp, 3*pp+1, int64(r.Intn(50)), 0)
			var mw int64
			switch r.Intn(9) {
			case 8:
				mw = -2 - r.Int63n(unit) // a spent time budget (time.Until(deadline) after the deadline): negative, and not the "no limit" value
			case 0, 1:
				mw = -1
			case 2, 3:
				mw = 0
			case 4:
				mw = unit - 1
			case 5:
				mw = unit
			case 6:
				mw = (now/unit+1)*unit - now // exactly the time to the next boundary
			default:
				mw = r.Int63n(unit*int64(k+2) + 1)
			}
			if r.Intn(6) == 0 {
				emit(fmt.Sprintf("limiter try %d", k))
			} else if w := atoi(emit(fmt.Sprintf("limiter acq %d %d", k, mw))); w > 0 {
				lastWait = w
			}
		}
	}
}
