package main

import (
	"fmt"
	"math/rand"
	"strings"
	"time"

	"github.com/failsafe-go/failsafe-go"
	"github.com/failsafe-go/failsafe-go/circuitbreaker"
	"github.com/failsafe-go/failsafe-go/fallback"
	"github.com/failsafe-go/failsafe-go/hedgepolicy"
	"github.com/failsafe-go/failsafe-go/retrypolicy"
)

// classify slice: failure / abort / cancel classification observed through the real policies.
//
//	classify cfg <handle conds> <abort conds>
//	classify o <val> <errtree|->  => fb=<0|1> cb=<0|1> cr=<0|1> rp=<F0|F1A0|F1A1> hp=<0|1>
//
// fb: a fallback with the handle conditions replaced the outcome; cb: a breaker with them counted a failure;
// rp: a retry policy (maxRetries 1) with handle+abort conditions: not a failure / failure retried / failure aborted;
// hp: a hedge policy with the abort conditions as cancel conditions accepted the first result (1) or hedged (0).
type classifySlice struct {
	handle, abort string
	// the policies live as long as the configuration: classification must not depend on what a policy has seen before
	fb      fallback.Fallback[int]
	cb      circuitbreaker.CircuitBreaker[int]
	cbB     circuitbreaker.CircuitBreakerBuilder[int]
	rp      retrypolicy.RetryPolicy[int]
	hp      hedgepolicy.HedgePolicy[int]
	aborted bool
	hedged  bool
}

func init() {
	slices["classify"] = func() slice { return &classifySlice{} }
	generators["classify"] = genClassify
}

func (s *classifySlice) reset() {}

func (s *classifySlice) exec(t []string) string {
	switch t[0] {
	case "cfg":
		s.handle, s.abort = t[1], t[2]
		fbB := fallback.BuilderWithResult[int](7777)
		applyConds(s.handle, func(e ...error) { fbB.HandleErrors(e...) }, func(a ...any) { fbB.HandleErrorTypes(a...) }, func(r int) { fbB.HandleResult(r) }, func(p func(int, error) bool) { fbB.HandleIf(p) })
		s.fb = fbB.Build()
		cbB := circuitbreaker.Builder[int]().WithFailureThreshold(100)
		applyConds(s.handle, func(e ...error) { cbB.HandleErrors(e...) }, func(a ...any) { cbB.HandleErrorTypes(a...) }, func(r int) { cbB.HandleResult(r) }, func(p func(int, error) bool) { cbB.HandleIf(p) })
		s.cbB, s.cb = cbB, cbB.Build()
		rpB := retrypolicy.Builder[int]().WithMaxRetries(1)
		applyConds(s.handle, func(e ...error) { rpB.HandleErrors(e...) }, func(a ...any) { rpB.HandleErrorTypes(a...) }, func(r int) { rpB.HandleResult(r) }, func(p func(int, error) bool) { rpB.HandleIf(p) })
		applyConds(s.abort, func(e ...error) { rpB.AbortOnErrors(e...) }, func(a ...any) { rpB.AbortOnErrorTypes(a...) }, func(r int) { rpB.AbortOnResult(r) }, func(p func(int, error) bool) { rpB.AbortIf(p) })
		rpB.OnAbort(func(failsafe.ExecutionEvent[int]) { s.aborted = true })
		s.rp = rpB.Build()
		// the hedge delay must comfortably exceed the time an instant attempt needs to deliver its result
		hpB := hedgepolicy.BuilderWithDelay[int](20 * time.Millisecond).WithMaxHedges(1)
		applyConds(s.abort, func(e ...error) { hpB.CancelOnErrors(e...) }, func(a ...any) { hpB.CancelOnErrorTypes(a...) }, func(r int) { hpB.CancelOnResult(r) }, func(p func(int, error) bool) { hpB.CancelIf(p) })
		hpB.OnHedge(func(failsafe.ExecutionEvent[int]) { s.hedged = true })
		s.hp = hpB.Build()
		return ""
	case "deep":
		// result conditions compare by deep equality: a result that is a distinct allocation with equal contents matches
		return deepRow(t[1], t[2] == "eq")
	case "o", "oh":
		val := int(atoi(t[1]))
		err := parseErrTree(t[2])
		fn := func() (int, error) { return val, err }

		fbApplied := 0
		if r, _ := failsafe.Get(fn, s.fb); r == 7777 {
			fbApplied = 1
		}

		before := s.cb.Metrics().Failures()
		failsafe.Get(fn, failsafe.Policy[int](s.cb))
		cbFail := int(s.cb.Metrics().Failures() - before)
		// the standalone recording API classifies (zero, err) resp. (val, nil)
		cbB := s.cbB
		cb2 := cbB.Build()
		if err != nil {
			cb2.RecordError(err)
		} else {
			cb2.RecordResult(val)
		}
		crFail := int(cb2.Metrics().Failures())
		if err == nil {
			// RecordError(nil) classifies the outcome (zero result, nil error): it must agree with RecordResult(0) when val == 0
			cb3 := cbB.Build()
			cb3.RecordError(nil)
			cb4 := cbB.Build()
			cb4.RecordResult(0)
			if cb3.Metrics().Failures() != cb4.Metrics().Failures() {
				crFail = 900 + int(cb3.Metrics().Failures())*10 + int(cb4.Metrics().Failures())
			}
		}

		s.aborted = false
		inv := 0
		failsafe.Get(func() (int, error) { inv++; return val, err }, s.rp)
		rp := "F0"
		if s.aborted {
			rp = "F1A1"
		} else if inv == 2 {
			rp = "F1A0"
		}

		hp := "-"
		if t[0] == "oh" {
			s.hedged = false
			failsafe.Get(func() (int, error) { return val, err }, s.hp)
			hp = "1"
			if s.hedged {
				hp = "0"
			}
		}
		return fmt.Sprintf("fb=%d cb=%d cr=%d rp=%s hp=%s", fbApplied, cbFail, crFail, rp, hp)
	}
	return "bad-op"
}

func genErrTree(r *rand.Rand, depth int, used map[int]bool) string {
	leafIDs := []int{1, 2, 3, 4, 7, 8, 9, 100, 101, 102, 103, 104, 105, 106}
	if depth <= 0 || r.Intn(3) == 0 {
		id := pick(r, leafIDs...)
		return fmt.Sprintf("L%d:%d", id, leafTy[id])
	}
	switch r.Intn(7) {
	case 6:
		// a custom aggregate ("one slot per worker") whose first slot is nil: the members behind the nil slot still count
		id := 30 + r.Intn(3)
		if used[id] {
			return genErrTree(r, 0, used)
		}
		used[id] = true
		return fmt.Sprintf("N%d:%d(%s)", id, tyMultiC, genErrTree(r, depth-1, used))
	case 0:
		return fmt.Sprintf("W%d:%d(%s)", 10+r.Intn(3), tyWrap, genErrTree(r, depth-1, used))
	case 1:
		// a custom wrapper object (which may also be a target) occurs at most once per tree
		id := 20 + r.Intn(3)
		if used[id] {
			return genErrTree(r, 0, used)
		}
		used[id] = true
		return fmt.Sprintf("W%d:%d(%s)", id, tyWrapC, genErrTree(r, depth-1, used))
	case 2:
		return fmt.Sprintf("J0:%d(%s,%s)", tyJoin, genErrTree(r, depth-1, used), genErrTree(r, depth-1, used))
	case 3:
		id := 30 + r.Intn(3)
		if used[id] {
			return genErrTree(r, 0, used)
		}
		used[id] = true
		return fmt.Sprintf("J%d:%d(%s,%s)", id, tyMultiC, genErrTree(r, depth-1, used), genErrTree(r, depth-1, used))
	case 4:
		return fmt.Sprintf("X(%d,%s)", r.Intn(3), genErrTree(r, depth-1, used))
	default:
		return fmt.Sprintf("X(%d,-)", r.Intn(3))
	}
}

func genCondList(r *rand.Rand) string {
	n := r.Intn(5)
	if r.Intn(4) == 0 {
		n = 0
	}
	var cs []string
	if r.Intn(8) == 0 {
		cs = append(cs, pick(r, "E0", "Y0")) // HandleErrors() / HandleErrorTypes() with an empty target list: configures no condition
		if r.Intn(2) == 0 {
			n = 0
		}
	}
	for i := 0; i < n; i++ {
		switch r.Intn(4) {
		case 0:
			cs = append(cs, fmt.Sprintf("I%d", pick(r, 1, 2, 3, 4, 8, 9, 20, 21, 30, 100, 101, 102, 103, 105, 106, 107)))
		case 1:
			cs = append(cs, fmt.Sprintf("%s%d", pick(r, "T", "T", "U"), pick(r, tyPlain, tyVal, tyPtr, tyWrapC, tyMultiC, tyWrap, tyJoin, tyExceeded, tyDeadline)))
		case 2:
			cs = append(cs, fmt.Sprintf("R%d", r.Intn(3)))
		default:
			cs = append(cs, fmt.Sprintf("P%d", r.Intn(3)))
		}
	}
	if len(cs) == 0 {
		return "-"
	}
	return strings.Join(cs, ",")
}

func genClassify(r *rand.Rand, n int, tier string, emit func(string) string) {
	outcomes := 12
	if tier == "thorough" {
		outcomes = 40
	}
	for c := 0; c < n; c++ {
		emit(fmt.Sprintf("case classify-%d", c))
		emit(fmt.Sprintf("classify cfg %s %s", genCondList(r), genCondList(r)))
		emit(fmt.Sprintf("classify deep %s %s", pick(r, "ptr", "slice", "map", "holder", "iface", "string"), pick(r, "eq", "ne")))
		for i := 0; i < outcomes; i++ {
			e := "-"
			if r.Intn(3) != 0 {
				e = genErrTree(r, 3, map[int]bool{})
			}
			op := "o"
			if r.Intn(5) == 0 {
				op = "oh"
			}
			emit(fmt.Sprintf("classify %s %d %s", op, r.Intn(3), e))
		}
	}
}

type deepPt struct {
	A int
	B []int
}

type deepHolder struct {
	P *deepPt
	S string
}

// deepObserve runs (outcome, nil) through a retry policy (HandleResult, AbortOnResult), a breaker and a fallback configured
// with the target result, for result type R.
func deepObserve[R any](target, outcome R, fbVal R, isFb func(R) bool) string {
	fn := func() (R, error) { return outcome, nil }
	inv := 0
	failsafe.Get(func() (R, error) { inv++; return outcome, nil }, retrypolicy.Builder[R]().WithMaxRetries(1).HandleResult(target).Build())
	aborted := false
	failsafe.Get(fn, retrypolicy.Builder[R]().WithMaxRetries(1).HandleIf(func(R, error) bool { return true }).AbortOnResult(target).
		OnAbort(func(failsafe.ExecutionEvent[R]) { aborted = true }).Build())
	cb := circuitbreaker.Builder[R]().WithFailureThreshold(10).HandleResult(target).Build()
	failsafe.Get(fn, failsafe.Policy[R](cb))
	r, _ := failsafe.Get(fn, fallback.BuilderWithResult[R](fbVal).HandleResult(target).Build())
	// a hedge policy with the target as its cancel condition accepts a matching first result at once (no hedge is started)
	hedged := false
	failsafe.Get(fn, hedgepolicy.BuilderWithDelay[R](20*time.Millisecond).WithMaxHedges(1).CancelOnResult(target).
		OnHedge(func(failsafe.ExecutionEvent[R]) { hedged = true }).Build())
	b := func(x bool) int {
		if x {
			return 1
		}
		return 0
	}
	return fmt.Sprintf("rp=%d ab=%d cb=%d fb=%d hp=%d", b(inv == 2), b(aborted), cb.Metrics().Failures(), b(isFb(r)), b(!hedged))
}

func deepRow(kind string, eq bool) string {
	switch kind {
	case "ptr":
		out := &deepPt{1, []int{2, 3}}
		if !eq {
			out = &deepPt{1, []int{2, 4}}
		}
		fbv := &deepPt{A: 99}
		return deepObserve(&deepPt{1, []int{2, 3}}, out, fbv, func(r *deepPt) bool { return r == fbv })
	case "slice":
		out := []int{1, 2, 3}
		if !eq {
			out = []int{1, 2}
		}
		return deepObserve([]int{1, 2, 3}, out, []int{99}, func(r []int) bool { return len(r) == 1 && r[0] == 99 })
	case "map":
		out := map[string]int{"a": 1}
		if !eq {
			out = map[string]int{"a": 2}
		}
		return deepObserve(map[string]int{"a": 1}, out, map[string]int{"fb": 1}, func(r map[string]int) bool { return r["fb"] == 1 })
	case "holder":
		// a comparable struct that holds a pointer
		out := deepHolder{&deepPt{A: 5}, "x"}
		if !eq {
			out = deepHolder{&deepPt{A: 6}, "x"}
		}
		return deepObserve(deepHolder{&deepPt{A: 5}, "x"}, out, deepHolder{S: "fb"}, func(r deepHolder) bool { return r.S == "fb" })
	case "iface":
		var target, out any = &deepPt{A: 7}, &deepPt{A: 7}
		if !eq {
			out = &deepPt{A: 8}
		}
		return deepObserve(target, out, any("fb"), func(r any) bool { return r == "fb" })
	case "string":
		out := strings.Repeat("ab", 3)
		if !eq {
			out = "ababab!"
		}
		return deepObserve("ababab", out, "fb", func(r string) bool { return r == "fb" })
	}
	return "bad-kind"
}
