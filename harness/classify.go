package main

import (
	"fmt"
	"math/rand"
	"strings"
	"time"

	"github.com/failsafe-go/failsafe-go"
	"github.com/failsafe-go/failsafe-go/circuitbreaker"
	"github.com/failsafe-go/failsafe-go/fallback"
	"github.com/failsafe-go/failsafe-go/hedgepolicy"
	"github.com/failsafe-go/failsafe-go/retrypolicy"
)

// classify slice: failure / abort / cancel classification observed through the real policies.
//
//	classify cfg <handle conds> <abort conds>
//	classify o <val> <errtree|->  => fb=<0|1> cb=<0|1> cr=<0|1> rp=<F0|F1A0|F1A1> hp=<0|1>
//
// fb: a fallback with the handle conditions replaced the outcome; cb: a breaker with them counted a failure;
// rp: a retry policy (maxRetries 1) with handle+abort conditions: not a failure / failure retried / failure aborted;
// hp: a hedge policy with the abort conditions as cancel conditions accepted the first result (1) or hedged (0).
type classifySlice struct {
	handle, abort string
}

func init() {
	slices["classify"] = func() slice { return &classifySlice{} }
	generators["classify"] = genClassify
}

func (s *classifySlice) reset() {}

func (s *classifySlice) exec(t []string) string {
	switch t[0] {
	case "cfg":
		s.handle, s.abort = t[1], t[2]
		return ""
	case "o", "oh":
		val := int(atoi(t[1]))
		err := parseErrTree(t[2])
		fn := func() (int, error) { return val, err }

		fbB := fallback.BuilderWithResult[int](7777)
		applyConds(s.handle, func(e ...error) { fbB.HandleErrors(e...) }, func(a ...any) { fbB.HandleErrorTypes(a...) }, func(r int) { fbB.HandleResult(r) }, func(p func(int, error) bool) { fbB.HandleIf(p) })
		fbApplied := 0
		if r, _ := failsafe.Get(fn, fbB.Build()); r == 7777 {
			fbApplied = 1
		}

		cbB := circuitbreaker.Builder[int]().WithFailureThreshold(100)
		applyConds(s.handle, func(e ...error) { cbB.HandleErrors(e...) }, func(a ...any) { cbB.HandleErrorTypes(a...) }, func(r int) { cbB.HandleResult(r) }, func(p func(int, error) bool) { cbB.HandleIf(p) })
		cb := cbB.Build()
		failsafe.Get(fn, failsafe.Policy[int](cb))
		cbFail := int(cb.Metrics().Failures())
		// the standalone recording API classifies (zero, err) resp. (val, nil)
		cb2 := cbB.Build()
		if err != nil {
			cb2.RecordError(err)
		} else {
			cb2.RecordResult(val)
		}
		crFail := int(cb2.Metrics().Failures())
		if err == nil {
			// RecordError(nil) classifies the outcome (zero result, nil error): it must agree with RecordResult(0) when val == 0
			cb3 := cbB.Build()
			cb3.RecordError(nil)
			cb4 := cbB.Build()
			cb4.RecordResult(0)
			if cb3.Metrics().Failures() != cb4.Metrics().Failures() {
				crFail = 900 + int(cb3.Metrics().Failures())*10 + int(cb4.Metrics().Failures())
			}
		}

		rpB := retrypolicy.Builder[int]().WithMaxRetries(1)
		applyConds(s.handle, func(e ...error) { rpB.HandleErrors(e...) }, func(a ...any) { rpB.HandleErrorTypes(a...) }, func(r int) { rpB.HandleResult(r) }, func(p func(int, error) bool) { rpB.HandleIf(p) })
		applyConds(s.abort, func(e ...error) { rpB.AbortOnErrors(e...) }, func(a ...any) { rpB.AbortOnErrorTypes(a...) }, func(r int) { rpB.AbortOnResult(r) }, func(p func(int, error) bool) { rpB.AbortIf(p) })
		aborted := false
		rpB.OnAbort(func(failsafe.ExecutionEvent[int]) { aborted = true })
		inv := 0
		failsafe.Get(func() (int, error) { inv++; return val, err }, rpB.Build())
		rp := "F0"
		if aborted {
			rp = "F1A1"
		} else if inv == 2 {
			rp = "F1A0"
		}

		hp := "-"
		if t[0] == "oh" {
			// the hedge delay must comfortably exceed the time an instant attempt needs to deliver its result
			hpB := hedgepolicy.BuilderWithDelay[int](20 * time.Millisecond).WithMaxHedges(1)
			applyConds(s.abort, func(e ...error) { hpB.CancelOnErrors(e...) }, func(a ...any) { hpB.CancelOnErrorTypes(a...) }, func(r int) { hpB.CancelOnResult(r) }, func(p func(int, error) bool) { hpB.CancelIf(p) })
			hedged := false
			hpB.OnHedge(func(failsafe.ExecutionEvent[int]) { hedged = true })
			failsafe.Get(func() (int, error) { return val, err }, hpB.Build())
			hp = "1"
			if hedged {
				hp = "0"
			}
		}
		return fmt.Sprintf("fb=%d cb=%d cr=%d rp=%s hp=%s", fbApplied, cbFail, crFail, rp, hp)
	}
	return "bad-op"
}

func genErrTree(r *rand.Rand, depth int, used map[int]bool) string {
	leafIDs := []int{1, 2, 3, 4, 7, 8, 9, 100, 101, 102, 103, 104, 105, 106}
	if depth <= 0 || r.Intn(3) == 0 {
		id := pick(r, leafIDs...)
		return fmt.Sprintf("L%d:%d", id, leafTy[id])
	}
	switch r.Intn(6) {
	case 0:
		return fmt.Sprintf("W%d:%d(%s)", 10+r.Intn(3), tyWrap, genErrTree(r, depth-1, used))
	case 1:
		// a custom wrapper object (which may also be a target) occurs at most once per tree
		id := 20 + r.Intn(3)
		if used[id] {
			return genErrTree(r, 0, used)
		}
		used[id] = true
		return fmt.Sprintf("W%d:%d(%s)", id, tyWrapC, genErrTree(r, depth-1, used))
	case 2:
		return fmt.Sprintf("J0:%d(%s,%s)", tyJoin, genErrTree(r, depth-1, used), genErrTree(r, depth-1, used))
	case 3:
		id := 30 + r.Intn(3)
		if used[id] {
			return genErrTree(r, 0, used)
		}
		used[id] = true
		return fmt.Sprintf("J%d:%d(%s,%s)", id, tyMultiC, genErrTree(r, depth-1, used), genErrTree(r, depth-1, used))
	case 4:
		return fmt.Sprintf("X(%d,%s)", r.Intn(3), genErrTree(r, depth-1, used))
	default:
		return fmt.Sprintf("X(%d,-)", r.Intn(3))
	}
}

func genCondList(r *rand.Rand) string {
	n := r.Intn(5)
	if r.Intn(4) == 0 {
		n = 0
	}
	var cs []string
	for i := 0; i < n; i++ {
		switch r.Intn(4) {
		case 0:
			cs = append(cs, fmt.Sprintf("I%d", pick(r, 1, 2, 3, 4, 8, 9, 20, 21, 30, 100, 101, 102, 103, 105, 106, 107)))
		case 1:
			cs = append(cs, fmt.Sprintf("%s%d", pick(r, "T", "T", "U"), pick(r, tyPlain, tyVal, tyPtr, tyWrapC, tyMultiC, tyWrap, tyJoin, tyExceeded, tyDeadline)))
		case 2:
			cs = append(cs, fmt.Sprintf("R%d", r.Intn(3)))
		default:
			cs = append(cs, fmt.Sprintf("P%d", r.Intn(3)))
		}
	}
	if len(cs) == 0 {
		return "-"
	}
	return strings.Join(cs, ",")
}

func genClassify(r *rand.Rand, n int, tier string, emit func(string) string) {
	outcomes := 12
	if tier == "thorough" {
		outcomes = 40
	}
	for c := 0; c < n; c++ {
		emit(fmt.Sprintf("case classify-%d", c))
		emit(fmt.Sprintf("classify cfg %s %s", genCondList(r), genCondList(r)))
		for i := 0; i < outcomes; i++ {
			e := "-"
			if r.Intn(3) != 0 {
				e = genErrTree(r, 3, map[int]bool{})
			}
			op := "o"
			if r.Intn(5) == 0 {
				op = "oh"
			}
			emit(fmt.Sprintf("classify %s %d %s", op, r.Intn(3), e))
		}
	}
}
