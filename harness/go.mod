module verif/harness

go 1.21

require github.com/failsafe-go/failsafe-go v0.0.0

replace github.com/failsafe-go/failsafe-go => /repo
