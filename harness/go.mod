module verif/harness

go 1.21

require (
	github.com/failsafe-go/failsafe-go v0.0.0
	google.golang.org/grpc v1.67.1
)

require (
	github.com/bits-and-blooms/bitset v1.20.0 // indirect
	golang.org/x/net v0.28.0 // indirect
	golang.org/x/sys v0.24.0 // indirect
	golang.org/x/text v0.17.0 // indirect
	google.golang.org/genproto/googleapis/rpc v0.0.0-20240814211410-ddb44dafa142 // indirect
	google.golang.org/protobuf v1.36.4 // indirect
)

replace github.com/failsafe-go/failsafe-go => /repo
