module verif/harness

go 1.21

require github.com/failsafe-go/failsafe-go v0.0.0

require github.com/bits-and-blooms/bitset v1.20.0 // indirect

replace github.com/failsafe-go/failsafe-go => /repo
