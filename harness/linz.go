package main

import (
	"errors"
	"fmt"
	"math/rand"
	"strings"
	"sync"
	"sync/atomic"
	"time"

	"context"

	"github.com/failsafe-go/failsafe-go"
	"github.com/failsafe-go/failsafe-go/bulkhead"
	"github.com/failsafe-go/failsafe-go/circuitbreaker"
	"github.com/failsafe-go/failsafe-go/ratelimiter"
)

// linz slice (C14, C04, C05): concurrent histories of ONE shared breaker / rate limiter, checked for linearizability against
// the proved sequential model. The virtual clock / stopwatch only moves between rounds.
//
//	linz cfg breaker <breaker cfg tokens…>  |  linz cfg smooth <interval>  |  linz cfg bursty <permits> <period>
//	linz adv <ns>                           sequential: advance the clock
//	linz round <thread ops>;<thread ops>;…  each thread runs its ops (separated by ',') concurrently with the others
//	     => <thread>:<call stamp>:<return stamp>:<op>:<result> …     (stamps from one global atomic counter)
//	linz probe                              sequential: breaker status line (state, metrics, remaining delay)
//
// breaker ops: try rs rf open close halfopen ; limiter ops: a<k>m<maxWait|-1> (reserve) , y<k> (try acquire)
type linzSlice struct {
	bh   bulkhead.Bulkhead[any]
	kind string
	cb   circuitbreaker.CircuitBreaker[any]
	rl   ratelimiter.RateLimiter[any]
	now  atomic.Int64
}

func init() {
	slices["linz"] = func() slice { return &linzSlice{} }
	generators["linz"] = func(r *rand.Rand, n int, tier string, emit func(string) string) { genLinzKinds(r, n, tier, emit, nil) }
	// the rate-limiter-only stream (C05): more threads with one operation each, most of them with a max wait of zero
	generators["linzrl"] = func(r *rand.Rand, n int, tier string, emit func(string) string) {
		genLinzKinds(r, n, tier, emit, []string{"smooth", "smooth", "bursty"})
	}
	// the bulkhead-only stream (C06)
	generators["linzbh"] = func(r *rand.Rand, n int, tier string, emit func(string) string) {
		genLinzKinds(r, n, tier, emit, []string{"bulkhead"})
	}
}

func (s *linzSlice) reset() { s.cb, s.rl = nil, nil }

func (s *linzSlice) one(op string) string {
	switch s.kind {
	case "breaker":
		switch op {
		case "try":
			if s.cb.TryAcquirePermit() {
				return "T"
			}
			return "F"
		case "rs":
			s.cb.RecordSuccess()
		case "rf":
			s.cb.RecordFailure()
		case "open":
			s.cb.Open()
		case "close":
			s.cb.Close()
		case "halfopen":
			s.cb.HalfOpen()
		}
		return "-"
	default:
		if op[0] == 'y' {
			if s.rl.TryAcquirePermits(uint(atoi(op[1:]))) {
				return "true"
			}
			return "false"
		}
		parts := strings.Split(op[1:], "m")
		k, mw := uint(atoi(parts[0])), atoi(parts[1])
		if mw == -1 {
			return fmt.Sprint(int64(s.rl.ReservePermits(k)))
		}
		return fmt.Sprint(int64(s.rl.TryReservePermits(k, time.Duration(mw))))
	}
}

func (s *linzSlice) exec(t []string) string {
	switch t[0] {
	case "cfg":
		s.kind = t[1]
		switch t[1] {
		case "breaker":
			ft, frt, ftc, fet, period, st, stc, delay, t0 := uint(atoi(t[2])), uint(atoi(t[3])), uint(atoi(t[4])), uint(atoi(t[5])), atoi(t[6]), uint(atoi(t[7])), uint(atoi(t[8])), atoi(t[9]), atoi(t[11])
			b := circuitbreaker.Builder[any]()
			switch {
			case frt != 0:
				b.WithFailureRateThreshold(frt, fet, time.Duration(period))
			case period != 0:
				b.WithFailureThresholdPeriod(ft, time.Duration(period))
			default:
				b.WithFailureThresholdRatio(ft, ftc)
			}
			if st != 0 {
				b.WithSuccessThresholdRatio(st, stc)
			}
			b.WithDelay(time.Duration(delay))
			s.now.Store(t0)
			circuitbreaker.VerifSetClock(b, func() int64 { return s.now.Load() })
			s.cb = b.Build()
		case "bulkhead":
			b := bulkhead.Builder[any](uint(atoi(t[2])))
			if mw := atoi(t[3]); mw > 0 {
				b.WithMaxWaitTime(time.Duration(mw) * time.Microsecond)
			}
			s.bh = b.Build()
		case "smooth":
			s.rl = ratelimiter.SmoothBuilderWithMaxRate[any](time.Duration(atoi(t[2]))).Build()
			s.now.Store(0)
			ratelimiter.VerifSetStopwatch(s.rl, func() time.Duration { return time.Duration(s.now.Load()) })
		case "bursty":
			s.rl = ratelimiter.BurstyBuilder[any](uint(atoi(t[2])), time.Duration(atoi(t[3]))).Build()
			s.now.Store(0)
			ratelimiter.VerifSetStopwatch(s.rl, func() time.Duration { return time.Duration(s.now.Load()) })
		}
		return ""
	case "adv":
		s.now.Add(atoi(t[1]))
		return ""
	case "probe":
		if s.kind == "bulkhead" {
			free := 0
			for s.bh.TryAcquirePermit() {
				free++
			}
			for i := 0; i < free; i++ {
				s.bh.ReleasePermit()
			}
			return fmt.Sprintf("free=%d", free)
		}
		if s.kind != "breaker" {
			return "-"
		}
		m := s.cb.Metrics()
		return fmt.Sprintf("%s - %d %d %d %d %d %d", s.cb.State(), m.Executions(), m.Failures(), m.FailureRate(), m.Successes(), m.SuccessRate(), int64(s.cb.RemainingDelay()))
	case "round":
		threads := strings.Split(t[1], ";")
		var stamp atomic.Int64
		var mu sync.Mutex
		var out []string
		var wg sync.WaitGroup
		start := make(chan struct{})
		for ti, th := range threads {
			wg.Add(1)
			go func(ti int, ops []string) {
				defer wg.Done()
				<-start
				if s.kind == "bulkhead" {
					s.bulkheadThread(ti, ops, &stamp, func(l string) { mu.Lock(); out = append(out, l); mu.Unlock() })
					return
				}
				for _, op := range ops {
					c := stamp.Add(1)
					res := s.one(op)
					r := stamp.Add(1)
					mu.Lock()
					out = append(out, fmt.Sprintf("%d:%d:%d:%s:%s", ti, c, r, op, res))
					mu.Unlock()
				}
			}(ti, strings.Split(th, ","))
		}
		close(start)
		wg.Wait()
		return strings.Join(out, " ")
	}
	return "bad-op"
}

// bulkheadThread: standalone calls and executions through the bulkhead as a policy, recorded as acquire / release operations.
// t = TryAcquirePermit, w<us> = AcquirePermitWithMaxWait, r = ReleasePermit (n when the thread holds none),
// x<us> = an execution through the policy whose function runs for <us>: its admission is recorded as an acquire operation
// (call … function entry, or … return when rejected) and its completion as a release (function exit … return).
func (s *linzSlice) bulkheadThread(ti int, ops []string, stamp *atomic.Int64, emit func(string)) {
	holding := 0
	rec := func(c, r int64, op, res string) { emit(fmt.Sprintf("%d:%d:%d:%s:%s", ti, c, r, op, res)) }
	for _, op := range ops {
		switch op[0] {
		case 't':
			c := stamp.Add(1)
			ok := s.bh.TryAcquirePermit()
			r := stamp.Add(1)
			if ok {
				holding++
			}
			rec(c, r, "t", map[bool]string{true: "T", false: "F"}[ok])
		case 'w':
			c := stamp.Add(1)
			err := s.bh.AcquirePermitWithMaxWait(context.Background(), time.Duration(atoi(op[1:]))*time.Microsecond)
			r := stamp.Add(1)
			if err == nil {
				holding++
			}
			rec(c, r, "w", map[bool]string{true: "T", false: "F"}[err == nil])
		case 'r':
			c := stamp.Add(1)
			if holding > 0 {
				s.bh.ReleasePermit()
				holding--
				rec(c, stamp.Add(1), "r", "-")
			} else {
				rec(c, stamp.Add(1), "n", "-")
			}
		case 'x', 'X': // X: the function fails
			d := time.Duration(atoi(op[1:])) * time.Microsecond
			fails := op[0] == 'X'
			c := stamp.Add(1)
			var enter, exit int64
			err := failsafe.NewExecutor[any](s.bh).Run(func() error {
				enter = stamp.Add(1)
				time.Sleep(d)
				exit = stamp.Add(1)
				if fails {
					return errors.New("x")
				}
				return nil
			})
			r := stamp.Add(1)
			if enter == 0 {
				_ = err
				rec(c, r, "w", "F")
			} else {
				rec(c, enter, "w", "T")
				rec(exit, r, "r", "-")
			}
		}
	}
	for holding > 0 { // leave nothing behind: recorded as releases
		c := stamp.Add(1)
		s.bh.ReleasePermit()
		holding--
		rec(c, stamp.Add(1), "r", "-")
	}
}

var _ = failsafe.ErrExecutionCanceled

func genLinzKinds(r *rand.Rand, n int, tier string, emit func(string) string, kinds []string) {
	if kinds == nil {
		kinds = []string{"breaker", "breaker", "smooth", "bursty", "bulkhead"}
	}
	rounds := 12
	if tier == "thorough" {
		rounds = 40
	}
	for c := 0; c < n; c++ {
		emit(fmt.Sprintf("case linz-%d", c))
		kind := pick(r, kinds...)
		var ops []string
		var delay int64
		switch kind {
		case "breaker":
			ftc := uint(1 + r.Intn(5))
			ft := uint(1 + r.Intn(int(ftc)))
			var st, stc uint
			if r.Intn(2) == 0 {
				stc = uint(1 + r.Intn(4))
				st = uint(1 + r.Intn(int(stc)))
			}
			delay = int64(r.Intn(100))
			emit(fmt.Sprintf("linz cfg breaker %d 0 %d 0 0 %d %d %d -1 %d", ft, ftc, st, stc, delay, r.Intn(1000)))
			ops = []string{"try", "try", "rs", "rf", "rf", "rs", "open", "close", "halfopen"}
		case "bulkhead":
			emit(fmt.Sprintf("linz cfg bulkhead %d %d", pick(r, 0, 1, 1, 2, 2, 3, 3), pick(r, 0, 0, 150)))
			ops = []string{"t", "t", "r", "r", "w100", "w0", "x50", "x150", "x0", "X50", "X0"}
		case "smooth":
			emit(fmt.Sprintf("linz cfg smooth %d", pick(r, 1, 10, 100, 1000)))
			ops = []string{"a1m-1", "a1m0", "a2m150", "y1", "y1", "y2", "a3m-1", "a1m5"}
			if len(kinds) == 3 && kinds[0] == "smooth" {
				ops = []string{"a1m0", "a1m0", "y1", "y1", "y1", "a1m5", "a1m-1", "a2m150"}
			}
		case "bursty":
			emit(fmt.Sprintf("linz cfg bursty %d %d", 1+r.Intn(5), pick(r, 10, 100, 1000)))
			ops = []string{"a1m-1", "a1m0", "a2m150", "y1", "y1", "y3", "a4m-1", "a1m5"}
		}
		for i := 0; i < rounds; i++ {
			nt := 2 + r.Intn(3)
			limiterOnly := len(kinds) == 3 && kinds[0] == "smooth"
			if limiterOnly {
				nt = 4 + r.Intn(4)
			}
			var ths []string
			for t := 0; t < nt; t++ {
				k := 1 + r.Intn(2)
				if limiterOnly {
					k = 1
				}
				var os []string
				for j := 0; j < k; j++ {
					os = append(os, pick(r, ops...))
				}
				ths = append(ths, strings.Join(os, ","))
			}
			emit("linz round " + strings.Join(ths, ";"))
			if kind == "bulkhead" {
				emit("linz probe")
			} else if kind == "breaker" {
				emit("linz probe")
				emit(fmt.Sprintf("linz adv %d", pick(r, 0, 1, delay, delay+1, int64(r.Intn(150)))))
			} else {
				emit(fmt.Sprintf("linz adv %d", pick(r, 0, 1, 10, 100, 1000, r.Intn(300))))
			}
		}
	}
}
