package main

import (
	"math"
	"errors"
	"fmt"
	"math/rand"
	"strings"
	"time"

	"github.com/failsafe-go/failsafe-go"
	"github.com/failsafe-go/failsafe-go/circuitbreaker"
)

// breaker slice: the real circuit breaker behind the virtual clock hook.
//
//	breaker cfg <ft> <frt> <ftc> <fet> <periodNs> <st> <stc> <delayNs> <delayFnNs|-1> <t0>
//	breaker adv <ns> | rs | rf | xs | xf | try | open | halfopen | close | probe
//	=> <state> <permit T|F|-> <exec> <fails> <frate> <succs> <srate> <remaining> [ev <old>><new>:<metrics> …]
//
// xs / xf run an execution (succeeding / failing function) through the breaker as a policy.
type breakerSlice struct {
	cb     circuitbreaker.CircuitBreaker[any]
	now    int64
	events []string
}

func init() {
	slices["breaker"] = func() slice { return &breakerSlice{} }
	generators["breaker"] = genBreaker
}

func (s *breakerSlice) reset() { s.cb = nil }

func (s *breakerSlice) exec(t []string) string {
	permit := "-"
	s.events = s.events[:0]
	switch t[0] {
	case "cfg":
		ft, frt, ftc, fet, period, st, stc, delay, dfn, t0 := uint(atoi(t[1])), uint(atoi(t[2])), uint(atoi(t[3])), uint(atoi(t[4])), atoi(t[5]), uint(atoi(t[6])), uint(atoi(t[7])), atoi(t[8]), atoi(t[9]), atoi(t[10])
		b := circuitbreaker.Builder[any]()
		switch {
		case frt != 0:
			b.WithFailureRateThreshold(frt, fet, time.Duration(period))
		case period != 0:
			b.WithFailureThresholdPeriod(ft, time.Duration(period))
		default:
			b.WithFailureThresholdRatio(ft, ftc)
		}
		if st != 0 {
			b.WithSuccessThresholdRatio(st, stc)
		}
		b.WithDelay(time.Duration(delay))
		if dfn != -1 {
			// -2: a delay function is registered but declines (returns -1, "use the configured delay"), as failsafehttp.DelayFunc does
			// for a response without Retry-After
			v := dfn
			if v == -2 {
				v = -1
			}
			b.WithDelayFunc(func(exec failsafe.ExecutionAttempt[any]) time.Duration { return time.Duration(v) })
		}
		b.OnStateChanged(func(e circuitbreaker.StateChangedEvent) {
			m := e.Metrics()
			s.events = append(s.events, fmt.Sprintf("%s>%s:%d %d %d %d %d", e.OldState, e.NewState, m.Executions(), m.Failures(), m.FailureRate(), m.Successes(), m.SuccessRate()))
		})
		s.now = t0
		circuitbreaker.VerifSetClock(b, func() int64 { return s.now })
		s.cb = b.Build()
		return ""
	case "adv":
		s.now += atoi(t[1])
	case "rs":
		s.cb.RecordSuccess()
	case "rf":
		s.cb.RecordFailure()
	case "xs", "xf":
		var fnErr error
		if t[0] == "xf" {
			fnErr = errors.New("x")
		}
		ran := false
		err := failsafe.Run(func() error { ran = true; return fnErr }, failsafe.Policy[any](s.cb))
		if ran {
			permit = "T"
		} else {
			permit = "F"
			if !errors.Is(err, circuitbreaker.ErrOpen) {
				permit = "F?" + fmt.Sprint(err)
			}
		}
	case "try":
		if s.cb.TryAcquirePermit() {
			permit = "T"
		} else {
			permit = "F"
		}
	case "open":
		s.cb.Open()
	case "halfopen":
		s.cb.HalfOpen()
	case "close":
		s.cb.Close()
	case "probe":
	case "pctcomplement":
		return "ok" // evaluated by the model driver on the rate function that DIFF validates against FailureRate()/SuccessRate()
	default:
		return "bad-op"
	}
	m := s.cb.Metrics()
	line := fmt.Sprintf("%s %s %d %d %d %d %d %d", s.cb.State(), permit, m.Executions(), m.Failures(), m.FailureRate(), m.Successes(), m.SuccessRate(), int64(s.cb.RemainingDelay()))
	if len(s.events) > 0 {
		line += " ev " + strings.Join(s.events, " ")
	}
	return line
}

func genBreaker(r *rand.Rand, n int, tier string, emit func(string) string) {
	nops := 120
	if tier == "thorough" {
		nops = 600
	}
	emit("case breaker-pct")
	emit("breaker cfg 1 0 1 0 0 0 0 0 -1 0")
	emit("breaker pctcomplement 200")
	for c := 0; c < n; c++ {
		emit(fmt.Sprintf("case breaker-%d", c))
		var ft, frt, ftc, fet, st, stc uint
		var period int64
		ft, ftc = 1, 1
		switch r.Intn(4) {
		case 0: // count
			ft = uint(1 + r.Intn(5))
			ftc = ft
		case 1: // ratio
			ftc = uint(1 + r.Intn(8))
			ft = uint(1 + r.Intn(int(ftc)))
		case 2: // period count
			ft = uint(1 + r.Intn(5))
			ftc, fet = ft, ft
			period = int64(10 * (1 + r.Intn(50)))
		case 3: // period rate
			frt = uint(1 + r.Intn(100))
			fet = uint(r.Intn(8))
			period = int64(10 * (1 + r.Intn(50)))
			if r.Intn(4) == 0 {
				period = pick(r, int64(1e9), 60e9, 1e6)
			}
		}
		switch r.Intn(3) {
		case 1:
			st = uint(1 + r.Intn(4))
			stc = st
		case 2:
			stc = uint(1 + r.Intn(6))
			st = uint(1 + r.Intn(int(stc)))
		}
		delay := int64(r.Intn(200))
		dfn := int64(-1)
		if r.Intn(12) == 0 {
			delay = math.MaxInt64 // "stay open until closed by hand"
		} else if r.Intn(3) == 0 {
			dfn = pick(r, int64(0), 0, 1, int64(r.Intn(300)), delay, delay+1, -2, -2)
		}
		now := int64(r.Intn(1000))
		if r.Intn(2) == 0 {
			now += 1_700_000_000_000_000_000
		}
		emit(fmt.Sprintf("breaker cfg %d %d %d %d %d %d %d %d %d %d", ft, frt, ftc, fet, period, st, stc, delay, dfn, now))
		bucket := period / 10
		remaining := int64(0)
		for i := 0; i < nops; i++ {
			var op string
			switch x := r.Intn(100); {
			case x < 18:
				op = "rf"
			case x < 36:
				op = "rs"
			case x < 44:
				op = "xf"
			case x < 52:
				op = "xs"
			case x < 64:
				op = "try"
			case x < 90:
				var d int64
				switch r.Intn(8) {
				case 0:
					d = 0
				case 1:
					d = 1
				case 2:
					d = remaining // land exactly on the delay
				case 3:
					d = remaining - 1
					if d < 0 {
						d = 0
					}
				case 4:
					if bucket > 0 {
						d = bucket - now%bucket // exactly on a slice boundary
					}
				case 5:
					if bucket > 0 {
						d = bucket - now%bucket - 1
						if d < 0 {
							d = 0
						}
					}
				case 6:
					d = period + int64(r.Intn(50))
				default:
					d = int64(r.Intn(300))
				}
				if d > 1_000_000_000_000_000 {
					d = int64(r.Intn(300)) // an unbounded delay is never waited out
				}
				now += d
				op = fmt.Sprintf("adv %d", d)
			case x < 93:
				op = "open"
			case x < 96:
				op = "halfopen"
			case x < 98:
				op = "close"
			default:
				op = "probe"
			}
			obs := emit("breaker " + op)
			if f := strings.Fields(obs); len(f) >= 8 {
				remaining = atoi(f[7])
			}
		}
	}
}
