package main

import (
	"context"
	"errors"
	"fmt"
	"github.com/failsafe-go/failsafe-go/timeout"
	"sync"
	"time"

	"github.com/failsafe-go/failsafe-go"
	"github.com/failsafe-go/failsafe-go/retrypolicy"
)

// retrytiming: real-time scenarios for the timed clauses of C13 and C02.
//
//	(a) the next attempt never starts before the scheduled delay has elapsed (all delay kinds, jitter, delay function);
//	(b) no attempt is started after a failure that was handled when the max duration had already elapsed, and the
//	    execution then ends with ExceededError.
func init() {
	commands["retrytiming"] = func(args []string) int {
		bad := 0
		type sc struct {
			name      string
			b         func() retrypolicy.RetryPolicyBuilder[any]
			slowSched time.Duration // the OnRetryScheduled listener itself takes this long
		}
		ms := time.Millisecond
		scs := []sc{
			{"fixed", func() retrypolicy.RetryPolicyBuilder[any] {
				return retrypolicy.Builder[any]().WithDelay(4 * ms).WithMaxRetries(5)
			}, 0},
			{"backoff", func() retrypolicy.RetryPolicyBuilder[any] {
				return retrypolicy.Builder[any]().WithBackoffFactor(2*ms, 9*ms, 1.5).WithMaxRetries(5)
			}, 0},
			{"random", func() retrypolicy.RetryPolicyBuilder[any] {
				return retrypolicy.Builder[any]().WithRandomDelay(2*ms, 6*ms).WithMaxRetries(5)
			}, 0},
			{"jitter", func() retrypolicy.RetryPolicyBuilder[any] {
				return retrypolicy.Builder[any]().WithDelay(5 * ms).WithJitter(2 * ms).WithMaxRetries(5)
			}, 0},
			{"jitterfactor", func() retrypolicy.RetryPolicyBuilder[any] {
				return retrypolicy.Builder[any]().WithDelay(5 * ms).WithJitterFactor(0.5).WithMaxRetries(5)
			}, 0},
			{"delayfunc", func() retrypolicy.RetryPolicyBuilder[any] {
				return retrypolicy.Builder[any]().WithDelayFunc(func(e failsafe.ExecutionAttempt[any]) time.Duration {
					return time.Duration(1+e.Attempts()) * ms
				}).WithMaxRetries(4)
			}, 0},
			// time the policy's own listeners and the delay function take is not part of the delay: the wait announced to
			// OnRetryScheduled starts when it is announced
			{"slow-onfailure-listener", func() retrypolicy.RetryPolicyBuilder[any] {
				return retrypolicy.Builder[any]().WithDelay(10 * ms).WithMaxRetries(3).OnFailure(func(failsafe.ExecutionEvent[any]) { time.Sleep(8 * ms) })
			}, 0},
			{"slow-delayfunc", func() retrypolicy.RetryPolicyBuilder[any] {
				return retrypolicy.Builder[any]().WithDelayFunc(func(failsafe.ExecutionAttempt[any]) time.Duration {
					time.Sleep(7 * ms)
					return 9 * ms
				}).WithMaxRetries(3)
			}, 0},
			{"slow-scheduled-listener", func() retrypolicy.RetryPolicyBuilder[any] {
				return retrypolicy.Builder[any]().WithDelay(10 * ms).WithMaxRetries(3)
			}, 8 * ms},
		}
		for _, s := range scs {
			var mu sync.Mutex
			var schedAt time.Time
			var schedDelay time.Duration
			pending := false
			early, negative, retries := 0, 0, 0
			b := s.b().OnRetryScheduled(func(e failsafe.ExecutionScheduledEvent[any]) {
				mu.Lock()
				schedAt, schedDelay, pending = time.Now(), e.Delay, true
				if e.Delay < 0 {
					negative++
				}
				mu.Unlock()
				time.Sleep(s.slowSched)
			})
			failsafe.Run(func() error {
				now := time.Now()
				mu.Lock()
				if pending {
					retries++
					// schedAt was taken after the delay was computed and before the timer was armed: the bound is exact
					if now.Sub(schedAt) < schedDelay {
						early++
					}
					pending = false
				}
				mu.Unlock()
				return errors.New("x")
			}, b.Build())
			verdict := "ok"
			if early > 0 || negative > 0 || retries == 0 {
				verdict = "VIOLATION"
				bad++
			}
			fmt.Printf("retrytiming notbefore/%s retries=%d early=%d negative=%d %s\n", s.name, retries, early, negative, verdict)
		}
		// (a'') an inner retry policy whose wait is abandoned (an enclosing Timeout fires during it) and which an outer retry policy
		// then runs again within the same execution: what the abandoned wait left behind must not shorten a later wait
		{
			var mu sync.Mutex
			var schedAt time.Time
			var schedDelay time.Duration
			pending := false
			early, retries, abandoned := 0, 0, 0
			inner := retrypolicy.Builder[any]().WithDelay(40 * ms).WithMaxRetries(3).
				OnRetryScheduled(func(e failsafe.ExecutionScheduledEvent[any]) {
					mu.Lock()
					schedAt, schedDelay, pending = time.Now(), e.Delay, true
					mu.Unlock()
				}).Build()
			to := timeout.Builder[any](65 * ms).OnTimeoutExceeded(func(failsafe.ExecutionDoneEvent[any]) { abandoned++ }).Build()
			outer := retrypolicy.Builder[any]().WithDelay(60 * ms).WithMaxRetries(2).Build()
			failsafe.Run(func() error {
				now := time.Now()
				mu.Lock()
				if pending {
					retries++
					if now.Sub(schedAt) < schedDelay {
						early++
					}
					pending = false
				}
				mu.Unlock()
				return errors.New("x")
			}, outer, to, inner)
			verdict := "ok"
			if early > 0 || retries == 0 || abandoned == 0 {
				verdict = "VIOLATION"
				bad++
			}
			fmt.Printf("retrytiming notbefore/inner-policy-rerun-after-abandoned-wait retries=%d abandonedWaits=%d early=%d %s\n", retries, abandoned, early, verdict)
		}
		// (a') a wait that is left through its cancellation branch at the very moment its timer fires must not hand a spent timer
		// to a later wait: after executions cancelled 0-195 us before a 2 ms delay expires (by a spinning canceller), a probe with a 20 ms delay still waits
		{
			early, probes := 0, 0
			for round := 0; round < 120; round++ {
				ctx, cancel := context.WithCancel(context.Background())
				rp := retrypolicy.Builder[any]().WithDelay(2 * ms).WithMaxRetries(1).
					OnRetryScheduled(func(e failsafe.ExecutionScheduledEvent[any]) {
						// a spinning canceller: the cancellation has to land within microseconds of the timer
						cancelAt := time.Now().Add(e.Delay - time.Duration(round%40)*5*time.Microsecond)
						go func() {
							for time.Now().Before(cancelAt) {
							}
							cancel()
						}()
					}).Build()
				failsafe.NewExecutor[any](rp).WithContext(ctx).Run(func() error { return errors.New("x") })
				cancel()
				var schedAt, startAt time.Time
				n := 0
				probe := retrypolicy.Builder[any]().WithDelay(20 * ms).WithMaxRetries(1).
					OnRetryScheduled(func(failsafe.ExecutionScheduledEvent[any]) { schedAt = time.Now() }).Build()
				failsafe.Run(func() error {
					n++
					if n == 2 {
						startAt = time.Now()
					}
					return errors.New("x")
				}, probe)
				probes++
				if n == 2 && startAt.Sub(schedAt) < 20*ms {
					early++
				}
			}
			verdict := "ok"
			if early > 0 {
				verdict = "VIOLATION"
				bad++
			}
			fmt.Printf("retrytiming notbefore/after-waits-cancelled-at-expiry probes=%d early=%d %s\n", probes, early, verdict)
		}
		// (b) max duration
		for _, md := range []time.Duration{25 * ms, 40 * ms} {
			for _, fnDur := range []time.Duration{7 * ms, 11 * ms} {
				start := time.Now()
				var lastReturnElapsed time.Duration
				lateStarts, inv := 0, 0
				rp := retrypolicy.Builder[any]().WithMaxRetries(-1).WithMaxDuration(md).WithDelay(ms).Build()
				done := make(chan error, 1)
				stop := false
				go func() {
					done <- failsafe.Run(func() error {
						inv++
						if inv > 1 && lastReturnElapsed > md+ms {
							lateStarts++
						}
						if stop {
							return nil
						}
						time.Sleep(fnDur)
						lastReturnElapsed = time.Since(start)
						return errors.New("x")
					}, rp)
				}()
				var err error
				select {
				case err = <-done:
				case <-time.After(md * 6):
					stop = true
					err = <-done
					lateStarts += 1000
				}
				var ex retrypolicy.ExceededError
				verdict := "ok"
				if lateStarts > 0 || !errors.As(err, &ex) {
					verdict = "VIOLATION"
					bad++
				}
				fmt.Printf("retrytiming maxduration/%v/%v invocations=%d lateStarts=%d err=%v %s\n", md, fnDur, inv, lateStarts, err != nil, verdict)
			}
		}
		// (c) the delay never extends past the remaining max duration, also when the delay function itself takes time: at the
		// moment OnRetryScheduled is told the delay, elapsed time + delay does not exceed the max duration (beyond a tolerance
		// for the few instructions between the clamp and the listener call)
		for _, fnTakes := range []time.Duration{0, 40 * ms} {
			md := 300 * ms
			start := time.Now()
			over := 0
			scheduled := 0
			rp := retrypolicy.Builder[any]().WithMaxRetries(2).WithMaxDuration(md).
				WithDelayFunc(func(failsafe.ExecutionAttempt[any]) time.Duration {
					time.Sleep(fnTakes)
					return time.Second // far more than what is left
				}).
				OnRetryScheduled(func(e failsafe.ExecutionScheduledEvent[any]) {
					scheduled++
					if time.Since(start)+e.Delay > md+15*ms {
						over++
					}
				}).Build()
			failsafe.Run(func() error { return errors.New("x") }, rp)
			verdict := "ok"
			if over > 0 || scheduled == 0 {
				verdict = "VIOLATION"
				bad++
			}
			fmt.Printf("retrytiming notbefore/clamp-after-delayfunc-%v scheduled=%d pastMaxDuration=%d %s\n", fnTakes, scheduled, over, verdict)
		}
		if bad > 0 {
			return 1
		}
		return 0
	}
}
