package main

import (
	"fmt"
	"math/rand"
	"strconv"
	"strings"
	"time"

	"github.com/failsafe-go/failsafe-go"
	"github.com/failsafe-go/failsafe-go/retrypolicy"
)

// retrydelay slice: the real retry executor's getDelay through the VerifDelaySequence hook (no waiting).
//
//	retrydelay cfg <delay> <maxDelay> <factorNum> <factorDen> <min> <max> <jitter> <jfNum> <jfDen> <maxDuration> <delayFn|-2> [<fnUntil> [<history 0|1>]]
//	retrydelay seq <n> <elapsedStep>  => d_0,…,d_{n-1}
type retryDelaySlice struct {
	rp retrypolicy.RetryPolicy[any]
}

func init() {
	slices["retrydelay"] = func() slice { return &retryDelaySlice{} }
	generators["retrydelay"] = genRetryDelay
}

func (s *retryDelaySlice) reset() { s.rp = nil }

func (s *retryDelaySlice) exec(t []string) string {
	switch t[0] {
	case "cfg":
		delay, maxDelay, fn, fd, mn, mx, jit, jn, jd, mdur, dfn := atoi(t[1]), atoi(t[2]), atoi(t[3]), atoi(t[4]), atoi(t[5]), atoi(t[6]), atoi(t[7]), atoi(t[8]), atoi(t[9]), atoi(t[10]), atoi(t[11])
		b := retrypolicy.Builder[any]()
		if len(t) > 13 && t[13] == "1" {
			// builder history: other delay kinds were configured first; each setter replaces what the earlier ones configured
			switch {
			case mn != 0 || mx != 0:
				b.WithBackoffFactor(7*time.Millisecond, 70*time.Millisecond, 3)
			case maxDelay != 0:
				b.WithRandomDelay(3*time.Millisecond, 9*time.Millisecond)
			case delay != 0:
				b.WithBackoffFactor(7*time.Millisecond, 70*time.Millisecond, 3).WithRandomDelay(3*time.Millisecond, 9*time.Millisecond)
			}
		}
		switch {
		case mn != 0 || mx != 0:
			b.WithRandomDelay(time.Duration(mn), time.Duration(mx))
		case maxDelay != 0:
			b.WithBackoffFactor(time.Duration(delay), time.Duration(maxDelay), float32(fn)/float32(fd))
		case delay != 0:
			b.WithDelay(time.Duration(delay))
		}
		if jit != 0 {
			b.WithJitter(time.Duration(jit))
		}
		if jn != 0 {
			b.WithJitterFactor(float32(jn) / float32(jd))
		}
		if mdur != 0 {
			b.WithMaxDuration(time.Duration(mdur))
		}
		until := int64(0) // the delay function answers for the first `until` failures only and declines (-1) afterwards; 0: always
		if len(t) > 12 {
			until = atoi(t[12])
		}
		if dfn != -2 {
			b.WithDelayFunc(func(e failsafe.ExecutionAttempt[any]) time.Duration {
				if until > 0 && int64(e.Retries()) >= until {
					return -1
				}
				return time.Duration(dfn)
			})
		}
		s.rp = b.Build()
		return ""
	case "seq":
		n, step := int(atoi(t[1])), atoi(t[2])
		ds := retrypolicy.VerifDelaySequence(s.rp, n, func(k int) time.Duration { return time.Duration(int64(k) * step) })
		out := make([]string, len(ds))
		for i, d := range ds {
			out[i] = strconv.FormatInt(int64(d), 10)
		}
		return strings.Join(out, ",")
	}
	return "bad-op"
}

func genRetryDelay(r *rand.Rand, n int, tier string, emit func(string) string) {
	mags := []int64{1, 999, 1000, 1e6, 25e6, 1e9, 16777217, 60e9, 3600e9, 7 * 3600e9}
	for c := 0; c < n; c++ {
		emit(fmt.Sprintf("case retrydelay-%d", c))
		var delay, maxDelay, fn, fd, mn, mx, jit, jn, jd, mdur int64
		fd, jd = 1, 1
		dfn := int64(-2)
		base := pick(r, mags...)
		switch r.Intn(4) {
		case 0: // fixed
			delay = base
		case 1: // backoff
			delay = base
			maxDelay = delay * int64(1+r.Intn(200))
			f := pick(r, [2]int64{2, 1}, [2]int64{3, 2}, [2]int64{11, 10}, [2]int64{1, 1}, [2]int64{5, 1}, [2]int64{1001, 1000}, [2]int64{7, 3})
			fn, fd = f[0], f[1]
		case 2: // random range
			mn = base
			mx = base * int64(1+r.Intn(10))
			if mx == mn {
				mx++
			}
		case 3: // delay function (optionally with a fixed delay underneath)
			dfn = pick(r, int64(-1), 0, base, base/2+1)
			if r.Intn(2) == 0 {
				delay = pick(r, mags...)
			}
		}
		switch r.Intn(5) {
		case 1:
			jit = 1 + r.Int63n(base)
		case 2:
			j := pick(r, [2]int64{1, 10}, [2]int64{1, 4}, [2]int64{1, 2}, [2]int64{1, 100})
			jn, jd = j[0], j[1]
		case 3:
			// both jitter settings on one builder: neither setter clears the other, and the duration is what applies
			jit = 1 + r.Int63n(base/50+1)
			j := pick(r, [2]int64{1, 4}, [2]int64{1, 2})
			jn, jd = j[0], j[1]
		}
		step := int64(0)
		if r.Intn(2) == 0 {
			mdur = base * int64(1+r.Intn(20))
			step = pick(r, int64(0), mdur/7+1, mdur/3, mdur)
		}
		until := int64(0)
		if dfn != -2 && dfn != -1 && r.Intn(2) == 0 {
			// a delay function that answers for the first failures only (a Retry-After on the first response), over a fixed
			// delay or a backoff that has to take over with its own state afterwards
			until = int64(1 + r.Intn(3))
			if r.Intn(2) == 0 {
				delay = pick(r, mags...)
				maxDelay = delay * int64(1+r.Intn(200))
				f := pick(r, [2]int64{2, 1}, [2]int64{3, 2}, [2]int64{5, 1})
				fn, fd = f[0], f[1]
			}
		}
		emit(fmt.Sprintf("retrydelay cfg %d %d %d %d %d %d %d %d %d %d %d %d %d", delay, maxDelay, fn, fd, mn, mx, jit, jn, jd, mdur, dfn, until, r.Intn(2)))
		emit(fmt.Sprintf("retrydelay seq %d %d", 1+r.Intn(24), step))
	}
}
