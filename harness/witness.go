package main

import (
	"bytes"
	"errors"
	"fmt"
	"io"
	"net/http"
	"net/http/httptest"
	"sync"
	"sync/atomic"
	"time"

	"github.com/failsafe-go/failsafe-go"
	"github.com/failsafe-go/failsafe-go/bulkhead"
	"github.com/failsafe-go/failsafe-go/failsafehttp"
	"github.com/failsafe-go/failsafe-go/hedgepolicy"
	"github.com/failsafe-go/failsafe-go/retrypolicy"
)

// witness: replays the recorded failing scenario of an OPEN known finding against the implementation.
// Prints WITNESS-FAILS when the scenario still fails (the check then prints the KNOWN-FINDING line).
//
//	harness witness d9     C18: hedged attempts share one seekable request body
//	harness witness d12    C08: async Cancel during an outermost bulkhead's permit wait is reported as context.Canceled (fixed)
//	harness witness d4     C14: hedge attempts share one retry executor (run the race-enabled build; the race report is the failure)
func init() {
	commands["witness"] = func(args []string) int {
		if len(args) == 0 {
			fmt.Println("usage: harness witness d9|d4")
			return 2
		}
		switch args[0] {
		case "d9":
			return witnessD9()
		case "d4":
			return witnessD4()
		case "d12":
			return witnessD12()
		}
		return 2
	}
}

func witnessD9() int {
	content := payload(1 << 20)
	var mu sync.Mutex
	total, bad := 0, 0
	srv := httptest.NewServer(http.HandlerFunc(func(w http.ResponseWriter, r *http.Request) {
		b, err := io.ReadAll(r.Body)
		mu.Lock()
		total++
		if err != nil || !bytes.Equal(b, content) {
			bad++
		}
		mu.Unlock()
		time.Sleep(3 * time.Millisecond)
		w.WriteHeader(200)
	}))
	defer srv.Close()
	for i := 0; i < 20; i++ {
		body := &seekBody{r: bytes.NewReader(content)}
		req, _ := http.NewRequest("POST", srv.URL, nil)
		req.Body = body
		req.ContentLength = int64(len(content))
		hp := hedgepolicy.BuilderWithDelay[*http.Response](200 * time.Microsecond).WithMaxHedges(2).Build()
		tr := &http.Transport{DisableKeepAlives: true}
		resp, err := (&http.Client{Transport: failsafehttp.NewRoundTripper(tr, hp)}).Do(req)
		if err == nil && resp != nil {
			io.Copy(io.Discard, resp.Body)
			resp.Body.Close()
		}
		tr.CloseIdleConnections()
	}
	time.Sleep(50 * time.Millisecond)
	mu.Lock()
	defer mu.Unlock()
	fmt.Printf("witness d9: %d of %d attempt bodies reached the server truncated or with wrong content (1 MiB seekable body, hedge delay 200us, 20 requests)\n", bad, total)
	if bad > 0 {
		fmt.Println("WITNESS-FAILS")
	}
	return 0
}

func witnessD4() int {
	errW := errors.New("w")
	for i := 0; i < 400; i++ {
		rp := retrypolicy.Builder[int]().WithMaxRetries(2).Build()
		hp := hedgepolicy.BuilderWithDelay[int](20 * time.Microsecond).WithMaxHedges(2).Build()
		release := make(chan struct{})
		var started atomic.Int32
		fn := func(e failsafe.Execution[int]) (int, error) {
			if started.Add(1) == 3 {
				close(release) // the three hedge attempts fail together
			}
			select {
			case <-release:
			case <-time.After(3 * time.Millisecond):
			}
			return 0, errW
		}
		done := make(chan struct{})
		go func() {
			failsafe.NewExecutor[int](hp, rp).GetWithExecution(fn)
			close(done)
		}()
		select {
		case <-done:
		case <-time.After(5 * time.Second):
			fmt.Println("witness d4: execution did not finish")
			return 1
		}
	}
	fmt.Println("witness d4: 400 executions of Hedge(Retry(fn)) with aligned failures done (a race report above is the failure)")
	return 0
}

// D12 (fixed): Bulkhead(Retry(fn)) on a full bulkhead with a 1 s max wait; the async execution is cancelled through its
// ExecutionResult 1 ms into the wait. The cause is ErrExecutionCanceled; the defective code returned the bare context error.
func witnessD12() int {
	bad := 0
	for i := 0; i < 20; i++ {
		bh := bulkhead.Builder[int](1).WithMaxWaitTime(time.Second).Build()
		bh.TryAcquirePermit()
		rp := retrypolicy.Builder[int]().WithMaxRetries(2).Build()
		r := failsafe.NewExecutor[int](bh, rp).GetAsync(func() (int, error) { return 1, nil })
		time.Sleep(time.Millisecond)
		r.Cancel()
		_, err := r.Get()
		if !errors.Is(err, failsafe.ErrExecutionCanceled) {
			bad++
			if bad == 1 {
				fmt.Printf("witness d12: async execution cancelled while waiting for a bulkhead permit reported %v, not ErrExecutionCanceled\n", err)
			}
		}
	}
	fmt.Printf("witness d12: %d of 20 cancelled executions misreported their cause\n", bad)
	if bad > 0 {
		fmt.Println("WITNESS-FAILS")
	}
	return 0
}
