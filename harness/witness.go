package main

import (
	"context"
	"bytes"
	"errors"
	"fmt"
	"io"
	"net/http"
	"net"
	"net/http/httptest"
	"sync"
	"runtime"
	"sync/atomic"
	"time"

	"github.com/failsafe-go/failsafe-go"
	"github.com/failsafe-go/failsafe-go/bulkhead"
	"github.com/failsafe-go/failsafe-go/circuitbreaker"
	"github.com/failsafe-go/failsafe-go/failsafehttp"
	"github.com/failsafe-go/failsafe-go/hedgepolicy"
	"github.com/failsafe-go/failsafe-go/ratelimiter"
	"github.com/failsafe-go/failsafe-go/retrypolicy"
	"github.com/failsafe-go/failsafe-go/timeout"
)

// witness: replays the recorded failing scenario of an OPEN known finding against the implementation.
// Prints WITNESS-FAILS when the scenario still fails (the check then prints the KNOWN-FINDING line).
//
//	harness witness d9     C18: hedged attempts share one seekable request body
//	harness witness d12    C08: async Cancel during an outermost bulkhead's permit wait is reported as context.Canceled (fixed)
//	harness witness d13    C19: a retried HTTP response is never closed when the next attempt is rejected before the function runs
//	harness witness d4     C14: hedge attempts share one retry executor (run the race-enabled build; the race report is the failure)
func init() {
	commands["witness"] = func(args []string) int {
		if len(args) == 0 {
			fmt.Println("usage: harness witness d9|d4")
			return 2
		}
		switch args[0] {
		case "d9":
			return witnessD9()
		case "d4":
			return witnessD4()
		case "d12":
			return witnessD12()
		case "d13":
			return witnessD13()
		case "d14":
			return witnessD14()
		case "d15":
			return witnessD15()
		}
		return 2
	}
}

func witnessD9() int {
	content := payload(1 << 20)
	var mu sync.Mutex
	total, bad := 0, 0
	srv := httptest.NewServer(http.HandlerFunc(func(w http.ResponseWriter, r *http.Request) {
		b, err := io.ReadAll(r.Body)
		mu.Lock()
		total++
		if err != nil || !bytes.Equal(b, content) {
			bad++
		}
		mu.Unlock()
		time.Sleep(3 * time.Millisecond)
		w.WriteHeader(200)
	}))
	defer srv.Close()
	for i := 0; i < 20; i++ {
		body := &seekBody{r: bytes.NewReader(content)}
		req, _ := http.NewRequest("POST", srv.URL, nil)
		req.Body = body
		req.ContentLength = int64(len(content))
		hp := hedgepolicy.BuilderWithDelay[*http.Response](200 * time.Microsecond).WithMaxHedges(2).Build()
		tr := &http.Transport{DisableKeepAlives: true}
		resp, err := (&http.Client{Transport: failsafehttp.NewRoundTripper(tr, hp)}).Do(req)
		if err == nil && resp != nil {
			io.Copy(io.Discard, resp.Body)
			resp.Body.Close()
		}
		tr.CloseIdleConnections()
	}
	time.Sleep(50 * time.Millisecond)
	mu.Lock()
	defer mu.Unlock()
	fmt.Printf("witness d9: %d of %d attempt bodies reached the server truncated or with wrong content (1 MiB seekable body, hedge delay 200us, 20 requests)\n", bad, total)
	if bad > 0 {
		fmt.Println("WITNESS-FAILS")
	}
	return 0
}

func witnessD4() int {
	errW := errors.New("w")
	for i := 0; i < 400; i++ {
		rp := retrypolicy.Builder[int]().WithMaxRetries(2).Build()
		hp := hedgepolicy.BuilderWithDelay[int](20 * time.Microsecond).WithMaxHedges(2).Build()
		release := make(chan struct{})
		var started atomic.Int32
		fn := func(e failsafe.Execution[int]) (int, error) {
			if started.Add(1) == 3 {
				close(release) // the three hedge attempts fail together
			}
			select {
			case <-release:
			case <-time.After(3 * time.Millisecond):
			}
			return 0, errW
		}
		done := make(chan struct{})
		go func() {
			failsafe.NewExecutor[int](hp, rp).GetWithExecution(fn)
			close(done)
		}()
		select {
		case <-done:
		case <-time.After(5 * time.Second):
			fmt.Println("witness d4: execution did not finish")
			return 1
		}
	}
	fmt.Println("witness d4: 400 executions of Hedge(Retry(fn)) with aligned failures done (a race report above is the failure)")
	return 0
}

// D12 (fixed): Bulkhead(Retry(fn)) on a full bulkhead with a 1 s max wait; the async execution is cancelled through its
// ExecutionResult 1 ms into the wait. The cause is ErrExecutionCanceled; the defective code returned the bare context error.
func witnessD12() int {
	bad := 0
	for i := 0; i < 20; i++ {
		bh := bulkhead.Builder[int](1).WithMaxWaitTime(time.Second).Build()
		bh.TryAcquirePermit()
		rp := retrypolicy.Builder[int]().WithMaxRetries(2).Build()
		r := failsafe.NewExecutor[int](bh, rp).GetAsync(func() (int, error) { return 1, nil })
		time.Sleep(time.Millisecond)
		r.Cancel()
		_, err := r.Get()
		if !errors.Is(err, failsafe.ErrExecutionCanceled) {
			bad++
			if bad == 1 {
				fmt.Printf("witness d12: async execution cancelled while waiting for a bulkhead permit reported %v, not ErrExecutionCanceled\n", err)
			}
		}
	}
	fmt.Printf("witness d12: %d of 20 cancelled executions misreported their cause\n", bad)
	if bad > 0 {
		fmt.Println("WITNESS-FAILS")
	}
	return 0
}

// D13 (open): Retry(CircuitBreaker(http)): attempt 1 obtains a 500 response (the breaker opens), attempt 2 is rejected by the open
// breaker before the adapter's function runs, attempt 3 (breaker half-open) succeeds. The adapter closes "the previous attempt's
// response" through exec.LastResult(), which the rejected attempt has overwritten with nil: the 500 response is never closed and
// its connection stays open at the server.
func witnessD13() int {
	var conns sync.Map
	var n atomic.Int64
	srv := httptest.NewUnstartedServer(http.HandlerFunc(func(w http.ResponseWriter, r *http.Request) {
		io.Copy(io.Discard, r.Body)
		if r.URL.Query().Get("first") == "1" && n.Add(1)%2 == 1 {
			w.WriteHeader(500)
			w.Write(bytes.Repeat([]byte("unavailable "), 4000)) // larger than what the transport reads ahead
			return
		}
		w.WriteHeader(200)
		w.Write([]byte("ok"))
	}))
	srv.Config.ConnState = func(c net.Conn, st http.ConnState) {
		if st == http.StateClosed || st == http.StateHijacked {
			conns.Delete(c)
		} else {
			conns.Store(c, st)
		}
	}
	srv.Start()
	defer srv.Close()
	tr := &http.Transport{}
	rounds, rejected := 10, 0
	for i := 0; i < rounds; i++ {
		cb := circuitbreaker.Builder[*http.Response]().HandleIf(func(r *http.Response, err error) bool { return r != nil && r.StatusCode >= 500 }).
			WithFailureThreshold(1).WithDelay(30 * time.Millisecond).Build()
		rp := retrypolicy.Builder[*http.Response]().HandleIf(func(r *http.Response, err error) bool { return err != nil || (r != nil && r.StatusCode >= 500) }).
			WithMaxRetries(5).WithDelay(20 * time.Millisecond).
			OnRetry(func(e failsafe.ExecutionEvent[*http.Response]) {
				if errors.Is(e.LastError(), circuitbreaker.ErrOpen) {
					rejected++
				}
			}).Build()
		req, _ := http.NewRequest("POST", srv.URL+"/?first=1", bytes.NewReader([]byte("body")))
		resp, err := (&http.Client{Transport: failsafehttp.NewRoundTripper(tr, rp, cb)}).Do(req)
		if err != nil || resp == nil || resp.StatusCode != 200 {
			fmt.Printf("witness d13: round %d ended with %v\n", i, err)
		}
		if resp != nil && resp.Body != nil {
			io.Copy(io.Discard, resp.Body)
			resp.Body.Close()
		}
	}
	tr.CloseIdleConnections()
	time.Sleep(300 * time.Millisecond)
	left := 0
	conns.Range(func(_, _ any) bool { left++; return true })
	fmt.Printf("witness d13: %d connections still open at the server after %d requests (each: 500, rejected by the open breaker %d times in all, then 200), every returned body closed and idle connections dropped\n", left, rounds, rejected)
	if left > 0 {
		fmt.Println("WITNESS-FAILS")
	}
	return 0
}

// D14 probe: executions that complete normally under an executor bound to a long-lived context of a non-standard type. The child
// contexts the library derives (async runner, Timeout, hedge winner) are only cancelled on cancellation / timeout, never on normal
// completion: with a hand-written parent context every such child costs a goroutine (context.propagateCancel) until the parent ends.
func witnessD14() int {
	parent := customCtx{make(chan struct{})}
	defer close(parent.done)
	measure := func(name string, run func()) int {
		runtime.GC()
		time.Sleep(20 * time.Millisecond)
		before := runtime.NumGoroutine()
		for i := 0; i < 50; i++ {
			run()
		}
		time.Sleep(100 * time.Millisecond)
		runtime.GC()
		after := runtime.NumGoroutine()
		fmt.Printf("witness d14: %s: goroutines %d -> %d after 50 completed executions\n", name, before, after)
		return after - before
	}
	grew := 0
	grew += measure("async runner", func() { failsafe.NewExecutor[int]().WithContext(parent).GetAsync(func() (int, error) { return 1, nil }).Get() })
	grew += measure("timeout that does not fire", func() {
		failsafe.NewExecutor[int](timeout.With[int](time.Second)).WithContext(parent).Get(func() (int, error) { return 1, nil })
	})
	grew += measure("sync, no policy (control)", func() { failsafe.NewExecutor[int]().WithContext(parent).Get(func() (int, error) { return 1, nil }) })
	if grew > 10 {
		fmt.Println("WITNESS-FAILS")
	}
	return 0
}

// D15 probe: Retry(RateLimiter with a max wait). Attempt 1 is rejected (the wait would exceed the max wait: ErrExceeded, one
// OnRateLimitExceeded event, recorded as the execution's last error). Attempt 2 is admitted to wait; the caller's context is
// cancelled during that wait. The wait returns exec.LastError() - the stale ErrExceeded of attempt 1 - and the executor
// fires OnRateLimitExceeded a second time although nothing was rejected.
func witnessD15() int {
	spurious := 0
	rounds := 10
	for i := 0; i < rounds; i++ {
		var events atomic.Int32
		rl := ratelimiter.SmoothBuilderWithMaxRate[int](100 * time.Millisecond).WithMaxWaitTime(70 * time.Millisecond).
			OnRateLimitExceeded(func(failsafe.ExecutionEvent[int]) { events.Add(1) }).Build()
		rl.TryAcquirePermit() // the first slot is gone: the next one is 100 ms away
		rp := retrypolicy.Builder[int]().WithMaxRetries(3).WithDelay(50 * time.Millisecond).Build()
		ctx, cancel := context.WithCancel(context.Background())
		go func() { time.Sleep(75 * time.Millisecond); cancel() }() // during attempt 2's wait (50 ms .. 100 ms)
		invoked := 0
		_, err := failsafe.NewExecutor[int](rp, rl).WithContext(ctx).Get(func() (int, error) { invoked++; return 1, nil })
		cancel()
		if events.Load() != 1 {
			spurious++
			if spurious == 1 {
				fmt.Printf("witness d15: one rejection happened, OnRateLimitExceeded fired %d times (err=%v, invocations=%d)\n", events.Load(), err, invoked)
			}
		}
	}
	fmt.Printf("witness d15: %d of %d executions saw an OnRateLimitExceeded event for a wait that was cancelled, not refused\n", spurious, rounds)
	if spurious > 0 {
		fmt.Println("WITNESS-FAILS")
	}
	return 0
}
