package main

// TRACE tie (slice `trace`): one real concurrent run per protocol line; the observation is the totally ordered list of events that
// user code saw, stamped with one global atomic counter. The Lean driver replays every list through the interleaving model with
// `Failsafe.Conc.Trace.accepts` (exact: a list is rejected iff no interleaving of the model shows it).
//
//	trace timeout <alone|fallback|async> <short|near|long|block> <dur µs>
//	  => see:<c>:<early> … fnret:0 listener:<early> ret:<inner|exceeded>:<early> final:<listener calls>:<IsCanceled>
//	trace future <get|exec> <readers> <cancel after µs|-1> <fn µs>
//	trace hedge <maxHedges> <any|odd> <µs:c>…   => hedge enter:<k> finish:<k>:<c> ret:<k> see:<k>:<b>
//	  => isdone:<b> closed:<b> listener got cancel …
//
// Stamping rule for monotone observations (IsCanceled, IsDone, Done closed only ever go false -> true): a `true` reading is stamped
// after the read, a `false` reading before it, so that the stamped value was the value at the stamp. `early` is only ever set on the
// events that must not happen before the limit has elapsed (listener, ErrExceeded, an observed cancellation): it is computed from a
// clock reading taken after the event, against a start time taken before the call.

import (
	"errors"
	"fmt"
	"math/rand"
	"runtime"
	"sort"
	"strings"
	"sync"
	"sync/atomic"
	"time"

	"github.com/failsafe-go/failsafe-go"
	"github.com/failsafe-go/failsafe-go/fallback"
	"github.com/failsafe-go/failsafe-go/hedgepolicy"
	"github.com/failsafe-go/failsafe-go/timeout"
)

type traceRec struct {
	mu  sync.Mutex
	ctr atomic.Int64
	evs []traceEv
}

type traceEv struct {
	seq int64
	s   string
}

func (t *traceRec) seq() int64 { return t.ctr.Add(1) }
func (t *traceRec) put(seq int64, s string) {
	t.mu.Lock()
	t.evs = append(t.evs, traceEv{seq, s})
	t.mu.Unlock()
}
func (t *traceRec) stamp(s string) { t.put(t.seq(), s) }

// monotone records the reading of a flag that only ever goes false -> true
func (t *traceRec) monotone(read func() bool, render func(bool) string) bool {
	before := t.seq()
	b := read()
	if b {
		t.put(t.seq(), render(true))
	} else {
		t.put(before, render(false))
	}
	return b
}

func (t *traceRec) String() string {
	t.mu.Lock()
	defer t.mu.Unlock()
	sort.Slice(t.evs, func(i, j int) bool { return t.evs[i].seq < t.evs[j].seq })
	out := make([]string, len(t.evs))
	for i, e := range t.evs {
		out[i] = e.s
	}
	return strings.Join(out, " ")
}

func b01(b bool) string {
	if b {
		return "1"
	}
	return "0"
}

const traceLimit = 2 * time.Millisecond

type traceSlice struct{}

func (traceSlice) reset() {}

func (traceSlice) exec(t []string) string {
	switch t[0] {
	case "timeout":
		return traceTimeout(t[1], t[2], time.Duration(atoi(t[3]))*time.Microsecond)
	case "future":
		return traceFuture(t[1], int(atoi(t[2])), atoi(t[3]), time.Duration(atoi(t[4]))*time.Microsecond)
	case "hedge":
		return traceHedge(int(atoi(t[1])), t[2], t[3:])
	}
	return "bad-op"
}

func traceTimeout(placement, kind string, dur time.Duration) string {
	rec := &traceRec{}
	var listener atomic.Int32
	var start time.Time
	early := func() string { return b01(time.Since(start) < traceLimit) }
	to := timeout.Builder[int](traceLimit).OnTimeoutExceeded(func(failsafe.ExecutionDoneEvent[int]) {
		listener.Add(1)
		s := rec.seq()
		rec.put(s, "listener:"+early())
	}).Build()
	var fnExec atomic.Value
	see := func(e failsafe.Execution[int]) {
		before := rec.seq()
		if e.IsCanceled() {
			s := rec.seq()
			rec.put(s, "see:1:"+early())
		} else {
			rec.put(before, "see:0:0")
		}
	}
	fn := func(e failsafe.Execution[int]) (int, error) {
		fnExec.Store(e)
		see(e)
		switch kind {
		case "block":
			<-e.Canceled()
		default:
			waitOrCancel(e, dur)
		}
		see(e)
		rec.stamp("fnret:0")
		return 42, nil
	}
	var err error
	start = time.Now()
	switch placement {
	case "fallback":
		_, err = failsafe.NewExecutor[int](fallback.BuilderWithResult(7).HandleErrors(errX).Build(), to).GetWithExecution(fn)
	case "async":
		_, err = failsafe.NewExecutor[int](to).GetWithExecutionAsync(fn).Get()
	default:
		_, err = failsafe.NewExecutor[int](to).GetWithExecution(fn)
	}
	exceeded := errors.Is(err, timeout.ErrExceeded)
	if err != nil && !exceeded {
		return "unexpected-error:" + strings.ReplaceAll(err.Error(), " ", "_")
	}
	if exceeded {
		s := rec.seq()
		rec.put(s, "ret:exceeded:"+early())
	} else {
		rec.stamp("ret:inner:0")
	}
	e, _ := fnExec.Load().(failsafe.Execution[int])
	// wait for the timer side to go quiet: after ErrExceeded the callback still has to call the listener and cancel; after an inner
	// result a callback that lost the race just ends. A state that is wrong stays wrong, so waiting cannot hide a violation.
	if exceeded {
		for t0 := time.Now(); time.Since(t0) < time.Second; time.Sleep(50 * time.Microsecond) {
			if listener.Load() >= 1 && e != nil && e.IsCanceled() {
				break
			}
		}
	} else {
		time.Sleep(2 * time.Millisecond)
	}
	rec.stamp(fmt.Sprintf("final:%d:%s", listener.Load(), b01(e != nil && e.IsCanceled())))
	return rec.String()
}

func traceFuture(entry string, readers int, cancelAfterUs int64, fnDur time.Duration) string {
	rec := &traceRec{}
	ex := failsafe.NewExecutor[int]().OnDone(func(failsafe.ExecutionDoneEvent[int]) {
		rec.stamp("listener")
		time.Sleep(30 * time.Microsecond) // readers get a chance to look while the listener is still running
	})
	var r failsafe.ExecutionResult[int]
	if entry == "exec" {
		r = ex.GetWithExecutionAsync(func(e failsafe.Execution[int]) (int, error) { waitOrCancel(e, fnDur); return 1, nil })
	} else {
		r = ex.GetAsync(func() (int, error) { time.Sleep(fnDur); return 1, nil })
	}
	var wg sync.WaitGroup
	for i := 0; i < readers; i++ {
		wg.Add(1)
		i := i
		go func() {
			defer wg.Done()
			for polls := 0; ; polls++ {
				if i%2 == 0 {
					rec.monotone(r.IsDone, func(b bool) string { return "isdone:" + b01(b) })
				}
				closed := rec.monotone(func() bool {
					select {
					case <-r.Done():
						return true
					default:
						return false
					}
				}, func(b bool) string { return "closed:" + b01(b) })
				if closed || polls >= 40 {
					// the tightest look a reader can take: the flag right after it found the channel closed
					if closed {
						rec.monotone(r.IsDone, func(b bool) string { return "isdone:" + b01(b) })
					}
					r.Get()
					rec.stamp("got")
					rec.monotone(r.IsDone, func(b bool) string { return "isdone:" + b01(b) })
					return
				}
				if i == 0 && polls%8 == 7 {
					time.Sleep(20 * time.Microsecond)
				} else {
					runtime.Gosched()
				}
			}
		}()
	}
	if cancelAfterUs >= 0 {
		time.Sleep(time.Duration(cancelAfterUs) * time.Microsecond)
		rec.stamp("cancel")
		r.Cancel()
	}
	wg.Wait()
	r.Get()
	return rec.String()
}

// traceHedge: one real hedged execution. spec[j] = "<µs>:<c>": how long the j-th entered attempt runs and whether the value it returns
// matches the cancel conditions ("odd": CancelIf(value is odd); "any": no conditions configured, every result is accepted).
func traceHedge(maxHedges int, conds string, spec []string) string {
	rec := &traceRec{}
	b := hedgepolicy.BuilderWithDelay[int](400 * time.Microsecond).WithMaxHedges(maxHedges).
		OnHedge(func(failsafe.ExecutionEvent[int]) { rec.stamp("hedge") })
	if conds == "odd" {
		b.CancelIf(func(v int, _ error) bool { return v%2 == 1 })
	}
	var ids atomic.Int32
	var emu sync.Mutex
	execs := map[int]failsafe.Execution[int]{}
	fn := func(e failsafe.Execution[int]) (int, error) {
		j := int(ids.Add(1)) - 1
		rec.stamp(fmt.Sprintf("enter:%d", j))
		emu.Lock()
		execs[j] = e
		emu.Unlock()
		f := strings.Split(spec[min(j, len(spec)-1)], ":")
		c := f[1] == "1"
		var ferr error
		if len(f) > 2 && f[2] == "1" {
			ferr = errX // the attempt's outcome carries an error next to its value: it wins or loses like any other
		}
		waitOrCancel(e, time.Duration(atoi(f[0]))*time.Microsecond)
		rec.stamp(fmt.Sprintf("finish:%d:%s", j, b01(c || conds == "any")))
		if c {
			return 101 + 2*j, ferr
		}
		return 100 + 2*j, ferr
	}
	val, err := failsafe.NewExecutor[int](b.Build()).GetWithExecution(fn)
	if err != nil && !errors.Is(err, errX) {
		return "unexpected-error:" + strings.ReplaceAll(err.Error(), " ", "_")
	}
	rec.stamp(fmt.Sprintf("ret:%d", (val-100)/2))
	emu.Lock()
	snapshot := map[int]failsafe.Execution[int]{}
	for j, e := range execs {
		snapshot[j] = e
	}
	emu.Unlock()
	for j := 0; j <= maxHedges; j++ {
		if e, ok := snapshot[j]; ok {
			c := e.IsCanceled()
			rec.stamp(fmt.Sprintf("see:%d:%s", j, b01(c)))
		}
	}
	// every attempt the coordinator counted and announced (CopyForHedge, OnHedge) was also started: after a grace period the number of
	// functions ever entered is one more than the number of OnHedge calls
	hedgeEvents := func() int {
		rec.mu.Lock()
		defer rec.mu.Unlock()
		n := 0
		for _, e := range rec.evs {
			if e.s == "hedge" {
				n++
			}
		}
		return n
	}
	for t0 := time.Now(); time.Since(t0) < 100*time.Millisecond && int(ids.Load()) != 1+hedgeEvents(); time.Sleep(100 * time.Microsecond) {
	}
	rec.stamp(fmt.Sprintf("settled:%d", ids.Load()))
	// attempts still running have been cancelled and return at once
	return rec.String()
}

func init() {
	slices["trace"] = func() slice { return traceSlice{} }
	// one generator per model, so that each property's check only replays the runs its own model explains
	gen := func(kinds string) generator {
		return func(r *rand.Rand, n int, tier string, emit func(string) string) {
			for c := 0; c < n; c++ {
				emit(fmt.Sprintf("case trace-%d", c))
				if strings.Contains(kinds, "timeout") {
					for k := 0; k < 4; k++ {
						kind := pick(r, "short", "near", "near", "tight", "tight", "long", "block")
						dur := 50
						switch kind {
						case "near":
							dur = int(traceLimit/time.Microsecond) + r.Intn(400) - 200
						case "tight":
							// the function returns within a few tens of microseconds of the timer: both sides reach their CAS together
							dur = int(traceLimit/time.Microsecond) + r.Intn(120) - 90
						case "long":
							dur = 20000
						}
						emit(fmt.Sprintf("trace timeout %s %s %d", pick(r, "alone", "alone", "fallback", "async"), kind, dur))
					}
				}
				if strings.Contains(kinds, "hedge") {
					for k := 0; k < 3; k++ {
						mh := r.Intn(4)
						var spec []string
						for j := 0; j <= mh; j++ {
							spec = append(spec, fmt.Sprintf("%d:%d:%d", pick(r, 0, 100, 350, 450, 700, 1200, 2000), r.Intn(2), pick(r, 0, 0, 1)))
						}
						emit(fmt.Sprintf("trace hedge %d %s %s", mh, pick(r, "any", "odd", "odd"), strings.Join(spec, " ")))
					}
				}
				if strings.Contains(kinds, "future") {
					for k := 0; k < 4; k++ {
						cancel := -1
						if r.Intn(3) == 0 {
							cancel = r.Intn(300)
						}
						emit(fmt.Sprintf("trace future %s %d %d %d", pick(r, "get", "exec"), 1+r.Intn(4), cancel, r.Intn(300)))
					}
				}
			}
		}
	}
	generators["trace"] = gen("timeout hedge future")
	generators["tracetimeout"] = gen("timeout")
	generators["tracehedge"] = gen("hedge")
	generators["tracefuture"] = gen("future")
}
