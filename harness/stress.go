package main

import (
	"github.com/failsafe-go/failsafe-go/failsafehttp"
	"net/http"
	"io"
	"bytes"
	"context"
	"errors"
	"flag"
	"fmt"
	"math/rand"
	"runtime"
	"sort"
	"strings"
	"sync"
	"sync/atomic"
	"time"

	"github.com/failsafe-go/failsafe-go"
	"github.com/failsafe-go/failsafe-go/bulkhead"
	"github.com/failsafe-go/failsafe-go/cachepolicy"
	"github.com/failsafe-go/failsafe-go/circuitbreaker"
	"github.com/failsafe-go/failsafe-go/fallback"
	"github.com/failsafe-go/failsafe-go/hedgepolicy"
	"github.com/failsafe-go/failsafe-go/ratelimiter"
	"github.com/failsafe-go/failsafe-go/retrypolicy"
	"github.com/failsafe-go/failsafe-go/timeout"
)

// stress: concurrent scenarios against the real library with property monitors (TRACE tie / search engine for the
// concurrency properties). Each scenario prints one line:
//
//	stress <scenario> runs=<n> <counters…> violations={…} ok|VIOLATION
//
// All randomness derives from -seed. Functions under test block or yield between observations and never hot-spin (the
// race detector does not report racy reads in hot loops).

var errX = errors.New("x")

type violations struct {
	mu sync.Mutex
	m  map[string]int
	c  map[string]int
}

func newViol() *violations { return &violations{m: map[string]int{}, c: map[string]int{}} }
func (v *violations) add(k string) {
	v.mu.Lock()
	v.m[k]++
	v.mu.Unlock()
}
func (v *violations) count(k string) {
	v.mu.Lock()
	v.c[k]++
	v.mu.Unlock()
}
func fmtMap(m map[string]int) string {
	ks := make([]string, 0, len(m))
	for k := range m {
		ks = append(ks, k)
	}
	sort.Strings(ks)
	var sb strings.Builder
	sb.WriteString("{")
	for i, k := range ks {
		if i > 0 {
			sb.WriteString(", ")
		}
		fmt.Fprintf(&sb, "%s: %d", strings.ReplaceAll(k, " ", "_"), m[k])
	}
	sb.WriteString("}")
	return sb.String()
}
func (v *violations) report(name string, runs int) int {
	verdict := "ok"
	if len(v.m) > 0 {
		verdict = "VIOLATION"
	}
	fmt.Printf("stress %s runs=%d outcomes=%s violations=%s %s\n", name, runs, fmtMap(v.c), fmtMap(v.m), verdict)
	if len(v.m) > 0 {
		return 1
	}
	return 0
}

func waitOrCancel(e failsafe.Execution[int], d time.Duration) {
	t := time.NewTimer(d)
	select {
	case <-t.C:
	case <-e.Canceled():
		t.Stop()
	}
}

// ---------------------------------------------------------------------------------------------------- C07 timeout

func stressTimeout(seed int64, scale int) int {
	v := newViol()
	const limit = 2 * time.Millisecond
	rng := rand.New(rand.NewSource(seed))
	var wg sync.WaitGroup
	runs := 0
	for w := 0; w < 8; w++ {
		wg.Add(1)
		s := rng.Int63()
		per := 250 * scale
		runs += per
		go func() {
			defer wg.Done()
			r := rand.New(rand.NewSource(s))
			for i := 0; i < per; i++ {
				var listener atomic.Int32
				to := timeout.Builder[int](limit).OnTimeoutExceeded(func(failsafe.ExecutionDoneEvent[int]) { listener.Add(1) }).Build()
				// function duration: far below, around (±200µs), far above, or blocking until cancelled
				var dur time.Duration
				blocking := false
				switch r.Intn(6) {
				case 0:
					dur = 50 * time.Microsecond
				case 1:
					dur = 20 * time.Millisecond
				case 2:
					blocking = true
				default:
					dur = limit + time.Duration(r.Intn(400)-200)*time.Microsecond
				}
				placement := r.Intn(4)
				var fnExec atomic.Value
				attempts := atomic.Int32{}
				fn := func(e failsafe.Execution[int]) (int, error) {
					fnExec.Store(e)
					attempts.Add(1)
					if blocking {
						<-e.Canceled()
					} else {
						waitOrCancel(e, dur)
					}
					return 42, nil
				}
				t0 := time.Now()
				var val int
				var err error
				switch placement {
				case 0: // alone
					val, err = failsafe.NewExecutor[int](to).GetWithExecution(fn)
				case 1: // under a fallback that does not handle the timeout
					val, err = failsafe.NewExecutor[int](fallback.BuilderWithResult(7).HandleErrors(errX).Build(), to).GetWithExecution(fn)
				case 2: // bulkhead + limiter inside
					val, err = failsafe.NewExecutor[int](to, bulkhead.With[int](2), ratelimiter.Bursty[int](100, time.Second)).GetWithExecution(fn)
				case 3: // async
					val, err = failsafe.NewExecutor[int](to).GetWithExecutionAsync(fn).Get()
				}
				el := time.Since(t0)
				time.Sleep(300 * time.Microsecond) // grace for the timer goroutine
				l := listener.Load()
				e, _ := fnExec.Load().(failsafe.Execution[int])
				switch {
				case err == nil:
					v.count("inner")
					if val != 42 || l != 0 || (e != nil && e.IsCanceled()) {
						v.add(fmt.Sprintf("inner result but listener=%d canceled=%v val=%d", l, e != nil && e.IsCanceled(), val))
					}
					if blocking {
						v.add("blocking function ended without ErrExceeded")
					}
				case errors.Is(err, timeout.ErrExceeded):
					v.count("timeout")
					if l != 1 || (e != nil && !e.IsCanceled()) {
						v.add(fmt.Sprintf("timeout but listener=%d canceled=%v", l, e != nil && e.IsCanceled()))
					}
					if el < limit {
						v.add("ErrExceeded before the limit elapsed")
					}
				default:
					v.add("other error " + err.Error())
				}
			}
		}()
	}
	wg.Wait()
	// fresh limit per attempt when a retry encloses the Timeout: k blocking attempts then an instant one
	for i := 0; i < 10*scale; i++ {
		var listener atomic.Int32
		to := timeout.Builder[int](limit).OnTimeoutExceeded(func(failsafe.ExecutionDoneEvent[int]) { listener.Add(1) }).Build()
		k := 1 + rng.Intn(3)
		n := atomic.Int32{}
		var starts []time.Time
		var ends []time.Time
		var mu sync.Mutex
		t0 := time.Now()
		val, err := failsafe.NewExecutor[int](retrypolicy.Builder[int]().WithMaxRetries(5).Build(), to).GetWithExecution(func(e failsafe.Execution[int]) (int, error) {
			mu.Lock()
			starts = append(starts, time.Now())
			mu.Unlock()
			if int(n.Add(1)) <= k {
				<-e.Canceled()
				mu.Lock()
				ends = append(ends, time.Now())
				mu.Unlock()
				return 0, errX
			}
			return 9, nil
		})
		time.Sleep(300 * time.Microsecond)
		runs++
		v.count("retry-around-timeout")
		if err != nil || val != 9 || int(listener.Load()) != k {
			v.add(fmt.Sprintf("retry(timeout): k=%d listener=%d err=%v val=%d", k, listener.Load(), err, val))
		}
		for j := range ends {
			if ends[j].Sub(starts[j]) < limit-50*time.Microsecond {
				v.add("an attempt's limit did not start afresh (cancelled early)")
			}
		}
		if time.Since(t0) < time.Duration(k)*limit {
			v.add("k timeouts took less than k limits")
		}
	}
	// the limit is the Timeout's own: an executor context whose deadline passes earlier does not make the Timeout fire. The function
	// ignores the cancellation of its context for a while and then returns its result, well inside the Timeout's limit.
	for i := 0; i < 10*scale; i++ {
		var listener atomic.Int32
		to := timeout.Builder[int](200 * time.Millisecond).OnTimeoutExceeded(func(failsafe.ExecutionDoneEvent[int]) { listener.Add(1) }).Build()
		ctx, cancel := context.WithTimeout(context.Background(), time.Millisecond)
		t0 := time.Now()
		val, err := failsafe.NewExecutor[int](to).WithContext(ctx).GetWithExecution(func(e failsafe.Execution[int]) (int, error) {
			time.Sleep(3 * time.Millisecond) // winds down after its context's deadline
			return 42, nil
		})
		el := time.Since(t0)
		cancel()
		time.Sleep(300 * time.Microsecond)
		runs++
		v.count("context-deadline-before-limit")
		if errors.Is(err, timeout.ErrExceeded) || listener.Load() != 0 {
			v.add(fmt.Sprintf("a Timeout of 200 ms fired after %v (listener calls %d, err %v): its executor context had a 1 ms deadline", el, listener.Load(), err))
		} else if err != nil || val != 42 {
			v.add(fmt.Sprintf("Timeout that did not fire did not return the inner result: (%d, %v)", val, err))
		}
	}
	// a Timeout that fires for one attempt says nothing about a sibling attempt: under a hedge policy (whose cancel condition lets a
	// timed-out attempt pass) the hedged attempt, started 15 ms later with a limit of its own, is not cancelled when the first
	// attempt's limit elapses - it reads IsCanceled() == false and its context is live
	for i := 0; i < 2*scale; i++ {
		fired := make(chan struct{})
		var once sync.Once
		var k atomic.Int32
		sawCancelled, ctxDone := false, false
		to := timeout.Builder[int](20 * time.Millisecond).OnTimeoutExceeded(func(failsafe.ExecutionDoneEvent[int]) { once.Do(func() { close(fired) }) }).Build()
		hp := hedgepolicy.BuilderWithDelay[int](15 * time.Millisecond).WithMaxHedges(1).CancelIf(func(_ int, err error) bool { return err == nil }).Build()
		val, err := failsafe.NewExecutor[int](hp, to).GetWithExecution(func(e failsafe.Execution[int]) (int, error) {
			if k.Add(1) == 1 {
				<-e.Canceled()
				return 0, errX
			}
			select {
			case <-fired:
			case <-time.After(time.Second):
			}
			sawCancelled, ctxDone = e.IsCanceled(), e.Context().Err() != nil
			return 5, nil
		})
		runs++
		v.count("sibling-attempt-after-timeout")
		if err != nil || val != 5 || sawCancelled || ctxDone {
			v.add(fmt.Sprintf("hedged attempt after its sibling's Timeout fired: result (%d, %v), IsCanceled=%v, context done=%v (want (5, nil), false, false)", val, err, sawCancelled, ctxDone))
		}
	}
	// an execution that was cancelled from outside first, whose function is still winding down when the Timeout's limit elapses: the
	// timer's Cancel meets an already cancelled execution. Whatever error is reported (two sources: either is legitimate), the
	// execution must end, and the listener is told at most once.
	for i := 0; i < 6*scale; i++ {
		var listener atomic.Int32
		to := timeout.Builder[int](limit).OnTimeoutExceeded(func(failsafe.ExecutionDoneEvent[int]) { listener.Add(1) }).Build()
		ctx, cancel := context.WithCancel(context.Background())
		var outer failsafe.Policy[int] = retrypolicy.Builder[int]().WithMaxRetries(2).Build()
		if i%2 == 1 {
			outer = fallback.BuilderWithResult(7).HandleErrors(errX).Build()
		}
		done := make(chan error, 1)
		go func() {
			_, err := failsafe.NewExecutor[int](outer, to).WithContext(ctx).GetWithExecution(func(e failsafe.Execution[int]) (int, error) {
				cancel()                     // the caller gives up …
				time.Sleep(3 * limit)        // … and the function takes a while to notice: the limit elapses meanwhile
				return 0, errX
			})
			done <- err
		}()
		runs++
		v.count("cancelled-then-limit-elapses")
		select {
		case err := <-done:
			if err == nil {
				v.add("an execution cancelled by its caller ended without an error")
			}
			if listener.Load() > 1 {
				v.add(fmt.Sprintf("timeout listener called %d times", listener.Load()))
			}
		case <-time.After(3 * time.Second):
			v.add(fmt.Sprintf("the execution never ended after its caller cancelled it and its Timeout fired (listener calls %d)", listener.Load()))
		}
		cancel()
	}
	return v.report("timeout", runs)
}

// ---------------------------------------------------------------------------------------------------- C06 bulkhead

func stressBulkhead(seed int64, scale int) int {
	v := newViol()
	rng := rand.New(rand.NewSource(seed))
	rounds := 12 * scale
	for round := 0; round < rounds; round++ {
		cap := 1 + rng.Intn(3)
		maxWait := []time.Duration{0, 300 * time.Microsecond, 5 * time.Millisecond}[rng.Intn(3)]
		var full atomic.Int32
		bh := bulkhead.Builder[int](uint(cap)).WithMaxWaitTime(maxWait).OnFull(func(failsafe.ExecutionEvent[int]) { full.Add(1) }).Build()
		ext := 0
		if cap > 1 && rng.Intn(3) == 0 { // a permit held through the standalone API counts too
			if bh.TryAcquirePermit() {
				ext = 1
			}
		}
		var inflight, maxIn atomic.Int32
		var wg sync.WaitGroup
		n := 4 * cap
		var fullErrs atomic.Int32
		for i := 0; i < n*10; i++ {
			wg.Add(1)
			kind := rng.Intn(5)
			dur := time.Duration(rng.Intn(600)) * time.Microsecond
			cancelAfter := time.Duration(rng.Intn(800)) * time.Microsecond
			go func() {
				defer wg.Done()
				fn := func(e failsafe.Execution[int]) (int, error) {
					c := inflight.Add(1)
					for {
						m := maxIn.Load()
						if c <= m || maxIn.CompareAndSwap(m, c) {
							break
						}
					}
					waitOrCancel(e, dur)
					inflight.Add(-1)
					return 1, errX
				}
				var err error
				switch kind {
				case 0:
					_, err = failsafe.NewExecutor[int](bh).GetWithExecution(fn)
				case 1: // context deadline while waiting / holding
					ctx, cancel := context.WithTimeout(context.Background(), cancelAfter)
					_, err = failsafe.NewExecutor[int](bh).WithContext(ctx).GetWithExecution(fn)
					cancel()
				case 2: // timeout outside, retry inside
					_, err = failsafe.NewExecutor[int](timeout.With[int](cancelAfter+50*time.Microsecond), retrypolicy.Builder[int]().WithMaxRetries(1).Build(), bh).GetWithExecution(fn)
				case 3: // async + fallback
					_, err = failsafe.NewExecutor[int](fallback.WithResult(9), bh).GetWithExecutionAsync(fn).Get()
				case 4: // hedge outside
					_, err = failsafe.NewExecutor[int](hedgepolicy.BuilderWithDelay[int](200*time.Microsecond).WithMaxHedges(1).Build(), bh).GetWithExecution(fn)
				}
				switch {
				case err == nil:
					v.count("ok")
				case errors.Is(err, bulkhead.ErrFull):
					v.count("full")
					fullErrs.Add(1)
				default:
					v.count("other")
				}
			}()
			if i%n == n-1 {
				time.Sleep(300 * time.Microsecond)
			}
		}
		// standalone callers blocked on a full bulkhead and cancelled there must not disturb the holders
		for i := 0; i < 4; i++ {
			wg.Add(1)
			go func() {
				defer wg.Done()
				ctx, cancel := context.WithTimeout(context.Background(), time.Duration(100+rng.Intn(300))*time.Microsecond)
				defer cancel()
				if bh.AcquirePermit(ctx) == nil {
					c := inflight.Add(1)
					for {
						m := maxIn.Load()
						if c <= m || maxIn.CompareAndSwap(m, c) {
							break
						}
					}
					time.Sleep(200 * time.Microsecond)
					inflight.Add(-1)
					bh.ReleasePermit()
				}
			}()
		}
		wg.Wait()
		time.Sleep(time.Millisecond) // cancelled hedge attempts release asynchronously
		if int(maxIn.Load())+ext > cap {
			v.add(fmt.Sprintf("in-flight %d + standalone %d exceeded capacity %d", maxIn.Load(), ext, cap))
		}
		free := 0
		for bh.TryAcquirePermit() {
			free++
		}
		if free+ext != cap {
			v.add(fmt.Sprintf("permits after quiescence %d + standalone %d != capacity %d", free, ext, cap))
		}
	}
	return v.report("bulkhead", rounds)
}

// ---------------------------------------------------------------------------------------------------- C04 breaker

func stressBreaker(seed int64, scale int) int {
	v := newViol()
	rng := rand.New(rand.NewSource(seed))
	rounds := 40 * scale
	for round := 0; round < rounds; round++ {
		var now atomic.Int64
		now.Store(1000)
		capTrial := 1 + rng.Intn(3)
		ft := 1 + rng.Intn(3)
		delay := int64(100)
		var opened, halfOpened, probeInvoked atomic.Int32
		var probeWg sync.WaitGroup
		var cbRef atomic.Pointer[circuitbreaker.CircuitBreaker[int]]
		// every state change, in the order the (slow) generic listener was told about it: must be a connected path
		var evMu sync.Mutex
		var evPath [][2]circuitbreaker.State
		b := circuitbreaker.Builder[int]().WithFailureThreshold(uint(ft)).WithSuccessThresholdRatio(uint(capTrial), uint(capTrial)).WithDelay(time.Duration(delay)).
			OnOpen(func(circuitbreaker.StateChangedEvent) {
				if opened.Add(1) != 1 {
					return
				}
				// the breaker is open from here on (the clock is held): executions started from inside its own listener, while
				// the listener is still running, must be rejected like any other
				for k := 0; k < 3; k++ {
					probeWg.Add(1)
					go func() {
						defer probeWg.Done()
						failsafe.NewExecutor[int](*cbRef.Load()).Get(func() (int, error) { probeInvoked.Add(1); return 1, nil })
					}()
				}
				time.Sleep(150 * time.Microsecond)
			}).OnHalfOpen(func(circuitbreaker.StateChangedEvent) { halfOpened.Add(1) }).
			OnStateChanged(func(e circuitbreaker.StateChangedEvent) {
				time.Sleep(20 * time.Microsecond)
				evMu.Lock()
				evPath = append(evPath, [2]circuitbreaker.State{e.OldState, e.NewState})
				evMu.Unlock()
			})
		circuitbreaker.VerifSetClock(b, func() int64 { return now.Load() })
		cb := b.Build()
		cbRef.Store(&cb)
		// phase 1: many executions race with the failures that open the breaker
		var wg sync.WaitGroup
		gate := make(chan struct{})
		var invoked atomic.Int32
		n := 6 + rng.Intn(10)
		for i := 0; i < n; i++ {
			wg.Add(1)
			kind := rng.Intn(4)
			go func() {
				defer wg.Done()
				fn := func(e failsafe.Execution[int]) (int, error) {
					invoked.Add(1)
					<-gate
					return 0, errX
				}
				switch kind {
				case 0:
					failsafe.NewExecutor[int](cb).GetWithExecution(fn)
				case 1:
					failsafe.NewExecutor[int](cb).GetWithExecutionAsync(fn).Get()
				case 2:
					failsafe.NewExecutor[int](fallback.WithResult(1), cb).GetWithExecution(fn)
				case 3:
					failsafe.NewExecutor[int](timeout.With[int](time.Second), cb).GetWithExecution(fn)
				}
			}()
		}
		time.Sleep(300 * time.Microsecond)
		close(gate)
		wg.Wait()
		probeWg.Wait()
		if probeInvoked.Load() != 0 {
			v.add(fmt.Sprintf("open breaker admitted %d executions started while its OnOpen listener was running", probeInvoked.Load()))
		}
		if !cb.IsOpen() {
			v.add("breaker not open after threshold failures")
			continue
		}
		// phase 2: open, delay not elapsed (clock held): nothing is invoked, everything fails with ErrOpen
		var inv2 atomic.Int32
		for i := 0; i < 12; i++ {
			wg.Add(1)
			go func() {
				defer wg.Done()
				_, err := failsafe.NewExecutor[int](retrypolicy.Builder[int]().WithMaxRetries(1).Build(), cb).GetWithExecution(func(failsafe.Execution[int]) (int, error) {
					inv2.Add(1)
					return 1, nil
				})
				if !errors.Is(err, circuitbreaker.ErrOpen) {
					v.add("open breaker did not fail the execution with ErrOpen")
				}
			}()
		}
		now.Add(delay - 1)
		wg.Wait()
		if inv2.Load() != 0 {
			v.add(fmt.Sprintf("open breaker admitted %d executions before the delay elapsed", inv2.Load()))
		}
		v.count("open-phase")
		// phase 3: delay elapsed: at most capTrial trials run concurrently; every trial returns its permit
		now.Add(1)
		gate3 := make(chan struct{})
		var running, maxRunning, rejected atomic.Int32
		m := capTrial + 2 + rng.Intn(4)
		results := make([]bool, m)
		for i := range results {
			results[i] = rng.Intn(2) == 0
		}
		for i := 0; i < m; i++ {
			wg.Add(1)
			i := i
			go func() {
				defer wg.Done()
				ps := []failsafe.Policy[int]{cb}
				cancelledTrial := i%3 == 2
				if cancelledTrial { // this trial is cut short by an enclosing Timeout while it holds its permit
					ps = []failsafe.Policy[int]{timeout.With[int](200 * time.Microsecond), cb}
				}
				_, err := failsafe.NewExecutor[int](ps...).GetWithExecution(func(e failsafe.Execution[int]) (int, error) {
					c := running.Add(1)
					for {
						mx := maxRunning.Load()
						if c <= mx || maxRunning.CompareAndSwap(mx, c) {
							break
						}
					}
					if cancelledTrial {
						<-e.Canceled()
						running.Add(-1)
						return 0, errX
					}
					<-gate3
					running.Add(-1)
					if results[i] {
						return 1, nil
					}
					return 0, errX
				})
				if errors.Is(err, circuitbreaker.ErrOpen) {
					rejected.Add(1)
				}
			}()
		}
		time.Sleep(400 * time.Microsecond)
		if int(maxRunning.Load()) > capTrial {
			v.add(fmt.Sprintf("half-open admitted %d concurrent trials, capacity %d", maxRunning.Load(), capTrial))
		}
		close(gate3)
		wg.Wait()
		v.count("half-open-phase")
		// after quiescence: if still half-open, all trial permits are back
		if cb.IsHalfOpen() {
			free := 0
			for cb.TryAcquirePermit() {
				free++
				if free > capTrial+5 {
					break
				}
			}
			if free != capTrial {
				v.add(fmt.Sprintf("half-open after quiescence: %d permits available, capacity %d", free, capTrial))
			}
		}
		if halfOpened.Load() < 1 {
			v.add("no half-open transition after the delay elapsed")
		}
		evMu.Lock()
		prev := circuitbreaker.ClosedState
		for i, ev := range evPath {
			if ev[0] != prev || ev[0] == ev[1] {
				v.add(fmt.Sprintf("state-change events do not form a connected path: event %d is %v>%v after state %v", i, ev[0], ev[1], prev))
				break
			}
			prev = ev[1]
		}
		if len(evPath) > 0 && prev != cb.State() {
			v.add(fmt.Sprintf("the last state-change event announced %v but the breaker is %v", prev, cb.State()))
		}
		evMu.Unlock()
		// listeners are told about transitions in the order the transitions happen, also when another goroutine causes the next
		// transition while the listener of the previous one is still running (it is slow here: 300 us)
		{
			var mu3 sync.Mutex
			var path [][2]circuitbreaker.State
			started := make(chan struct{})
			var once sync.Once
			b3 := circuitbreaker.Builder[int]().WithFailureThreshold(1).WithDelay(0).OnStateChanged(func(e circuitbreaker.StateChangedEvent) {
				first := false
				once.Do(func() { first = true; close(started) })
				if first {
					time.Sleep(300 * time.Microsecond)
				}
				mu3.Lock()
				path = append(path, [2]circuitbreaker.State{e.OldState, e.NewState})
				mu3.Unlock()
			})
			cb3 := b3.Build()
			doneB := make(chan struct{})
			go func() {
				<-started
				cb3.TryAcquirePermit() // delay 0: open -> half-open
				close(doneB)
			}()
			cb3.RecordFailure() // closed -> open
			select {
			case <-doneB:
			case <-time.After(2 * time.Second):
				v.add("a permit request concurrent with a state-change listener did not return")
			}
			mu3.Lock()
			prev3 := circuitbreaker.ClosedState
			for i, ev := range path {
				if ev[0] != prev3 {
					v.add(fmt.Sprintf("state-change events out of order under concurrency: event %d is %v>%v after state %v", i, ev[0], ev[1], prev3))
					break
				}
				prev3 = ev[1]
			}
			mu3.Unlock()
			v.count("listener-order")
		}
		// "however the execution ends": half-open trials that are cut short by their caller (context cancel, async Cancel), by an
		// enclosing Timeout, or that panic-free fail / succeed, all give their permit back. Capacity 5 with 3 successes needed:
		// one or two failed trials do not decide the state, so the breaker stays half-open and all five permits must be free again.
		{
			var clk atomic.Int64
			clk.Store(1000)
			b2 := circuitbreaker.Builder[int]().WithFailureThreshold(1).WithSuccessThresholdRatio(3, 5).WithDelay(time.Duration(50))
			circuitbreaker.VerifSetClock(b2, func() int64 { return clk.Load() })
			cb2 := b2.Build()
			cb2.RecordFailure()
			clk.Add(60)
			how := rng.Intn(6)
			stubborn := func(e failsafe.Execution[int]) (int, error) { <-e.Canceled(); return 0, errX }
			var err error
			switch how {
			case 0: // the caller's context is cancelled while the trial runs
				ctx, cancel := context.WithCancel(context.Background())
				go func() { time.Sleep(100 * time.Microsecond); cancel() }()
				_, err = failsafe.NewExecutor[int](cb2).WithContext(ctx).GetWithExecution(stubborn)
				cancel()
			case 1: // the async result is cancelled
				r := failsafe.NewExecutor[int](cb2).GetWithExecutionAsync(stubborn)
				time.Sleep(100 * time.Microsecond)
				r.Cancel()
				_, err = r.Get()
			case 2: // an enclosing Timeout fires
				_, err = failsafe.NewExecutor[int](timeout.With[int](150*time.Microsecond), cb2).GetWithExecution(stubborn)
			case 3: // the context deadline passes
				ctx, cancel := context.WithTimeout(context.Background(), 150*time.Microsecond)
				_, err = failsafe.NewExecutor[int](cb2).WithContext(ctx).GetWithExecution(stubborn)
				cancel()
			case 4: // the execution is cancelled already when it is admitted (a context that is done before the call)
				ctx, cancel := context.WithCancel(context.Background())
				cancel()
				_, err = failsafe.NewExecutor[int](cb2).WithContext(ctx).GetWithExecution(stubborn)
			case 5: // the same under a retry policy: admitted once, then the cancellation ends the execution
				ctx, cancel := context.WithCancel(context.Background())
				cancel()
				_, err = failsafe.NewExecutor[int](retrypolicy.Builder[int]().WithMaxRetries(2).Build(), cb2).WithContext(ctx).GetWithExecution(stubborn)
			}
			_ = err
			v.count(fmt.Sprintf("cut-short-trial/%d", how))
			if cb2.IsHalfOpen() {
				free := 0
				for cb2.TryAcquirePermit() && free < 10 {
					free++
				}
				if free != 5 {
					v.add(fmt.Sprintf("a half-open trial cut short (kind %d) did not give its permit back: %d of 5 permits available", how, free))
				}
			} else {
				v.add(fmt.Sprintf("one failed trial of five decided the half-open state (kind %d): %s", how, cb2.State()))
			}
		}
	}
	return v.report("breaker", rounds)
}

// ---------------------------------------------------------------------------------------------------- C09 hedge

func stressHedge(seed int64, scale int) int {
	v := newViol()
	rng := rand.New(rand.NewSource(seed))
	runs := 60 * scale
	for i := 0; i < runs; i++ {
		maxHedges := rng.Intn(4)
		delay := time.Duration(300+rng.Intn(500)) * time.Microsecond
		cancelOn77 := rng.Intn(2) == 0
		n := maxHedges + 1
		// per-attempt plan: duration (or blocking) and outcome
		type plan struct {
			dur      time.Duration
			blocking bool
			val      int
		}
		plans := make([]plan, n)
		anyFiniteCancellable := false
		for k := range plans {
			p := plan{dur: time.Duration(rng.Intn(1500)) * time.Microsecond, val: k + 1}
			if cancelOn77 && rng.Intn(3) == 0 {
				p.val = 7700 + k // cancellable results are those >= 7700; every attempt's value is unique
			}
			plans[k] = p
		}
		// termination rule: a blocking attempt is legal only if some finite attempt yields a cancellable result
		for k := range plans {
			if !cancelOn77 || plans[k].val >= 7700 {
				anyFiniteCancellable = true
			}
			_ = k
		}
		if anyFiniteCancellable {
			for k := range plans {
				cancellable := !cancelOn77 || plans[k].val >= 7700
				if !cancellable && rng.Intn(4) == 0 {
					plans[k].blocking = true
				}
			}
			if !cancelOn77 { // every result is cancellable: let some block, but never all
				blockers := 0
				for k := range plans {
					if k > 0 && rng.Intn(4) == 0 && blockers < n-1 {
						plans[k].blocking = true
						blockers++
					}
				}
			}
		}
		// in a third of the runs the delay comes from a delay function and grows with every hedge: hedge k may not start before
		// the sum of the first k delays
		hedgeDelays := make([]time.Duration, n)
		for k := range hedgeDelays {
			hedgeDelays[k] = delay
		}
		b := hedgepolicy.BuilderWithDelay[int](delay).WithMaxHedges(maxHedges)
		if rng.Intn(3) == 0 {
			for k := range hedgeDelays {
				hedgeDelays[k] = delay * time.Duration(k+1)
			}
			b = hedgepolicy.BuilderWithDelayFunc[int](func(e failsafe.ExecutionAttempt[int]) time.Duration {
				return hedgeDelays[min(e.Hedges(), len(hedgeDelays)-1)]
			}).WithMaxHedges(maxHedges)
		}
		if cancelOn77 {
			b.CancelIf(func(r int, err error) bool { return r >= 7700 })
		}
		var hedgeEvents atomic.Int32
		var hedgeTimes []time.Time
		var mu sync.Mutex
		b.OnHedge(func(failsafe.ExecutionEvent[int]) {
			hedgeEvents.Add(1)
			mu.Lock()
			hedgeTimes = append(hedgeTimes, time.Now())
			mu.Unlock()
		})
		var started atomic.Int32
		execs := make([]failsafe.Execution[int], n)
		finished := make([]atomic.Bool, n)
		var wg sync.WaitGroup
		t0 := time.Now()
		done := make(chan struct{})
		var val int
		var err error
		go func() {
			val, err = failsafe.NewExecutor[int](b.Build()).GetWithExecution(func(e failsafe.Execution[int]) (int, error) {
				wg.Add(1)
				defer wg.Done()
				k := int(started.Add(1)) - 1
				if k >= n {
					v.add("more attempts started than maxHedges+1")
					return 0, errX
				}
				mu.Lock()
				execs[k] = e
				mu.Unlock()
				if plans[k].blocking {
					<-e.Canceled()
				} else {
					waitOrCancel(e, plans[k].dur)
				}
				finished[k].Store(true)
				return plans[k].val, nil
			})
			close(done)
		}()
		select {
		case <-done:
		case <-time.After(2 * time.Second):
			v.add("hedged execution did not return (watchdog)")
			continue
		}
		ret := time.Now()
		// at the moment it returns: every other started attempt has been cancelled, the winner has not
		mu.Lock()
		snapshot := append([]failsafe.Execution[int]{}, execs...)
		mu.Unlock()
		winner := -1
		for k := 0; k < n; k++ {
			if plans[k].val == val && snapshot[k] != nil {
				winner = k
			}
		}
		if err != nil || winner < 0 {
			v.add(fmt.Sprintf("result %d/%v was not produced by any started attempt", val, err))
		} else {
			for k := 0; k < n; k++ {
				if snapshot[k] == nil {
					continue
				}
				if k != winner && !snapshot[k].IsCanceled() {
					// also an attempt that has finished already: its context is what releases what it obtained (an HTTP response)
					v.add("a losing attempt was not cancelled when the call returned")
				}
			}
			if snapshot[winner].IsCanceled() {
				v.add("the winning attempt was cancelled")
			}
			cancellable := !cancelOn77 || val >= 7700
			if !cancellable {
				// a non-cancellable result is only delivered after all maxHedges+1 attempts have finished
				all := int(started.Load()) == n
				for k := 0; k < n; k++ {
					all = all && finished[k].Load()
				}
				if !all {
					v.add("non-cancellable result delivered before all attempts finished")
				}
			}
		}
		if int(started.Load()) > n || int(hedgeEvents.Load()) > maxHedges {
			v.add("more than maxHedges hedges")
		}
		mu.Lock()
		for k, ht := range hedgeTimes {
			var due time.Duration
			for j := 0; j <= k && j < len(hedgeDelays); j++ {
				due += hedgeDelays[j]
			}
			if ht.Sub(t0) < due-20*time.Microsecond {
				v.add("a hedge started before its delays had elapsed")
			}
			if ht.After(ret) {
				v.add("a hedge was started after the call returned")
			}
		}
		mu.Unlock()
		wg.Wait()
		v.count(fmt.Sprintf("hedges=%d", hedgeEvents.Load()))
	}
	// a retry policy around the hedge policy: every round of the retry policy is a hedged execution of its own. A loser of round 1 that
	// is slow to notice its cancellation and returns during round 2 does not count as one of round 2's attempts: round 2 still
	// delivers a non-cancellable result only after both of ITS attempts have finished
	for i := 0; i < scale; i++ {
		var calls atomic.Int32
		rp := retrypolicy.Builder[int]().HandleResult(77).WithMaxRetries(1).Build()
		hp := hedgepolicy.BuilderWithDelay[int](60 * time.Millisecond).WithMaxHedges(1).CancelOnResult(77).Build()
		t0 := time.Now()
		val, err := failsafe.NewExecutor[int](rp, hp).GetWithExecution(func(e failsafe.Execution[int]) (int, error) {
			switch calls.Add(1) {
			case 1: // round 1, first attempt: a straggler, returns 45 ms after it has been cancelled
				<-e.Canceled()
				time.Sleep(45 * time.Millisecond)
				return 0, errX
			case 2: // round 1, hedge (at 60 ms): the cancellable result that ends the round and that the retry policy handles
				return 77, nil
			case 3: // round 2, first attempt (at 60 ms): fails at 135 ms - after the straggler's return (105 ms), before the hedge's
				time.Sleep(75 * time.Millisecond)
				return 0, errX
			default: // round 2, hedge (at 120 ms): the last to finish (180 ms)
				time.Sleep(60 * time.Millisecond)
				return 1, nil
			}
		})
		runs++
		v.count("retry-around-hedge-straggler")
		if err != nil || val != 1 || calls.Load() != 4 {
			v.add(fmt.Sprintf("retry around hedge: round 2 delivered (%d, %v) after %d invocations and %v (want the last attempt's (1, nil) after 4): a straggler of round 1 was counted as an attempt of round 2",
				val, err, calls.Load(), time.Since(t0).Round(time.Millisecond)))
		}
	}
	// a hedge policy inside a hedge policy: the attempt that wins is the inner policy's hedge, running inside the outer policy's hedge.
	// When the composition returns the winner has not been cancelled and every other started attempt has.
	for i := 0; i < 2*scale; i++ {
		outer := hedgepolicy.BuilderWithDelay[int](3 * time.Millisecond).WithMaxHedges(1).Build()
		inner := hedgepolicy.BuilderWithDelay[int](12 * time.Millisecond).WithMaxHedges(1).Build()
		var seq atomic.Int32
		var nmu sync.Mutex
		execs := map[int32]failsafe.Execution[int]{}
		var losers sync.WaitGroup
		losers.Add(3)
		res, err := failsafe.NewExecutor[int](outer, inner).GetWithExecution(func(e failsafe.Execution[int]) (int, error) {
			n := seq.Add(1)
			nmu.Lock()
			execs[n] = e
			nmu.Unlock()
			if n == 4 {
				return 42, nil
			}
			defer losers.Done()
			select {
			case <-e.Canceled():
			case <-time.After(2 * time.Second):
			}
			return -int(n), errX
		})
		nmu.Lock()
		if err != nil || res != 42 || seq.Load() != 4 {
			v.add(fmt.Sprintf("nested hedges: result (%d, %v) after %d attempts, want (42, nil) after 4", res, err, seq.Load()))
		} else {
			if execs[4].IsCanceled() {
				v.add("nested hedges: the winning attempt was cancelled when the execution returned")
			}
			for n := int32(1); n <= 3; n++ {
				if !execs[n].IsCanceled() {
					v.add(fmt.Sprintf("nested hedges: losing attempt %d was not cancelled when the execution returned", n))
				}
			}
		}
		nmu.Unlock()
		losers.Wait()
		runs++
		v.count("nested-hedges")
	}
	// a Timeout inside the hedge policy, and a cancel condition that does not accept its error: one attempt's Timeout has fired
	// (and recorded its result in the state the attempts share) when another attempt wins - the third, still outstanding, is
	// cancelled all the same when the execution returns
	for i := 0; i < scale; i++ {
		hp := hedgepolicy.BuilderWithDelay[int](50 * time.Millisecond).WithMaxHedges(2).CancelIf(func(r int, err error) bool { return err == nil }).Build()
		to := timeout.With[int](150 * time.Millisecond)
		var seq atomic.Int32
		var nmu sync.Mutex
		execs := map[int32]failsafe.Execution[int]{}
		firstTimedOut, thirdStarted, thirdWoke := make(chan struct{}), make(chan struct{}), make(chan time.Time, 1)
		res, err := failsafe.NewExecutor[int](hp, to).GetWithExecution(func(e failsafe.Execution[int]) (int, error) {
			n := seq.Add(1)
			nmu.Lock()
			execs[n] = e
			nmu.Unlock()
			switch n {
			case 1:
				<-e.Canceled()
				close(firstTimedOut)
				return -1, errX
			case 2:
				<-firstTimedOut
				select {
				case <-thirdStarted:
				case <-time.After(time.Second):
				}
				return 42, nil
			default:
				close(thirdStarted)
				select {
				case <-e.Canceled():
				case <-time.After(2 * time.Second):
				}
				thirdWoke <- time.Now()
				return -3, errX
			}
		})
		returned := time.Now()
		nmu.Lock()
		third := execs[3]
		nmu.Unlock()
		if err != nil || res != 42 || third == nil {
			v.count("hedge-over-timeout/inconclusive") // under load the winner's own Timeout may fire first
		} else {
			if !third.IsCanceled() {
				v.add("hedge over timeout: after one attempt's Timeout had fired another attempt won, and the third, still outstanding, was not cancelled when the execution returned")
			}
			select {
			case w := <-thirdWoke:
				if w.Sub(returned) > 80*time.Millisecond { // its own Timeout would end it about 100 ms after the return
					v.add(fmt.Sprintf("hedge over timeout: the outstanding attempt's context ended %v after the execution returned (its own Timeout, not the hedge policy, ended it)", w.Sub(returned).Round(time.Millisecond)))
				}
			case <-time.After(3 * time.Second):
				v.add("hedge over timeout: the outstanding attempt never ended")
			}
		}
		runs++
		v.count("hedge-over-timeout-after-sibling-timed-out")
	}
	return v.report("hedge", runs)
}

// ---------------------------------------------------------------------------------------------------- C08 cancellation

func stressCancel(seed int64, scale int) int {
	v := newViol()
	var wg sync.WaitGroup
	per := 120 * scale
	for w := 0; w < 8; w++ {
		wg.Add(1)
		s := seed*100 + int64(w)
		go func() {
			defer wg.Done()
			rng := rand.New(rand.NewSource(s))
			for i := 0; i < per; i++ {
				stack := rng.Intn(14)
				source := rng.Intn(4) // 0 ctx cancel, 1 ctx deadline, 2 async Cancel, 3 enclosing Timeout
				at := time.Duration(rng.Intn(1500)) * time.Microsecond
				var fbCalls, lateStarts atomic.Int32
				var cancelledAt atomic.Int64
				rp := retrypolicy.Builder[int]().WithMaxRetries(-1).WithDelay(time.Duration(rng.Intn(300)) * time.Microsecond).Build()
				hp := hedgepolicy.BuilderWithDelay[int](200 * time.Microsecond).WithMaxHedges(2).CancelOnResult(77).Build()
				fb := fallback.WithFunc(func(failsafe.Execution[int]) (int, error) { fbCalls.Add(1); return 5, nil })
				cb := circuitbreaker.Builder[int]().WithFailureThreshold(1000000).Build()
				bh := bulkhead.Builder[int](1).WithMaxWaitTime(time.Second).Build()
				rl := ratelimiter.SmoothBuilderWithMaxRate[int](400 * time.Microsecond).WithMaxWaitTime(time.Second).Build()
				var ps []failsafe.Policy[int]
				name := ""
				switch stack {
				case 0:
					ps, name = []failsafe.Policy[int]{rp}, "retry"
				case 1:
					ps, name = []failsafe.Policy[int]{fb, rp}, "fallback>retry"
				case 2:
					ps, name = []failsafe.Policy[int]{rp, cb}, "retry>breaker"
				case 3:
					ps, name = []failsafe.Policy[int]{rp, hp}, "retry>hedge"
				case 4:
					ps, name = []failsafe.Policy[int]{fb, rp, hp}, "fallback>retry>hedge"
				case 5:
					ps, name = []failsafe.Policy[int]{rp, rl}, "retry>ratelimiter"
				case 6:
					bh.TryAcquirePermit() // the bulkhead stays full: every attempt waits for a permit
					ps, name = []failsafe.Policy[int]{rp, bh}, "retry>bulkhead(full)"
				case 7:
					// the limiter encloses the retry: with its first permits taken, the execution waits before the first attempt
					rl2 := ratelimiter.SmoothBuilderWithMaxRate[int](5 * time.Millisecond).WithMaxWaitTime(time.Second).Build()
					rl2.TryAcquirePermit()
					ps, name = []failsafe.Policy[int]{rl2, rp}, "ratelimiter(waiting)>retry"
				case 8:
					// the bulkhead encloses the retry and is full: the execution waits for a permit before the first attempt
					bh.TryAcquirePermit()
					ps, name = []failsafe.Policy[int]{bh, rp}, "bulkhead(full)>retry"
				case 9:
					ps, name = []failsafe.Policy[int]{hp}, "hedge"
				case 10:
					ps, name = []failsafe.Policy[int]{hp, rp}, "hedge>retry"
				case 11:
					bh.TryAcquirePermit()
					ps, name = []failsafe.Policy[int]{bh, hp}, "bulkhead(full)>hedge"
				case 12:
					ps, name = []failsafe.Policy[int]{fb, hp}, "fallback>hedge"
				case 13:
					// a hedge delay far longer than the run: when the cancellation arrives no hedge has been started yet, and the attempt's
					// result (any result is accepted: no cancel conditions) is what wakes the coordinating loop - not the delay timer
					hpLong := hedgepolicy.BuilderWithDelay[int](3 * time.Second).WithMaxHedges(2).Build()
					ps, name = []failsafe.Policy[int]{hpLong}, "hedge(3s delay)"
				}
				fnDur := time.Duration(rng.Intn(400)) * time.Microsecond
				if stack == 9 || stack == 11 || stack == 12 || stack == 13 {
					// without a retry policy the execution would complete on its own: its attempts only return once cancelled, so
					// that the cancellation is what ends it
					fnDur = 2 * time.Second
				}
				fn := func(e failsafe.Execution[int]) (int, error) {
					if c := cancelledAt.Load(); c != 0 && time.Now().UnixNano() > c+int64(100*time.Microsecond) && !e.IsCanceled() {
						lateStarts.Add(1) // started clearly after the cancellation without observing it
					}
					waitOrCancel(e, fnDur)
					return 0, errX
				}
				var err error
				var want error
				src := ""
				t0 := time.Now()
				switch source {
				case 0:
					src, want = "ctxCancel", context.Canceled
					ctx, cancel := context.WithCancel(context.Background())
					if i%3 == 0 {
						// a context cancelled with a cause of the caller's own: its Err() is still context.Canceled, which is what the
						// execution reports (the cause is the caller's business, available through context.Cause)
						cctx, ccancel := context.WithCancelCause(context.Background())
						ctx, cancel = cctx, func() { ccancel(errX) }
					}
					go func() { time.Sleep(at); cancel(); cancelledAt.Store(time.Now().UnixNano()) }()
					_, err = failsafe.NewExecutor[int](ps...).WithContext(ctx).GetWithExecution(fn)
					cancel()
				case 1:
					src, want = "ctxDeadline", context.DeadlineExceeded
					ctx, cancel := context.WithTimeout(context.Background(), at)
					if i%3 == 0 {
						ctx, cancel = context.WithTimeoutCause(context.Background(), at, errX)
					}
					_, err = failsafe.NewExecutor[int](ps...).WithContext(ctx).GetWithExecution(fn)
					cancel()
				case 2:
					src, want = "asyncCancel", failsafe.ErrExecutionCanceled
					r := failsafe.NewExecutor[int](ps...).GetWithExecutionAsync(fn)
					time.Sleep(at)
					r.Cancel()
					cancelledAt.Store(time.Now().UnixNano()) // stamped after Cancel returned: a later start must observe it
					_, err = r.Get()
				case 3:
					src, want = "timeout", timeout.ErrExceeded
					all := append([]failsafe.Policy[int]{timeout.With[int](at + 50*time.Microsecond)}, ps...)
					_, err = failsafe.NewExecutor[int](all...).GetWithExecution(fn)
				}
				el := time.Since(t0)
				key := src + " " + name
				v.count(key)
				switch {
				case err == nil:
					v.add(key + ": nil error although the function only ever fails")
				case errors.Is(err, want):
				default:
					v.add(key + ": unexpected error " + err.Error())
				}
				if fbCalls.Load() > 0 {
					v.add(key + ": fallback enclosed by the cancellation was applied")
				}
				if el > at+400*time.Millisecond { // generous: the waits it must not sit out are 1 s long
					v.add(key + ": did not complete promptly after cancellation")
				}
				if lateStarts.Load() > 1 {
					v.add(key + ": more than one attempt started after the cancellation")
				}
			}
		}()
	}
	wg.Wait()
	return v.report("cancel", 8*per)
}

// ---------------------------------------------------------------------------------------------------- C15 future

func stressFuture(seed int64, scale int) int {
	v := newViol()
	rng := rand.New(rand.NewSource(seed))
	runs := 150 * scale
	for i := 0; i < runs; i++ {
		var doneListenerAt atomic.Int64
		mode := rng.Intn(3)
		rp := retrypolicy.Builder[int]().WithMaxRetries(2).WithDelay(time.Duration(rng.Intn(200)) * time.Microsecond).Build()
		var doneRes atomic.Int64
		var doneErr atomic.Value
		var withoutRetry = rng.Intn(4) == 0 // no policy that reacts to cancellation: a Cancel must not change what is reported
		pols := []failsafe.Policy[int]{rp}
		if withoutRetry {
			pols = nil
		}
		ex := failsafe.NewExecutor[int](pols...).OnDone(func(e failsafe.ExecutionDoneEvent[int]) {
			time.Sleep(50 * time.Microsecond)
			doneRes.Store(int64(e.Result))
			if e.Error != nil {
				doneErr.Store(e.Error)
			}
			doneListenerAt.Store(time.Now().UnixNano())
		})
		var n atomic.Int32
		entry := rng.Intn(4)
		var r failsafe.ExecutionResult[int]
		fnDur := time.Duration(rng.Intn(300)) * time.Microsecond
		switch entry {
		case 0:
			r = ex.GetAsync(func() (int, error) { time.Sleep(fnDur); return int(n.Add(1)), errX })
		case 1:
			r = ex.GetWithExecutionAsync(func(e failsafe.Execution[int]) (int, error) { waitOrCancel(e, fnDur); return int(n.Add(1)), errX })
		case 2:
			r = ex.RunAsync(func() error { time.Sleep(fnDur); n.Add(1); return errX })
		case 3:
			r = ex.RunWithExecutionAsync(func(e failsafe.Execution[int]) error { waitOrCancel(e, fnDur); n.Add(1); return errX })
		}
		cancelAt := time.Duration(rng.Intn(800)) * time.Microsecond
		cancelled := false
		if mode == 1 {
			time.Sleep(cancelAt)
			cancelled = !r.IsDone()
			r.Cancel()
		}
		readers := 1 + rng.Intn(48)
		var wg sync.WaitGroup
		results := make([]int, readers)
		errs := make([]error, readers)
		for k := 0; k < readers; k++ {
			wg.Add(1)
			k := k
			go func() {
				defer wg.Done()
				if k%2 == 0 {
					<-r.Done()
					if !r.IsDone() {
						v.add("Done closed but IsDone false")
					}
					if doneListenerAt.Load() == 0 {
						v.add("Done closed before the completion listener finished")
					}
				} else {
					for !r.IsDone() {
						time.Sleep(20 * time.Microsecond)
					}
					if doneListenerAt.Load() == 0 {
						v.add("IsDone before the completion listener finished")
					}
				}
				results[k], errs[k] = r.Get()
				if r.Result() != results[k] || !errors.Is(r.Error(), errs[k]) && r.Error() != errs[k] {
					v.add("Result()/Error() disagree with Get()")
				}
			}()
		}
		wg.Wait()
		for k := 1; k < readers; k++ {
			if results[k] != results[0] || errs[k] != errs[0] {
				v.add("readers disagree")
			}
		}
		// closed exactly once: a second receive must not block, a double close would have panicked
		select {
		case <-r.Done():
		default:
			v.add("Done not closed after Get returned")
		}
		// the values every reader gets are the ones the completion listener was told about (one result per execution)
		{
			var de error
			if x := doneErr.Load(); x != nil {
				de = x.(error)
			}
			if int64(results[0]) != doneRes.Load() || (errs[0] == nil) != (de == nil) || (errs[0] != nil && errs[0].Error() != de.Error()) {
				v.add(fmt.Sprintf("Get() = (%d, %v) but the completion listener reported (%d, %v)", results[0], errs[0], doneRes.Load(), de))
			}
		}
		// a Cancel after completion changes nothing: the same values to every caller, at every later time
		r.Cancel()
		if v2, e2 := r.Get(); v2 != results[0] || (e2 == nil) != (errs[0] == nil) || (e2 != nil && e2.Error() != errs[0].Error()) {
			v.add(fmt.Sprintf("Get() changed from (%d, %v) to (%d, %v) after a Cancel that came after completion", results[0], errs[0], v2, e2))
		}
		switch {
		case withoutRetry:
			// no retry / hedge policy: a Cancel does not have to be reported; the single invocation's own outcome is
			v.count("no-retry-policy")
			if errs[0] == nil || errs[0].Error() != "x" || n.Load() != 1 {
				v.add(fmt.Sprintf("execution without policies: err=%v invocations=%d", errs[0], n.Load()))
			}
		case mode == 1 && cancelled:
			v.count("cancelled")
			// Cancel took effect before completion iff the result says so; otherwise it is the completed result
			if !errors.Is(errs[0], failsafe.ErrExecutionCanceled) && !errors.Is(errs[0], retrypolicy.ErrExceeded) {
				v.add("cancelled execution reported " + fmt.Sprint(errs[0]))
			}
		default:
			v.count("completed")
			if !errors.Is(errs[0], retrypolicy.ErrExceeded) && !errors.Is(errs[0], failsafe.ErrExecutionCanceled) {
				v.add("unexpected async error " + fmt.Sprint(errs[0]))
			}
			if mode != 1 {
				// agrees with the equivalent synchronous execution: 3 invocations, ExceededError with the last result
				var exc retrypolicy.ExceededError
				if !errors.As(errs[0], &exc) || n.Load() != 3 {
					v.add(fmt.Sprintf("async result differs from the synchronous one: err=%v invocations=%d", errs[0], n.Load()))
				}
			}
		}
	}
	// the first cancellation is the one reported: an async execution under retry(timeout(fn)) / hedge(timeout(fn)) is cancelled
	// through its ExecutionResult while an attempt runs; the attempt ignores the cancellation for longer than the Timeout's limit,
	// so the Timeout fires afterwards as well. Every reader still gets ErrExecutionCanceled.
	for i := 0; i < 6*scale; i++ {
		to := timeout.With[int](time.Millisecond)
		var ps []failsafe.Policy[int]
		if i%2 == 0 {
			ps = []failsafe.Policy[int]{retrypolicy.Builder[int]().WithMaxRetries(2).Build(), to}
		} else {
			ps = []failsafe.Policy[int]{hedgepolicy.BuilderWithDelay[int](time.Second).Build(), to}
		}
		entered := make(chan struct{}, 4)
		r := failsafe.NewExecutor[int](ps...).GetWithExecutionAsync(func(e failsafe.Execution[int]) (int, error) {
			entered <- struct{}{}
			<-e.Canceled()
			time.Sleep(4 * time.Millisecond) // does not return before the time limit has passed as well
			return 0, errX
		})
		<-entered
		r.Cancel()
		_, err := r.Get()
		if !errors.Is(err, failsafe.ErrExecutionCanceled) {
			v.add(fmt.Sprintf("async execution cancelled during an attempt that then also ran into its Timeout reported %v, not ErrExecutionCanceled (stack %d)", err, i%2))
		}
		v.count("cancel-then-timeout")
	}
	// an executor is reusable: executions on it are independent of what happened to earlier ones. One executor (fallback around a
	// retry policy, bound to a context) runs an async execution that is cancelled through its ExecutionResult, a second one that
	// overlaps with a third and is cancelled while the third runs, and then a plain synchronous one: the executions nobody
	// cancelled get their fallback applied (C10) and complete normally.
	for i := 0; i < 10*scale; i++ {
		var fbCalls atomic.Int32
		fb := fallback.BuilderWithFunc(func(failsafe.Execution[int]) (int, error) { fbCalls.Add(1); return 5, nil }).Build()
		rp := retrypolicy.Builder[int]().WithMaxRetries(1).Build()
		ctx, cancelCtx := context.WithCancel(context.Background())
		ex := failsafe.NewExecutor[int](fb, rp).WithContext(ctx)
		entered := make(chan struct{}, 4)
		blocked := func(e failsafe.Execution[int]) (int, error) {
			entered <- struct{}{}
			<-e.Canceled()
			return 0, errX
		}
		a := ex.GetWithExecutionAsync(blocked)
		<-entered
		gate := make(chan struct{})
		b := ex.GetWithExecutionAsync(func(e failsafe.Execution[int]) (int, error) {
			entered <- struct{}{}
			<-gate
			return 0, errX // handled by the retry policy (twice), then replaced by the fallback
		})
		<-entered
		a.Cancel()
		a.Get()
		close(gate)
		bv, berr := b.Get()
		cv, cerr := ex.Get(func() (int, error) { return 0, errX })
		if bv != 5 || berr != nil || cv != 5 || cerr != nil || fbCalls.Load() != 2 {
			v.add(fmt.Sprintf("executions on an executor on which an earlier async execution was cancelled: overlapping one returned (%d, %v), later one (%d, %v), fallback applied %d times (want (5, nil) twice, 2 applications)",
				bv, berr, cv, cerr, fbCalls.Load()))
		}
		cancelCtx()
		v.count("executor-reused-after-cancel")
	}
	// a Cancel that lands while a hedged attempt's result has been produced but not yet picked up by the coordinating loop (the loop is
	// busy in the OnHedge listener, which is where the Cancel comes from): the execution was not done, so it reports the cancellation
	for i := 0; i < 10*scale; i++ {
		sent := make(chan struct{})
		ready := make(chan struct{})
		var once sync.Once
		var r failsafe.ExecutionResult[int]
		var calls atomic.Int32
		wasDone := false
		hp := hedgepolicy.BuilderWithDelay[int](300 * time.Microsecond).WithMaxHedges(1).
			CancelIf(func(int, error) bool { once.Do(func() { close(sent) }); return true }).
			OnHedge(func(failsafe.ExecutionEvent[int]) {
				select {
				case <-sent: // the first attempt's result has been classified: it is being handed over
				case <-time.After(100 * time.Millisecond):
				}
				time.Sleep(100 * time.Microsecond)
				<-ready
				wasDone = r.IsDone()
				r.Cancel()
			}).Build()
		r = failsafe.NewExecutor[int](hp).GetWithExecutionAsync(func(e failsafe.Execution[int]) (int, error) {
			if calls.Add(1) == 1 {
				time.Sleep(700 * time.Microsecond) // outlasts the hedge delay: the loop is inside OnHedge when this result is produced
				return 1, nil
			}
			<-e.Canceled()
			return 2, nil
		})
		close(ready)
		val, err := r.Get()
		v.count("cancel-while-result-in-flight")
		if !wasDone && !errors.Is(err, failsafe.ErrExecutionCanceled) {
			v.add(fmt.Sprintf("Cancel took effect before the hedged execution completed (IsDone was false), yet Get returned (%d, %v)", val, err))
		}
	}
	return v.report("future", runs)
}

type anyCache struct {
	mu sync.Mutex
	m  map[string]any
}

func (c *anyCache) Get(k string) (any, bool) { c.mu.Lock(); defer c.mu.Unlock(); v, ok := c.m[k]; return v, ok }
func (c *anyCache) Set(k string, v any)      { c.mu.Lock(); defer c.mu.Unlock(); c.m[k] = v }

// ---------------------------------------------------------------------------------------------------- C19 core leaks

func stressLeaks(seed int64, scale int) int {
	v := newViol()
	runtime.GC()
	time.Sleep(20 * time.Millisecond)
	before := runtime.NumGoroutine()
	rng := rand.New(rand.NewSource(seed))
	var rmu sync.Mutex
	runs := 200 * scale
	for i := 0; i < runs; i++ {
		hp := hedgepolicy.BuilderWithDelay[int](300 * time.Microsecond).WithMaxHedges(2).Build()
		to := timeout.With[int](time.Duration(200+rng.Intn(800)) * time.Microsecond)
		rp := retrypolicy.Builder[int]().WithMaxRetries(2).WithDelay(100 * time.Microsecond).Build()
		fb := fallback.WithResult(5)
		bh := bulkhead.Builder[int](1).WithMaxWaitTime(300 * time.Microsecond).Build()
		rl := ratelimiter.SmoothBuilderWithMaxRate[int](200 * time.Microsecond).WithMaxWaitTime(time.Millisecond).Build()
		dur := time.Duration(rng.Intn(1200)) * time.Microsecond
		fn := func(e failsafe.Execution[int]) (int, error) {
			waitOrCancel(e, dur)
			rmu.Lock()
			fail := rng.Intn(2) == 0
			rmu.Unlock()
			if fail {
				return 0, errX
			}
			return 1, nil
		}
		switch i % 9 {
		case 6:
			// cancelled twice while the function is still running (it only returns 300 us after the cancellation)
			slow := func(e failsafe.Execution[int]) (int, error) { <-e.Canceled(); time.Sleep(300 * time.Microsecond); return 0, errX }
			r := failsafe.NewExecutor[int](rp).GetWithExecutionAsync(slow)
			time.Sleep(100 * time.Microsecond)
			r.Cancel()
			r.Cancel()
			r.Get()
		case 7:
			// the context is cancelled, then the result is cancelled as well, while the function is still running
			slow := func(e failsafe.Execution[int]) (int, error) { <-e.Canceled(); time.Sleep(300 * time.Microsecond); return 0, errX }
			ctx, cancel := context.WithCancel(context.Background())
			r := failsafe.NewExecutor[int](to, rp).WithContext(ctx).GetWithExecutionAsync(slow)
			time.Sleep(100 * time.Microsecond)
			cancel()
			r.Cancel()
			r.Get()
		case 8:
			// the hedge wins while the first attempt is slow to react and its own timeout elapses meanwhile
			var k atomic.Int32
			hr := func(e failsafe.Execution[int]) (int, error) {
				if k.Add(1) == 1 {
					<-e.Canceled()
					time.Sleep(800 * time.Microsecond) // outlives its 500 us timeout after having lost
					return 0, errX
				}
				return 1, nil
			}
			failsafe.NewExecutor[int](hedgepolicy.BuilderWithDelay[int](200*time.Microsecond).Build(), rp, timeout.With[int](500*time.Microsecond)).GetWithExecution(hr)
		case 0:
			failsafe.NewExecutor[int](fb, rp, to, hp).GetWithExecution(fn)
		case 1:
			ctx, cancel := context.WithTimeout(context.Background(), 500*time.Microsecond)
			failsafe.NewExecutor[int](rp, hp).WithContext(ctx).GetWithExecution(fn)
			cancel()
		case 2:
			r := failsafe.NewExecutor[int](to, rp).GetWithExecutionAsync(fn)
			if i%12 == 2 {
				r.Cancel()
			}
			r.Get()
		case 3:
			failsafe.NewExecutor[int](hp, to).GetWithExecution(fn)
		case 4:
			failsafe.NewExecutor[int](rp, bh, rl).GetWithExecution(fn)
		case 5:
			ctx, cancel := context.WithCancel(context.Background())
			go func() { time.Sleep(300 * time.Microsecond); cancel() }()
			failsafe.NewExecutor[int](rp, rl, bh).WithContext(ctx).GetWithExecution(fn)
		}
	}
	// a losing hedge branch is cancelled while its retry policy is still classifying the attempt's failure (the cancellation arrives
	// between the loop's own check and RecordResult), and another branch's function returns after that: every branch goroutine ends
	for i := 0; i < scale; i++ {
		errH1, errH2 := errors.New("hedge 1 failed"), errors.New("hedge 2 failed")
		gateA, gateB, gateC := make(chan struct{}), make(chan struct{}), make(chan struct{})
		inPredicate, hedge2Started := make(chan struct{}), make(chan struct{})
		var once, calls atomic.Int32
		rp2 := retrypolicy.Builder[int]().HandleIf(func(_ int, err error) bool {
			if err == errH1 {
				if once.Add(1) == 1 {
					close(inPredicate)
				}
				<-gateB
				return true
			}
			return err != nil
		}).WithMaxRetries(2).Build()
		hp2 := hedgepolicy.BuilderWithDelay[int](2 * time.Millisecond).WithMaxHedges(2).Build()
		done := make(chan struct{})
		go func() {
			failsafe.NewExecutor[int](hp2, rp2).Get(func() (int, error) {
				switch calls.Add(1) {
				case 1:
					<-gateA
					return 1, nil
				case 2:
					return 0, errH1
				case 3:
					close(hedge2Started)
					<-gateC
					return 0, errH2
				}
				return 0, errX
			})
			close(done)
		}()
		ok := true
		for _, ch := range []chan struct{}{inPredicate, hedge2Started} {
			select {
			case <-ch:
			case <-time.After(2 * time.Second):
				ok = false
			}
		}
		close(gateA) // the first attempt wins: both hedges are cancelled
		select {
		case <-done:
		case <-time.After(2 * time.Second):
			ok = false
		}
		close(gateB) // hedge 1 finishes handling its (now cancelled) attempt …
		time.Sleep(5 * time.Millisecond)
		close(gateC) // … then hedge 2's function returns
		if !ok {
			v.add("hedge around retry: the scripted interleaving did not come about")
		}
		runs++
	}
	// timers are released with the execution too: executions that arrive already cancelled at a Timeout (cancelled context, a cancelled
	// async execution) complete at once, and the Timeout's timer must not stay armed and report a timeout long afterwards
	{
		var late atomic.Int32
		to := timeout.Builder[int](15 * time.Millisecond).OnTimeoutExceeded(func(failsafe.ExecutionDoneEvent[int]) { late.Add(1) }).Build()
		for i := 0; i < 4; i++ {
			ctx, cancel := context.WithCancel(context.Background())
			cancel()
			failsafe.NewExecutor[int](to).WithContext(ctx).GetWithExecution(func(e failsafe.Execution[int]) (int, error) { return 1, nil })
			failsafe.NewExecutor[int](retrypolicy.Builder[int]().WithMaxRetries(1).Build(), to).WithContext(ctx).GetWithExecution(func(e failsafe.Execution[int]) (int, error) { return 0, errX })
			runs += 2
		}
		time.Sleep(45 * time.Millisecond)
		if late.Load() != 0 {
			v.add(fmt.Sprintf("a Timeout's timer stayed armed after its execution had completed: %d timeout events reported afterwards", late.Load()))
		}
	}
	// a hedge around a retry policy with a very long delay: the first attempt fails only after the hedge has started and enters its
	// retry delay; the hedge wins. The losing branch is cancelled and must leave its delay at once, not sit it out.
	for i := 0; i < 3*scale; i++ {
		hedgeStarted := make(chan struct{})
		var k atomic.Int32
		hp := hedgepolicy.BuilderWithDelay[int](200 * time.Microsecond).Build()
		rp := retrypolicy.Builder[int]().WithMaxRetries(2).WithDelay(time.Hour).Build()
		failsafe.NewExecutor[int](hp, rp).GetWithExecution(func(e failsafe.Execution[int]) (int, error) {
			if k.Add(1) == 1 {
				select {
				case <-hedgeStarted:
				case <-time.After(time.Second):
				}
				return 0, errX // fails once the hedge is running: its branch enters the one-hour retry delay
			}
			close(hedgeStarted)
			time.Sleep(2 * time.Millisecond) // the first branch reaches its delay meanwhile
			return 1, nil
		})
		runs++
	}
	// grace period: poll up to 3 s (a loaded machine may need a while to run the last callbacks)
	after := 0
	for t0 := time.Now(); ; {
		time.Sleep(50 * time.Millisecond)
		runtime.GC()
		after = runtime.NumGoroutine()
		if after <= before+2 || time.Since(t0) > 3*time.Second {
			break
		}
	}
	v.c["goroutines-before"] = before
	v.c["goroutines-after"] = after
	if after > before+2 {
		v.add(fmt.Sprintf("goroutines grew from %d to %d over %d executions", before, after, runs))
	}
	return v.report("leaks", runs)
}

// ---------------------------------------------------------------------------------------------------- C14 shared instances

// stressShared runs executions (sync and async) through ONE executor and ONE set of policy instances from many goroutines,
// together with the policies' standalone methods. Built with -race it is the search engine of C14; without -race it checks
// for deadlocks (watchdog) and panics.
func stressShared(seed int64, scale int) int {
	v := newViol()
	rng := rand.New(rand.NewSource(seed))
	cb := circuitbreaker.Builder[int]().WithFailureThresholdRatio(3, 6).WithDelay(200 * time.Microsecond).WithSuccessThresholdRatio(1, 2).
		OnStateChanged(func(e circuitbreaker.StateChangedEvent) { _ = e.Metrics().FailureRate() }).Build()
	bh := bulkhead.Builder[int](4).WithMaxWaitTime(200 * time.Microsecond).Build()
	rl := ratelimiter.BurstyBuilder[int](50, time.Millisecond).WithMaxWaitTime(100 * time.Microsecond).Build()
	rlSmooth := ratelimiter.SmoothBuilderWithMaxRate[int](20 * time.Microsecond).WithMaxWaitTime(100 * time.Microsecond).Build()
	rp := retrypolicy.Builder[int]().WithMaxRetries(2).WithDelay(50 * time.Microsecond).
		WithDelayFunc(func(e failsafe.ExecutionAttempt[int]) time.Duration {
			// reads the attempt it was handed, yielding between reads (never hot-spinning)
			_ = e.LastError()
			time.Sleep(20 * time.Microsecond)
			_ = e.LastResult()
			return 30 * time.Microsecond
		}).
		OnRetryScheduled(func(e failsafe.ExecutionScheduledEvent[int]) { _ = e.LastError(); _ = e.Attempts() }).Build()
	// a second retry policy with exponential backoff: its executors keep per-execution backoff state
	rpBackoff := retrypolicy.Builder[int]().WithMaxRetries(3).WithBackoff(20*time.Microsecond, 200*time.Microsecond).WithJitter(5 * time.Microsecond).Build()
	to := timeout.Builder[int](400 * time.Microsecond).OnTimeoutExceeded(func(e failsafe.ExecutionDoneEvent[int]) { _ = e.Attempts() }).Build()
	hp := hedgepolicy.BuilderWithDelayFunc[int](func(e failsafe.ExecutionAttempt[int]) time.Duration {
		_ = e.LastError()
		return 100 * time.Microsecond
	}).WithMaxHedges(2).OnHedge(func(e failsafe.ExecutionEvent[int]) { _ = e.LastResult() }).Build()
	fb := fallback.BuilderWithFunc(func(e failsafe.Execution[int]) (int, error) { _ = e.LastError(); return 5, nil }).Build()
	stacks := [][]failsafe.Policy[int]{
		{fb, rp, cb, bh},
		{to, rp, rl},
		{rp, to, bh},
		{fb, to, hp},
		{hp, to},
		{rp, rlSmooth, cb},
		{to, rp},
		{rpBackoff, cb},
		{fb, rpBackoff, to},
		{hp, rp},         // hedge attempts share the inner retry executor: open known finding D4 under the race detector
		{fb, hp, rp, cb}, // the same, with a breaker recording from the hedge goroutines
	}
	var executors []failsafe.Executor[int]
	for _, s := range stacks {
		executors = append(executors, failsafe.NewExecutor[int](s...).OnDone(func(e failsafe.ExecutionDoneEvent[int]) { _ = e.Attempts() }))
	}
	// one cache policy shared by executions that carry different keys in their contexts: whatever the interleaving, the
	// value stored under a key is the value computed for that key (C11 per execution)
	sharedCache := &mapCache{m: map[string]int{}}
	cp := cachepolicy.Builder[int](sharedCache).Build()
	cacheKeys := []string{"k10", "k20", "k30", "k40"}
	cacheEx := failsafe.NewExecutor[int](cp)
	var wg sync.WaitGroup
	workers := 12
	per := 60 * scale
	stop := make(chan struct{})
	// standalone API callers
	wg.Add(1)
	go func() {
		defer wg.Done()
		r := rand.New(rand.NewSource(seed + 7))
		for {
			select {
			case <-stop:
				return
			default:
			}
			switch r.Intn(13) {
			case 9:
				cb.Open()
			case 10:
				cb.HalfOpen()
			case 11:
				cb.Close()
			case 12:
				_ = cb.Metrics().SuccessRate() + cb.Metrics().FailureRate() + cb.Metrics().Successes()
				ctx, cancel := context.WithTimeout(context.Background(), 50*time.Microsecond)
				if bh.AcquirePermit(ctx) == nil {
					bh.ReleasePermit()
				}
				cancel()
				_ = rl.TryAcquirePermits(2)
				_ = rlSmooth.ReservePermit()
			case 0:
				cb.RecordFailure()
			case 1:
				cb.RecordSuccess()
			case 2:
				_ = cb.Metrics().Failures() + cb.Metrics().Executions()
			case 3:
				_ = cb.RemainingDelay()
			case 4:
				if bh.TryAcquirePermit() {
					time.Sleep(10 * time.Microsecond)
					bh.ReleasePermit()
				}
			case 5:
				rl.TryAcquirePermit()
			case 6:
				_ = rlSmooth.TryReservePermit(10 * time.Microsecond)
			case 7:
				_ = cb.State()
			case 8:
				if cb.TryAcquirePermit() {
					cb.RecordResult(1)
				}
			}
			time.Sleep(15 * time.Microsecond)
		}
	}()
	var done atomic.Int32
	for w := 0; w < workers; w++ {
		wg.Add(1)
		s := rng.Int63()
		go func() {
			defer wg.Done()
			r := rand.New(rand.NewSource(s))
			for i := 0; i < per; i++ {
				ex := executors[r.Intn(len(executors))]
				dur := time.Duration(r.Intn(500)) * time.Microsecond
				fail := r.Intn(2) == 0
				fn := func(e failsafe.Execution[int]) (int, error) {
					_ = e.LastError()
					waitOrCancel(e, dur)
					_ = e.Attempts()
					if fail {
						return 0, errX
					}
					return 1, nil
				}
				if i%5 == 4 {
					// an execution through the shared cache with its own context key; evicted now and then so that misses keep happening
					k := cacheKeys[r.Intn(len(cacheKeys))]
					want := int(atoi(k[1:]))
					if r.Intn(4) == 0 {
						sharedCache.mu.Lock()
						delete(sharedCache.m, k)
						sharedCache.mu.Unlock()
					}
					got, err := cacheEx.WithContext(context.WithValue(context.Background(), cachepolicy.CacheKey, k)).Get(func() (int, error) {
						time.Sleep(time.Duration(r.Intn(100)) * time.Microsecond)
						return want, nil
					})
					if err != nil || got != want {
						v.add(fmt.Sprintf("execution with cache key %s returned (%d, %v), want (%d, nil)", k, got, err, want))
					}
					done.Add(1)
					continue
				}
				func() {
					defer func() {
						if p := recover(); p != nil {
							v.add(fmt.Sprint("panic: ", p))
						}
					}()
					if r.Intn(3) == 0 {
						res := ex.GetWithExecutionAsync(fn)
						if r.Intn(4) == 0 {
							res.Cancel()
						}
						res.Get()
					} else {
						ex.GetWithExecution(fn)
					}
				}()
				done.Add(1)
			}
		}()
	}
	finished := make(chan struct{})
	go func() {
		// workers only
		for int(done.Load()) < workers*per {
			time.Sleep(time.Millisecond)
		}
		close(finished)
	}()
	select {
	case <-finished:
	case <-time.After(120 * time.Second):
		v.add("deadlock or livelock: executions did not finish within the watchdog")
	}
	close(stop)
	wg.Wait()
	// every property holds for each execution also under load: what the shared instances must look like once all is quiet
	time.Sleep(5 * time.Millisecond)
	free := 0
	for bh.TryAcquirePermit() && free < 10 {
		free++
	}
	for i := 0; i < free; i++ {
		bh.ReleasePermit()
	}
	sharedCache.mu.Lock()
	for k, val := range sharedCache.m {
		if int(atoi(k[1:])) != val {
			v.add(fmt.Sprintf("the shared cache holds %d under key %s (C11 under load)", val, k))
		}
	}
	sharedCache.mu.Unlock()
	// a policy-level listener of a shared breaker may look at the breaker: OnFailure / OnSuccess run before the record, outside the
	// breaker's lock (only the state-change listeners run under it), and other users of the breaker are not held up by a slow one
	{
		var cbl circuitbreaker.CircuitBreaker[int]
		inListener, release := make(chan struct{}), make(chan struct{})
		var first sync.Once
		cbl = circuitbreaker.Builder[int]().WithFailureThreshold(100).
			OnFailure(func(failsafe.ExecutionEvent[int]) {
				_ = cbl.State()
				first.Do(func() { close(inListener); <-release })
			}).Build()
		done := make(chan struct{})
		go func() {
			failsafe.NewExecutor[int](cbl).Get(func() (int, error) { return 0, errX })
			close(done)
		}()
		stuck := ""
		select {
		case <-inListener:
			other := make(chan struct{})
			go func() { _ = cbl.State(); cbl.RecordSuccess(); close(other) }()
			select {
			case <-other:
			case <-time.After(2 * time.Second):
				stuck = "other users of a shared breaker are blocked while one execution's OnFailure listener runs"
			}
		case <-time.After(2 * time.Second):
			stuck = "an OnFailure listener that reads the breaker's state never returned (listener called under the breaker's lock)"
		}
		close(release)
		select {
		case <-done:
		case <-time.After(2 * time.Second):
			if stuck == "" {
				stuck = "an execution whose OnFailure listener reads the breaker's state never completed"
			}
		}
		if stuck != "" {
			v.add(stuck)
		}
	}
	// two executions that overlap on ONE key (C11): both miss; the one that finishes first stores its result, and so does the one
	// that finishes later - "a miss with an error-free inner result is stored" has no exception for a key that got a value meanwhile
	for round := 0; round < 5; round++ {
		oc := &mapCache{m: map[string]int{}}
		var stored atomic.Int32
		oex := failsafe.NewExecutor[int](cachepolicy.Builder[int](oc).WithKey("k").OnResultCached(func(failsafe.ExecutionEvent[int]) { stored.Add(1) }).Build())
		aIn, bDone := make(chan struct{}), make(chan struct{})
		var owg sync.WaitGroup
		owg.Add(1)
		go func() {
			defer owg.Done()
			oex.Get(func() (int, error) { close(aIn); <-bDone; return 100 + round, nil })
		}()
		<-aIn
		oex.Get(func() (int, error) { return 200 + round, nil })
		close(bDone)
		owg.Wait()
		if got, _ := oc.Get("k"); got != 100+round || stored.Load() != 2 {
			v.add(fmt.Sprintf("overlapping executions on one cache key: the cache holds %d after the later finisher returned %d (stores reported: %d, want 2)", got, 100+round, stored.Load()))
		}
	}
	// a cached result that is the zero value of an interface result type (what Run stores) is a hit like any other (C11)
	{
		ac := &anyCache{m: map[string]any{}}
		var calls atomic.Int32
		aex := failsafe.NewExecutor[any](cachepolicy.Builder[any](ac).WithKey("k").Build())
		for i := 0; i < 3; i++ {
			aex.Run(func() error { calls.Add(1); return nil })
		}
		if calls.Load() != 1 {
			v.add(fmt.Sprintf("a cached nil result (result type any) was not served as a hit: the function ran %d times in 3 executions", calls.Load()))
		}
	}
	// the retry budget belongs to one execution (C02): executions that share one retry policy, concurrently and in succession,
	// each get exactly maxRetries + 1 invocations of an always-failing function and end with ExceededError
	var bFail, bRetry, bSched, bExceeded, bDone, bExecs atomic.Int64
	rpBudget := retrypolicy.Builder[int]().WithMaxRetries(2).
		OnFailure(func(failsafe.ExecutionEvent[int]) { bFail.Add(1) }).OnRetry(func(failsafe.ExecutionEvent[int]) { bRetry.Add(1) }).
		OnRetryScheduled(func(failsafe.ExecutionScheduledEvent[int]) { bSched.Add(1) }).
		OnRetriesExceeded(func(failsafe.ExecutionEvent[int]) { bExceeded.Add(1) }).Build()
	budgetEx := failsafe.NewExecutor[int](rpBudget).OnFailure(func(failsafe.ExecutionDoneEvent[int]) { bDone.Add(1) })
	for round := 0; round < 5*scale; round++ {
		var bw sync.WaitGroup
		for k := 0; k < 8; k++ {
			bw.Add(1)
			go func() {
				defer bw.Done()
				for j := 0; j < 4; j++ {
					calls := 0
					bExecs.Add(1)
					_, err := budgetEx.Get(func() (int, error) { calls++; runtime.Gosched(); return 0, errX })
					var exc retrypolicy.ExceededError
					if calls != 3 || !errors.As(err, &exc) {
						v.add(fmt.Sprintf("execution through a shared retry policy (maxRetries 2, always failing) made %d invocations and ended with %v", calls, err))
					}
				}
			}()
		}
		bw.Wait()
	}
	// and every one of them produced its own listener calls (C16 per execution): 3 failures, 2 scheduled and started retries,
	// one exceeded event, one failed completion
	if n := bExecs.Load(); bFail.Load() != 3*n || bRetry.Load() != 2*n || bSched.Load() != 2*n || bExceeded.Load() != n || bDone.Load() != n {
		v.add(fmt.Sprintf("%d executions through a shared retry policy (maxRetries 2, always failing) produced OnFailure=%d OnRetryScheduled=%d OnRetry=%d OnRetriesExceeded=%d executor OnFailure=%d",
			n, bFail.Load(), bSched.Load(), bRetry.Load(), bExceeded.Load(), bDone.Load()))
	}
	// hedged HTTP attempts of one request each read their own view of the request body: a transport that reads the body in two
	// halves, the first attempt's second half only after the hedge has read everything, must see the complete body twice
	{
		payload := bytes.Repeat([]byte("0123456789abcdef"), 256)
		var bad atomic.Int32
		firstHalfRead, hedgeDone := make(chan struct{}, 64), make(chan struct{}, 64)
		var arrivals atomic.Int32
		ft := roundTripFunc(func(r *http.Request) (*http.Response, error) {
			k := arrivals.Add(1)
			buf := make([]byte, len(payload))
			n := 0
			if k%2 == 1 { // first attempt of a request: half, wait for the hedge, rest
				m, _ := io.ReadFull(r.Body, buf[:len(payload)/2])
				n += m
				firstHalfRead <- struct{}{}
				select {
				case <-hedgeDone:
				case <-time.After(time.Second):
				}
			} else {
				<-firstHalfRead
			}
			rest, _ := io.ReadAll(r.Body)
			n += copy(buf[n:], rest)
			if n != len(payload) || !bytes.Equal(buf, payload) {
				bad.Add(1)
			}
			if k%2 == 0 {
				hedgeDone <- struct{}{}
				time.Sleep(2 * time.Millisecond) // let the first attempt finish reading before the hedge wins
			}
			return &http.Response{StatusCode: 200, Header: http.Header{}, Body: io.NopCloser(strings.NewReader("ok")), Request: r}, nil
		})
		rt := failsafehttp.NewRoundTripper(ft, hedgepolicy.BuilderWithDelay[*http.Response](200*time.Microsecond).Build())
		for i := 0; i < 4*scale; i++ {
			req, _ := http.NewRequest("POST", "http://hedged.invalid/", bytes.NewBuffer(append([]byte{}, payload...)))
			if resp, err := rt.RoundTrip(req); err == nil && resp != nil {
				resp.Body.Close()
			}
			time.Sleep(3 * time.Millisecond)
		}
		if bad.Load() > 0 {
			v.add(fmt.Sprintf("%d hedged HTTP attempts read a request body that was not the complete original (attempts of one request share a reader)", bad.Load()))
		}
		v.count("http-hedged-bodies")
	}
	// OnRateLimitExceeded fires exactly when a request was refused (C16): under a retry policy, an attempt the limiter refuses and
	// a later attempt whose wait is ended by the caller's cancellation produce ONE event (D15: the cancelled wait used to report
	// the stale ErrExceeded of the refused attempt)
	for round := 0; round < 2; round++ {
		var events atomic.Int32
		rl15 := ratelimiter.SmoothBuilderWithMaxRate[int](100 * time.Millisecond).WithMaxWaitTime(70 * time.Millisecond).
			OnRateLimitExceeded(func(failsafe.ExecutionEvent[int]) { events.Add(1) }).Build()
		rl15.TryAcquirePermit()
		rp15 := retrypolicy.Builder[int]().WithMaxRetries(3).WithDelay(50 * time.Millisecond).Build()
		ctx, cancel := context.WithCancel(context.Background())
		go func() { time.Sleep(75 * time.Millisecond); cancel() }()
		failsafe.NewExecutor[int](rp15, rl15).WithContext(ctx).Get(func() (int, error) { return 1, nil })
		cancel()
		if events.Load() != 1 {
			v.add(fmt.Sprintf("one attempt was refused by the rate limiter and a later one cancelled while waiting: OnRateLimitExceeded fired %d times", events.Load()))
		}
		v.count("ratelimit-event-after-cancelled-wait")
	}
	// the winner of a hedged execution keeps an uncancelled context (C09) also when later executions go through the same
	// hedge policy instance: nothing of one execution's attempts may be visible to another execution
	hpShared := hedgepolicy.BuilderWithDelay[int](100 * time.Microsecond).WithMaxHedges(2).Build()
	hpEx := failsafe.NewExecutor[int](hpShared)
	for round := 0; round < 10*scale; round++ {
		var started atomic.Int32
		var attemptExecs [4]atomic.Value // by attempt number: under load the second hedge may start before the first has returned
		val, err := hpEx.GetWithExecution(func(e failsafe.Execution[int]) (int, error) {
			k := started.Add(1)
			if k == 1 {
				<-e.Canceled() // the first attempt loses
				return 0, errX
			}
			attemptExecs[k].Store(e)
			return 40 + int(k), nil // the result names the attempt that produced it
		})
		var later sync.WaitGroup
		for k := 0; k < 3; k++ {
			later.Add(1)
			go func() {
				defer later.Done()
				hpEx.Get(func() (int, error) { return 1, nil })
			}()
		}
		later.Wait()
		hpEx.Get(func() (int, error) { return 1, nil })
		var w failsafe.Execution[int]
		if val == 42 || val == 43 {
			w, _ = attemptExecs[val-40].Load().(failsafe.Execution[int])
		}
		switch {
		case err != nil || w == nil:
			v.add(fmt.Sprintf("hedged execution whose second attempt succeeds returned (%d, %v)", val, err))
		case w.IsCanceled():
			v.add("a later execution through the shared hedge policy cancelled the context of an earlier execution's winning attempt")
		}
	}
	v.c["bulkhead-permits-free-at-quiescence"] = free
	if free != 4 {
		v.add(fmt.Sprintf("after all executions finished %d of 4 bulkhead permits are available (C06 under load)", free))
	}
	if cb.IsHalfOpen() {
		// nothing is in flight: a half-open breaker must have all its trial permits (capacity 2: success threshold ratio 1 of 2)
		n := 0
		for cb.TryAcquirePermit() && n < 10 {
			n++
		}
		v.c["halfopen-permits-at-quiescence"] = n
		if n != 2 {
			v.add(fmt.Sprintf("half-open breaker at quiescence has %d of 2 trial permits (C04 under load)", n))
		}
	}
	return v.report("shared", workers*per)
}

func init() {
	commands["stress"] = func(args []string) int {
		if len(args) == 0 {
			fmt.Println("usage: harness stress <timeout|bulkhead|breaker|hedge|cancel|future|leaks|shared|all> [-seed S] [-scale K]")
			return 2
		}
		fs := flag.NewFlagSet("stress", flag.ExitOnError)
		seed := fs.Int64("seed", 1, "seed")
		scale := fs.Int("scale", 1, "work multiplier")
		fs.Parse(args[1:])
		all := map[string]func(int64, int) int{"timeout": stressTimeout, "bulkhead": stressBulkhead, "breaker": stressBreaker, "hedge": stressHedge,
			"cancel": stressCancel, "future": stressFuture, "leaks": stressLeaks, "shared": stressShared, "adapterleaks": stressAdapterLeaks}
		if args[0] == "all" {
			rc := 0
			for _, n := range []string{"timeout", "bulkhead", "breaker", "hedge", "cancel", "future", "leaks", "shared", "adapterleaks"} {
				rc |= all[n](*seed, *scale)
			}
			return rc
		}
		f, ok := all[args[0]]
		if !ok {
			fmt.Println("unknown scenario", args[0])
			return 2
		}
		// scenario watchdog: executions that never finish (lost permits, a wait nobody wakes) are a finding, not a stall
		done := make(chan int, 1)
		go func() { done <- f(*seed, *scale) }()
		select {
		case rc := <-done:
			return rc
		case <-time.After(time.Duration(60+30**scale) * time.Second):
			fmt.Printf("stress %s runs=0 outcomes={} violations={watchdog: executions did not finish (deadlock, lost permit or unwoken wait): 1} VIOLATION\n", args[0])
			return 1
		}
	}
}

type roundTripFunc func(*http.Request) (*http.Response, error)

func (f roundTripFunc) RoundTrip(r *http.Request) (*http.Response, error) { return f(r) }
