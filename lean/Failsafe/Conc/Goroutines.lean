import Failsafe.Conc.Finite
import Failsafe.Adapters
/-!
# What the library starts on behalf of an execution, and why each of those ends (C19)

Spawn sites (FACTS `spawnSites`): the async runner, hedge attempt goroutines, the timeout's `time.AfterFunc`, the context
merger's `context.AfterFunc`, and stoppable `time.NewTimer`s. Each is modelled as a process with its blocking points:

* hedge attempt goroutine — its only blocking operation is the send of its result (this file, any number of attempts, the
  channel capacity is a model input taken from FACTS `hedgeChanCap`);
* merger watcher — ends when the execution's context ends or when the attempt's cancel function is called, *if* that
  function stops it (model input from FACTS `mergeReleaseStopsWatcher`);
* HTTP responses and per-attempt contexts over the retry loop of `doRequest` (model inputs from FACTS
  `httpClosesPreviousResponse`, `httpReleaseOnBodyClose`);
* timeout timer callback and async runner — `Conc/Timeout.lean`, `Conc/Future.lean` (finite, decided in the kernel).
-/
namespace Failsafe.Conc.Goroutines

/-! ## hedge attempt goroutines -/

/-- an attempt goroutine: its inner function is still running; it is at the channel send; it has ended -/
inductive G | running | wantSend | done deriving DecidableEq, Repr

structure HSt where
  cap : Nat                     -- capacity of `resultChan`
  gs : List G := []             -- attempt goroutines launched so far
  sent : Bool := false          -- `resultSent`
  chanLen : Nat := 0
  coordWaiting : Bool := true   -- the coordinating loop has not returned yet
  received : Bool := false
deriving Repr

inductive HAct
  | launch                          -- the coordinator starts another attempt
  | finish (k : Nat) (wants : Bool) -- attempt k's function returned; `wants` = isFinalResult ∨ isCancellable
  | send (k : Nat)                  -- the pending send completes
  | recv                            -- the coordinator receives a result and returns
  | leave                           -- the coordinator returns without receiving (parent execution cancelled)

def hstep (s : HSt) : HAct → Option HSt
  | .launch => if s.coordWaiting then some { s with gs := s.gs ++ [.running] } else none
  | .finish k wants =>
    if s.gs[k]? = some .running then
      if wants && !s.sent then some { s with gs := s.gs.set k .wantSend, sent := true }
      else some { s with gs := s.gs.set k .done }
    else none
  | .send k =>
    if s.gs[k]? = some .wantSend then
      if s.cap = 0 then
        -- unbuffered: the send completes only in a rendezvous with the coordinator's receive
        if s.coordWaiting then some { s with gs := s.gs.set k .done, received := true, coordWaiting := false } else none
      else if s.chanLen < s.cap then some { s with gs := s.gs.set k .done, chanLen := s.chanLen + 1 }
      else none
    else none
  | .recv => if s.coordWaiting ∧ 0 < s.chanLen then some { s with chanLen := s.chanLen - 1, received := true, coordWaiting := false } else none
  | .leave => if s.coordWaiting then some { s with coordWaiting := false } else none

def hrun (s : HSt) : List HAct → HSt
  | [] => s
  | a :: as => match hstep s a with
    | some s' => hrun s' as
    | none => hrun s as            -- a disabled action is a no-op

/-- exactly one result is ever in flight: pending sends + buffered results + the received one = the CAS flag -/
def HInv (s : HSt) : Prop :=
  s.gs.count .wantSend + s.chanLen + (if s.received then 1 else 0) = (if s.sent then 1 else 0)

/-! ## merger watcher -/

inductive W | registered | running | gone deriving DecidableEq, Repr

structure WSt where
  stopOnRelease : Bool       -- the cancel function returned by MergeContexts stops the watcher (FACTS)
  w : W := .registered
  execDone : Bool := false   -- the execution's context has ended
  released : Bool := false   -- the attempt's cancel function has been called
deriving DecidableEq, Repr

inductive WAct | execEnds | callbackEnds | release deriving DecidableEq, Repr

def wstep (s : WSt) : WAct → Option WSt
  | .execEnds => if s.execDone then none else some { s with execDone := true, w := if s.w = .registered then .running else s.w }
  | .callbackEnds => if s.w = .running then some { s with w := .gone } else none
  | .release => if s.released then none else
      some { s with released := true, w := if s.stopOnRelease ∧ s.w = .registered then .gone else s.w }

def wsys (stop : Bool) : Sys WSt WAct :=
  { init := { stopOnRelease := stop }, acts := [.execEnds, .callbackEnds, .release], step := wstep }

def wreach (stop : Bool) : List WSt := explore (wsys stop) 10 [(wsys stop).init] [(wsys stop).init]

/-- once the attempt has released its context the watcher is gone, or is running its callback (which ends on its own) -/
def watcherEnds (s : WSt) : Bool := !s.released || s.w == .gone || s.w == .running

/-! ## HTTP: responses and per-attempt contexts over the retry loop of `doRequest` -/

structure HttpShape where
  closesPrevious : Bool      -- an attempt first closes the previous attempt's response (FACTS)
  releaseOnBodyClose : Bool  -- a response's context is released when its body is closed, else when the attempt returns (FACTS)
deriving DecidableEq, Repr

structure HttpSt where
  openBodies : List Nat := []    -- attempts whose response body has not been closed
  liveCtxs : List Nat := []      -- attempts whose merged context has not been released
  lastResp : Option Nat := none  -- the attempt whose response `exec.LastResult()` is
deriving DecidableEq, Repr

/-- closing attempt `j`'s body releases its context too (cancelOnCloseBody), when the shape ties them -/
def closeBody (sh : HttpShape) (s : HttpSt) (j : Nat) : HttpSt :=
  { s with openBodies := s.openBodies.filter (· != j),
           liveCtxs := if sh.releaseOnBodyClose then s.liveCtxs.filter (· != j) else s.liveCtxs }

/-- attempt `i` of `doRequest`; `hasResp` = it obtained a response with a body -/
def httpAttempt (sh : HttpShape) (s : HttpSt) (i : Nat) (hasResp : Bool) : HttpSt :=
  let s := match s.lastResp with
    | some j => if sh.closesPrevious then closeBody sh s j else s
    | none => s
  if hasResp then
    { openBodies := i :: s.openBodies,
      liveCtxs := if sh.releaseOnBodyClose then i :: s.liveCtxs else s.liveCtxs,   -- else: released by the deferred cancel
      lastResp := some i }
  else { s with lastResp := none }

/-- attempts `i, i+1, …` with the given outcomes -/
def httpAttempts (sh : HttpShape) : HttpSt → Nat → List Bool → HttpSt
  | s, _, [] => s
  | s, i, r :: rs => httpAttempts sh (httpAttempt sh s i r) (i + 1) rs

end Failsafe.Conc.Goroutines
