/-!
# Bulkhead interleaving model (bulkhead/bulkhead.go, bulkheadexecutor.go)

Any number of executions (threads) and standalone callers. `held` is the occupancy of the semaphore channel. The actions are
the branches of the select statements of `AcquirePermitWithMaxWait` (FACTS `selects/bulkhead.*`: only the semaphore-send
branches return nil), the executor's `PostExecute` (releases exactly once, returns its argument) and the standalone API.
-/
namespace Failsafe.Conc.Bulkhead

inductive T | idle | waiting | holding | doneOk | doneFull | doneCanceled
deriving DecidableEq, Repr

structure St where
  cap  : Nat
  held : Nat          -- channel occupancy
  ext  : Nat          -- permits held through the standalone API
  ths  : List T
deriving Repr

inductive Act
  | tryFast (i : Nat)       -- first select: permit free → holding, else → waiting (or full if maxWait = 0)
  | fastFull (i : Nat)
  | acquireSlow (i : Nat)   -- second select, send succeeds
  | timeout (i : Nat)       -- timer fires → ErrFull
  | cancel (i : Nat)        -- ctx done → ctx error
  | finish (i : Nat)        -- inner returns; PostExecute releases
  | extAcquire | extRelease

def holders (l : List T) : Nat := l.count T.holding

def step (s : St) : Act → Option St
  | .tryFast i =>
    if s.ths[i]? = some .idle then
      if s.held < s.cap then some { s with held := s.held + 1, ths := s.ths.set i .holding }
      else some { s with ths := s.ths.set i .waiting }
    else none
  | .fastFull i =>
    if s.ths[i]? = some .idle ∧ ¬ s.held < s.cap then some { s with ths := s.ths.set i .doneFull } else none
  | .acquireSlow i =>
    if s.ths[i]? = some .waiting ∧ s.held < s.cap then
      some { s with held := s.held + 1, ths := s.ths.set i .holding } else none
  | .timeout i => if s.ths[i]? = some .waiting then some { s with ths := s.ths.set i .doneFull } else none
  | .cancel i =>
    if s.ths[i]? = some .waiting ∨ s.ths[i]? = some .idle then some { s with ths := s.ths.set i .doneCanceled } else none
  | .finish i =>
    if s.ths[i]? = some .holding then some { s with held := s.held - 1, ths := s.ths.set i .doneOk } else none
  | .extAcquire => if s.held < s.cap then some { s with held := s.held + 1, ext := s.ext + 1 } else none
  | .extRelease => if 0 < s.ext then some { s with held := s.held - 1, ext := s.ext - 1 } else none

def Inv (s : St) : Prop := s.held = holders s.ths + s.ext ∧ s.held ≤ s.cap

theorem count_set_of_ne {l : List T} {i : Nat} {a b x : T} (h : l[i]? = some a) :
    (l.set i b).count x + (if a = x then 1 else 0) = l.count x + (if b = x then 1 else 0) := by
  induction l generalizing i with
  | nil => simp at h
  | cons y ys ih =>
    cases i with
    | zero =>
      simp at h; subst h
      simp [List.count_cons]; omega
    | succ j =>
      simp at h
      have := ih (i := j) h
      simp [List.count_cons] at *; omega

theorem inv_step (s s' : St) (a : Act) (h : Inv s) (hs : step s a = some s') : Inv s' := by
  obtain ⟨h1, h2⟩ := h
  cases a <;> simp only [step] at hs
  case tryFast i =>
    split at hs
    · rename_i hi
      split at hs <;> (injection hs with hs; subst hs)
      · have := count_set_of_ne (l := s.ths) (i := i) (b := T.holding) (x := T.holding) hi
        simp [Inv, holders] at *; omega
      · have := count_set_of_ne (l := s.ths) (i := i) (b := T.waiting) (x := T.holding) hi
        simp [Inv, holders] at *; omega
    · cases hs
  case fastFull i =>
    split at hs
    · rename_i hi; injection hs with hs; subst hs
      have := count_set_of_ne (l := s.ths) (i := i) (b := T.doneFull) (x := T.holding) hi.1
      simp [Inv, holders] at *; omega
    · cases hs
  case acquireSlow i =>
    split at hs
    · rename_i hi; injection hs with hs; subst hs
      have := count_set_of_ne (l := s.ths) (i := i) (b := T.holding) (x := T.holding) hi.1
      simp [Inv, holders] at *; omega
    · cases hs
  case timeout i =>
    split at hs
    · rename_i hi; injection hs with hs; subst hs
      have := count_set_of_ne (l := s.ths) (i := i) (b := T.doneFull) (x := T.holding) hi
      simp [Inv, holders] at *; omega
    · cases hs
  case cancel i =>
    split at hs
    · rename_i hi; injection hs with hs; subst hs
      rcases hi with hi | hi
      · have := count_set_of_ne (l := s.ths) (i := i) (b := T.doneCanceled) (x := T.holding) hi
        simp [Inv, holders] at *; omega
      · have := count_set_of_ne (l := s.ths) (i := i) (b := T.doneCanceled) (x := T.holding) hi
        simp [Inv, holders] at *; omega
    · cases hs
  case finish i =>
    split at hs
    · rename_i hi; injection hs with hs; subst hs
      have := count_set_of_ne (l := s.ths) (i := i) (b := T.doneOk) (x := T.holding) hi
      simp [Inv, holders] at *; omega
    · cases hs
  case extAcquire =>
    split at hs
    · injection hs with hs; subst hs; simp [Inv] at *; omega
    · cases hs
  case extRelease =>
    split at hs
    · injection hs with hs; subst hs; simp [Inv] at *; omega
    · cases hs

/-- every reachable state, any schedule, any number of threads -/
theorem inv_run (s : St) (as : List Act) (h : Inv s) :
    ∀ s', as.foldlM (m := Option) step s = some s' → Inv s' := by
  induction as generalizing s with
  | nil => intro s' hs; simp at hs; subst hs; exact h
  | cons a as ih =>
    intro s' hs
    simp [List.foldlM] at hs
    cases hstep : step s a with
    | none => simp [hstep] at hs
    | some s1 => simp [hstep] at hs; exact ih s1 (inv_step s s1 a h hstep) s' hs

end Failsafe.Conc.Bulkhead
