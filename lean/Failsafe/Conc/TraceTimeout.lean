import Failsafe.Conc.Trace
import Failsafe.Conc.Timeout
/-!
# Observable traces of one Timeout application (TRACE tie of C07)

The harness runs a real `Timeout` around an instrumented function and stamps, with one global atomic counter, what user code
can see: the function reading `IsCanceled()` while it runs, the function about to return, the `OnTimeoutExceeded` listener,
the caller after the call returned, and one final sample of (listener calls, `IsCanceled`) after the timer side has gone quiet.
Every stamp also records whether the time limit had certainly **not** elapsed yet (`early`: wall clock since before the call
started `<` the limit, read *after* the stamp's counter value was taken).

The model is `Conc.Timeout` (the CAS race between the timer callback and the function returning) with these observation
points added as visible actions that do not change the state. Everything else (the clock tick, both CAS, `Stop`, `Cancel`,
`PostExecute`) is silent. `Trace.accepts` then decides whether some interleaving of the model shows exactly the recorded events.
-/
namespace Failsafe.Conc.TraceTimeout
open Failsafe.Conc Failsafe.Conc.Timeout

inductive Ev
  | seeCancelled (c : Bool) (early : Bool)      -- the function read `IsCanceled() = c`
  | fnRet (early : Bool)                         -- the function is about to return
  | listener (early : Bool)                      -- `OnTimeoutExceeded` was called
  | callerRet (r : Ret) (early : Bool)           -- the call returned: the inner result / `ErrExceeded`
  | final (k : Nat) (c : Bool)                   -- after the timer side went quiet: listener calls so far, `IsCanceled()`
deriving DecidableEq, Repr

inductive Act
  | core (a : Timeout.Act)
  | seeCancelled | callerRet | final
deriving DecidableEq, Repr

def step (s : St) : Act → Option St
  | .core a => Timeout.step s a
  | .seeCancelled => if s.main = .running then some s else none       -- only while the function runs
  | .callerRet => if s.main = .done then some s else none
  | .final => if s.main = .done ∧ timerQuiet s = true then some s else none

def silent : Act → Bool
  | .core .fnReturn => false
  | .core .cbListener => false
  | .core _ => true
  | _ => false

/-- an event stamped `early` can only be shown while the model's limit has not elapsed -/
def earlyOk (s : St) (early : Bool) : Bool := !early || !s.elapsed

def shows (s : St) : Act → Ev → Bool
  | .core .fnReturn, .fnRet e => earlyOk s e
  | .core .cbListener, .listener e => earlyOk s e
  | .seeCancelled, .seeCancelled c e => (s.cancelled == c) && earlyOk s e
  | .callerRet, .callerRet r e => (s.ret == r) && earlyOk s e
  | .final, .final k c => (s.listener == k) && (s.cancelled == c)
  | _, _ => false

def acts : List Act :=
  [.core .tick, .core .fnReturn, .core .mainCAS, .core .mainPost, .core .fire, .core .cbCAS, .core .cbListener, .core .cbCancel,
   .seeCancelled, .callerRet, .final]

/-- the function may return at any time (a function that waits for its cancellation is one of those runs) -/
def osys : Trace.OSys St Act Ev :=
  { init := { fnBlocks := false }, acts := acts, step := step, silent := silent, shows := shows }

/-- the observation points add no behaviour: every state the traced system reaches is a reachable state of `Conc.Timeout` -/
theorem reach_core (s : St) (h : Trace.Reach osys s) : Reachable (sys false) s := by
  induction h with
  | init => exact Reachable.init
  | step s s' a _ hm hst ih =>
    cases a with
    | core c =>
      refine Reachable.step s s' c ih ?_ hst
      cases c <;> simp [sys]
    | seeCancelled => simp only [osys, step] at hst; split at hst <;> simp_all
    | callerRet => simp only [osys, step] at hst; split at hst <;> simp_all
    | final => simp only [osys, step] at hst; split at hst <;> simp_all

def parseBool (s : String) : Bool := s == "1" || s == "t"

def parseEv (s : String) : Option Ev :=
  match s.splitOn ":" with
  | ["see", c, e] => some (.seeCancelled (parseBool c) (parseBool e))
  | ["fnret", e] => some (.fnRet (parseBool e))
  | ["listener", e] => some (.listener (parseBool e))
  | ["ret", "inner", e] => some (.callerRet .inner (parseBool e))
  | ["ret", "exceeded", e] => some (.callerRet .exceeded (parseBool e))
  | ["final", k, c] => some (.final (k.toNat?.getD 99) (parseBool c))
  | _ => none

end Failsafe.Conc.TraceTimeout
