import Failsafe.Conc.Finite
/-!
# Timeout executor: the race between the timer callback and the function returning (timeout/timeoutexecutor.go)

One `Apply` call. The atomic result cell is written by `CompareAndSwap(nil, …)` from both sides. The timer callback may only
start once the limit has elapsed (`tick`; Go timers never fire early: trusted) and only if the timer has not been stopped.
`fnBlocks`: the function returns only once its execution is cancelled. Source facts (FACTS `effects/timeoutexecutor:
executor.Apply`): the listener and `Cancel` are both under the callback's successful CAS; main: CAS, `Stop` on success,
`PostExecute(result.Load())`.
-/
namespace Failsafe.Conc.Timeout

inductive Cell | empty | inner | timeout deriving DecidableEq, Repr
inductive MainPc | running | returned | casDone | done deriving DecidableEq, Repr
inductive TimerPc | armed | fired | won | afterListener | finished | lost deriving DecidableEq, Repr
inductive Ret | none | inner | exceeded deriving DecidableEq, Repr

structure St where
  fnBlocks : Bool
  cell : Cell := .empty
  main : MainPc := .running
  timer : TimerPc := .armed
  elapsed : Bool := false       -- the time limit has elapsed
  stopped : Bool := false       -- timer.Stop() succeeded before the callback started
  listener : Nat := 0
  cancelled : Bool := false     -- execInternal.Cancel(timeoutResult) has run
  exceededAfterLimit : Bool := true   -- whenever the cell became `timeout` the limit had elapsed
  ret : Ret := .none
deriving DecidableEq, Repr

inductive Act | tick | fnReturn | mainCAS | mainPost | fire | cbCAS | cbListener | cbCancel
deriving DecidableEq, Repr

def step (s : St) : Act → Option St
  | .tick => if s.elapsed then none else some { s with elapsed := true }
  | .fnReturn =>
    if s.main = .running ∧ (!s.fnBlocks ∨ s.cancelled) then some { s with main := .returned } else none
  | .mainCAS =>
    if s.main = .returned then
      if s.cell = .empty then
        -- CAS succeeded: timer.Stop() prevents a callback that has not started
        some { s with cell := .inner, main := .casDone, stopped := (s.timer = .armed) }
      else some { s with main := .casDone }
    else none
  | .mainPost =>
    if s.main = .casDone then
      some { s with main := .done, ret := match s.cell with | .inner => .inner | .timeout => .exceeded | .empty => .none }
    else none
  | .fire => if s.timer = .armed ∧ s.elapsed ∧ !s.stopped then some { s with timer := .fired } else none
  | .cbCAS =>
    if s.timer = .fired then
      if s.cell = .empty then some { s with cell := .timeout, timer := .won, exceededAfterLimit := s.exceededAfterLimit && s.elapsed }
      else some { s with timer := .lost }
    else none
  | .cbListener => if s.timer = .won then some { s with timer := .afterListener, listener := s.listener + 1 } else none
  | .cbCancel => if s.timer = .afterListener then some { s with timer := .finished, cancelled := true } else none

def sys (fnBlocks : Bool) : Sys St Act :=
  { init := { fnBlocks := fnBlocks }, acts := [.tick, .fnReturn, .mainCAS, .mainPost, .fire, .cbCAS, .cbListener, .cbCancel], step := step }

/-- the callback has run to completion, lost the race, or can never start -/
def timerQuiet (s : St) : Bool :=
  s.timer == .finished || s.timer == .lost || (s.timer == .armed && s.stopped)

/-- the two legal outcomes once the call has returned and the timer side is quiet -/
def exclusive (s : St) : Bool :=
  if s.main == .done && timerQuiet s then
    (s.ret == .inner && s.listener == 0 && !s.cancelled) ||
    (s.ret == .exceeded && s.listener == 1 && s.cancelled)
  else true

/-- safety at every instant: at most one listener call; a listener call or a cancellation only with the cell = timeout;
`ErrExceeded` only after the limit elapsed; an inner result is never accompanied by a listener call -/
def safe (s : St) : Bool :=
  s.listener ≤ 1 &&
  (s.listener == 0 || s.cell == .timeout) &&
  (!s.cancelled || (s.cell == .timeout && s.listener == 1)) &&
  s.exceededAfterLimit &&
  (s.ret != .exceeded || s.elapsed) &&
  (s.ret != .inner || s.cell == .inner) &&
  (s.cell != .inner || (s.listener == 0 && !s.cancelled)) &&
  -- a blocking function can only have returned after the timeout cancelled it
  (!s.fnBlocks || s.main == .running || s.cancelled)

/-- candidate reachable sets, computed by exploration -/
def reach (fnBlocks : Bool) : List St := explore (sys fnBlocks) 40 [(sys fnBlocks).init] [(sys fnBlocks).init]

end Failsafe.Conc.Timeout
