import Failsafe.Conc.Bulkhead
/-!
# Concurrent executions through one circuit breaker (circuitbreakerexecutor.go, circuitbreaker.go)

Every public breaker method runs under the breaker's mutex (FACTS `locks/circuitBreaker.*`), so admission (`PreExecute` =
`TryAcquirePermit`) and recording (`OnSuccess`/`OnFailure`) are atomic actions; any number of executions interleave.
The half-open bound is claimed — as in the property — for schedules in which no execution admitted before the breaker opened
is still in flight when it half-opens: the `halfOpenAdmit` action that performs the open → half-open transition is only
enabled then (`stale = 0`).
-/
namespace Failsafe.Conc.BreakerConc

inductive T | idle | run | trial | done | rejected deriving DecidableEq, Repr
inductive Tag | closed | opened | halfOpen deriving DecidableEq, Repr

structure St where
  cap : Nat            -- trial capacity
  tag : Tag
  elapsed : Bool       -- open state: the delay has elapsed
  permits : Nat        -- half-open state: permittedExecutions
  ths : List T
deriving Repr

/-- how a recorded result changes the state: thresholds are abstracted to a nondeterministic verdict -/
inductive Verdict | stay | close | open_ deriving DecidableEq, Repr

inductive Act
  | enter (i : Nat)                    -- PreExecute
  | finishRun (i : Nat) (v : Verdict)  -- an execution admitted while closed records its result
  | finishTrial (i : Nat) (v : Verdict)
  | tick                               -- the delay elapses

def trials (l : List T) : Nat := l.count T.trial
def stale (l : List T) : Nat := l.count T.run

def step (s : St) : Act → Option St
  | .enter i =>
    if s.ths[i]? = some .idle then
      match s.tag with
      | .closed => some { s with ths := s.ths.set i .run }
      | .opened =>
        if s.elapsed ∧ stale s.ths = 0 ∧ trials s.ths = 0 then
          -- open → half-open, then the half-open state's own tryAcquirePermit
          if 0 < s.cap then some { s with tag := .halfOpen, permits := s.cap - 1, ths := s.ths.set i .trial }
          else some { s with tag := .halfOpen, permits := 0, ths := s.ths.set i .rejected }
        else if s.elapsed then none     -- excluded schedules (executions admitted before the opening still in flight)
        else some { s with ths := s.ths.set i .rejected }          -- ErrOpen, the function is not invoked
      | .halfOpen =>
        if 0 < s.permits then some { s with permits := s.permits - 1, ths := s.ths.set i .trial }
        else some { s with ths := s.ths.set i .rejected }
    else none
  | .finishRun i v =>
    if s.ths[i]? = some .run ∧ s.tag ≠ .halfOpen then
      match v, s.tag with
      | .open_, .closed => some { s with tag := .opened, elapsed := false, ths := s.ths.set i .done }
      | _, _ => some { s with ths := s.ths.set i .done }
    else none
  | .finishTrial i v =>
    if s.ths[i]? = some .trial then
      if s.tag = .halfOpen then
        match v with
        | .stay => some { s with permits := s.permits + 1, ths := s.ths.set i .done }   -- the permit comes back
        | .close => some { s with tag := .closed, ths := s.ths.set i .done }
        | .open_ => some { s with tag := .opened, elapsed := false, ths := s.ths.set i .done }
      else some { s with ths := s.ths.set i .done }     -- a trial of an earlier half-open epoch: recorded into the current state
    else none
  | .tick => if s.tag = .opened then some { s with elapsed := true } else none

/-- in the half-open state the permits handed out plus the permits available are exactly the capacity -/
def Inv (s : St) : Prop := s.tag = .halfOpen → s.permits + trials s.ths = s.cap

open Failsafe.Conc.Bulkhead in
theorem count_set {l : List T} {i : Nat} {a b x : T} (h : l[i]? = some a) :
    (l.set i b).count x + (if a = x then 1 else 0) = l.count x + (if b = x then 1 else 0) := by
  induction l generalizing i with
  | nil => simp at h
  | cons y ys ih =>
    cases i with
    | zero => simp at h; subst h; simp [List.count_cons]; omega
    | succ j =>
      simp at h
      have := ih (i := j) h
      simp [List.count_cons] at *; omega

theorem inv_step (s s' : St) (a : Act) (h : Inv s) (hs : step s a = some s') : Inv s' := by
  cases a <;> simp only [step] at hs
  case enter i =>
    split at hs
    · rename_i hi
      split at hs
      · rename_i htag; simp only [Option.some.injEq] at hs; subst hs
        intro h2; simp only at h2; rw [htag] at h2; cases h2
      · rename_i htag
        split at hs
        · rename_i hcond
          have ht0 := hcond.2.2
          split at hs
          · simp only [Option.some.injEq] at hs; subst hs
            intro _
            have := count_set (l := s.ths) (i := i) (b := T.trial) (x := T.trial) hi
            simp only [trials] at *
            simp at this; omega
          · simp only [Option.some.injEq] at hs; subst hs
            intro _
            have := count_set (l := s.ths) (i := i) (b := T.rejected) (x := T.trial) hi
            simp only [trials] at *
            simp at this; omega
        · split at hs
          · cases hs
          · simp only [Option.some.injEq] at hs; subst hs
            intro h2; simp only at h2; rw [htag] at h2; cases h2
      · rename_i htag
        have hinv := h htag
        split at hs
        · simp only [Option.some.injEq] at hs; subst hs
          intro _
          have := count_set (l := s.ths) (i := i) (b := T.trial) (x := T.trial) hi
          simp only [trials] at *
          simp at this; omega
        · simp only [Option.some.injEq] at hs; subst hs
          intro _
          have := count_set (l := s.ths) (i := i) (b := T.rejected) (x := T.trial) hi
          simp only [trials] at *
          simp at this; omega
    · cases hs
  case finishRun i v =>
    split at hs
    · rename_i hi
      have hne := hi.2
      split at hs <;>
        (simp only [Option.some.injEq] at hs; subst hs; intro h2; simp only at h2; first | (cases h2; done) | exact absurd h2 hne)
    · cases hs
  case finishTrial i v =>
    split at hs
    · rename_i hi
      split at hs
      · rename_i htag
        have hinv := h htag
        have hc := count_set (l := s.ths) (i := i) (b := T.done) (x := T.trial) hi
        cases v <;> (simp only [Option.some.injEq] at hs; subst hs; intro h2; simp only at h2)
        · simp only [trials] at *; simp at hc; omega
        · cases h2
        · cases h2
      · rename_i htag
        simp only [Option.some.injEq] at hs; subst hs
        intro h2; exact absurd h2 htag
    · cases hs
  case tick =>
    split at hs
    · rename_i htag; simp only [Option.some.injEq] at hs; subst hs
      intro h2; simp only at h2; rw [htag] at h2; cases h2
    · cases hs

theorem inv_run (s : St) (as : List Act) (h : Inv s) :
    ∀ s', as.foldlM (m := Option) step s = some s' → Inv s' := by
  induction as generalizing s with
  | nil => intro s' hs; simp at hs; subst hs; exact h
  | cons a as ih =>
    intro s' hs
    simp [List.foldlM] at hs
    cases hstep : step s a with
    | none => simp [hstep] at hs
    | some s1 => simp [hstep] at hs; exact ih s1 (inv_step s s1 a h hstep) s' hs

end Failsafe.Conc.BreakerConc
