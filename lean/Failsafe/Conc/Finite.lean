/-!
# Finite-state interleaving systems checked inside the kernel

A system has an initial state, a finite list of actions and a partial step function. `Reachable` is the inductive closure.
`explore` computes a candidate set by breadth-first search; `closedB` (decided by the kernel) shows the candidate contains
the initial state and is closed under every action, hence contains every reachable state (`reachable_mem`), so any
property decided on the candidate holds for **every reachable state of every interleaving**.
-/
namespace Failsafe.Conc

structure Sys (σ α : Type) where
  init : σ
  acts : List α
  step : σ → α → Option σ

inductive Reachable {σ α : Type} (sys : Sys σ α) : σ → Prop
  | init : Reachable sys sys.init
  | step (s s' : σ) (a : α) : Reachable sys s → a ∈ sys.acts → sys.step s a = some s' → Reachable sys s'

variable {σ α : Type} [DecidableEq σ]

def succs (sys : Sys σ α) (s : σ) : List σ := sys.acts.filterMap (sys.step s)

/-- breadth-first exploration with fuel -/
def explore (sys : Sys σ α) : Nat → List σ → List σ → List σ
  | 0, seen, _ => seen
  | fuel + 1, seen, frontier =>
    let next := (frontier.flatMap (succs sys)).eraseDups.filter (fun s => !seen.contains s)
    if next.isEmpty then seen else explore sys fuel (seen ++ next) next

def closedB (sys : Sys σ α) (R : List σ) : Bool :=
  R.contains sys.init &&
  R.all (fun s => sys.acts.all (fun a => match sys.step s a with | none => true | some s' => R.contains s'))

theorem reachable_mem (sys : Sys σ α) (R : List σ) (hc : closedB sys R = true) : ∀ s, Reachable sys s → s ∈ R := by
  simp only [closedB, Bool.and_eq_true, List.all_eq_true] at hc
  obtain ⟨hinit, hstep⟩ := hc
  intro s hr
  induction hr with
  | init => simpa using hinit
  | step s s' a _ ha hs ih =>
    have := hstep s ih a ha
    simp only [hs] at this
    simpa using this

/-- a property decided on a closed candidate set holds in every reachable state -/
theorem invariant_of_closed (sys : Sys σ α) (R : List σ) (P : σ → Bool) (hc : closedB sys R = true)
    (hp : R.all P = true) : ∀ s, Reachable sys s → P s = true := by
  intro s hr
  have hm := reachable_mem sys R hc s hr
  exact (List.all_eq_true.1 hp) s hm

end Failsafe.Conc
