import Failsafe.Conc.Trace
import Failsafe.Conc.Future
/-!
# Observable traces of one asynchronous execution (TRACE tie of C15)

Readers poll `IsDone()` and the `Done()` channel and call `Get()` while the execution runs; the completion listener (`OnDone`)
stamps itself; the harness may `Cancel()` at any moment. All stamps come from one global atomic counter. The model is
`Conc.Future` (listeners → store result → store done flag → close) with the readers' observations as visible actions that do
not change the state; the producer's stores are silent. `Trace.accepts` decides whether some interleaving shows the events.
-/
namespace Failsafe.Conc.TraceFuture
open Failsafe.Conc Failsafe.Conc.Future

inductive Ev
  | listener                 -- the completion listener ran
  | seeIsDone (b : Bool)     -- a reader got `IsDone() = b`
  | seeClosed (b : Bool)     -- a reader found `Done()` closed / still open
  | got                      -- a reader's `Get()` returned
  | cancel                   -- the harness called `Cancel()`
deriving DecidableEq, Repr

inductive Act
  | core (a : Future.Act)
  | seeIsDone | seeClosed | got
deriving DecidableEq, Repr

def step (s : St) : Act → Option St
  | .core a => Future.step s a
  | .seeIsDone => some s
  | .seeClosed => some s
  | .got => if s.closes ≥ 1 then some s else none      -- `Get` waits for the channel

def silent : Act → Bool
  | .core .finishListeners => false
  | .core .cancel => false
  | .core _ => true
  | _ => false

def shows (s : St) : Act → Ev → Bool
  | .core .finishListeners, .listener => true
  | .core .cancel, .cancel => true
  | .seeIsDone, .seeIsDone b => s.doneFlag == b
  | .seeClosed, .seeClosed b => decide (s.closes ≥ 1) == b
  | .got, .got => s.resultVersion == 1
  | _, _ => false

def acts : List Act :=
  [.core .finishListeners, .core .storeResult, .core .storeDone, .core .close, .core .cancel, .seeIsDone, .seeClosed, .got]

def osys : Trace.OSys St Act Ev := { init := {}, acts := acts, step := step, silent := silent, shows := shows }

theorem reach_core (s : St) (h : Trace.Reach osys s) : Reachable Future.sys s := by
  induction h with
  | init => exact Reachable.init
  | step s s' a _ hm hst ih =>
    cases a with
    | core c =>
      refine Reachable.step s s' c ih ?_ hst
      cases c <;> simp [Future.sys]
    | seeIsDone => simp only [osys, step, Option.some.injEq] at hst; subst hst; exact ih
    | seeClosed => simp only [osys, step, Option.some.injEq] at hst; subst hst; exact ih
    | got => simp only [osys, step] at hst; split at hst <;> simp_all

def parseEv (s : String) : Option Ev :=
  match s.splitOn ":" with
  | ["listener"] => some .listener
  | ["isdone", b] => some (.seeIsDone (b == "1"))
  | ["closed", b] => some (.seeClosed (b == "1"))
  | ["got"] => some .got
  | ["cancel"] => some .cancel
  | _ => none

end Failsafe.Conc.TraceFuture
