/-!
# Trace acceptance: may the interleaving model show this sequence of observable events?

A system with *silent* and *visible* actions; a visible action taken in a state can show certain events (`shows`). A real run of
the library, instrumented only at points user code can reach (function bodies, listeners, the caller after the call returns),
yields a totally ordered list of events. `accepts` decides whether **some** run of the model shows exactly that list, by the
subset construction: the set of states the model may be in after the events so far, closed under silent steps.

`accepts_iff` is the tie's guarantee in both directions: a state is in the answer **iff** a run of the model from the initial
state shows the trace and ends there. So an empty answer means *no* schedule of the model explains what the implementation did
(no false alarm from the search), and any property proved for all reachable states holds after every accepted trace.
The silent closure is computed with fuel and then *checked* to be closed; if the check fails the answer is `none` ("undecided"),
never a wrong verdict.
-/
namespace Failsafe.Conc.Trace

structure OSys (σ α ε : Type) where
  init : σ
  acts : List α
  step : σ → α → Option σ
  silent : α → Bool
  shows : σ → α → ε → Bool     -- the visible action `a`, taken in state `s`, can be observed as event `e`

variable {σ α ε : Type}

/-- runs: silent steps anywhere, one visible step per event -/
inductive Run (S : OSys σ α ε) : σ → List ε → σ → Prop
  | nil (s : σ) : Run S s [] s
  | silent (s s' s'' : σ) (a : α) (tr : List ε) :
      a ∈ S.acts → S.silent a = true → S.step s a = some s' → Run S s' tr s'' → Run S s tr s''
  | vis (s s' s'' : σ) (a : α) (e : ε) (tr : List ε) :
      a ∈ S.acts → S.silent a = false → S.shows s a e = true → S.step s a = some s' → Run S s' tr s'' → Run S s (e :: tr) s''

/-- silent runs -/
inductive Tau (S : OSys σ α ε) : σ → σ → Prop
  | refl (s : σ) : Tau S s s
  | step (s s' s'' : σ) (a : α) : a ∈ S.acts → S.silent a = true → S.step s a = some s' → Tau S s' s'' → Tau S s s''

theorem Tau.trans {S : OSys σ α ε} {a b c : σ} (h1 : Tau S a b) (h2 : Tau S b c) : Tau S a c := by
  induction h1 with
  | refl _ => exact h2
  | step s s' _ x hm hs hst _ ih => exact Tau.step s s' c x hm hs hst (ih h2)

theorem Tau.single {S : OSys σ α ε} {s s' : σ} {a : α} (hm : a ∈ S.acts) (hs : S.silent a = true) (hst : S.step s a = some s') :
    Tau S s s' := Tau.step s s' s' a hm hs hst (Tau.refl s')

theorem Run.of_tau {S : OSys σ α ε} {a b c : σ} {tr : List ε} (h1 : Tau S a b) (h2 : Run S b tr c) : Run S a tr c := by
  induction h1 with
  | refl _ => exact h2
  | step s s' _ x hm hs hst _ ih => exact Run.silent s s' c x tr hm hs hst (ih h2)

theorem Run.nil_tau {S : OSys σ α ε} {a b : σ} {tr : List ε} (h : Run S a tr b) (hn : tr = []) : Tau S a b := by
  induction h with
  | nil s => exact Tau.refl s
  | silent s s' s'' x tr hm hs hst _ ih => exact Tau.step s s' s'' x hm hs hst (ih hn)
  | vis _ _ _ _ _ _ _ _ _ _ _ _ => cases hn

variable [DecidableEq σ]

def tauSuccs (S : OSys σ α ε) (s : σ) : List σ := S.acts.filterMap (fun a => if S.silent a then S.step s a else none)

def tauClosedB (S : OSys σ α ε) (X : List σ) : Bool := X.all (fun s => (tauSuccs S s).all (fun t => X.contains t))

def closure (S : OSys σ α ε) : Nat → List σ → List σ
  | 0, X => X
  | n + 1, X =>
    let new := ((X.flatMap (tauSuccs S)).filter (fun t => !X.contains t)).eraseDups
    if new.isEmpty then X else closure S n (X ++ new)

/-- the states reachable from `X` by one visible action showing `e` -/
def after (S : OSys σ α ε) (X : List σ) (e : ε) : List σ :=
  X.flatMap (fun s => S.acts.filterMap (fun a => if !S.silent a && S.shows s a e then S.step s a else none))

def stepSet (S : OSys σ α ε) (fuel : Nat) (X : List σ) (e : ε) : Option (List σ) :=
  let Y := closure S fuel (after S X e)
  if tauClosedB S Y then some Y else none

def acceptsFrom (S : OSys σ α ε) (fuel : Nat) : List σ → List ε → Option (List σ)
  | X, [] => some X
  | X, e :: tr => match stepSet S fuel X e with
    | none => none
    | some Y => acceptsFrom S fuel Y tr

/-- the set of model states after a trace; `none` = the silent closure did not converge within the fuel (undecided) -/
def accepts (S : OSys σ α ε) (fuel : Nat) (tr : List ε) : Option (List σ) :=
  let X0 := closure S fuel [S.init]
  if tauClosedB S X0 then acceptsFrom S fuel X0 tr else none

theorem mem_tauSuccs {S : OSys σ α ε} {s t : σ} :
    t ∈ tauSuccs S s ↔ ∃ a ∈ S.acts, S.silent a = true ∧ S.step s a = some t := by
  simp only [tauSuccs, List.mem_filterMap]
  constructor
  · rintro ⟨a, ha, h⟩
    by_cases hs : S.silent a = true
    · simp [hs] at h; exact ⟨a, ha, hs, h⟩
    · simp [hs] at h
  · rintro ⟨a, ha, hs, h⟩
    exact ⟨a, ha, by simp [hs, h]⟩

theorem closure_subset (S : OSys σ α ε) (n : Nat) (X : List σ) : ∀ s, s ∈ X → s ∈ closure S n X := by
  induction n generalizing X with
  | zero => intro s h; exact h
  | succ n ih =>
    intro s h
    simp only [closure]
    split
    · exact h
    · exact ih _ s (List.mem_append_left _ h)

theorem closure_sound (S : OSys σ α ε) (n : Nat) (X : List σ) : ∀ t, t ∈ closure S n X → ∃ s ∈ X, Tau S s t := by
  induction n generalizing X with
  | zero => intro t h; exact ⟨t, h, Tau.refl t⟩
  | succ n ih =>
    intro t h
    simp only [closure] at h
    split at h
    · exact ⟨t, h, Tau.refl t⟩
    · obtain ⟨s, hs, hst⟩ := ih _ t h
      rcases List.mem_append.1 hs with hs | hs
      · exact ⟨s, hs, hst⟩
      · have hs' := (List.mem_eraseDups.1 hs)
        simp only [List.mem_filter, List.mem_flatMap] at hs'
        obtain ⟨⟨u, hu, hsu⟩, _⟩ := hs'
        obtain ⟨a, ha, hsil, hstep⟩ := mem_tauSuccs.1 hsu
        exact ⟨u, hu, Tau.trans (Tau.single ha hsil hstep) hst⟩

theorem closed_tau (S : OSys σ α ε) (X : List σ) (hc : tauClosedB S X = true) {s t : σ} (hs : s ∈ X) (h : Tau S s t) : t ∈ X := by
  induction h with
  | refl _ => exact hs
  | step s s' _ a hm hsil hst _ ih =>
    apply ih
    simp only [tauClosedB, List.all_eq_true] at hc
    have := hc s hs s' (mem_tauSuccs.2 ⟨a, hm, hsil, hst⟩)
    simpa using this

theorem mem_after {S : OSys σ α ε} {X : List σ} {e : ε} {t : σ} :
    t ∈ after S X e ↔ ∃ s ∈ X, ∃ a ∈ S.acts, S.silent a = false ∧ S.shows s a e = true ∧ S.step s a = some t := by
  simp only [after, List.mem_flatMap, List.mem_filterMap]
  constructor
  · rintro ⟨s, hs, a, ha, h⟩
    by_cases hc : (!S.silent a && S.shows s a e) = true
    · simp only [hc, ↓reduceIte] at h
      simp only [Bool.and_eq_true, Bool.not_eq_true'] at hc
      exact ⟨s, hs, a, ha, hc.1, hc.2, h⟩
    · simp [hc] at h
  · rintro ⟨s, hs, a, ha, h1, h2, h3⟩
    exact ⟨s, hs, a, ha, by simp [h1, h2, h3]⟩

/-- one visible step followed by the silent closure: exact -/
theorem stepSet_iff (S : OSys σ α ε) (fuel : Nat) (X Y : List σ) (e : ε) (hX : tauClosedB S X = true)
    (h : stepSet S fuel X e = some Y) :
    tauClosedB S Y = true ∧ ∀ t, t ∈ Y ↔ ∃ s ∈ X, Run S s [e] t := by
  simp only [stepSet] at h
  split at h
  · rename_i hc
    cases h
    refine ⟨hc, fun t => ⟨fun ht => ?_, fun ⟨s, hs, hr⟩ => ?_⟩⟩
    · obtain ⟨u, hu, hut⟩ := closure_sound S fuel _ t ht
      obtain ⟨s, hs, a, ha, h1, h2, h3⟩ := mem_after.1 hu
      exact ⟨s, hs, Run.vis s u t a e [] ha h1 h2 h3 (Run.of_tau hut (Run.nil t))⟩
    · -- generalise over the run
      have key : ∀ (s t : σ) (tr : List ε), Run S s tr t → tr = [e] → s ∈ X → t ∈ closure S fuel (after S X e) := by
        intro s t tr hr
        induction hr with
        | nil _ => intro h; cases h
        | silent s s' s'' a tr hm hsil hst _ ih =>
          intro htr hs
          exact ih htr (closed_tau S X hX hs (Tau.single hm hsil hst))
        | vis s s' s'' a e' tr hm hsil hsh hst hrest _ =>
          intro htr hs
          cases htr
          have hmem : s' ∈ after S X e := mem_after.2 ⟨s, hs, a, hm, hsil, hsh, hst⟩
          exact closed_tau S _ hc (closure_subset S fuel _ s' hmem) (Run.nil_tau hrest rfl)
      exact key s t [e] hr rfl hs
  · cases h

theorem Run.append {S : OSys σ α ε} {a b c : σ} {t1 t2 : List ε} (h1 : Run S a t1 b) (h2 : Run S b t2 c) : Run S a (t1 ++ t2) c := by
  induction h1 with
  | nil _ => exact h2
  | silent s s' _ x tr hm hs hst _ ih => exact Run.silent s s' c x (tr ++ t2) hm hs hst (ih h2)
  | vis s s' _ x e tr hm hs hsh hst _ ih => exact Run.vis s s' c x e (tr ++ t2) hm hs hsh hst (ih h2)

/-- a run showing `e :: tr` splits after the silent steps that follow the first event -/
theorem Run.split_cons {S : OSys σ α ε} {a c : σ} {e : ε} {tr : List ε} (h : Run S a (e :: tr) c) :
    ∃ b, Run S a [e] b ∧ Run S b tr c := by
  generalize hl : e :: tr = l at h
  induction h with
  | nil _ => cases hl
  | silent s s' s'' x tr' hm hs hst _ ih =>
    obtain ⟨b, hb1, hb2⟩ := ih hl
    exact ⟨b, Run.silent s s' b x [e] hm hs hst hb1, hb2⟩
  | vis s s' s'' x e' tr' hm hs hsh hst hrest _ =>
    cases hl
    exact ⟨s', Run.vis s s' s' x e [] hm hs hsh hst (Run.nil s'), hrest⟩

theorem acceptsFrom_iff (S : OSys σ α ε) (fuel : Nat) (tr : List ε) :
    ∀ (X Y : List σ), tauClosedB S X = true → acceptsFrom S fuel X tr = some Y →
      ∀ t, t ∈ Y ↔ ∃ s ∈ X, Run S s tr t := by
  induction tr with
  | nil =>
    intro X Y hX h t
    simp only [acceptsFrom, Option.some.injEq] at h
    subst h
    exact ⟨fun ht => ⟨t, ht, Run.nil t⟩, fun ⟨s, hs, hr⟩ => closed_tau S X hX hs (Run.nil_tau hr rfl)⟩
  | cons e tr ih =>
    intro X Y hX h t
    simp only [acceptsFrom] at h
    cases hs : stepSet S fuel X e with
    | none => simp [hs] at h
    | some X1 =>
      simp only [hs] at h
      obtain ⟨hc1, hm1⟩ := stepSet_iff S fuel X X1 e hX hs
      rw [ih X1 Y hc1 h t]
      constructor
      · rintro ⟨s1, hs1, hr⟩
        obtain ⟨s, hsX, hr1⟩ := (hm1 s1).1 hs1
        exact ⟨s, hsX, Run.append hr1 hr⟩
      · rintro ⟨s, hsX, hr⟩
        obtain ⟨b, hb1, hb2⟩ := Run.split_cons hr
        exact ⟨b, (hm1 b).2 ⟨s, hsX, hb1⟩, hb2⟩

/-- **exactness of the acceptor**: whenever it answers, a state is in the answer iff some run of the model from the initial state
shows exactly the trace and ends in that state -/
theorem accepts_iff (S : OSys σ α ε) (fuel : Nat) (tr : List ε) (Y : List σ) (h : accepts S fuel tr = some Y) :
    ∀ t, t ∈ Y ↔ Run S S.init tr t := by
  simp only [accepts] at h
  split at h
  · rename_i hc
    intro t
    rw [acceptsFrom_iff S fuel tr _ Y hc h t]
    constructor
    · rintro ⟨s, hs, hr⟩
      obtain ⟨s0, hs0, ht⟩ := closure_sound S fuel _ s hs
      simp only [List.mem_singleton] at hs0
      subst hs0
      exact Run.of_tau ht hr
    · intro hr
      exact ⟨S.init, closure_subset S fuel _ _ (List.mem_singleton.2 rfl), hr⟩
  · cases h

/-- the verdict "rejected" is exact: an empty answer means no run of the model shows the trace -/
theorem rejected_iff (S : OSys σ α ε) (fuel : Nat) (tr : List ε) (h : accepts S fuel tr = some []) :
    ¬ ∃ t, Run S S.init tr t := by
  rintro ⟨t, ht⟩
  have := (accepts_iff S fuel tr [] h t).2 ht
  cases this

/-- a run showing `t1 ++ t2` passes through a state after `t1` -/
theorem Run.split_append {S : OSys σ α ε} {a c : σ} (t1 t2 : List ε) (h : Run S a (t1 ++ t2) c) :
    ∃ b, Run S a t1 b ∧ Run S b t2 c := by
  induction t1 generalizing a with
  | nil => exact ⟨a, Run.nil a, h⟩
  | cons e t1 ih =>
    obtain ⟨b, hb1, hb2⟩ := Run.split_cons (show Run S a (e :: (t1 ++ t2)) c from h)
    obtain ⟨b', hb'1, hb'2⟩ := ih hb2
    exact ⟨b', Run.append hb1 hb'1, hb'2⟩

/-- a run showing exactly one event contains the visible step that shows it -/
theorem Run.single_vis {S : OSys σ α ε} {a c : σ} {e : ε} (h : Run S a [e] c) :
    ∃ s s' x, Tau S a s ∧ x ∈ S.acts ∧ S.silent x = false ∧ S.shows s x e = true ∧ S.step s x = some s' ∧ Tau S s' c := by
  generalize hl : [e] = l at h
  induction h with
  | nil _ => cases hl
  | silent s s' s'' x tr hm hs hst _ ih =>
    obtain ⟨u, u', y, h1, h2, h3, h4, h5, h6⟩ := ih hl
    exact ⟨u, u', y, Tau.step s s' u x hm hs hst h1, h2, h3, h4, h5, h6⟩
  | vis s s' s'' x e' tr hm hs hsh hst hrest _ =>
    cases hl
    exact ⟨s, s', x, Tau.refl s, hm, hs, hsh, hst, Run.nil_tau hrest rfl⟩

/-- every state a run can be in is reachable by the model's step relation: whatever is proved for all reachable states (an
inductive invariant, a kernel-decided closed set) holds after every accepted trace -/
inductive Reach (S : OSys σ α ε) : σ → Prop
  | init : Reach S S.init
  | step (s s' : σ) (a : α) : Reach S s → a ∈ S.acts → S.step s a = some s' → Reach S s'

theorem Run.reach {S : OSys σ α ε} {a b : σ} {tr : List ε} (h : Run S a tr b) (ha : Reach S a) : Reach S b := by
  induction h with
  | nil _ => exact ha
  | silent s s' _ x _ hm _ hst _ ih => exact ih (Reach.step s s' x ha hm hst)
  | vis s s' _ x _ _ hm _ _ hst _ ih => exact ih (Reach.step s s' x ha hm hst)

theorem accepted_state_reachable (S : OSys σ α ε) (fuel : Nat) (tr : List ε) (Y : List σ) (h : accepts S fuel tr = some Y)
    (t : σ) (ht : t ∈ Y) : Reach S t :=
  Run.reach ((accepts_iff S fuel tr Y h t).1 ht) Reach.init

end Failsafe.Conc.Trace
