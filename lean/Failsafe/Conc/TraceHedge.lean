import Failsafe.Conc.Trace
import Failsafe.Conc.Hedge
/-!
# Observable traces of one hedged execution (TRACE tie of C09)

The harness runs a real hedge policy around an instrumented function. Stamps (one atomic counter): the `OnHedge` listener, each
attempt's function entry and its return (with whether the value it returns matches the cancel conditions), the caller after the
call returned (the returned value names the winning attempt), and then one reading of `IsCanceled()` of every attempt that had
entered. Attempts are numbered in the order their functions were entered; the model numbers them in launch order — every event
of attempt `j` happens when at least `j + 1` attempts have been launched, and the model treats launched attempts alike, so the
renumbering is immaterial.

The model is `Conc.Hedge` (coordinator, attempts, `resultCount`, the `resultSent` CAS, the channel) with the observation points as
visible actions. Launching the first attempt, the hedge-delay timer and the coordinator's receive are silent; launching a hedge is
visible as the `OnHedge` call that precedes it.
-/
namespace Failsafe.Conc.TraceHedge
open Failsafe.Conc Failsafe.Conc.Hedge

inductive Ev
  | hedge                              -- `OnHedge`
  | enter (k : Nat)                    -- attempt k's function was entered
  | finish (k : Nat) (c : Bool)        -- attempt k's function is about to return; c: the value matches the cancel conditions
  | callerRet (k : Nat)                -- the call returned attempt k's value
  | seeCancelled (k : Nat) (b : Bool)  -- after the return: attempt k's `IsCanceled()`
  | settled (n : Nat)                  -- after the return and a grace period: the number of attempts whose function was ever entered
deriving DecidableEq, Repr

inductive Act
  | launchFirst | launchHedge | timer | recv
  | fnRet (k : Nat) (c : Bool)         -- visible: the function of attempt k returns (stamped inside the function)
  | count (k : Nat) (c : Bool)         -- silent: the attempt's goroutine counts the result (`isFinal` is decided here) …
  | trySend (k : Nat) (c f : Bool)     -- silent: … and then tries the CAS and sends
  | enter (k : Nat) | callerRet (k : Nat) | seeCancelled (k : Nat) | settled
deriving DecidableEq, Repr

/-- the model's state plus the attempts whose function has returned but whose result the library has not processed yet (the
order in which functions return is not the order in which their goroutines reach the `resultSent` CAS) -/
structure TS where
  core : St
  retd : List (Nat × Bool) := []
deriving DecidableEq, Repr

def step (t : TS) : Act → Option TS
  | .launchFirst => if t.core.launched = 0 then (Hedge.step t.core .launch).map (fun s => { t with core := s }) else none
  | .launchHedge => if 0 < t.core.launched then (Hedge.step t.core .launch).map (fun s => { t with core := s }) else none
  | .timer => (Hedge.step t.core .timer).map (fun s => { t with core := s })
  | .recv => (Hedge.step t.core .recv).map (fun s => { t with core := s })
  | .fnRet k c =>
    if t.core.ths[k]? = some .running ∧ ¬ t.retd.any (fun x => x.1 == k) then some { t with retd := (k, c) :: t.retd } else none
  | .count k c =>
    if t.retd.contains (k, c) then (Hedge.step t.core (.count k c)).map (fun s => { core := s, retd := t.retd.erase (k, c) }) else none
  | .trySend k c f => (Hedge.step t.core (.trySend k c f)).map (fun s => { t with core := s })
  | .enter k => if t.core.ths[k]? = some .running ∧ ¬ t.retd.any (fun x => x.1 == k) then some t else none
  | .callerRet k => if t.core.returned = true ∧ (t.core.accepted.map (·.1)) = some k then some t else none
  | .seeCancelled k => if t.core.returned = true ∧ k < t.core.launched then some t else none
  | .settled => if t.core.returned = true then some t else none

def silent : Act → Bool
  | .launchFirst | .timer | .recv | .count _ _ | .trySend _ _ _ => true
  | _ => false

def shows (t : TS) : Act → Ev → Bool
  | .launchHedge, .hedge => true
  | .fnRet k c, .finish k' c' => k == k' && c == c'
  | .enter k, .enter k' => k == k'
  | .callerRet k, .callerRet k' => k == k'
  | .seeCancelled k, .seeCancelled k' b => k == k' && (t.core.cancelled.contains k == b)
  | .settled, .settled n => t.core.launched == n     -- every attempt that was counted (`CopyForHedge`, `OnHedge`) was also started
  | _, _ => false

def acts (n : Nat) : List Act :=
  [.launchFirst, .launchHedge, .timer, .recv, .settled] ++
    (List.range n).flatMap (fun k => [.fnRet k true, .fnRet k false, .count k true, .count k false, .trySend k true true, .trySend k true false, .trySend k false true,
      .trySend k false false, .enter k, .callerRet k, .seeCancelled k])

def osys (n : Nat) : Trace.OSys TS Act Ev :=
  { init := { core := Hedge.init n }, acts := acts n, step := step, silent := silent, shows := shows }

/-- the observation points add no behaviour: the model component of every state the traced system reaches satisfies the invariant -/
theorem reach_inv (n : Nat) (t : TS) (h : Trace.Reach (osys n) t) : Inv t.core := by
  induction h with
  | init => exact init_inv n
  | step t t' a _ _ hst ih =>
    have core_step : ∀ (x : Hedge.Act) (f : St → TS), (Hedge.step t.core x).map f = some t' → (∀ s, (f s).core = s) → Inv t'.core := by
      intro x f hm hf
      cases hs : Hedge.step t.core x with
      | none => simp [hs] at hm
      | some s =>
        simp only [hs, Option.map_some, Option.some.injEq] at hm
        subst hm
        rw [hf s]
        exact inv_step t.core s x ih hs
    cases a with
    | launchFirst => simp only [osys, step] at hst; split at hst; exact core_step _ _ hst (fun _ => rfl); cases hst
    | launchHedge => simp only [osys, step] at hst; split at hst; exact core_step _ _ hst (fun _ => rfl); cases hst
    | timer => exact core_step .timer _ (by simpa [osys, step] using hst) (fun _ => rfl)
    | recv => exact core_step .recv _ (by simpa [osys, step] using hst) (fun _ => rfl)
    | count k c => simp only [osys, step] at hst; split at hst; exact core_step _ _ hst (fun _ => rfl); cases hst
    | trySend k c f => exact core_step (.trySend k c f) _ (by simpa [osys, step] using hst) (fun _ => rfl)
    | fnRet k c =>
      simp only [osys, step] at hst
      split at hst
      · simp only [Option.some.injEq] at hst; subst hst; exact ih
      · cases hst
    | enter k => simp only [osys, step] at hst; split at hst <;> simp_all
    | callerRet k => simp only [osys, step] at hst; split at hst <;> simp_all
    | seeCancelled k => simp only [osys, step] at hst; split at hst <;> simp_all
    | settled => simp only [osys, step] at hst; split at hst <;> simp_all

def parseEv (s : String) : Option Ev :=
  match s.splitOn ":" with
  | ["hedge"] => some .hedge
  | ["enter", k] => k.toNat?.map .enter
  | ["finish", k, c] => k.toNat?.map (fun k => .finish k (c == "1"))
  | ["ret", k] => k.toNat?.map .callerRet
  | ["see", k, b] => k.toNat?.map (fun k => .seeCancelled k (b == "1"))
  | ["settled", n] => n.toNat?.map .settled
  | _ => none

end Failsafe.Conc.TraceHedge
