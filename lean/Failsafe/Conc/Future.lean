import Failsafe.Conc.Finite
/-!
# The async future protocol (result.go: `record`, `Get`, `IsDone`, `Done`; executor.go: `executeAsync`)

Producer: `execute` runs the completion listeners, then `record` stores the result, stores the done flag, closes the channel
(FACTS `effects/result:executionResult.record`, `bodies/executor:executor.executeAsync`: one `record` per async execution).
A `Cancel` may happen at any time (its effect on the *value* of the result is C08's subject). Readers only read.
-/
namespace Failsafe.Conc.Future

inductive Pc | running | listenersDone | resultStored | doneStored | closed deriving DecidableEq, Repr

structure St where
  pc : Pc := .running
  resultVersion : Nat := 0     -- number of times the result cell has been written
  doneFlag : Bool := false
  closes : Nat := 0            -- number of close(doneChan) calls
  cancelCalls : Nat := 0       -- ExecutionResult.Cancel calls (bounded for finiteness)
deriving DecidableEq, Repr

inductive Act | finishListeners | storeResult | storeDone | close | cancel deriving DecidableEq, Repr

def step (s : St) : Act → Option St
  | .finishListeners => if s.pc = .running then some { s with pc := .listenersDone } else none
  | .storeResult => if s.pc = .listenersDone then some { s with pc := .resultStored, resultVersion := s.resultVersion + 1 } else none
  | .storeDone => if s.pc = .resultStored then some { s with pc := .doneStored, doneFlag := true } else none
  | .close => if s.pc = .doneStored then some { s with pc := .closed, closes := s.closes + 1 } else none
  | .cancel => if s.cancelCalls < 2 then some { s with cancelCalls := s.cancelCalls + 1 } else none

def sys : Sys St Act := { init := {}, acts := [.finishListeners, .storeResult, .storeDone, .close, .cancel], step := step }

def listenersRan (s : St) : Bool := s.pc != .running

/-- what any reader can observe, at any instant -/
def protocol (s : St) : Bool :=
  s.closes ≤ 1 &&                                                   -- Done is closed at most once
  ((s.closes == 0) || (s.doneFlag && s.resultVersion == 1 && listenersRan s)) &&   -- closed ⇒ IsDone, result available, listeners ran
  (!s.doneFlag || (s.resultVersion == 1 && listenersRan s)) &&      -- IsDone ⇒ result available, listeners ran
  s.resultVersion ≤ 1 &&                                            -- the result is written once: every reader sees the same value
  ((s.pc != .closed) || s.closes == 1)                              -- the producer's last step closes the channel

def reach : List St := explore sys 20 [sys.init] [sys.init]

end Failsafe.Conc.Future
