/-!
# Lock discipline ⇒ conflicting accesses are ordered (C14)

Traces of mutex acquisitions, releases and memory accesses by any number of threads. `Valid` is mutex semantics (a mutex is
acquired only when free, released only by its owner) together with the *discipline* read off the access table: every access to
variable `x` is made by the thread that currently owns `L x`. The theorem: any two accesses to the same variable by different
threads are separated, in the trace, by a release of `L x` by the first thread and a later acquisition of `L x` by the second —
which is exactly the chain `access ≤po unlock ≤sync lock ≤po access` that the Go memory model turns into happens-before
(“the n-th Unlock is synchronized before the m-th Lock returns, n < m”). Hence no data race on variables the table marks `mtx`.
-/
namespace Failsafe.Conc.Lockset

inductive Ev
  | acq (t m : Nat)
  | rel (t m : Nat)
  | acc (t x : Nat) (write : Bool)
deriving DecidableEq, Repr

/-- mutex ↦ owning thread -/
abbrev Owners := Nat → Option Nat

def apply (o : Owners) : Ev → Owners
  | .acq t m => fun k => if k = m then some t else o k
  | .rel _ m => fun k => if k = m then none else o k
  | .acc _ _ _ => o

def ok (L : Nat → Nat) (o : Owners) : Ev → Prop
  | .acq _ m => o m = none
  | .rel t m => o m = some t
  | .acc t x _ => o (L x) = some t

def Valid (L : Nat → Nat) : Owners → List Ev → Prop
  | _, [] => True
  | o, e :: es => ok L o e ∧ Valid L (apply o e) es

def after (o : Owners) (es : List Ev) : Owners := es.foldl apply o

theorem after_append (o : Owners) (a b : List Ev) : after o (a ++ b) = after (after o a) b := by
  simp [after, List.foldl_append]

theorem valid_append (L : Nat → Nat) (o : Owners) (a b : List Ev) :
    Valid L o (a ++ b) ↔ Valid L o a ∧ Valid L (after o a) b := by
  induction a generalizing o with
  | nil => simp [Valid, after]
  | cons e es ih =>
    simp only [List.cons_append, Valid, after, List.foldl_cons]
    rw [ih]
    simp [after, and_assoc]

/-- if `t` owns `m` and later does not, `t` released `m` in between -/
theorem released_between (L : Nat → Nat) (q : List Ev) (o : Owners) (m t : Nat) (hv : Valid L o q) (h1 : o m = some t)
    (h2 : after o q m ≠ some t) :
    ∃ q1 q2, q = q1 ++ Ev.rel t m :: q2 ∧ after o (q1 ++ [Ev.rel t m]) m = none := by
  induction q generalizing o with
  | nil => exact absurd h1 h2
  | cons e es ih =>
    obtain ⟨hok, hrest⟩ := hv
    cases e with
    | acq t' m' =>
      have hne : m ≠ m' := by intro e; subst e; simp [ok, h1] at hok
      have h1' : apply o (.acq t' m') m = some t := by simp [apply, hne, h1]
      obtain ⟨q1, q2, hq, ha⟩ := ih (apply o (.acq t' m')) hrest h1' h2
      exact ⟨.acq t' m' :: q1, q2, by simp [hq], by simpa [after] using ha⟩
    | rel t' m' =>
      by_cases hm : m = m'
      · subst hm
        have : t' = t := by simp [ok, h1] at hok; exact hok.symm
        subst this
        exact ⟨[], es, rfl, by simp [after, apply]⟩
      · have h1' : apply o (.rel t' m') m = some t := by simp [apply, hm, h1]
        obtain ⟨q1, q2, hq, ha⟩ := ih (apply o (.rel t' m')) hrest h1' h2
        exact ⟨.rel t' m' :: q1, q2, by simp [hq], by simpa [after] using ha⟩
    | acc t' x w =>
      obtain ⟨q1, q2, hq, ha⟩ := ih (apply o (.acc t' x w)) hrest (by simpa [apply] using h1) h2
      exact ⟨.acc t' x w :: q1, q2, by simp [hq], by simpa [after] using ha⟩

/-- if `u` does not own `m` and later does, `u` acquired `m` in between -/
theorem acquired_between (L : Nat → Nat) (q : List Ev) (o : Owners) (m u : Nat) (hv : Valid L o q) (h1 : o m ≠ some u)
    (h2 : after o q m = some u) : ∃ a b, q = a ++ Ev.acq u m :: b := by
  induction q generalizing o with
  | nil => exact absurd h2 h1
  | cons e es ih =>
    obtain ⟨_, hrest⟩ := hv
    by_cases he : e = .acq u m
    · exact ⟨[], es, by simp [he]⟩
    · have h1' : apply o e m ≠ some u := by
        cases e with
        | acq t' m' =>
          by_cases hm : m = m'
          · subst hm
            have : t' ≠ u := by intro h; subst h; exact he rfl
            simp [apply, this]
          · simpa [apply, hm] using h1
        | rel t' m' => by_cases hm : m = m' <;> simp [apply, hm, h1]
        | acc t' x w => simpa [apply] using h1
      obtain ⟨a, b, hq⟩ := ih (apply o e) hrest h1' (by simpa [after] using h2)
      exact ⟨e :: a, b, by simp [hq]⟩

/-- **Lock discipline orders conflicting accesses**: in every valid trace, between an access to `x` by `t` and a later access to
`x` by another thread `u` there is a release of `L x` by `t` followed by an acquisition of `L x` by `u`. -/
theorem lock_discipline_orders_accesses (L : Nat → Nat) (o : Owners) (p q r : List Ev) (t u x : Nat) (w1 w2 : Bool) (htu : t ≠ u)
    (hv : Valid L o (p ++ [Ev.acc t x w1] ++ q ++ [Ev.acc u x w2] ++ r)) :
    ∃ q1 q2 q3, q = q1 ++ [Ev.rel t (L x)] ++ q2 ++ [Ev.acq u (L x)] ++ q3 := by
  rw [valid_append, valid_append, valid_append, valid_append] at hv
  obtain ⟨⟨⟨⟨_, h1⟩, hq⟩, h2⟩, _⟩ := hv
  have ht : after o p (L x) = some t := by simpa [Valid, ok] using h1.1
  have hu : after (after (after o p) [Ev.acc t x w1]) q (L x) = some u := by
    simp only [after_append] at h2
    simpa [Valid, ok] using h2.1
  have hsame : after (after o p) [Ev.acc t x w1] = after o p := by simp [after, apply]
  rw [after_append] at hq
  rw [hsame] at hq hu
  have hne : after (after o p) q (L x) ≠ some t := by rw [hu]; intro h; exact htu (Option.some.inj h).symm
  obtain ⟨q1, q2, hq12, hnone⟩ := released_between L q (after o p) (L x) t hq ht hne
  subst hq12
  have hq2 : Valid L (after (after o p) (q1 ++ [Ev.rel t (L x)])) q2 := by
    have : q1 ++ Ev.rel t (L x) :: q2 = (q1 ++ [Ev.rel t (L x)]) ++ q2 := by simp
    rw [this, valid_append] at hq
    exact hq.2
  have hu2 : after (after (after o p) (q1 ++ [Ev.rel t (L x)])) q2 (L x) = some u := by
    have : q1 ++ Ev.rel t (L x) :: q2 = (q1 ++ [Ev.rel t (L x)]) ++ q2 := by simp
    rw [this, after_append] at hu
    exact hu
  obtain ⟨a, b, hab⟩ := acquired_between L q2 _ (L x) u hq2 (by rw [hnone]; simp) hu2
  exact ⟨q1, a, b, by simp [hab]⟩

/-! ## no deadlock without nested acquisition -/

/-- what each thread is blocked on, if anything -/
abbrev Waiting := Nat → Option Nat

/-- the library's lock graph: a thread that is waiting for a mutex owns none (no nested acquisition, FACTS `callsUnderLock`) -/
def NoNesting (o : Owners) (w : Waiting) : Prop := ∀ t m, w t = some m → ∀ k, o k ≠ some t

/-- whenever some thread waits for a mutex, either that mutex is free (it can take it) or its owner is not itself waiting
(it can run on to its release): no deadlock among the library's mutexes -/
theorem no_deadlock (o : Owners) (w : Waiting) (h : NoNesting o w) (t m : Nat) (hw : w t = some m) :
    o m = none ∨ ∃ u, o m = some u ∧ w u = none := by
  cases hm : o m with
  | none => exact Or.inl rfl
  | some u =>
    refine Or.inr ⟨u, rfl, ?_⟩
    cases hwu : w u with
    | none => rfl
    | some m' => exact absurd hm (h u m' hwu m)

end Failsafe.Conc.Lockset
