import Failsafe.Conc.BreakerConc
/-!
# Hedge executor: coordinator loop and attempt goroutines (hedgepolicy/hedgeexecutor.go)

`n = maxHedges + 1` attempts at most. The coordinator launches attempt `launched`, then waits for the hedge delay timer or a
result (only a result once all attempts are launched). An attempt that finishes increments `resultCount` (action `count`: this
is where `isFinal` is decided) and, in a **separate** step (`trySend`), sends its result iff `(isFinal ∨ cancellable) ∧
CAS(resultSent)` — two atomics, so another attempt may get in between (found by the TRACE tie: a recorded run in which the final,
non-cancellable result won the CAS against a cancellable one that had been counted earlier); the channel has capacity `Facts.hedgeChanCap` (the theorems below do not
depend on it: at most one send ever happens and the coordinator receives once). On receiving, the coordinator cancels every
other launched attempt and returns.
-/
namespace Failsafe.Conc.Hedge

inductive A | idle | running | finished deriving DecidableEq, Repr

structure St where
  n : Nat
  ths : List A                        -- attempts, length n
  launched : Nat := 0
  finishedCount : Nat := 0            -- resultCount
  sent : Bool := false                -- resultSent
  sends : Nat := 0
  chan : Option (Nat × Bool) := none  -- (attempt, its result matches the cancel conditions)
  accepted : Option (Nat × Bool) := none
  waiting : Bool := false
  returned : Bool := false
  timers : Nat := 0                   -- hedge-delay timers that have fired
  cancelled : List Nat := []          -- attempts cancelled by the coordinator on return
  pending : List (Nat × Bool × Bool) := []   -- counted, CAS not tried yet: (attempt, cancellable, isFinal)
deriving Repr, DecidableEq

inductive Act
  | launch
  | timer
  | recv
  | count (k : Nat) (cancellable : Bool)              -- the attempt's function has returned: `resultCount.Add(1)`, `isFinal` decided
  | trySend (k : Nat) (cancellable isFinal : Bool)   -- `(isFinal || cancellable) && resultSent.CompareAndSwap(false, true)` then send

def step (s : St) : Act → Option St
  | .launch =>
    if ¬ s.returned ∧ ¬ s.waiting ∧ s.launched < s.n ∧ s.ths[s.launched]? = some .idle then
      some { s with ths := s.ths.set s.launched .running, launched := s.launched + 1, waiting := true }
    else none
  | .timer =>
    -- only armed while another hedge may still be started: execIdx = launched - 1 < maxHedges
    if s.waiting ∧ s.launched < s.n then some { s with waiting := false, timers := s.timers + 1 } else none
  | .recv =>
    if s.waiting then
      match s.chan with
      | some x => some { s with chan := none, accepted := some x, waiting := false, returned := true,
                                cancelled := (List.range s.launched).filter (· ≠ x.1) }
      | none => none
    else none
  | .count k c =>
    if s.ths[k]? = some .running then
      let cnt := s.finishedCount + 1
      some { s with ths := s.ths.set k .finished, finishedCount := cnt, pending := (k, c, decide (cnt = s.n)) :: s.pending }
    else none
  | .trySend k c f =>
    if (k, c, f) ∈ s.pending then
      if (f || c) && !s.sent then
        some { s with pending := s.pending.erase (k, c, f), sent := true, sends := s.sends + 1, chan := some (k, c) }
      else some { s with pending := s.pending.erase (k, c, f) }
    else none

def nonIdle (l : List A) : Nat := l.count .running + l.count .finished

structure Inv (s : St) : Prop where
  len : s.ths.length = s.n
  launchedEq : nonIdle s.ths = s.launched
  prefixStarted : ∀ k, s.launched ≤ k → k < s.n → s.ths[k]? = some .idle
  launchedLe : s.launched ≤ s.n
  fin : s.finishedCount = s.ths.count .finished
  sendsEq : s.sends = (if s.sent then 1 else 0)
  chanSent : s.chan.isSome → s.sent = true ∧ s.accepted = none
  accSent : s.accepted.isSome → s.sent = true ∧ s.chan = none
  produced : ∀ x, (s.chan = some x ∨ s.accepted = some x) → s.ths[x.1]? = some .finished ∧ (x.2 = false → s.finishedCount = s.n)
  retAcc : s.returned = true → s.accepted.isSome
  notBefore : s.launched ≤ s.timers + (if s.waiting = true ∨ s.returned = true ∨ s.launched = 0 then 1 else 0)
  waitingLaunched : s.waiting = true → 0 < s.launched
  pend : ∀ x ∈ s.pending, s.ths[x.1]? = some .finished ∧ (x.2.2 = true → s.finishedCount = s.n)

def init (n : Nat) : St := { n := n, ths := List.replicate n .idle }

theorem init_inv (n : Nat) : Inv (init n) := by
  refine ⟨by simp [init], by simp [init, nonIdle, List.count_replicate], ?_, by simp [init], by simp [init, List.count_replicate],
    by simp [init], by simp [init], by simp [init], by simp [init], by simp [init], by simp [init], by simp [init], by simp [init]⟩
  intro k _ hk
  have hk' : k < n := hk
  simp [init, List.getElem?_replicate, hk']

open Failsafe.Conc.BreakerConc in
theorem countA_set {l : List A} {i : Nat} {a b x : A} (h : l[i]? = some a) :
    (l.set i b).count x + (if a = x then 1 else 0) = l.count x + (if b = x then 1 else 0) := by
  induction l generalizing i with
  | nil => simp at h
  | cons y ys ih =>
    cases i with
    | zero => simp at h; subst h; simp [List.count_cons]; omega
    | succ j =>
      simp at h
      have := ih (i := j) h
      simp [List.count_cons] at *; omega

theorem get_set_ne {l : List A} {i k : Nat} {b : A} (h : k ≠ i) : (l.set i b)[k]? = l[k]? := by
  simp [List.getElem?_set, Ne.symm h]

theorem inv_step (s s' : St) (a : Act) (h : Inv s) (hs : step s a = some s') : Inv s' := by
  cases a <;> simp only [step] at hs
  case launch =>
    split at hs
    · rename_i hc
      obtain ⟨hnr, hnw, hlt, hidle⟩ := hc
      simp only [Option.some.injEq] at hs; subst hs
      have c1 := countA_set (l := s.ths) (i := s.launched) (b := A.running) (x := A.running) hidle
      have c2 := countA_set (l := s.ths) (i := s.launched) (b := A.running) (x := A.finished) hidle
      simp at c1 c2
      have hnb := h.notBefore
      have hnw' : s.waiting = false := by simpa using hnw
      have hnr' : s.returned = false := by simpa using hnr
      refine ⟨by simp [h.len], ?_, ?_, by simp only; omega, by simp only; rw [c2]; exact h.fin, h.sendsEq, h.chanSent, h.accSent, ?_, ?_, ?_, by simp, ?_⟩
      · simp only [nonIdle]; have := h.launchedEq; simp only [nonIdle] at this; omega
      · intro k hk hkn
        simp only at hk hkn ⊢
        rw [get_set_ne (by omega)]
        exact h.prefixStarted k (by omega) hkn
      · intro x hx
        have := h.produced x hx
        refine ⟨?_, this.2⟩
        by_cases hk : x.1 = s.launched
        · rw [hk] at this; rw [hidle] at this; cases this.1
        · simp only; rw [get_set_ne hk]; exact this.1
      · intro hr; simp only at hr; rw [hr] at hnr'; cases hnr'
      · simp only [hnw', hnr'] at hnb ⊢
        simp only [Bool.false_eq_true, false_or, true_or, if_true] at hnb ⊢
        by_cases h0 : s.launched = 0
        · simp [h0]
        · simp [h0] at hnb; omega
      · intro x hx
        have hp := h.pend x hx
        have hne : x.1 ≠ s.launched := by intro he; rw [he] at hp; rw [hidle] at hp; cases hp.1
        exact ⟨by simp only; rw [get_set_ne hne]; exact hp.1, hp.2⟩
    · cases hs
  case timer =>
    split at hs
    · rename_i hc
      simp only [Option.some.injEq] at hs; subst hs
      have hnb := h.notBefore
      simp only [hc.1, true_or, if_true] at hnb
      exact ⟨h.len, h.launchedEq, h.prefixStarted, h.launchedLe, h.fin, h.sendsEq, h.chanSent, h.accSent, h.produced, h.retAcc,
        by simp only; split <;> omega, by simp, h.pend⟩
    · cases hs
  case recv =>
    split at hs
    · rename_i hw
      split at hs
      · rename_i x hx
        simp only [Option.some.injEq] at hs; subst hs
        have hcs := h.chanSent (by simp [hx])
        have hnb := h.notBefore
        simp only [hw, true_or, if_true] at hnb
        refine ⟨h.len, h.launchedEq, h.prefixStarted, h.launchedLe, h.fin, h.sendsEq, by simp, by simp [hcs.1], ?_, by simp, by simp only; simp; omega, by simp, h.pend⟩
        intro y hy
        simp only [reduceCtorEq, Option.some.injEq, false_or] at hy
        subst hy
        exact h.produced x (Or.inl hx)
      · cases hs
    · cases hs
  case count k c =>
    split at hs
    · rename_i hrun
      simp only [Option.some.injEq] at hs; subst hs
      have c1 := countA_set (l := s.ths) (i := k) (b := A.finished) (x := A.running) hrun
      have c2 := countA_set (l := s.ths) (i := k) (b := A.finished) (x := A.finished) hrun
      simp at c1 c2
      have hrunpos : 0 < s.ths.count A.running := by
        apply List.count_pos_iff.2
        exact List.mem_of_getElem? hrun
      have hle : s.finishedCount + 1 ≤ s.n := by
        have := h.launchedEq; simp only [nonIdle] at this
        have := h.fin; have := h.launchedLe; omega
      have hklen : k < s.ths.length := by
        cases hl : s.ths[k]? with
        | none => rw [hl] at hrun; cases hrun
        | some x => exact (List.getElem?_eq_some_iff.1 hl).1
      refine ⟨by simp [h.len], ?_, ?_, h.launchedLe, by simp only; rw [c2]; have := h.fin; omega, h.sendsEq, h.chanSent, h.accSent, ?_, h.retAcc, h.notBefore, h.waitingLaunched, ?_⟩
      · simp only [nonIdle]; have := h.launchedEq; simp only [nonIdle] at this; omega
      · intro k' hk' hkn
        simp only at hk' hkn ⊢
        have hkne : k' ≠ k := by
          intro he; subst he
          have := h.prefixStarted k' hk' hkn
          rw [hrun] at this; cases this
        rw [get_set_ne hkne]
        exact h.prefixStarted k' hk' hkn
      · intro x hx
        have hp := h.produced x hx
        have hne : x.1 ≠ k := by intro he; rw [he] at hp; rw [hrun] at hp; cases hp.1
        refine ⟨by simp only; rw [get_set_ne hne]; exact hp.1, ?_⟩
        intro hx2
        have := hp.2 hx2
        simp only; omega
      · intro x hx
        simp only [List.mem_cons] at hx
        rcases hx with hx | hx
        · subst hx
          refine ⟨by simp only; simp [List.getElem?_set, hklen], ?_⟩
          intro hf
          simpa using hf
        · have hp := h.pend x hx
          have hne : x.1 ≠ k := by intro he; rw [he] at hp; rw [hrun] at hp; cases hp.1
          refine ⟨by simp only; rw [get_set_ne hne]; exact hp.1, ?_⟩
          intro hf
          have := hp.2 hf
          simp only; omega
    · cases hs
  case trySend k c f =>
    split at hs
    · rename_i hmem
      have hp := h.pend (k, c, f) hmem
      have hsub : ∀ x ∈ s.pending.erase (k, c, f), s.ths[x.1]? = some .finished ∧ (x.2.2 = true → s.finishedCount = s.n) :=
        fun x hx => h.pend x (List.mem_of_mem_erase hx)
      split at hs
      · rename_i hcond
        simp only [Option.some.injEq] at hs; subst hs
        simp only [Bool.and_eq_true, Bool.or_eq_true, Bool.not_eq_true'] at hcond
        have hns := hcond.2
        have hacc : s.accepted = none := by
          cases ha : s.accepted with
          | none => rfl
          | some y => have := (h.accSent (by simp [ha])).1; rw [hns] at this; cases this
        refine ⟨h.len, h.launchedEq, h.prefixStarted, h.launchedLe, h.fin, ?_, by simp [hacc], by simp [hacc], ?_, ?_, h.notBefore, h.waitingLaunched, hsub⟩
        · have := h.sendsEq; simp only [hns] at this; simp [this]
        · intro x hx
          simp only [hacc, Option.some.injEq, reduceCtorEq, or_false] at hx
          subst hx
          refine ⟨hp.1, ?_⟩
          intro hcf
          simp only at hcf
          rcases hcond.1 with h1 | h1
          · exact hp.2 h1
          · rw [hcf] at h1; cases h1
        · intro hr; have := h.retAcc hr; rw [hacc] at this; simp at this
      · simp only [Option.some.injEq] at hs; subst hs
        exact ⟨h.len, h.launchedEq, h.prefixStarted, h.launchedLe, h.fin, h.sendsEq, h.chanSent, h.accSent, h.produced, h.retAcc, h.notBefore, h.waitingLaunched, hsub⟩
    · cases hs

theorem inv_run (s : St) (as : List Act) (h : Inv s) :
    ∀ s', as.foldlM (m := Option) step s = some s' → Inv s' := by
  induction as generalizing s with
  | nil => intro s' hs; simp at hs; subst hs; exact h
  | cons a as ih =>
    intro s' hs
    simp [List.foldlM] at hs
    cases hstep : step s a with
    | none => simp [hstep] at hs
    | some s1 => simp [hstep] at hs; exact ih s1 (inv_step s s1 a h hstep) s' hs

end Failsafe.Conc.Hedge
