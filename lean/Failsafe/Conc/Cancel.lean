import Failsafe.Conc.Finite
/-!
# Cancellation protocol: one cancellation source racing the retry loop (execution.go, retryexecutor.go, result.go)

Shared state: the `canceledResult` cell and the context (`ctxDone`). `RecordResult`, `InitializeRetry`, `Cancel`,
`IsCanceledWithResult` each run under the execution's mutex, so each is one atomic action here (FACTS `locks/execution.*`).
`InitializeRetry` **clears** the cell when it is not cancelled. Sources:
* `ctx`     — the caller's context is cancelled / reaches its deadline: the context becomes done, the cell is untouched;
* `timeout` — an enclosing Timeout fires: `Cancel(timeoutResult)` sets the cell and cancels the copy's context in one step;
* `async`   — `ExecutionResult.Cancel()`: `execution.Cancel(ErrExecutionCanceled)` then the executor-level `cancelFunc()`.
  Whether the first step also cancels the context is the source fact `rootHasCancelFunc`.
-/
namespace Failsafe.Conc.Cancel

inductive Source | ctx | timeout | async deriving DecidableEq, Repr
inductive Cell | none | execCanceled | timeoutRes deriving DecidableEq, Repr
inductive Ret | bareCtx | execCanceled | timeoutRes deriving DecidableEq, Repr
inductive Pc | inFn | afterInner | post | record | delay | init | returned (r : Ret) deriving DecidableEq, Repr
inductive CPc | c0 | c1 | cdone deriving DecidableEq, Repr

structure St where
  cell : Cell := .none
  ctxDone : Bool := false
  pc : Pc := .inFn
  cpc : CPc := .c0
  startedAfterCancel : Nat := 0     -- attempts started after the context became done
  attempts : Nat := 0               -- bounded number of retries (the loop shape repeats)
deriving DecidableEq, Repr

inductive Act | fnReturn | check1 | postExec | recordRes | delayOver | initRetry | cancel1 | cancel2
deriving DecidableEq, Repr

def cancelResult (s : St) : Ret :=
  match s.cell with | .none => .bareCtx | .execCanceled => .execCanceled | .timeoutRes => .timeoutRes

def step (hasCF : Bool) (src : Source) (s : St) : Act → Option St
  | .fnReturn  => if s.pc = .inFn then some { s with pc := .afterInner } else none
  | .check1    => if s.pc = .afterInner then
                    some (if s.ctxDone then { s with pc := .returned (cancelResult s) } else { s with pc := .post }) else none
  | .postExec  => if s.pc = .post then some { s with pc := .record } else none
  | .recordRes => if s.pc = .record then
                    some (if s.ctxDone then { s with pc := .returned (cancelResult s) } else { s with pc := .delay }) else none
  | .delayOver => if s.pc = .delay then some { s with pc := .init } else none
  | .initRetry => if s.pc = .init ∧ s.attempts < 3 then
                    some (if s.ctxDone then { s with pc := .returned (cancelResult s) }
                          else { s with pc := .inFn, cell := .none, attempts := s.attempts + 1 }) else none
  | .cancel1   =>
    if s.cpc = .c0 then
      match src with
      | .ctx => some { s with cpc := .cdone, ctxDone := true }
      | .timeout => some (if s.ctxDone then { s with cpc := .cdone } else { s with cpc := .cdone, cell := .timeoutRes, ctxDone := true })
      | .async => some (if s.ctxDone then { s with cpc := .c1 } else { s with cpc := .c1, cell := .execCanceled, ctxDone := hasCF })
    else none
  | .cancel2   => if s.cpc = .c1 then some { s with cpc := .cdone, ctxDone := true } else none

def sys (hasCF : Bool) (src : Source) : Sys St Act :=
  { init := {}, acts := [.fnReturn, .check1, .postExec, .recordRes, .delayOver, .initRetry, .cancel1, .cancel2], step := step hasCF src }

def cause : Source → Ret
  | .ctx => .bareCtx          -- context.Canceled / context.DeadlineExceeded
  | .timeout => .timeoutRes   -- timeout.ErrExceeded
  | .async => .execCanceled   -- failsafe.ErrExecutionCanceled

/-- whenever the loop has returned because of the cancellation, the error identifies the cause; no attempt is started after
the context is done -/
def attributed (src : Source) (s : St) : Bool :=
  (match s.pc with | .returned r => r == cause src | _ => true) && s.startedAfterCancel == 0

def reach (hasCF : Bool) (src : Source) : List St := explore (sys hasCF src) 60 [(sys hasCF src).init] [(sys hasCF src).init]

end Failsafe.Conc.Cancel
