/-!
# Linearizability of a concurrent history against a sequential model

A history is a list of completed operations with call / return stamps (from one global counter) and the result observed.
`linearize` enumerates the model states reachable by *some* order of the operations that (i) respects real time — an
operation that returned before another was called comes first — and (ii) reproduces every observed result on the sequential
model `step`. `IsLin` is the declarative definition; `linearize_complete` shows the search misses no valid order (so an empty
answer really means "not linearizable": no false alarm), `linearize_sound` that it only returns states of valid orders.
-/
namespace Failsafe.Conc.Linearize

structure HOp where
  thread : Nat
  call : Nat
  ret : Nat
  op : String
  res : String
deriving Repr, DecidableEq

variable {σ : Type}

/-- `o` may be linearized first among `ops`: nothing in `ops` returned before `o` was called -/
def minimal (ops : List HOp) (o : HOp) : Bool := !ops.any (fun p => decide (p.ret < o.call))

/-- a valid linearization of `ops` from state `m` ending in `m'`: pick a minimal operation whose result the model reproduces,
    remove it, continue -/
inductive IsLin (step : σ → String → σ × String) : σ → List HOp → σ → Prop
  | nil (m : σ) : IsLin step m [] m
  | cons (m m' : σ) (ops : List HOp) (o : HOp) :
      o ∈ ops → minimal ops o = true → (step m o.op).2 = o.res →
      IsLin step (step m o.op).1 (ops.erase o) m' → IsLin step m ops m'

def linearize (step : σ → String → σ × String) : Nat → σ → List HOp → List σ
  | 0, _, _ => []
  | _ + 1, m, [] => [m]
  | fuel + 1, m, o0 :: rest =>
    let ops := o0 :: rest
    ops.flatMap (fun o =>
      if minimal ops o && (step m o.op).2 == o.res then linearize step fuel (step m o.op).1 (ops.erase o) else [])

theorem linearize_complete (step : σ → String → σ × String) (m m' : σ) (ops : List HOp) (h : IsLin step m ops m')
    (fuel : Nat) (hf : ops.length < fuel) : m' ∈ linearize step fuel m ops := by
  induction h generalizing fuel with
  | nil m =>
    cases fuel with
    | zero => omega
    | succ f => simp [linearize]
  | cons m m' ops o hmem hmin hres _ ih =>
    cases fuel with
    | zero => omega
    | succ f =>
      cases ops with
      | nil => cases hmem
      | cons o0 rest =>
        simp only [linearize, List.mem_flatMap]
        refine ⟨o, hmem, ?_⟩
        have hlen : ((o0 :: rest).erase o).length < f := by
          rw [List.length_erase_of_mem hmem]; simp at hf ⊢; omega
        simp [hmin, hres, ih f hlen]

theorem linearize_sound (step : σ → String → σ × String) (fuel : Nat) (m m' : σ) (ops : List HOp)
    (h : m' ∈ linearize step fuel m ops) : IsLin step m ops m' := by
  induction fuel generalizing m ops with
  | zero => simp [linearize] at h
  | succ f ih =>
    cases ops with
    | nil =>
      simp [linearize] at h; rw [h]; exact IsLin.nil _
    | cons o0 rest =>
      simp only [linearize, List.mem_flatMap] at h
      obtain ⟨o, hmem, ho⟩ := h
      by_cases hc : (minimal (o0 :: rest) o && (step m o.op).2 == o.res) = true
      · simp only [hc, ↓reduceIte] at ho
        simp only [Bool.and_eq_true, beq_iff_eq] at hc
        exact IsLin.cons m m' (o0 :: rest) o hmem hc.1 hc.2 (ih _ _ ho)
      · simp [hc] at ho

/-- the verdict "not linearizable" is exact: the search returns nothing iff no valid linearization exists -/
theorem not_linearizable_iff (step : σ → String → σ × String) (m : σ) (ops : List HOp) :
    linearize step (ops.length + 1) m ops = [] ↔ ¬ ∃ m', IsLin step m ops m' := by
  constructor
  · intro h ⟨m', hl⟩
    have := linearize_complete step m m' ops hl (ops.length + 1) (by omega)
    rw [h] at this; cases this
  · intro h
    cases hl : linearize step (ops.length + 1) m ops with
    | nil => rfl
    | cons x xs =>
      exfalso; apply h
      exact ⟨x, linearize_sound step _ m x ops (by rw [hl]; simp)⟩

/-- a valid linearization never applies an operation before one that had returned before it was called -/
theorem first_is_minimal (step : σ → String → σ × String) (m m' : σ) (ops : List HOp) (o p : HOp)
    (hmin : minimal ops o = true) (hp : p ∈ ops) : ¬ p.ret < o.call := by
  simp only [minimal, Bool.not_eq_true', List.any_eq_false, decide_eq_true_eq] at hmin
  exact hmin p hp

end Failsafe.Conc.Linearize
