import Failsafe.Breaker
/-! Vocabulary the regenerated breaker kernels are expressed in: the effects of a `checkThresholdAndReleasePermit` /
`tryAcquirePermit` call on the breaker are recorded in a small decision record. -/
namespace Failsafe.BreakerKernels
open Failsafe.Breaker

/-- effects requested by a state's method: open / close / half-open the breaker; `permits` is `permittedExecutions` -/
structure Dec where
  open_    : Bool := false
  close_   : Bool := false
  halfOpen : Bool := false
  permits  : Nat := 0
deriving DecidableEq, Repr

def decOpen (d : Dec) (_ : Unit) : Dec := { d with open_ := true }
def decClose (d : Dec) : Dec := { d with close_ := true }
def decHalfOpen (d : Dec) : Dec := { d with halfOpen := true }

def ringTest (r : Ring) (i : Nat) : Bool := r.bits.getD i false
def ringSetTo (r : Ring) (i : Nat) (v : Bool) : Ring := { r with bits := r.bits.set i v }
def floatToNat (f : Float) : Nat := f.toUInt64.toNat

end Failsafe.BreakerKernels
