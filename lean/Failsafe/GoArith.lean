/-! Go integer arithmetic used by the generated kernels: `/` and `%` on signed integers truncate towards zero. -/
namespace Failsafe

/-- Go's `/` on signed integers -/
@[reducible] def goDiv (a b : Int) : Int := Int.tdiv a b
/-- Go's `%` on signed integers -/
@[reducible] def goMod (a b : Int) : Int := Int.tmod a b
/-- `util.RoundDown` -/
def roundDown (a b : Int) : Int := a - Int.tmod a b

end Failsafe
