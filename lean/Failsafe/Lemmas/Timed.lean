import Failsafe.Breaker
/-! `timedStats` (10 slices, running summary, `head = now / bucketNanos`) refines "results whose slice index lies in
`(head-10, head]`"; the summary equals the sum of the buckets, so the `uint` subtractions never truncate. -/
namespace Failsafe.Breaker

/-- history: (slice, result), in recording order -/
abbrev Hist := List (Nat × Bool)

def cnt (h : Hist) (j : Nat) : Nat × Nat :=
  ((h.filter (fun e => e.1 == j && e.2)).length, (h.filter (fun e => e.1 == j && !e.2)).length)

/-- slots of the window: j ranges over the last N slices ending at head (those that exist) -/
def inWindow (head j : Nat) : Prop := j ≤ head ∧ head < j + N

structure TRep (t : Timed) (h : Hist) : Prop where
  len : t.buckets.length = N
  le_head : ∀ e ∈ h, e.1 ≤ t.head
  slot : ∀ j, inWindow t.head j → t.buckets.getD (j % N) (0, 0) = cnt h j
  empty : ∀ i, i < N → (∀ j, inWindow t.head j → j % N ≠ i) → t.buckets.getD i (0, 0) = (0, 0)
  sumS : t.sumS = (t.buckets.map (·.1)).sum
  sumF : t.sumF = (t.buckets.map (·.2)).sum

theorem trep_new (p : Int) : TRep (Timed.new p) [] := by
  refine ⟨by simp [Timed.new], by simp, ?_, ?_, by simp [Timed.new], by simp [Timed.new]⟩
  · intro j _; simp [Timed.new, cnt, List.getD_eq_getElem?_getD, List.getElem?_replicate]; split <;> rfl
  · intro i hi _; simp [Timed.new, List.getD_eq_getElem?_getD, List.getElem?_replicate, hi]

/-- summary = Σ buckets is preserved by clear (so the Nat subtractions never truncate) -/
theorem sum_set_zero (l : List (Nat × Nat)) (idx : Nat) (h : idx < l.length) :
    ((l.set idx (0, 0)).map (·.1)).sum + (l.getD idx (0, 0)).1 = (l.map (·.1)).sum ∧
    ((l.set idx (0, 0)).map (·.2)).sum + (l.getD idx (0, 0)).2 = (l.map (·.2)).sum := by
  induction l generalizing idx with
  | nil => simp at h
  | cons x xs ih =>
    cases idx with
    | zero => simp; omega
    | succ k =>
      have := ih k (by simpa using h)
      simp [List.getD_cons_succ] at *
      omega

theorem clear_sums (n i : Nat) (t : Timed) (hl : t.buckets.length = N)
    (hs : t.sumS = (t.buckets.map (·.1)).sum) (hf : t.sumF = (t.buckets.map (·.2)).sum) :
    (clear n i t).buckets.length = N ∧ (clear n i t).head = t.head ∧
    (clear n i t).sumS = ((clear n i t).buckets.map (·.1)).sum ∧
    (clear n i t).sumF = ((clear n i t).buckets.map (·.2)).sum := by
  induction n generalizing i t with
  | zero => exact ⟨hl, rfl, hs, hf⟩
  | succ n ih =>
    simp only [clear]
    have hidx : (t.head + i + 1) % N < t.buckets.length := by rw [hl]; exact Nat.mod_lt _ (by decide)
    have hz := sum_set_zero t.buckets _ hidx
    have := ih (i + 1)
      { t with buckets := t.buckets.set ((t.head + i + 1) % N) (0, 0),
               sumS := t.sumS - (t.buckets.getD ((t.head + i + 1) % N) (0, 0)).1,
               sumF := t.sumF - (t.buckets.getD ((t.head + i + 1) % N) (0, 0)).2 }
      (by simp [hl]) (by simp only; omega) (by simp only; omega)
    simpa using this


/-- what `clear` does to each slot: zero if it is one of (head+i+1 .. head+i+n) mod N, untouched otherwise -/
theorem clear_getD (n : Nat) : ∀ (i : Nat) (t : Timed) (k : Nat), t.buckets.length = N → k < N →
    (clear n i t).buckets.getD k (0, 0) =
      if ∃ m, m < n ∧ (t.head + i + m + 1) % N = k then (0, 0) else t.buckets.getD k (0, 0) := by
  induction n with
  | zero => intro i t k _ _; simp [clear]
  | succ n ih =>
    intro i t k hl hk
    simp only [clear]
    have hidx : (t.head + i + 1) % N < t.buckets.length := by rw [hl]; exact Nat.mod_lt _ (by decide)
    rw [ih (i + 1) _ k (by simp [hl]) hk]
    simp only
    by_cases h1 : ∃ m, m < n ∧ (t.head + (i + 1) + m + 1) % N = k
    · obtain ⟨m, hm, he⟩ := h1
      have : ∃ m, m < n + 1 ∧ (t.head + i + m + 1) % N = k := ⟨m + 1, by omega, by rw [← he]; congr 1; omega⟩
      have h1' : ∃ m, m < n ∧ (t.head + (i + 1) + m + 1) % N = k := ⟨m, hm, he⟩
      simp only [this, h1', if_true]
    · simp only [h1, if_false]
      by_cases h0 : (t.head + i + 1) % N = k
      · have : ∃ m, m < n + 1 ∧ (t.head + i + m + 1) % N = k := ⟨0, by omega, by simpa using h0⟩
        simp only [this, if_true]
        subst h0
        simp [List.getD_eq_getElem?_getD, hidx]
      · have : ¬ ∃ m, m < n + 1 ∧ (t.head + i + m + 1) % N = k := by
          rintro ⟨m, hm, he⟩
          cases m with
          | zero => exact h0 (by simpa using he)
          | succ m' => exact h1 ⟨m', by omega, by rw [← he]; congr 1; omega⟩
        simp only [this, if_false]
        rw [List.getD_eq_getElem?_getD, List.getElem?_set_ne h0, ← List.getD_eq_getElem?_getD]


theorem mod_inj_window_t {size k n : Nat} (hk : k < n) (hw : n - k < size) (hm : k % size = n % size) : False := by
  have h0 : (n - k) % size = 0 := Nat.sub_mod_eq_zero_of_mod_eq hm.symm
  have : (n - k) % size = n - k := Nat.mod_eq_of_lt hw
  omega

theorem cnt_future (h : Hist) (j head : Nat) (hle : ∀ e ∈ h, e.1 ≤ head) (hj : head < j) : cnt h j = (0, 0) := by
  unfold cnt
  have : ∀ e ∈ h, (e.1 == j) = false := by
    intro e he; have := hle e he; simp; omega
  simp only [Prod.mk.injEq, List.length_eq_zero_iff, List.filter_eq_nil_iff]
  constructor <;> (intro e he; simp [this e he])

theorem rep_roll (t : Timed) (h : Hist) (hr : TRep t h) (nh : Nat) :
    TRep (roll t nh) h ∧ (roll t nh).head = max t.head nh := by
  obtain ⟨hlen, hle, hslot, hempty, hS, hF⟩ := hr
  have hN : N = 10 := rfl
  unfold roll
  by_cases hgt : nh > t.head
  · simp only [hgt, if_true]
    have hcs := clear_sums (min N (nh - t.head)) 0 t hlen hS hF
    obtain ⟨clen, chead, cS, cF⟩ := hcs
    refine ⟨⟨by simpa using clen, ?_, ?_, ?_, by simpa using cS, by simpa using cF⟩, by show nh = max t.head nh; omega⟩
    · intro e he; have := hle e he; simp; omega
    · -- slot
      intro j hw
      simp only [inWindow] at hw
      simp only
      rw [clear_getD _ 0 t (j % N) hlen (Nat.mod_lt _ (by decide))]
      by_cases hjh : j ≤ t.head
      · have hno : ¬ ∃ m, m < min N (nh - t.head) ∧ (t.head + 0 + m + 1) % N = j % N := by
          rintro ⟨m, hm, he⟩
          have hm' : m < nh - t.head := Nat.lt_of_lt_of_le hm (Nat.min_le_right _ _)
          exact mod_inj_window_t (k := j) (n := t.head + 0 + m + 1) (by omega) (by omega) he.symm
        simp only [hno, if_false]
        exact hslot j ⟨hjh, by omega⟩
      · have hjh' : t.head < j := by omega
        rw [cnt_future h j t.head hle hjh']
        have hex : ∃ m, m < min N (nh - t.head) ∧ (t.head + 0 + m + 1) % N = j % N := by
          refine ⟨(j - t.head - 1) % N, ?_, ?_⟩
          · have h1 : (j - t.head - 1) % N < N := Nat.mod_lt _ (by decide)
            by_cases hd : nh - t.head ≤ N
            · have : (j - t.head - 1) % N = j - t.head - 1 := Nat.mod_eq_of_lt (by omega)
              rw [Nat.min_eq_right hd, this]; omega
            · rw [Nat.min_eq_left (by omega)]; exact h1
          · have e1 : t.head + 0 + (j - t.head - 1) % N + 1 = (t.head + 1) + (j - t.head - 1) % N := by omega
            have e2 : j = (t.head + 1) + (j - t.head - 1) := by omega
            rw [e1, Nat.add_mod, Nat.mod_mod]
            conv => rhs; rw [e2, Nat.add_mod]
        simp only [hex, if_true]
    · -- empty
      intro i hi hnone
      have hnone' : ∀ j, inWindow nh j → j % N ≠ i := hnone
      simp only
      rw [clear_getD _ 0 t i hlen hi]
      by_cases hcl : ∃ m, m < min N (nh - t.head) ∧ (t.head + 0 + m + 1) % N = i
      · simp only [hcl, if_true]
      · simp only [hcl, if_false]
        by_cases hold : ∃ j, inWindow t.head j ∧ j % N = i
        · obtain ⟨j, hjw, hji⟩ := hold
          simp only [inWindow] at hjw
          by_cases hnew : nh < j + N
          · exact absurd hji (hnone' j ⟨by omega, hnew⟩)
          · exfalso
            apply hcl
            refine ⟨j + N - t.head - 1, ?_, ?_⟩
            · have : j + N - t.head - 1 < N := by omega
              have : j + N - t.head - 1 < nh - t.head := by omega
              exact Nat.lt_min.mpr ⟨by omega, by omega⟩
            · have : t.head + 0 + (j + N - t.head - 1) + 1 = j + N := by omega
              rw [this, Nat.add_mod_right]; exact hji
        · exact hempty i hi (by intro j hjw hji; exact hold ⟨j, hjw, hji⟩)
  · simp only [hgt, if_false]
    exact ⟨⟨hlen, hle, hslot, hempty, hS, hF⟩, by omega⟩


theorem sum_set (l : List (Nat × Nat)) (idx : Nat) (x : Nat × Nat) (h : idx < l.length) :
    ((l.set idx x).map (·.1)).sum + (l.getD idx (0, 0)).1 = (l.map (·.1)).sum + x.1 ∧
    ((l.set idx x).map (·.2)).sum + (l.getD idx (0, 0)).2 = (l.map (·.2)).sum + x.2 := by
  induction l generalizing idx with
  | nil => simp at h
  | cons y ys ih =>
    cases idx with
    | zero => simp; omega
    | succ k =>
      have := ih k (by simpa using h)
      simp at *
      omega

theorem cnt_append (h : Hist) (s : Nat) (v : Bool) (j : Nat) :
    cnt (h ++ [(s, v)]) j =
      if j = s then (if v then ((cnt h j).1 + 1, (cnt h j).2) else ((cnt h j).1, (cnt h j).2 + 1)) else cnt h j := by
  unfold cnt
  by_cases hj : j = s
  · subst hj; cases v <;> simp [List.filter_append]
  · have : (s == j) = false := by simp; omega
    simp [List.filter_append, this, hj]

def bump (t : Timed) (v : Bool) : Timed :=
  let idx := t.head % N
  let b := t.buckets.getD idx (0, 0)
  if v then { t with buckets := t.buckets.set idx (b.1 + 1, b.2), sumS := t.sumS + 1 }
  else { t with buckets := t.buckets.set idx (b.1, b.2 + 1), sumF := t.sumF + 1 }

theorem record_eq (t : Timed) (slice : Nat) (v : Bool) : recordAt t slice v = bump (roll t slice) v := rfl

theorem bump_fields (t : Timed) (v : Bool) :
    (bump t v).head = t.head ∧
    (bump t v).buckets = t.buckets.set (t.head % N)
      (if v then ((t.buckets.getD (t.head % N) (0,0)).1 + 1, (t.buckets.getD (t.head % N) (0,0)).2)
       else ((t.buckets.getD (t.head % N) (0,0)).1, (t.buckets.getD (t.head % N) (0,0)).2 + 1)) ∧
    (bump t v).sumS = (if v then t.sumS + 1 else t.sumS) ∧
    (bump t v).sumF = (if v then t.sumF else t.sumF + 1) := by
  unfold bump; cases v <;> simp

theorem rep_bump (t : Timed) (h : Hist) (hr : TRep t h) (v : Bool) : TRep (bump t v) (h ++ [(t.head, v)]) := by
  have hN : N = 10 := rfl
  obtain ⟨hlen, hle, hslot, hempty, hS, hF⟩ := hr
  obtain ⟨bh, bb, bS, bF⟩ := bump_fields t v
  have hidx : t.head % N < t.buckets.length := by rw [hlen]; exact Nat.mod_lt _ (by decide)
  have hcur := hslot t.head ⟨Nat.le_refl _, by omega⟩
  refine ⟨by rw [bb]; simp [hlen], ?_, ?_, ?_, ?_, ?_⟩
  · intro e he
    rw [bh]
    rw [List.mem_append] at he
    rcases he with he | he
    · exact hle e he
    · simp at he; subst he; exact Nat.le_refl _
  · intro j hw
    rw [bh] at hw
    rw [bb, cnt_append]
    by_cases hj : j = t.head
    · subst hj
      simp only [if_true]
      rw [List.getD_eq_getElem?_getD, List.getElem?_set_self hidx]
      rw [← hcur]
      cases v <;> simp
    · simp only [hj, if_false]
      have hne : t.head % N ≠ j % N := by
        intro heq
        simp only [inWindow] at hw
        exact mod_inj_window_t (k := j) (n := t.head) (by omega) (by omega) heq.symm
      rw [List.getD_eq_getElem?_getD, List.getElem?_set_ne hne, ← List.getD_eq_getElem?_getD]
      exact hslot j hw
  · intro i hi hnone
    rw [bh] at hnone
    rw [bb]
    have hne : t.head % N ≠ i := fun heq => hnone t.head ⟨Nat.le_refl _, by omega⟩ heq
    rw [List.getD_eq_getElem?_getD, List.getElem?_set_ne hne, ← List.getD_eq_getElem?_getD]
    exact hempty i hi hnone
  · rw [bS, bb]
    have := (sum_set t.buckets (t.head % N)
      (if v then ((t.buckets.getD (t.head % N) (0,0)).1 + 1, (t.buckets.getD (t.head % N) (0,0)).2)
       else ((t.buckets.getD (t.head % N) (0,0)).1, (t.buckets.getD (t.head % N) (0,0)).2 + 1)) hidx).1
    cases v <;> simp at this ⊢ <;> omega
  · rw [bF, bb]
    have := (sum_set t.buckets (t.head % N)
      (if v then ((t.buckets.getD (t.head % N) (0,0)).1 + 1, (t.buckets.getD (t.head % N) (0,0)).2)
       else ((t.buckets.getD (t.head % N) (0,0)).1, (t.buckets.getD (t.head % N) (0,0)).2 + 1)) hidx).2
    cases v <;> simp at this ⊢ <;> omega

theorem rep_record (t : Timed) (h : Hist) (hr : TRep t h) (slice : Nat) (v : Bool) (hmono : t.head ≤ slice) :
    TRep (recordAt t slice v) (h ++ [(slice, v)]) ∧ (recordAt t slice v).head = slice := by
  obtain ⟨hr1, hh1⟩ := rep_roll t h hr slice
  have hhead : (roll t slice).head = slice := by rw [hh1]; omega
  rw [record_eq]
  have := rep_bump (roll t slice) h hr1 v
  rw [hhead] at this
  exact ⟨this, by rw [(bump_fields _ v).1, hhead]⟩

/-- C03: for every history of records at non-decreasing slice indices, the summary counts exactly the results whose
    slice lies in the last N slices ending at the current one (older results never count; the last N-1 full slices always do) -/
theorem buckets_refine_window (p : Int) (h : Hist) (hs : h.Pairwise (fun a b => a.1 ≤ b.1)) :
    let t := h.foldl (fun t e => recordAt t e.1 e.2) (Timed.new p)
    TRep t h := by
  suffices ∀ (pre : Hist) (t : Timed), TRep t pre → (∀ e ∈ h, t.head ≤ e.1) →
      TRep (h.foldl (fun t e => recordAt t e.1 e.2) t) (pre ++ h) by
    simpa using this [] (Timed.new p) (trep_new p) (by intro e _; simp [Timed.new])
  induction h with
  | nil => intro pre t hr _; simpa using hr
  | cons e es ih =>
    intro pre t hr hge
    rw [List.pairwise_cons] at hs
    have hrec := rep_record t pre hr e.1 e.2 (hge e (by simp))
    have := ih hs.2 (pre ++ [(e.1, e.2)]) (recordAt t e.1 e.2) hrec.1 (by
      intro e' he'; rw [hrec.2]; exact hs.1 e' he')
    simpa using this

end Failsafe.Breaker
