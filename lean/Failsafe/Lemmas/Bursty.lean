import Failsafe.Limiter
/-! Bursty limiter over Euclidean division (`/`, `%`): ordinal refinement and the per-period bound.
`Failsafe.Props.C05` bridges these to the `Int.tdiv` model under `0 ≤ now`. -/
namespace Failsafe.Limiter.BH
open Failsafe.Limiter

abbrev Cfg := BCfg
abbrev St := BSt

def roll (c : Cfg) (s : St) (t : Int) : St :=
  let np := t / c.period
  if s.cur < np then
    { cur := np, avail := if s.avail < 0 then min (s.avail + (np - s.cur) * c.pp) c.pp else c.pp }
  else s

def take1 (c : Cfg) (s : St) : Int × St :=
  if 1 > s.avail then
    let d := 1 - s.avail
    let ap := if d % c.pp = 0 then d / c.pp - 1 else d / c.pp
    (s.cur + 1 + ap, { s with avail := s.avail - 1 })
  else (s.cur, { s with avail := s.avail - 1 })

def ord (c : Cfg) (s : St) : Int := s.cur * c.pp + c.pp - s.avail

def Inv (c : Cfg) (s : St) : Prop := s.avail ≤ c.pp

/-- run a history of single-permit requests at the given instants; returns the usable period and ordinal of each permit -/
def run (c : Cfg) : St → List Int → List (Int × Int)
  | _, [] => []
  | s, t :: ts =>
    let s1 := roll c s t
    let (p, s2) := take1 c s1
    (p, ord c s1) :: run c s2 ts

theorem ediv_emod_spec (a b : Int) (hb : 0 < b) :
    ∃ q r, a / b = q ∧ a % b = r ∧ a = b * q + r ∧ 0 ≤ r ∧ r < b :=
  ⟨a / b, a % b, rfl, rfl, (Int.mul_ediv_add_emod a b).symm, Int.emod_nonneg a (by omega), Int.emod_lt_of_pos a hb⟩

theorem roll_spec (c : Cfg) (s : St) (t : Int) (hpp : 0 < c.pp) (hi : Inv c s) (hc : s.cur ≤ t / c.period) :
    Inv c (roll c s t) ∧ (roll c s t).cur = t / c.period ∧ ord c s ≤ ord c (roll c s t) := by
  unfold roll Inv ord at *
  simp only
  split
  · rename_i h
    simp only
    have hmul : (t / c.period) * c.pp = s.cur * c.pp + (t / c.period - s.cur) * c.pp := by
      rw [← Int.add_mul]; congr 1; omega
    have hpos : c.pp ≤ (t / c.period - s.cur) * c.pp := by
      have : (1:Int) ≤ t / c.period - s.cur := by omega
      calc c.pp = 1 * c.pp := by omega
        _ ≤ (t / c.period - s.cur) * c.pp := Int.mul_le_mul_of_nonneg_right this (by omega)
    split
    · refine ⟨Int.min_le_right _ _, by first | rfl | trivial, ?_⟩
      have := Int.min_le_left (s.avail + (t / c.period - s.cur) * c.pp) c.pp
      omega
    · refine ⟨Int.le_refl _, by first | rfl | trivial, ?_⟩
      omega
  · exact ⟨hi, by omega, Int.le_refl _⟩

theorem take1_spec (c : Cfg) (s : St) (hpp : 0 < c.pp) (hle : Inv c s) :
    (take1 c s).1 * c.pp ≤ ord c s ∧ ord c s < ((take1 c s).1 + 1) * c.pp
    ∧ ord c (take1 c s).2 = ord c s + 1 ∧ Inv c (take1 c s).2 ∧ (take1 c s).2.cur = s.cur := by
  unfold take1 ord Inv at *
  split
  · rename_i h
    obtain ⟨q, r, hq, hr, hqr, hr0, hrlt⟩ := ediv_emod_spec (1 - s.avail) c.pp hpp
    simp only [hq, hr]
    split
    · rename_i hz
      subst hz
      refine ⟨?_, ?_, by omega, by omega, by first | rfl | trivial⟩
      · have : (s.cur + 1 + (q - 1)) * c.pp = s.cur * c.pp + c.pp * q := by
          rw [show s.cur + 1 + (q - 1) = s.cur + q by omega, Int.add_mul, Int.mul_comm q]
        rw [this]; omega
      · have : (s.cur + 1 + (q - 1) + 1) * c.pp = s.cur * c.pp + c.pp * q + c.pp := by
          rw [show s.cur + 1 + (q - 1) + 1 = s.cur + q + 1 by omega, Int.add_mul, Int.add_mul, Int.mul_comm q]; omega
        rw [this]; omega
    · rename_i hz
      refine ⟨?_, ?_, by first | omega | (simp only; omega), by first | omega | (simp only; omega), by first | rfl | trivial⟩
      · have : (s.cur + 1 + q) * c.pp = s.cur * c.pp + c.pp + c.pp * q := by
          rw [Int.add_mul, Int.add_mul, Int.mul_comm q]; omega
        rw [this]; omega
      · have : (s.cur + 1 + q + 1) * c.pp = s.cur * c.pp + c.pp + c.pp * q + c.pp := by
          rw [Int.add_mul, Int.add_mul, Int.add_mul, Int.mul_comm q]; omega
        rw [this]; omega
  · rename_i h
    refine ⟨?_, ?_, by first | omega | (simp only; omega), by first | omega | (simp only; omega), by first | rfl | trivial⟩
    · simp only; omega
    · simp only
      rw [Int.add_mul]; omega

/-- all ordinals in the output are ≥ the starting ordinal, strictly increasing, and each permit's period brackets its ordinal -/
theorem run_spec (c : Cfg) (hpp : 0 < c.pp) (hper : 0 < c.period) :
    ∀ (ts : List Int) (s : St), Inv c s → (∀ t ∈ ts, s.cur ≤ t / c.period) → ts.Pairwise (· ≤ ·) →
      (∀ pg ∈ run c s ts, ord c s ≤ pg.2 ∧ pg.1 * c.pp ≤ pg.2 ∧ pg.2 < (pg.1 + 1) * c.pp) ∧
      (run c s ts).Pairwise (fun a b => a.2 < b.2) := by
  intro ts
  induction ts with
  | nil => intro s _ _ _; simp [run]
  | cons t ts ih =>
    intro s hi hcur hsorted
    have hr := roll_spec c s t hpp hi (hcur t (by simp))
    obtain ⟨hi1, hcur1, hord1⟩ := hr
    have ht := take1_spec c (roll c s t) hpp hi1
    obtain ⟨hlo, hhi, hord2, hi2, hcur2⟩ := ht
    rw [List.pairwise_cons] at hsorted
    have hcur' : ∀ t' ∈ ts, (take1 c (roll c s t)).2.cur ≤ t' / c.period := by
      intro t' ht'
      rw [hcur2, hcur1]
      exact Int.ediv_le_ediv hper (hsorted.1 t' ht')
    have := ih (take1 c (roll c s t)).2 hi2 hcur' hsorted.2
    obtain ⟨hall, hpw⟩ := this
    simp only [run]
    constructor
    · intro pg hpg
      rw [List.mem_cons] at hpg
      rcases hpg with rfl | hpg
      · exact ⟨hord1, hlo, hhi⟩
      · have := hall pg hpg
        exact ⟨by omega, this.2.1, this.2.2⟩
    · rw [List.pairwise_cons]
      refine ⟨?_, hpw⟩
      intro pg hpg
      have := (hall pg hpg).1
      simp only; omega

/-- counting: a strictly increasing list of integers inside [lo, lo+n) has at most n elements -/
theorem length_le_of_strict (gs : List Int) : ∀ (lo : Int) (n : Nat),
    gs.Pairwise (· < ·) → (∀ g ∈ gs, lo ≤ g ∧ g < lo + n) → gs.length ≤ n := by
  induction gs with
  | nil => intro _ _ _ _; simp
  | cons g gs ih =>
    intro lo n hpw hin
    rw [List.pairwise_cons] at hpw
    have hg := hin g (by simp)
    cases n with
    | zero => exfalso; simp at hg; omega
    | succ m =>
      have := ih (g + 1) (m - (g - lo).toNat) hpw.2 (by
        intro x hx
        have h1 := hpw.1 x hx
        have h2 := hin x (by simp [hx])
        have : ((m - (g - lo).toNat : Nat) : Int) = m - (g - lo) := by
          have : (g - lo).toNat ≤ m := by omega
          omega
        omega)
      simp only [List.length_cons]
      omega

/-- THE PROPERTY: for any history of single-permit requests at non-decreasing instants, at most pp permits are usable in any period q -/
theorem bursty_le_pp_per_period (c : Cfg) (hpp : 0 < c.pp) (hper : 0 < c.period)
    (s : St) (hi : Inv c s) (ts : List Int) (hcur : ∀ t ∈ ts, s.cur ≤ t / c.period)
    (hsorted : ts.Pairwise (· ≤ ·)) (q : Int) :
    ((run c s ts).filter (fun pg => pg.1 = q)).length ≤ c.pp.toNat := by
  obtain ⟨hall, hpw⟩ := run_spec c hpp hper ts s hi hcur hsorted
  have hsub := List.filter_sublist (p := fun pg => decide (pg.1 = q)) (l := run c s ts)
  have hpw' := hpw.sublist hsub
  -- project to ordinals
  have hmap : (((run c s ts).filter (fun pg => pg.1 = q)).map (·.2)).Pairwise (· < ·) := by
    rw [List.pairwise_map]; exact hpw'
  have := length_le_of_strict _ (q * c.pp) c.pp.toNat hmap (by
    intro g hg
    rw [List.mem_map] at hg
    obtain ⟨pg, hpg, rfl⟩ := hg
    rw [List.mem_filter] at hpg
    have h := hall pg hpg.1
    have hq : pg.1 = q := by simpa using hpg.2
    subst hq
    have : ((c.pp.toNat : Nat) : Int) = c.pp := by omega
    rw [Int.add_mul] at h
    omega)
  simpa using this

/-- non-vacuity -/
example : Inv ⟨2, 100⟩ ⟨2, 0⟩ ∧ (0:Int) < 2 ∧ (0:Int) < 100 := by simp [Inv]

end Failsafe.Limiter.BH