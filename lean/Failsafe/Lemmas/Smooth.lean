import Failsafe.Limiter
/-! Smooth limiter over Euclidean `%`: refinement to a slot counter, k at once = k singles, refusal is a no-op. -/
namespace Failsafe.Limiter.Sm
open Failsafe.Limiter

abbrev St := SSt

/-- acquirePermits as in the source, with Euclidean division (time ≥ 0, interval > 0 make tdiv = ediv) -/
def acquire (I : Int) (s : St) (t k mw : Int) : Int × St :=
  let nn := if t ≥ s.next then (t - t % I) + I * k else s.next + I * k
  let w := max (nn - t - I) 0
  if mw ≠ -1 ∧ w > mw then (-1, s) else (w, { next := nn })

/-- abstract spec: a slot counter -/
def slotOf (I t : Int) : Int := t / I
def firstSlot (I : Int) (nextSlot t : Int) : Int := max (slotOf I t) nextSlot

/-- invariant: next is a multiple of I -/
def Inv (I : Int) (s : St) : Prop := ∃ n : Int, s.next = I * n

theorem ediv_emod_spec (a b : Int) (hb : 0 < b) :
    ∃ q r, a / b = q ∧ a % b = r ∧ a = b * q + r ∧ 0 ≤ r ∧ r < b :=
  ⟨a / b, a % b, rfl, rfl, (Int.mul_ediv_add_emod a b).symm, Int.emod_nonneg a (by omega), Int.emod_lt_of_pos a hb⟩

/-- refinement of one unlimited-wait request to the slot counter -/
theorem acquire_slots (I : Int) (hI : 0 < I) (s : St) (n : Int) (hn : s.next = I * n) (t k : Int) (hk : 1 ≤ k) :
    (acquire I s t k (-1)).2.next = I * (firstSlot I n t + k) ∧
    (acquire I s t k (-1)).1 = max (I * (firstSlot I n t + k - 1) - t) 0 := by
  obtain ⟨q, r, hq, hr, hqr, hr0, hrlt⟩ := ediv_emod_spec t I hI
  have hexp : ∀ a : Int, I * (a + k) = I * a + I * k := fun a => Int.mul_add I a k
  have hexp1 : ∀ a : Int, I * (a + k - 1) = I * a + I * k - I := by
    intro a
    have : a + k - 1 = a + k + (-1) := by omega
    rw [this, Int.mul_add, Int.mul_add, Int.mul_neg, Int.mul_one]; omega
  simp only [acquire, firstSlot, slotOf, hq, hr, hn, ne_eq, not_true_eq_false, false_and, if_false]
  by_cases hge : t ≥ I * n
  · have hqn : n ≤ q := by
      by_cases h : q < n
      · exfalso
        have : I * (q + 1) ≤ I * n := Int.mul_le_mul_of_nonneg_left (by omega) (by omega)
        rw [Int.mul_add, Int.mul_one] at this; omega
      · omega
    have hmax : max q n = q := by omega
    simp only [hge, if_true, hmax]
    rw [hexp, hexp1]
    constructor
    · omega
    · congr 1; omega
  · have hqn : q < n := by
      by_cases h : q < n
      · exact h
      · exfalso
        have : I * n ≤ I * q := Int.mul_le_mul_of_nonneg_left (by omega) (by omega)
        omega
    have hmax : max q n = n := by omega
    simp only [hge, if_false, hmax]
    rw [hexp, hexp1]
    constructor
    · trivial
    · congr 1; omega

/-- a refusal (-1) leaves the state untouched, literally -/
theorem refusal_is_noop (I : Int) (s : St) (t k mw : Int) (h : (acquire I s t k mw).1 = -1) :
    (acquire I s t k mw).2 = s := by
  unfold acquire at *
  simp only at *
  by_cases hc : mw ≠ -1 ∧ max ((if t ≥ s.next then t - t % I + I * k else s.next + I * k) - t - I) 0 > mw
  · rw [if_pos hc]
  · rw [if_neg hc] at h
    have := Int.le_max_right ((if t ≥ s.next then t - t % I + I * k else s.next + I * k) - t - I) 0
    omega

/-- closed form of an unlimited-wait request, as a pair -/
theorem acquire_closed (I : Int) (hI : 0 < I) (s : St) (n : Int) (hn : s.next = I * n) (t k : Int) (hk : 1 ≤ k) :
    acquire I s t k (-1) = (max (I * (firstSlot I n t + k - 1) - t) 0, ⟨I * (firstSlot I n t + k)⟩) := by
  have := acquire_slots I hI s n hn t k hk
  apply Prod.ext
  · exact this.2
  · cases h : (acquire I s t k (-1)).2
    rw [h] at this
    simp only [SSt.mk.injEq]
    exact this.1

def singles (I : Int) (t : Int) : Nat → Int × St → Int × St
  | 0, ws => ws
  | k + 1, ws => acquire I (singles I t k ws).2 t 1 (-1)

/-- k permits at once = k single permits at the same instant: same state, and the wait of the last single -/
theorem acquire_k_eq_singles (I : Int) (hI : 0 < I) (s : St) (n : Int) (hn : s.next = I * n) (t : Int) :
    ∀ k : Nat, 1 ≤ k → acquire I s t k (-1) = singles I t k (0, s) := by
  intro k hk
  induction k with
  | zero => omega
  | succ m ih =>
    cases m with
    | zero => simp [singles]
    | succ m' =>
      have ihm := ih (by omega)
      simp only [singles] at ihm ⊢
      rw [← ihm]
      rw [acquire_closed I hI s n hn t ((m' + 1 : Nat) : Int) (by omega)]
      rw [acquire_closed I hI s n hn t ((m' + 1 + 1 : Nat) : Int) (by omega)]
      simp only
      rw [acquire_closed I hI ⟨I * (firstSlot I n t + ((m' + 1 : Nat) : Int))⟩ (firstSlot I n t + ((m' + 1 : Nat) : Int)) rfl t 1 (by omega)]
      have hfs : firstSlot I (firstSlot I n t + ((m' + 1 : Nat) : Int)) t = firstSlot I n t + ((m' + 1 : Nat) : Int) := by
        unfold firstSlot; omega
      rw [hfs]
      have e1 : firstSlot I n t + ((m' + 1 : Nat) : Int) + 1 - 1 = firstSlot I n t + ((m' + 1 + 1 : Nat) : Int) - 1 := by
        push_cast; omega
      have e2 : firstSlot I n t + ((m' + 1 : Nat) : Int) + 1 = firstSlot I n t + ((m' + 1 + 1 : Nat) : Int) := by
        push_cast; omega
      rw [e1, e2]

/-- distinct permits get distinct slots: the slots of consecutive requests never overlap -/
theorem next_slot_advances (I : Int) (hI : 0 < I) (s : St) (n : Int) (hn : s.next = I * n) (t k : Int) (hk : 1 ≤ k) :
    ∃ n', (acquire I s t k (-1)).2.next = I * n' ∧ n' = firstSlot I n t + k ∧ n ≤ firstSlot I n t := by
  refine ⟨firstSlot I n t + k, (acquire_slots I hI s n hn t k hk).1, rfl, ?_⟩
  unfold firstSlot; omega

/-- the `Int.tmod` model agrees with the Euclidean form at non-negative instants -/
theorem smoothAcquire_eq (c : SCfg) (s : SSt) (t k mw : Int) (h0 : 0 ≤ t) :
    smoothAcquire c s t k mw = acquire c.interval s t k mw := by
  unfold smoothAcquire acquire exceeds
  rw [Int.tmod_eq_emod_of_nonneg h0]
  simp only
  by_cases h1 : mw = -1
  · simp [h1]
  · simp [h1]

end Failsafe.Limiter.Sm