import Failsafe.Exec
set_option linter.unusedSimpArgs false
/-!
# The clock of the breakers and rate limiters never goes back during an execution

`Exec.Item.adv` lets an invocation of the wrapped function advance the (virtual) clock. The theorems of C03 / C05 are stated for
operation sequences at non-decreasing instants; this file shows that the composition model only ever presents such sequences to
the stateful policies: for every policy list, every script whose advances are non-negative, every layer leaves the clock at or
after where it found it (`executeStack_clock`). Proof: `Clk t0` ("the clock is at least `t0` and the remaining script only
advances") is preserved by every layer, whatever is inside it — the same induction over policies, retry rounds and hedge
attempts as for the statistics invariant of C17.
-/
namespace Failsafe.Lemmas.Clock
open Failsafe Failsafe.Exec Failsafe.Classify

def NN (r : Run) : Prop := ∀ it ∈ r.script, 0 ≤ it.adv

/-- the clock is at least `t0` and what is left of the script only moves it forward -/
def Clk (t0 : Int) (r : Run) : Prop := t0 ≤ r.w.now ∧ NN r

def Preserves (t0 : Int) (l : Layer) : Prop := ∀ r res r', l r = some (res, r') → Clk t0 r → Clk t0 r'

theorem clk_congr (t0 : Int) (r r' : Run) (h1 : r'.w.now = r.w.now) (h2 : r'.script = r.script) (h : Clk t0 r) : Clk t0 r' := by
  unfold Clk NN at *; rw [h1, h2]; exact h

theorem clk_trigger (t0 : Int) (r : Run) (n : String) (hs : Clk t0 r) : Clk t0 (r.trigger n) :=
  clk_congr t0 r _ (by rw [Run.trigger_w]) (Run.trigger_script r n) hs

theorem clk_drop (t0 : Int) (r : Run) (hs : Clk t0 r) : Clk t0 { r with script := List.drop 1 r.script, inv := r.inv + 1 } := by
  refine ⟨hs.1, ?_⟩
  intro it hit
  exact hs.2 it (List.mem_of_mem_drop hit)

theorem base_preserves (t0 : Int) : Preserves t0 base := by
  intro r res r' h hs
  have hX : Clk t0 ((r.emitSeen (if r.hedgeAttempt then "fnh" else "fn") 0 r.seenLast).trigger "fn") := clk_trigger t0 _ _ hs
  unfold base at h
  simp only at h
  generalize ((r.emitSeen (if r.hedgeAttempt then "fnh" else "fn") 0 r.seenLast).trigger "fn") = X at h hX
  cases hsc : X.script with
  | nil =>
    simp only [hsc, Option.some.injEq, Prod.mk.injEq] at h
    obtain ⟨_, rfl⟩ := h
    exact ⟨hX.1, fun it hit => by cases hit⟩
  | cons it rest =>
    simp only [hsc] at h
    have hit : 0 ≤ it.adv := hX.2 it (by rw [hsc]; exact List.mem_cons_self)
    have hrest : ∀ x ∈ rest, 0 ≤ x.adv := fun x hx => hX.2 x (by rw [hsc]; exact List.mem_cons_of_mem _ hx)
    have hbase : t0 ≤ X.w.now + it.adv := by have := hX.1; omega
    repeat' (split at h)
    all_goals first
      | (simp at h; done)
      | (simp only [Option.some.injEq, Prod.mk.injEq] at h; obtain ⟨_, rfl⟩ := h
         first | exact ⟨hbase, hrest⟩ | (split <;> exact ⟨hbase, hrest⟩))

theorem retryOnFailure_key (pos : Nat) (m : Int) (rl : Bool) (a : List Cond) (res : PR) (r : Run) :
    (retryOnFailure pos m rl a res r).2.w.now = r.w.now ∧ (retryOnFailure pos m rl a res r).2.script = r.script := by
  unfold retryOnFailure
  simp only
  split <;> (constructor <;> (repeat' split) <;> rfl)

theorem retryOnFailure_clk (t0 : Int) (pos : Nat) (m : Int) (rl : Bool) (a : List Cond) (res : PR) (r : Run) (hs : Clk t0 r) :
    Clk t0 (retryOnFailure pos m rl a res r).2 :=
  clk_congr t0 r _ (retryOnFailure_key pos m rl a res r).1 (retryOnFailure_key pos m rl a res r).2 hs

theorem retry_preserves (t0 : Int) (pos : Nat) (m : Int) (rl : Bool) (h a : List Cond) (inner : Layer) (hi : Preserves t0 inner) :
    ∀ fuel, Preserves t0 (retryLoop pos m rl h a inner fuel) := by
  intro fuel
  induction fuel with
  | zero => intro r res r' hh; simp [retryLoop] at hh
  | succ n ih =>
    intro r res r' hh hs
    simp only [retryLoop] at hh
    cases hin : inner r with
    | none => simp [hin] at hh
    | some x =>
      obtain ⟨res1, r1⟩ := x
      have hs1 := hi r res1 r1 hin hs
      simp only [hin] at hh
      by_cases hc : r1.isCanc = true
      · simp only [hc, if_true, Option.some.injEq, Prod.mk.injEq] at hh
        obtain ⟨_, rfl⟩ := hh; exact hs1
      · simp only [hc] at hh
        by_cases he : r1.exceeded.contains pos = true
        · simp only [he, if_true, Option.some.injEq, Prod.mk.injEq] at hh
          obtain ⟨_, rfl⟩ := hh; exact hs1
        · simp only [he] at hh
          by_cases hf : isFailure h res1.outcome = true
          · simp only [hf, if_true] at hh
            have hs2 := retryOnFailure_clk t0 pos m rl a res1.withFailure r1 hs1
            by_cases hd : (retryOnFailure pos m rl a res1.withFailure r1).1.done = true
            · simp only [hd, if_true, Option.some.injEq, Prod.mk.injEq] at hh
              obtain ⟨_, rfl⟩ := hh; exact hs2
            · simp only [hd] at hh
              generalize hX : (({ (retryOnFailure pos m rl a res1.withFailure r1).2 with
                  last := (retryOnFailure pos m rl a res1.withFailure r1).1.outcome }).emitLast "rp.onRetryScheduled" pos).trigger "rp.onRetryScheduled" = X at hh
              have hsX : Clk t0 X := by rw [← hX]; exact clk_trigger t0 _ _ hs2
              by_cases hx : X.isCanc = true
              · simp only [hx, if_true, Option.some.injEq, Prod.mk.injEq] at hh
                obtain ⟨_, rfl⟩ := hh; exact hsX
              · simp only [hx] at hh
                exact ih _ res r' hh hsX
          · simp only [hf, Option.some.injEq, Prod.mk.injEq] at hh
            obtain ⟨_, rfl⟩ := hh; exact hs1

theorem clk_fire (t0 : Int) (r1 : Run) (extra : Nat) (ha : Clk t0 r1) :
    Clk t0 ({ (if r1.cancelled = true then r1 else r1.emit "to.onTimeoutExceeded" r1.timeoutPos) with
              cancelled := true, execs := (if r1.cancelled = true then r1 else r1.emit "to.onTimeoutExceeded" r1.timeoutPos).execs + extra }) := by
  split <;> exact ha

theorem clk_execs (t0 : Int) (r1 : Run) (n : Nat) (ha : Clk t0 r1) : Clk t0 { r1 with execs := n } := ha

theorem hedge_preserves (t0 : Int) (pos n : Nat) (co : List Cond) (inner : Layer) (hi : Preserves t0 inner) :
    ∀ fuel k done blocked, Preserves t0 (hedgeLoop pos n co inner fuel k done blocked) := by
  intro fuel
  induction fuel with
  | zero => intro k d b r res r' h; simp [hedgeLoop] at h
  | succ f ih =>
    intro k d b r res r' h hs
    simp only [hedgeLoop] at h
    have hs0 : Clk t0 (if (k == 0) = true then { r with hedgeAttempt := false, hpLast := r.last } else ({ r with attempts := r.attempts + 1, hedges := r.hedges + 1, hedgeAttempt := true, last := r.hpLast }).emit "hp.onHedge" pos) := by
      split <;> exact hs
    generalize (if (k == 0) = true then { r with hedgeAttempt := false, hpLast := r.last } else ({ r with attempts := r.attempts + 1, hedges := r.hedges + 1, hedgeAttempt := true, last := r.hpLast }).emit "hp.onHedge" pos) = r0 at h hs0
    have hsd : Clk t0 { r0 with script := List.drop 1 r0.script, inv := r0.inv + 1 } := clk_drop t0 r0 hs0
    cases hin : inner r0 with
    | none =>
      simp only [hin] at h
      repeat' (split at h)
      all_goals first
        | (simp at h; done)
        | exact ih _ _ _ _ _ _ h hsd
        | (simp only [Option.some.injEq, Prod.mk.injEq] at h; obtain ⟨_, rfl⟩ := h
           first | exact clk_fire t0 _ _ hsd | exact hsd | exact hs0)
    | some x =>
      obtain ⟨res1, r1⟩ := x
      have h1 := hi r0 res1 r1 hin hs0
      simp only [hin] at h
      repeat' (split at h)
      all_goals first
        | (simp at h; done)
        | exact ih _ _ _ _ _ _ h h1
        | exact ih _ _ _ _ _ _ h hsd
        | (simp only [Option.some.injEq, Prod.mk.injEq] at h; obtain ⟨_, rfl⟩ := h
           first | exact clk_fire t0 _ _ h1 | exact clk_fire t0 _ _ hsd | exact clk_execs t0 _ _ h1 | exact h1 | exact hsd | exact hs0)

theorem drainBreaker_key (r : Run) (id pos : Nat) : (drainBreaker r id pos).w.now = r.w.now ∧ (drainBreaker r id pos).script = r.script := by
  unfold drainBreaker
  split
  · exact ⟨rfl, rfl⟩
  · rename_i c b _
    suffices ∀ (es : List Breaker.Event) (r : Run),
        (es.foldl (fun r ev => { r with log := r.log ++ [⟨breakerEventName ev, pos, 0, 0, none⟩] }) r).w.now = r.w.now ∧
        (es.foldl (fun r ev => { r with log := r.log ++ [⟨breakerEventName ev, pos, 0, 0, none⟩] }) r).script = r.script by
      have h := this b.events r
      exact ⟨by simp only [updBreaker]; exact h.1, by simp only [updBreaker]; exact h.2⟩
    intro es
    induction es with
    | nil => intro r; exact ⟨rfl, rfl⟩
    | cons e es ih => intro r; simp only [List.foldl_cons]; have := ih { r with log := r.log ++ [⟨breakerEventName e, pos, 0, 0, none⟩] }; exact this

theorem clk_drain (t0 : Int) (r : Run) (id pos : Nat) (h : Clk t0 r) : Clk t0 (drainBreaker r id pos) :=
  clk_congr t0 r _ (drainBreaker_key r id pos).1 (drainBreaker_key r id pos).2 h

theorem applyPolicy_preserves (t0 : Int) (fuel pos : Nat) (p : Policy) (inner : Layer) (hi : Preserves t0 inner) :
    Preserves t0 (applyPolicy fuel pos p inner) := by
  cases p with
  | retry m rl h a => exact retry_preserves t0 pos m rl h a inner hi fuel
  | hedge n co =>
    intro r res r' hh hs
    simp only [applyPolicy] at hh
    cases hl : hedgeLoop pos n co inner (n + 2) 0 0 0 r with
    | none => simp [hl] at hh
    | some x =>
      simp only [hl, Option.map_some, Option.some.injEq, Prod.mk.injEq] at hh
      obtain ⟨_, rfl⟩ := hh
      exact hedge_preserves t0 pos n co inner hi _ _ _ _ r x.1 x.2 hl hs
  | breaker id h =>
    intro r res r' hh hs
    simp only [applyPolicy] at hh
    cases hb : r.w.breakers[id]? with
    | none => simp [hb] at hh
    | some cb =>
      obtain ⟨c, b⟩ := cb
      simp only [hb] at hh
      have hs1 : Clk t0 (drainBreaker (updBreaker r id (fun _ _ => (Breaker.tryAcquire c b r.w.now).1)) id pos) :=
        clk_drain t0 _ id pos hs
      cases hin : inner (drainBreaker (updBreaker r id (fun _ _ => (Breaker.tryAcquire c b r.w.now).1)) id pos) with
      | none =>
        simp only [hin] at hh
        repeat' (split at hh)
        all_goals first
          | (simp at hh; done)
          | (simp only [Option.some.injEq, Prod.mk.injEq] at hh; obtain ⟨_, rfl⟩ := hh; exact hs1)
      | some x =>
        obtain ⟨res1, r1⟩ := x
        have h1 := hi _ res1 r1 hin hs1
        simp only [hin] at hh
        repeat' (split at hh)
        all_goals first
          | (simp at hh; done)
          | (simp only [Option.some.injEq, Prod.mk.injEq] at hh; obtain ⟨_, rfl⟩ := hh
             first | exact hs1 | exact clk_drain t0 _ id pos h1)
  | bulkhead id =>
    intro r res r' hh hs
    simp only [applyPolicy] at hh
    cases hb : r.w.bulk[id]? with
    | none => simp [hb] at hh
    | some ch =>
      obtain ⟨cap, held⟩ := ch
      simp only [hb] at hh
      have hs1 : Clk t0 { r with w := { r.w with bulk := r.w.bulk.set id (cap, held + 1) } } := hs
      cases hin : inner { r with w := { r.w with bulk := r.w.bulk.set id (cap, held + 1) } } with
      | none =>
        simp only [hin] at hh
        repeat' (split at hh)
        all_goals first
          | (simp at hh; done)
          | (simp only [Option.some.injEq, Prod.mk.injEq] at hh; obtain ⟨_, rfl⟩ := hh; exact hs)
      | some x =>
        obtain ⟨res1, r1⟩ := x
        have h1 := hi _ res1 r1 hin hs1
        simp only [hin] at hh
        repeat' (split at hh)
        all_goals first
          | (simp at hh; done)
          | (simp only [Option.some.injEq, Prod.mk.injEq] at hh; obtain ⟨_, rfl⟩ := hh
             first | exact hs | exact h1)
  | limiter id =>
    intro r res r' hh hs
    simp only [applyPolicy] at hh
    cases hb : r.w.limiters[id]? with
    | none => simp [hb] at hh
    | some cs =>
      obtain ⟨c, s0⟩ := cs
      simp only [hb] at hh
      split at hh
      · exact hi _ res r' hh hs
      · simp only [Option.some.injEq, Prod.mk.injEq] at hh; obtain ⟨_, rfl⟩ := hh; exact hs
  | fallback k h =>
    intro r res r' hh hs
    simp only [applyPolicy] at hh
    cases hin : inner r with
    | none => simp [hin] at hh
    | some x =>
      obtain ⟨res1, r1⟩ := x
      have h1 := hi _ res1 r1 hin hs
      simp only [hin] at hh
      repeat' (split at hh)
      all_goals (simp only [Option.some.injEq, Prod.mk.injEq] at hh; obtain ⟨_, rfl⟩ := hh; exact h1)
  | timeout =>
    intro r res r' hh hs
    simp only [applyPolicy] at hh
    have hs1 : Clk t0 { r with inTimeout := true, cancelled := false, timeoutPos := pos } := hs
    cases hin : inner { r with inTimeout := true, cancelled := false, timeoutPos := pos } with
    | none => simp [hin] at hh
    | some x =>
      obtain ⟨res1, r1⟩ := x
      have h1 := hi _ res1 r1 hin hs1
      simp only [hin] at hh
      repeat' (split at hh)
      all_goals (simp only [Option.some.injEq, Prod.mk.injEq] at hh; obtain ⟨_, rfl⟩ := hh; exact h1)
  | cache id key cif =>
    intro r res r' hh hs
    simp only [applyPolicy] at hh
    have hs1 : Clk t0 (r.emit "ca.onMiss" pos) := hs
    cases hin : inner (r.emit "ca.onMiss" pos) with
    | none =>
      simp only [hin] at hh
      repeat' (split at hh)
      all_goals first
        | (simp at hh; done)
        | (simp only [Option.some.injEq, Prod.mk.injEq] at hh; obtain ⟨_, rfl⟩ := hh; exact hs)
    | some x =>
      obtain ⟨res1, r1⟩ := x
      have h1 := hi _ res1 r1 hin hs1
      simp only [hin] at hh
      repeat' (split at hh)
      all_goals first
        | (simp at hh; done)
        | (simp only [Option.some.injEq, Prod.mk.injEq] at hh; obtain ⟨_, rfl⟩ := hh
           first | exact hs | exact h1)

theorem executeStack_preserves (t0 : Int) (fuel : Nat) (ps : List Policy) : ∀ pos, Preserves t0 (executeStack fuel pos ps) := by
  induction ps with
  | nil => intro pos; exact base_preserves t0
  | cons p ps ih => intro pos; exact applyPolicy_preserves t0 fuel pos p _ (ih (pos + 1))

/-- **the clock never goes back**: for every policy list and every script whose advances are non-negative, an execution leaves the
clock at or after where it found it, and so does every layer of it -/
theorem executeStack_clock (fuel : Nat) (ps : List Policy) (pos : Nat) (r : Run) (res : PR) (r' : Run)
    (h : executeStack fuel pos ps r = some (res, r')) (hnn : NN r) : r.w.now ≤ r'.w.now ∧ NN r' :=
  executeStack_preserves r.w.now fuel ps pos r res r' h ⟨Int.le_refl _, hnn⟩

end Failsafe.Lemmas.Clock
