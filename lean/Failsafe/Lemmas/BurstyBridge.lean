import Failsafe.Lemmas.Bursty
/-! Bridging the `Int.tdiv` model of bursty `acquirePermits` to the Euclidean lemmas, plus:
`roll` is idempotent and composes (`roll_roll`), `k` permits at once = `k` singles, a refusal is unobservable. -/
namespace Failsafe.Limiter
open Failsafe.Limiter

theorem roll_eq_BH (c : BCfg) (s : BSt) (t : Int) (h0 : 0 ≤ t) : roll c s t = BH.roll c s t := by
  unfold roll BH.roll
  rw [Int.tdiv_eq_ediv_of_nonneg h0]

theorem exceeds_neg_one (w : Int) : exceeds w (-1) = false := by
  simp [exceeds]

theorem mul_ge_of_one_le (a pp : Int) (ha : 1 ≤ a) (hpp : 0 < pp) : pp ≤ a * pp := by
  calc pp = 1 * pp := by omega
    _ ≤ a * pp := Int.mul_le_mul_of_nonneg_right ha (by omega)

/-- the roll never moves the period backwards and is a no-op at an instant of the period it is already in -/
theorem roll_idem (c : BCfg) (s : BSt) (t : Int) : roll c (roll c s t) t = roll c s t := by
  unfold roll
  simp only
  by_cases h : s.cur < Int.tdiv t c.period
  · simp [h]
  · simp [h]

/-- rolling to `t` and then to a later `t'` is rolling to `t'` (needs the cap at `pp`, i.e. the D1 repair) -/
theorem roll_roll (c : BCfg) (hpp : 0 < c.pp) (hper : 0 < c.period) (s : BSt) (t t' : Int)
    (h0 : 0 ≤ t) (htt : t ≤ t') : roll c (roll c s t) t' = roll c s t' := by
  have hnp : t / c.period ≤ t' / c.period := Int.ediv_le_ediv hper htt
  rw [roll_eq_BH c s t h0, roll_eq_BH c s t' (by omega), roll_eq_BH c _ t' (by omega)]
  unfold BH.roll
  simp only
  by_cases h1 : s.cur < t / c.period
  · have h2 : s.cur < t' / c.period := by omega
    simp only [h1, h2, if_true]
    by_cases h3 : t / c.period < t' / c.period
    · simp only [h3, if_true]
      have hsplit : (t' / c.period - s.cur) * c.pp = (t / c.period - s.cur) * c.pp + (t' / c.period - t / c.period) * c.pp := by
        rw [← Int.add_mul]; congr 1; omega
      have hge := mul_ge_of_one_le (t' / c.period - t / c.period) c.pp (by omega) hpp
      have hge1 := mul_ge_of_one_le (t / c.period - s.cur) c.pp (by omega) hpp
      by_cases ha : s.avail < 0
      · simp only [ha, if_true]
        by_cases hb : min (s.avail + (t / c.period - s.cur) * c.pp) c.pp < 0
        · simp only [hb, if_true]
          congr 1
          rw [hsplit]; omega
        · simp only [hb, if_false]
          congr 1
          rw [hsplit]; omega
      · simp only [ha, if_false]
        have : ¬ c.pp < 0 := by omega
        simp only [this, if_false]
    · have heq : t / c.period = t' / c.period := by omega
      simp only [h3, if_false]
      rw [heq]
  · simp only [h1, if_false]

/-- shape of an unlimited-wait request at a state that is already rolled to `t` -/
theorem acquire_rolled (c : BCfg) (s : BSt) (t k : Int) (hr : ¬ s.cur < Int.tdiv t c.period) :
    burstyAcquire c s t k (-1) =
      (if k > s.avail then waitFor c s t k else 0, { s with avail := s.avail - k }) := by
  unfold burstyAcquire roll
  simp only [hr, if_false, exceeds_neg_one]
  by_cases h : k > s.avail
  · simp [h]
  · simp [h]

theorem roll_rolled (c : BCfg) (s : BSt) (t : Int) : ¬ (roll c s t).cur < Int.tdiv t c.period := by
  unfold roll
  simp only
  by_cases h : s.cur < Int.tdiv t c.period
  · simp [h]
  · simp [h]

/-- general shape: roll, then serve from the rolled state -/
theorem acquire_eq_rolled (c : BCfg) (s : BSt) (t k mw : Int) :
    burstyAcquire c s t k mw = burstyAcquire c (roll c s t) t k mw := by
  unfold burstyAcquire
  rw [roll_idem]

theorem waitFor_shift (c : BCfg) (s : BSt) (t : Int) (j : Int) :
    waitFor c { s with avail := s.avail - j } t 1 = waitFor c s t (j + 1) := by
  unfold waitFor
  simp only
  have : 1 - (s.avail - j) = j + 1 - s.avail := by omega
  rw [this]

/-- `k` single unlimited-wait requests at the same instant -/
def singles (c : BCfg) (t : Int) : Nat → Int × BSt → Int × BSt
  | 0, ws => ws
  | k + 1, ws => burstyAcquire c (singles c t k ws).2 t 1 (-1)

theorem singles_rolled (c : BCfg) (s : BSt) (t : Int) (hr : ¬ s.cur < Int.tdiv t c.period) :
    ∀ k : Nat, 1 ≤ k → singles c t k (0, s) =
      (if (k : Int) > s.avail then waitFor c s t k else 0, { s with avail := s.avail - k }) := by
  intro k hk
  induction k with
  | zero => omega
  | succ m ih =>
    cases m with
    | zero =>
      simp only [singles]
      rw [acquire_rolled c s t 1 hr]
      simp
    | succ m' =>
      have ihm := ih (by omega)
      simp only [singles] at ihm ⊢
      rw [ihm]
      simp only
      have hr' : ¬ ({ s with avail := s.avail - ((m' + 1 : Nat) : Int) } : BSt).cur < Int.tdiv t c.period := hr
      rw [acquire_rolled c _ t 1 hr']
      simp only
      rw [waitFor_shift]
      have e : ((m' + 1 + 1 : Nat) : Int) = ((m' + 1 : Nat) : Int) + 1 := by push_cast; omega
      rw [e]
      congr 1
      · by_cases h : ((m' + 1 : Nat) : Int) + 1 > s.avail
        · have h' : (1 : Int) > s.avail - ((m' + 1 : Nat) : Int) := by omega
          rw [if_pos h, if_pos h']
        · have h' : ¬ (1 : Int) > s.avail - ((m' + 1 : Nat) : Int) := by omega
          rw [if_neg h, if_neg h']
      · congr 1; omega

/-- C05: requesting `k` permits at once is `k` single requests at the same instant (same state, wait of the last) -/
theorem bursty_k_eq_singles (c : BCfg) (s : BSt) (t : Int) (k : Nat) (hk : 1 ≤ k) :
    burstyAcquire c s t k (-1) = singles c t k (0, s) := by
  -- first single performs the roll; everything after happens at the rolled state
  have hsing : ∀ k : Nat, 1 ≤ k → singles c t k (0, s) = singles c t k (0, roll c s t) := by
    intro k hk
    induction k with
    | zero => omega
    | succ m ih =>
      cases m with
      | zero => simp only [singles]; exact acquire_eq_rolled c s t 1 (-1)
      | succ m' => simp only [singles] at ih ⊢; rw [ih (by omega)]
  rw [hsing k hk, acquire_eq_rolled, singles_rolled c (roll c s t) t (roll_rolled c s t) k hk]
  exact acquire_rolled c (roll c s t) t k (roll_rolled c s t)

/-- with a max wait the request is refused exactly when the last single's wait exceeds it (and it has to wait at all) -/
theorem bursty_maxwait (c : BCfg) (s : BSt) (t k mw : Int) :
    burstyAcquire c s t k mw =
      if k > (roll c s t).avail ∧ exceeds (burstyAcquire c s t k (-1)).1 mw = true
      then (-1, roll c s t) else burstyAcquire c s t k (-1) := by
  unfold burstyAcquire
  simp only [exceeds_neg_one]
  by_cases h : k > (roll c s t).avail
  · by_cases h2 : exceeds (waitFor c (roll c s t) t k) mw = true
    · simp [h, h2]
    · simp [h, h2]
  · simp [h]

/-- a refused request leaves exactly the rolled state -/
theorem bursty_refusal_state (c : BCfg) (s : BSt) (t k mw : Int) (hpos : 0 ≤ (burstyAcquire c s t k (-1)).1)
    (h : (burstyAcquire c s t k mw).1 = -1) : (burstyAcquire c s t k mw).2 = roll c s t := by
  rw [bursty_maxwait] at h ⊢
  by_cases hc : k > (roll c s t).avail ∧ exceeds (burstyAcquire c s t k (-1)).1 mw = true
  · simp [hc]
  · simp only [hc, if_false] at h
    omega

/-- C05: a refusal is unobservable — every later request answers as if the refused one had never been made -/
theorem bursty_refusal_unobservable (c : BCfg) (hpp : 0 < c.pp) (hper : 0 < c.period) (s : BSt) (t : Int) (h0 : 0 ≤ t)
    (t' k' mw' : Int) (htt : t ≤ t') :
    burstyAcquire c (roll c s t) t' k' mw' = burstyAcquire c s t' k' mw' := by
  rw [acquire_eq_rolled c (roll c s t) t', acquire_eq_rolled c s t', roll_roll c hpp hper s t t' h0 htt]

end Failsafe.Limiter
