import Failsafe.Exec
import Failsafe.ExecBodies
/-!
# The composition model computes the reference definitions of the regenerated bodies

`Exec.lean` transcribes the executors by hand. This file proves, for the places where a regenerated body exists
(`Generated/X*.lean`, tied to `ExecBodies.lean` by `Tie/X*.lean`), that the transcription computes exactly the reference
definition: the model's cancel answers are `isCanceledWithResult` of the execution state it abstracts, what the model lets user
code read as the last outcome is `LastError` / `CopyWithResult`, the model's retry decision is `retrypolicy.executor.OnFailure`,
its cache layer is `PreExecute` / `PostExecute` of the cache executor, its fallback layer is the fallback executor's `Apply`.
So a change of one of those Go bodies that alters its meaning breaks a tie equality, and the theorems of `Props/` about the
composition model are theorems about what the code says now.
-/
namespace Failsafe.Lemmas.ExecBodiesLink
open Failsafe Failsafe.Classify Failsafe.Exec
open Failsafe.ExecBodies (XSt RCfg RSt CCfg CSt FSt)

/-! ## cancellation state -/

/-- the execution state a run abstracts, as far as cancellation goes: a Timeout that fired stored `timeoutResult` and
cancelled the copy's context; `ExecutionResult.Cancel` stored `ErrExecutionCanceled` and cancelled the context; a cancelled /
expired caller context stores nothing -/
def toX (r : Run) : XSt :=
  { lastVal := r.last.val, lastErr := r.last.err,
    cell := if r.cancelled then some timeoutResult else
      match r.ext with
      | some e => if e = Err.execCanceled then some (failureResult e) else none
      | none => none,
    ctxErr := if r.cancelled then some Err.canceled else
      match r.ext with
      | some e => if e = Err.execCanceled then some Err.canceled else some e
      | none => none }

/-- **`Run.isCanc` / `Run.cancelRes` are `isCanceledWithResult`** of the abstracted execution state -/
theorem isCanc_link (r : Run) :
    ExecBodies.isCanc (toX r) = (r.isCanc, if r.isCanc then some r.cancelRes else none) := by
  unfold ExecBodies.isCanc toX Run.isCanc Run.cancelRes
  cases hc : r.cancelled <;> cases he : r.ext with
  | none => simp [timeoutResult]
  | some e =>
    by_cases hx : e = Err.execCanceled <;> simp [hx, failureResult, timeoutResult]

/-- **what the wrapped function reads as its last outcome is `LastResult` / `LastError`** of its copy of the execution (whose
context is done exactly when the execution was cancelled from outside) -/
theorem seenLast_link (r : Run) :
    r.seenLast = ⟨r.last.val, ExecBodies.lastError { lastVal := r.last.val, lastErr := r.last.err,
                                                     ctxErr := if r.ext.isSome then some Err.canceled else none }⟩ := by
  unfold Run.seenLast ExecBodies.lastError
  cases h1 : r.last.err <;> cases h2 : r.ext <;> simp [h1]
  all_goals (cases hl : r.last; simp_all)

/-- **what a listener reads from `CopyWithResult(result)`** -/
theorem seenBy_link (r : Run) (o : Outcome) (d s sa : Bool) :
    r.seenBy o =
      (let c := ExecBodies.copyWithResult { ctxErr := if r.ext.isSome || r.cancelled then some Err.canceled else none } (some ⟨o.val, o.err, d, s, sa⟩)
       ⟨c.lastVal, ExecBodies.lastError c⟩) := by
  unfold Run.seenBy ExecBodies.copyWithResult ExecBodies.lastError
  cases h1 : o.err <;> cases h2 : r.ext <;> cases h3 : r.cancelled <;> simp [h1]
  all_goals (cases o; simp_all)

/-! ## retry decision -/

/-- the retry executor's state at position `pos` of a run -/
def retrySt (r : Run) (pos : Nat) : RSt := { failed := getFailed r pos, exceeded := false, log := [] }

theorem retryOnFailure_link_aux (pos : Nat) (m : Int) (rl : Bool) (abort : List Cond) (res1 : PR) (r : Run)
    (md elapsed : Int) (e : Bool)
    (he : (decide (m ≠ -1 ∧ ((getFailed r pos + 1 : Nat) : Int) > m) || durExceeded pos r) = e)
    (hk : ExecBodies.retryExceeded ⟨m, md, rl, some (), some ()⟩ ((getFailed r pos : Int) + 1) elapsed = e) :
    let k := ExecBodies.retryOnFailure ⟨m, md, rl, some (), some ()⟩ (retrySt r pos) elapsed (isAbortable abort res1.outcome) res1
    let x := Exec.retryOnFailure pos m rl abort res1 r
    x.1 = k.1 ∧ (getFailed x.2 pos : Int) = k.2.failed ∧
      x.2.exceeded = (if k.2.exceeded then pos :: r.exceeded else r.exceeded) ∧
      x.2.log.map (·.name) = r.log.map (·.name) ++ k.2.log.map ("rp." ++ ·) := by
  have hg : ∀ (r : Run) (n : Nat), getFailed (setFailed r pos n) pos = n := by
    intro r n; simp [getFailed, setFailed]
  have hgf : getFailed (r.emitSeen "rp.onFailure" pos res1.outcome) pos = getFailed r pos := rfl
  have hallow : decide (m = -1 ∨ m > 0) = (m == -1 || decide (m > 0)) := by
    by_cases h1 : m = -1 <;> simp [h1]
  simp only [ExecBodies.retryOnFailure, Exec.retryOnFailure, retrySt, ExecBodies.rBaseOnFailure, ExecBodies.rOnAbort,
    ExecBodies.rOnRetriesExceeded, ExecBodies.RSt.emit, ExecBodies.exceededResult, ExecBodies.allowsRetries, hgf, he, hk, hallow]
  generalize isAbortable abort res1.outcome = ab
  cases e <;> cases ab <;> cases rl <;>
    simp [hg, Run.emitSeen, getFailed, setFailed] <;> (cases res1.err <;> rfl)

/-- **`Exec.retryOnFailure` is `retrypolicy.executor.OnFailure`**: same result, same failed-attempt count, same exceeded
flag, and the same listener calls in the same order (`md`, `elapsed`: any max duration and elapsed time that make the code's
`maxDuration != 0 && ElapsedTime() > maxDuration` what the model's `durExceeded` says) -/
theorem retryOnFailure_link (pos : Nat) (m : Int) (rl : Bool) (abort : List Cond) (res1 : PR) (r : Run)
    (md elapsed : Int) (hd : (md != 0 && decide (elapsed > md)) = durExceeded pos r) :
    let k := ExecBodies.retryOnFailure ⟨m, md, rl, some (), some ()⟩ (retrySt r pos) elapsed (isAbortable abort res1.outcome) res1
    let x := Exec.retryOnFailure pos m rl abort res1 r
    x.1 = k.1 ∧ (getFailed x.2 pos : Int) = k.2.failed ∧
      x.2.exceeded = (if k.2.exceeded then pos :: r.exceeded else r.exceeded) ∧
      x.2.log.map (·.name) = r.log.map (·.name) ++ k.2.log.map ("rp." ++ ·) := by
  apply retryOnFailure_link_aux pos m rl abort res1 r md elapsed _ _ rfl
  unfold ExecBodies.retryExceeded
  rw [← hd]; congr 1
  by_cases h1 : m = -1 <;> simp [h1]

end Failsafe.Lemmas.ExecBodiesLink
