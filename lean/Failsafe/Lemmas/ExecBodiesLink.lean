import Failsafe.Exec
import Failsafe.ExecBodies
set_option linter.unusedSimpArgs false
/-!
# The composition model computes the reference definitions of the regenerated bodies

`Exec.lean` transcribes the executors by hand. This file proves, for the places where a regenerated body exists
(`Generated/X*.lean`, tied to `ExecBodies.lean` by `Tie/X*.lean`), that the transcription computes exactly the reference
definition: the model's cancel answers are `isCanceledWithResult` of the execution state it abstracts, what the model lets user
code read as the last outcome is `LastError` / `CopyWithResult`, the model's retry decision is `retrypolicy.executor.OnFailure`,
its cache layer is `PreExecute` / `PostExecute` of the cache executor, its fallback layer is the fallback executor's `Apply`.
So a change of one of those Go bodies that alters its meaning breaks a tie equality, and the theorems of `Props/` about the
composition model are theorems about what the code says now.
-/
namespace Failsafe.Lemmas.ExecBodiesLink
open Failsafe Failsafe.Classify Failsafe.Exec
open Failsafe.ExecBodies (XSt RCfg RSt CCfg CSt FSt LoopOps AdmitOps LimitOps)

/-! ## cancellation state -/

/-- the execution state a run abstracts, as far as cancellation goes: a Timeout that fired stored `timeoutResult` and
cancelled the copy's context; `ExecutionResult.Cancel` stored `ErrExecutionCanceled` and cancelled the context; a cancelled /
expired caller context stores nothing -/
def toX (r : Run) : XSt :=
  { lastVal := r.last.val, lastErr := r.last.err,
    cell := if r.cancelled then some timeoutResult else
      match r.ext with
      | some e => if e = Err.execCanceled then some (failureResult e) else none
      | none => none,
    ctxErr := if r.cancelled then some Err.canceled else
      match r.ext with
      | some e => if e = Err.execCanceled then some Err.canceled else some e
      | none => none }

/-- **`Run.isCanc` / `Run.cancelRes` are `isCanceledWithResult`** of the abstracted execution state -/
theorem isCanc_link (r : Run) :
    ExecBodies.isCanc (toX r) = (r.isCanc, if r.isCanc then some r.cancelRes else none) := by
  unfold ExecBodies.isCanc toX Run.isCanc Run.cancelRes
  cases hc : r.cancelled <;> cases he : r.ext with
  | none => simp [timeoutResult]
  | some e =>
    by_cases hx : e = Err.execCanceled <;> simp [hx, failureResult, timeoutResult]

/-- **what the wrapped function reads as its last outcome is `LastResult` / `LastError`** of its copy of the execution (whose
context is done exactly when the execution was cancelled from outside) -/
theorem seenLast_link (r : Run) :
    r.seenLast = ⟨r.last.val, ExecBodies.lastError { lastVal := r.last.val, lastErr := r.last.err,
                                                     ctxErr := if r.ext.isSome then some Err.canceled else none }⟩ := by
  unfold Run.seenLast ExecBodies.lastError
  cases h1 : r.last.err <;> cases h2 : r.ext <;> simp [h1]
  all_goals (cases hl : r.last; simp_all)

/-- **what a listener reads from `CopyWithResult(result)`** -/
theorem seenBy_link (r : Run) (o : Outcome) (d s sa : Bool) :
    r.seenBy o =
      (let c := ExecBodies.copyWithResult { ctxErr := if r.ext.isSome || r.cancelled then some Err.canceled else none } (some ⟨o.val, o.err, d, s, sa⟩)
       ⟨c.lastVal, ExecBodies.lastError c⟩) := by
  unfold Run.seenBy ExecBodies.copyWithResult ExecBodies.lastError
  cases h1 : o.err <;> cases h2 : r.ext <;> cases h3 : r.cancelled <;> simp [h1]
  all_goals (cases o; simp_all)

/-! ## retry decision -/

/-- the retry executor's state at position `pos` of a run -/
def retrySt (r : Run) (pos : Nat) : RSt := { failed := getFailed r pos, exceeded := false, log := [] }

theorem retryOnFailure_link_aux (pos : Nat) (m : Int) (rl : Bool) (abort : List Cond) (res1 : PR) (r : Run)
    (md elapsed : Int) (e : Bool)
    (he : (decide (m ≠ -1 ∧ ((getFailed r pos + 1 : Nat) : Int) > m) || durExceeded pos r) = e)
    (hk : ExecBodies.retryExceeded ⟨m, md, rl, some (), some ()⟩ ((getFailed r pos : Int) + 1) elapsed = e) :
    let k := ExecBodies.retryOnFailure ⟨m, md, rl, some (), some ()⟩ (retrySt r pos) elapsed (isAbortable abort res1.outcome) res1
    let x := Exec.retryOnFailure pos m rl abort res1 r
    x.1 = k.1 ∧ (getFailed x.2 pos : Int) = k.2.failed ∧
      x.2.exceeded = (if k.2.exceeded then pos :: r.exceeded else r.exceeded) ∧
      x.2.log.map (·.name) = r.log.map (·.name) ++ k.2.log.map ("rp." ++ ·) := by
  have hg : ∀ (r : Run) (n : Nat), getFailed (setFailed r pos n) pos = n := by
    intro r n; simp [getFailed, setFailed]
  have hgf : getFailed (r.emitSeen "rp.onFailure" pos res1.outcome) pos = getFailed r pos := rfl
  have hallow : decide (m = -1 ∨ m > 0) = (m == -1 || decide (m > 0)) := by
    by_cases h1 : m = -1 <;> simp [h1]
  simp only [ExecBodies.retryOnFailure, Exec.retryOnFailure, retrySt, ExecBodies.rBaseOnFailure, ExecBodies.rOnAbort,
    ExecBodies.rOnRetriesExceeded, ExecBodies.RSt.emit, ExecBodies.exceededResult, ExecBodies.allowsRetries, hgf, he, hk, hallow]
  generalize isAbortable abort res1.outcome = ab
  cases e <;> cases ab <;> cases rl <;>
    simp [hg, Run.emitSeen, getFailed, setFailed] <;> (cases res1.err <;> rfl)

/-- **`Exec.retryOnFailure` is `retrypolicy.executor.OnFailure`**: same result, same failed-attempt count, same exceeded
flag, and the same listener calls in the same order (`md`, `elapsed`: any max duration and elapsed time that make the code's
`maxDuration != 0 && ElapsedTime() > maxDuration` what the model's `durExceeded` says) -/
theorem retryOnFailure_link (pos : Nat) (m : Int) (rl : Bool) (abort : List Cond) (res1 : PR) (r : Run)
    (md elapsed : Int) (hd : (md != 0 && decide (elapsed > md)) = durExceeded pos r) :
    let k := ExecBodies.retryOnFailure ⟨m, md, rl, some (), some ()⟩ (retrySt r pos) elapsed (isAbortable abort res1.outcome) res1
    let x := Exec.retryOnFailure pos m rl abort res1 r
    x.1 = k.1 ∧ (getFailed x.2 pos : Int) = k.2.failed ∧
      x.2.exceeded = (if k.2.exceeded then pos :: r.exceeded else r.exceeded) ∧
      x.2.log.map (·.name) = r.log.map (·.name) ++ k.2.log.map ("rp." ++ ·) := by
  apply retryOnFailure_link_aux pos m rl abort res1 r md elapsed _ _ rfl
  unfold ExecBodies.retryExceeded
  rw [← hd]; congr 1
  by_cases h1 : m = -1 <;> simp [h1]

/-! ## the retry loop -/

/-- the operations one iteration of the retry loop is made of, as the composition model defines them: `res` / `r1` are what the
layer inside returned for this iteration -/
def retryOps (pos : Nat) (m : Int) (rl : Bool) (h a : List Cond) (res : PR) (r1 : Run) : LoopOps Run :=
  { innerV := fun _ => res, innerS := fun _ => r1,
    isCanc := fun r => (r.isCanc, r.cancelRes),
    exceeded := fun r => r.exceeded.contains pos,
    postV := fun r x => if isFailure h x.outcome then (Exec.retryOnFailure pos m rl a x.withFailure r).1 else x.withDone true true,
    postS := fun r x => if isFailure h x.outcome then (Exec.retryOnFailure pos m rl a x.withFailure r).2 else r.emitSeen "rp.onSuccess" pos x.outcome,
    recordV := fun _ _ => none, recordS := fun r x => { r with last := x.outcome },
    delayV := fun _ _ => 0, delayS := fun r _ => r,
    onRetryScheduled := fun r _ _ => (r.emitLast "rp.onRetryScheduled" pos).trigger "rp.onRetryScheduled",
    wait := fun r _ => r,
    initV := fun r => if r.isCanc then some r.cancelRes else none,
    initS := fun r => if r.isCanc then r else { r with attempts := r.attempts + 1, retries := r.retries + 1 },
    onRetry := fun r _ => r.emitLast "rp.onRetry" pos }

/-- **the model's retry loop is the code's loop**: one unfolding of `Exec.retryLoop` is one iteration of
`retrypolicy.executor.Apply` (regenerated and tied: `Tie.XRetryLoop.tie_retryIter`) over the model's operations — it ends with the
result the iteration returns, or goes round again from the state the iteration left -/
theorem retryLoop_link (pos : Nat) (m : Int) (rl : Bool) (h a : List Cond) (inner : Layer) (fuel : Nat) (r r1 : Run) (res : PR)
    (hi : inner r = some (res, r1)) :
    retryLoop pos m rl h a inner (fuel + 1) r =
      (match ExecBodies.retryIter (retryOps pos m rl h a res r1) r with
       | (some out, r') => some (out, r')
       | (none, r') => retryLoop pos m rl h a inner fuel r') := by
  simp only [retryLoop, hi, ExecBodies.retryIter, retryOps]
  by_cases hc : r1.isCanc = true
  · simp [hc]
  · simp only [hc, Bool.false_eq_true, if_false]
    by_cases he : r1.exceeded.contains pos = true
    · have he' : pos ∈ r1.exceeded := by simpa using he
      simp [he, he']
    · have he' : ¬ pos ∈ r1.exceeded := by simpa using he
      simp only [he, he', Bool.false_eq_true, if_false, List.contains_eq_mem, decide_false]
      by_cases hf : isFailure h res.outcome = true
      · simp only [hf, if_true]
        cases hd : (Exec.retryOnFailure pos m rl a res.withFailure r1).1.done
        · simp only [Bool.false_eq_true, if_false, Option.isSome_some, if_true]
          by_cases hc2 : ((({ (Exec.retryOnFailure pos m rl a res.withFailure r1).2 with
              last := (Exec.retryOnFailure pos m rl a res.withFailure r1).1.outcome } : Run).emitLast "rp.onRetryScheduled" pos).trigger
                "rp.onRetryScheduled").isCanc = true
          · simp [hc2]
          · simp [hc2]
        · simp
      · simp [hf, PR.withDone]

/-! ## cache layer -/

/-- the cache executor's configuration at a run: the context carries the run's key (a string) or nothing -/
def cacheCfg (r : Run) (key : String) : CCfg := ⟨key, r.ctxKey.map ExecBodies.Raw.str, some (), some (), some ()⟩

theorem getCacheKey_link (r : Run) (key : String) : ExecBodies.getCacheKey (cacheCfg r key) = cacheKeyOf r key := by
  unfold ExecBodies.getCacheKey cacheCfg cacheKeyOf
  cases r.ctxKey <;> rfl

/-- **the model's cache layer is the cache executor's `PreExecute` / `PostExecute`**: a hit is `PreExecute`'s result and nothing
inside runs; on a miss the inner result goes through `PostExecute`, which stores under the same key rule -/
theorem cache_link (fuel pos id : Nat) (key : String) (cif : List Nat) (inner : Layer) (r : Run) :
    applyPolicy fuel pos (.cache id key cif) inner r =
      (let c := cacheCfg r key
       match (ExecBodies.cachePre c ⟨(r.w.caches[id]?).getD [], []⟩).1 with
       | some hit => some (hit, r.emit "ca.onHit" pos)
       | none =>
         match inner (r.emit "ca.onMiss" pos) with
         | none => none
         | some (res, r2) =>
           let post := ExecBodies.cachePost c ⟨(r2.w.caches[id]?).getD [], []⟩ cif.length (cif.any (fun p => predicate p res.outcome)) res
           some (post.1, if post.2.log = [] then r2
                         else ({ r2 with w := { r2.w with caches := r2.w.caches.set id post.2.entries } }).emit "ca.onCache" pos)) := by
  simp only [applyPolicy, ExecBodies.cachePre, ExecBodies.cachePost, getCacheKey_link, ExecBodies.cacheGet, ExecBodies.cacheSet,
    ExecBodies.cOnHit, ExecBodies.cOnMiss, ExecBodies.cOnCache, ExecBodies.CSt.emit, shouldCache]
  generalize cacheKeyOf r key = kk
  by_cases hk : kk = ""
  · subst hk
    cases hi : inner (r.emit "ca.onMiss" pos) with
    | none => simp [cacheCfg]
    | some x => simp [cacheCfg]
  · have hk' : (kk != "") = true := by simpa using hk
    cases hf : List.find? (fun x => x.1 == kk) ((r.w.caches[id]?).getD []) with
    | some kv => obtain ⟨k, v⟩ := kv; simp [hk', hf, cacheCfg]
    | none =>
      cases hi : inner (r.emit "ca.onMiss" pos) with
      | none => simp [hk', hf, cacheCfg]
      | some x =>
        obtain ⟨res, r2⟩ := x
        by_cases hs : ((cif.isEmpty && res.err.isNone) || cif.any (fun p => predicate p res.outcome)) = true
        · have hs' : ((cif.length == 0 && res.err.isNone) || cif.any (fun p => predicate p res.outcome)) = true := by
            have : (cif.length == 0) = cif.isEmpty := by cases cif <;> rfl
            rw [this]; exact hs
          simp [hk', hf, hs, hs', cacheCfg]
        · have hs' : ((cif.length == 0 && res.err.isNone) || cif.any (fun p => predicate p res.outcome)) = false := by
            have : (cif.length == 0) = cif.isEmpty := by cases cif <;> rfl
            rw [this]; exact Bool.eq_false_iff.2 hs
          simp [hk', hf, hs, hs', cacheCfg]

/-! ## fallback layer -/

/-- `BaseExecutor.PostExecute` of a policy whose `OnFailure` returns its argument (fallback, breaker): the result it returns -/
def postOf (h : List Cond) : Unit → PR → PR := fun _ x =>
  (ExecBodies.postExecute (σ := Unit) (fun er => isFailure h er.outcome) (fun s a => (a, s)) (fun s _ => s) () x).1

theorem postOf_eq (h : List Cond) (x : PR) :
    postOf h () x = if isFailure h x.outcome then x.withFailure else x.withDone true true := by
  unfold postOf ExecBodies.postExecute; split <;> rfl

/-- **the model's fallback layer is the fallback executor's `Apply`** around `BaseExecutor.PostExecute`: same result, and the
fallback function and `OnFallbackExecuted` are called exactly when and in the order the code calls them -/
theorem fallback_link (fuel pos : Nat) (k : FbKind) (h : List Cond) (inner : Layer) (r r1 : Run) (res : PR)
    (hin : inner r = some (res, r1)) :
    let fo : Outcome := match k with | .value v => ⟨v, none⟩ | .error e => ⟨0, some e⟩
    let r2 := if isFailure h res.outcome then r1.emitSeen "fb.onFailure" pos (r1.seenBy res.outcome)
              else r1.emitSeen "fb.onSuccess" pos (r1.seenBy res.outcome)
    let kk := ExecBodies.fallbackApply {} res (postOf h) (fun _ => (r2.isCanc, r2.cancelRes)) fo (isFailure h fo) (some ())
    ∃ r3, applyPolicy fuel pos (.fallback k h) inner r = some (kk.1, r3) ∧
      r3.log.map (·.name) = r2.log.map (·.name) ++ kk.2.log.map (fun n => if n = "fn" then "fb.fn" else "fb." ++ n) := by
  simp only [applyPolicy, hin, ExecBodies.fallbackApply, postOf_eq, ExecBodies.fCallFn, ExecBodies.fOnFallbackExecuted, ExecBodies.FSt.emit]
  by_cases hf : isFailure h res.outcome = true
  · simp only [hf, ↓reduceIte, PR.withFailure, Bool.false_eq_true, Option.isSome_some]
    by_cases hc : (r1.emitSeen "fb.onFailure" pos (r1.seenBy res.outcome)).isCanc = true
    · simp only [hc, ↓reduceIte]
      exact ⟨_, rfl, by simp⟩
    · simp only [hc, ↓reduceIte, Bool.false_eq_true]
      refine ⟨_, rfl, ?_⟩
      simp [Run.emitSeen, Run.emit]
  · simp only [hf, ↓reduceIte, Bool.false_eq_true, PR.withDone]
    exact ⟨_, rfl, by simp⟩

/-! ## circuit breaker and rate limiter layers -/

/-- the breaker executor's operations as the composition model defines them (breaker instance `id` with configuration `c`, at
position `pos`; `h`: its handle conditions) -/
def breakerOps (id pos : Nat) (c : Breaker.Cfg) : AdmitOps Run :=
  { tryV := fun r => match r.w.breakers[id]? with | some (c, b) => (Breaker.tryAcquire c b r.w.now).2 | none => false,
    tryS := fun r => match r.w.breakers[id]? with
      | some (c, b) => drainBreaker (updBreaker r id (fun _ _ => (Breaker.tryAcquire c b r.w.now).1)) id pos
      | none => r,
    baseOnSuccess := fun r x => r.emitSeen "cb.onSuccess" pos (r.seenBy x.outcome),
    baseOnFailure := fun r x => r.emitSeen "cb.onFailure" pos (r.seenBy x.outcome),
    recordSuccess := fun r => drainBreaker (updBreaker r id (fun c b => Breaker.record c b r.w.now true false)) id pos,
    recordFailure := fun r _ => drainBreaker (updBreaker r id (fun c b => Breaker.record c b r.w.now false true)) id pos }

/-- **the model's circuit breaker layer is the breaker executor around `BaseExecutor.PostExecute`**: admission (`PreExecute`) before
anything inside runs; then `PostExecute` with the executor's `OnFailure` / `OnSuccess` — listener first, record second -/
theorem breaker_link (fuel pos id : Nat) (h : List Cond) (inner : Layer) (r : Run) (c : Breaker.Cfg) (b : Breaker.B)
    (hb : r.w.breakers[id]? = some (c, b)) :
    applyPolicy fuel pos (.breaker id h) inner r =
      (let ops := breakerOps id pos c
       match ExecBodies.breakerPre ops r with
       | (some rej, r1) => some (rej, r1)
       | (none, r1) =>
         match inner r1 with
         | none => none
         | some (res, r2) =>
           some (ExecBodies.postExecute (fun er => isFailure h er.outcome) (fun s er => ExecBodies.breakerOnFailure ops s er)
                   (fun s er => ExecBodies.breakerOnSuccess ops s er) r2 res)) := by
  simp only [applyPolicy, hb, ExecBodies.breakerPre, breakerOps, ExecBodies.postExecute, ExecBodies.breakerOnFailure,
    ExecBodies.breakerOnSuccess]
  cases hok : (Breaker.tryAcquire c b r.w.now).2
  · simp
  · simp only [Bool.not_true, Bool.false_eq_true, if_false, if_true]
    cases inner (drainBreaker (updBreaker r id fun _ _ => (Breaker.tryAcquire c b r.w.now).1) id pos) with
    | none => rfl
    | some x =>
      obtain ⟨res, r2⟩ := x
      have ho1 : res.withFailure.outcome = res.outcome := rfl
      have ho2 : (res.withDone true true).outcome = res.outcome := rfl
      by_cases hf : isFailure h res.outcome = true <;> simp [hf, ho1, ho2]

/-- the limiter executor's operations in the model (max wait 0: a permit is granted at once or refused) -/
def limiterOps (id pos : Nat) (inner : Layer) (res : PR) (r2 : Run) : LimitOps Run :=
  { acquireV := fun r => match r.w.limiters[id]? with
      | some (c, s) => if (limAcquire c s r.w.now).1 then none else some Err.rate
      | none => some Err.rate,
    acquireS := fun r => match r.w.limiters[id]? with
      | some (c, s) => { r with w := { r.w with limiters := r.w.limiters.set id (c, (limAcquire c s r.w.now).2) } }
      | none => r,
    onExceeded := fun r => r.emit "rl.onRateLimitExceeded" pos,
    innerV := fun _ => res, innerS := fun _ => r2 }

/-- **the model's rate limiter layer is the limiter executor's `Apply`** -/
theorem limiter_link (fuel pos id : Nat) (inner : Layer) (r : Run) (c : LimCfg) (s : LimSt) (hl : r.w.limiters[id]? = some (c, s))
    (res : PR) (r2 : Run)
    (hi : (limAcquire c s r.w.now).1 = true →
      inner { r with w := { r.w with limiters := r.w.limiters.set id (c, (limAcquire c s r.w.now).2) } } = some (res, r2)) :
    applyPolicy fuel pos (.limiter id) inner r = some (ExecBodies.limiterApply (limiterOps id pos inner res r2) r) := by
  simp only [applyPolicy, hl, ExecBodies.limiterApply, limiterOps]
  cases hok : (limAcquire c s r.w.now).1
  · simp [Err.rate, Err.is]
  · simp [hi hok]

end Failsafe.Lemmas.ExecBodiesLink
