import Failsafe.Breaker
/-! `countingStats` (bit ring with head/occupied/running counts) refines "the last `size` results of the history". -/
namespace Failsafe.Breaker

def window (size : Nat) (h : List Bool) : List Bool := h.drop (h.length - size)

structure Rep (r : Ring) (h : List Bool) : Prop where
  len  : r.bits.length = r.size
  pos  : 0 < r.size
  head : r.head = h.length % r.size
  occ  : r.occ = min h.length r.size
  slot : ∀ k, h.length - r.size ≤ k → k < h.length → r.bits.getD (k % r.size) false = h.getD k false
  succ : r.succ = (window r.size h).count true
  fail : r.fail = (window r.size h).count false

theorem rep_new (size : Nat) (h : 0 < size) : Rep (Ring.new size) [] := by
  refine ⟨by simp [Ring.new], h, by simp [Ring.new], by simp [Ring.new], ?_, by simp [Ring.new, window], by simp [Ring.new, window]⟩
  intro k _ hk; simp at hk

theorem mod_inj_window {size k n : Nat} (hk : k < n) (hw : n - k < size) (hm : k % size = n % size) : False := by
  have h0 : (n - k) % size = 0 := Nat.sub_mod_eq_zero_of_mod_eq hm.symm
  have : (n - k) % size = n - k := Nat.mod_eq_of_lt hw
  omega

theorem window_push_lt (size : Nat) (h : List Bool) (v : Bool) (hlt : h.length < size) :
    window size (h ++ [v]) = window size h ++ [v] := by
  unfold window
  have h1 : h.length + 1 - size = 0 := by omega
  have h2 : h.length - size = 0 := by omega
  simp [h1, h2]

theorem window_push_ge (size : Nat) (hs : 0 < size) (h : List Bool) (v : Bool) (hge : size ≤ h.length) :
    window size (h ++ [v]) = (window size h).drop 1 ++ [v] := by
  unfold window
  have h1 : (h ++ [v]).length - size = (h.length - size) + 1 := by simp; omega
  rw [h1, List.drop_drop, List.drop_append_of_le_length (by omega)]

theorem window_head (size : Nat) (h : List Bool) :
    (window size h).head?.getD false = h.getD (h.length - size) false := by
  unfold window
  rw [List.head?_drop]
  simp [List.getD_eq_getElem?_getD]

theorem window_ne_nil (size : Nat) (hs : 0 < size) (h : List Bool) (hge : size ≤ h.length) : window size h ≠ [] := by
  unfold window
  intro hnil
  have := congrArg List.length hnil
  simp at this; omega

theorem count_drop_one (l : List Bool) (b : Bool) (hne : l ≠ []) :
    (l.drop 1).count b + (if l.head?.getD false = b then 1 else 0) = l.count b := by
  cases l with
  | nil => contradiction
  | cons x xs => simp [List.count_cons]; split <;> simp_all

theorem rep_setNext (r : Ring) (h : List Bool) (v : Bool) (hr : Rep r h) : Rep (setNext r v) (h ++ [v]) := by
  obtain ⟨hlen, hpos, hhead, hocc, hslot, hsucc, hfail⟩ := hr
  -- the evicted slot holds the oldest element of the window
  have hold : r.size ≤ h.length → r.bits.getD r.head false = (window r.size h).head?.getD false := by
    intro hge
    rw [window_head, hhead]
    have := hslot (h.length - r.size) (by omega) (by omega)
    rw [← this]
    congr 1
    have : h.length = (h.length - r.size) + r.size := by omega
    conv => lhs; rw [this, Nat.add_mod_right]
  refine ⟨?_, hpos, ?_, ?_, ?_, ?_, ?_⟩
  · simp [setNext, hlen]
  · simp [setNext, hhead, Nat.add_mod]
  · simp only [setNext, hocc]; simp; split <;> omega
  · intro k hk1 hk2
    simp only [setNext] at hk1 ⊢
    simp at hk1 hk2
    by_cases hkl : k = h.length
    · subst hkl
      rw [hhead]
      simp [List.getD_eq_getElem?_getD, hlen, Nat.mod_lt _ hpos]
    · have hk3 : k < h.length := by omega
      have hne : k % r.size ≠ r.head := by
        intro heq; rw [hhead] at heq
        exact mod_inj_window hk3 (by omega) heq
      rw [List.getD_eq_getElem?_getD, List.getElem?_set_ne (Ne.symm hne), ← List.getD_eq_getElem?_getD]
      rw [hslot k (by omega) hk3]
      simp [List.getD_eq_getElem?_getD, List.getElem?_append_left hk3]
  · -- successes
    simp only [setNext]
    by_cases hlt : h.length < r.size
    · have ho : r.occ < r.size := by rw [hocc]; omega
      rw [window_push_lt _ _ _ hlt]
      simp only [ho, if_true, hsucc, List.count_append]
      cases v <;> simp
    · have hge : r.size ≤ h.length := by omega
      have ho : ¬ r.occ < r.size := by rw [hocc]; omega
      rw [window_push_ge _ hpos _ _ hge]
      have hc := count_drop_one (window r.size h) true (window_ne_nil _ hpos _ hge)
      rw [← hold hge] at hc
      simp only [ho, if_false, hsucc, List.count_append]
      cases hb : r.bits.getD r.head false <;> cases v <;> simp_all <;> omega
  · -- failures
    simp only [setNext]
    by_cases hlt : h.length < r.size
    · have ho : r.occ < r.size := by rw [hocc]; omega
      rw [window_push_lt _ _ _ hlt]
      simp only [ho, if_true, hfail, List.count_append]
      cases v <;> simp
    · have hge : r.size ≤ h.length := by omega
      have ho : ¬ r.occ < r.size := by rw [hocc]; omega
      rw [window_push_ge _ hpos _ _ hge]
      have hc := count_drop_one (window r.size h) false (window_ne_nil _ hpos _ hge)
      rw [← hold hge] at hc
      simp only [ho, if_false, hfail, List.count_append]
      cases hb : r.bits.getD r.head false <;> cases v <;> simp_all <;> omega

/-- for every capacity and every history -/
theorem ring_refines_lastN (cap : Nat) (hcap : 0 < cap) (h : List Bool) :
    Rep (h.foldl setNext (Ring.new cap)) h := by
  suffices ∀ (pre : List Bool) (r : Ring), Rep r pre → Rep (h.foldl setNext r) (pre ++ h) by
    simpa using this [] (Ring.new cap) (rep_new cap hcap)
  induction h with
  | nil => intro pre r hr; simpa using hr
  | cons v vs ih =>
    intro pre r hr
    have := ih (pre ++ [v]) (setNext r v) (rep_setNext r pre v hr)
    simpa using this

end Failsafe.Breaker
