import Failsafe.Basic
/-!
# Failure classification (policy/policy.go: BaseFailurePolicy, BaseAbortablePolicy)

Registrations are a list of conditions in registration order; `build` is the fold the builder performs (append the closure;
the three error-inspecting kinds set `errorsChecked`). `resultIgnoresErr` is a *source fact*: does a result condition also
match outcomes carrying an error? (`false` on the repaired tree; `true` is defect D2.)
-/
namespace Failsafe.Classify
open Failsafe

/-- user predicates used by the harness, by id -/
def predicate (id : Nat) (o : Outcome) : Bool :=
  match id with
  | 0 => o.val == 1                         -- inspects the result only
  | 1 => o.err.isSome && o.val == 0         -- inspects both
  | 2 => match o.err with | some e => e.is 1 | none => false
  | _ => false

inductive Cond
  | errIs (target : Nat)       -- HandleErrors / AbortOnErrors / CancelOnErrors
  | errType (ty : Nat)         -- HandleErrorTypes / …
  | result (v : Int)           -- HandleResult / AbortOnResult / CancelOnResult
  | pred (id : Nat)            -- HandleIf / AbortIf / CancelIf
deriving DecidableEq, Repr

def Cond.inspectsErrors : Cond → Bool
  | .errIs _ | .errType _ | .pred _ => true
  | .result _ => false

/-- what one registered closure computes -/
def Cond.eval (resultIgnoresErr : Bool) (c : Cond) (o : Outcome) : Bool :=
  match c with
  | .errIs t => match o.err with | some e => e.is t | none => false
  | .errType ty => match o.err with | some e => e.typeMatch ty | none => false
  | .result v => (resultIgnoresErr || o.err.isNone) && o.val == v
  | .pred id => predicate id o

/-- the failure policy a builder accumulates -/
structure Built where
  conds : List Cond
  errorsChecked : Bool
deriving Repr

def register (b : Built) (c : Cond) : Built :=
  { conds := b.conds ++ [c], errorsChecked := b.errorsChecked || c.inspectsErrors }

def build (regs : List Cond) : Built := regs.foldl register ⟨[], false⟩

/-- one builder call: a condition, or `HandleErrors()` / `HandleErrorTypes()` handed an **empty** list of targets — that adds no
condition but still marks errors as inspected (the flag is set outside the loop over the targets) -/
inductive Reg
  | cond (c : Cond)
  | noTargets
deriving DecidableEq, Repr

def registerR (b : Built) : Reg → Built
  | .cond c => register b c
  | .noTargets => { b with errorsChecked := true }

def buildR (regs : List Reg) : Built := regs.foldl registerR ⟨[], false⟩

/-- `BaseFailurePolicy.IsFailure` -/
def isFailureB (rie : Bool) (b : Built) (o : Outcome) : Bool :=
  if b.conds.length = 0 then o.err.isSome
  else if b.conds.any (fun c => c.eval rie o) then true
  else o.err.isSome && !b.errorsChecked

/-- classification by a registration list on the repaired source -/
def isFailure (regs : List Cond) (o : Outcome) : Bool := isFailureB false (build regs) o

/-- classification by a list of builder calls, empty target lists included -/
def isFailureR (regs : List Reg) (o : Outcome) : Bool := isFailureB false (buildR regs) o

/-- `BaseAbortablePolicy.IsAbortable` (retry abort conditions, hedge cancel conditions) -/
def isAbortable (regs : List Cond) (o : Outcome) : Bool := regs.any (fun c => c.eval false o)

/-- hedge: with no cancel condition configured the builder installs "always" -/
def isCancellable (regs : List Cond) (o : Outcome) : Bool := if regs.isEmpty then true else isAbortable regs o

end Failsafe.Classify
