/-!
# HTTP / gRPC adapters (failsafehttp, failsafegrpc, internal/util.MergeContexts)

* what the retry predicates and the Retry-After delay function inspect (`HErr`, `Resp`, `RA`, `GErr`) and the hand-written
  models of `retryHandleFunc`, `DelayFunc` and the gRPC predicate — tied to the regenerated kernels in `Tie/Adapters.lean`;
* the context algebra of `MergeContexts`;
* the request-body replay function of `bodyReader` over an explicit underlying reader (so that sharing is visible);
* the attempt loop of the HTTP retry policy over a server script.
-/
namespace Failsafe.Adapters

/-! ## what the predicates inspect -/

/-- features of an error that `retryHandleFunc` and the abort condition inspect -/
structure HErr where
  unsupportedScheme : Bool      -- text matches `unsupported protocol scheme`
  isUrlError : Bool             -- dynamic type `*url.Error`
  certNotTrusted : Bool         -- the url error's text matches `certificate is not trusted`
  stoppedAfterRedirects : Bool  -- the url error's text matches `stopped after \d+ redirects\z`
  unknownAuthority : Bool       -- the url error wraps `x509.UnknownAuthorityError`
  isCanceled : Bool             -- `errors.Is(err, context.Canceled)`
  isDeadline : Bool := false    -- `errors.Is(err, context.DeadlineExceeded)` (net/http's own time-outs report this): not an abort condition
deriving Repr, DecidableEq, Inhabited

/-- the `Retry-After` header as `DelayFunc` sees it -/
inductive RA
  | absent
  | int (n : Int)      -- `strconv.Atoi` succeeds
  | unparsable
deriving Repr, DecidableEq, Inhabited

structure Resp where
  status : Int
  ra : RA
deriving Repr, DecidableEq, Inhabited

/-- a gRPC error: a status error with a code, or a plain error -/
inductive GErr
  | status (code : Nat)
  | plain
deriving Repr, DecidableEq, Inhabited

/-! accessors used by the regenerated kernels (each use is guarded by the nil / ok check the source performs) -/
def statusOf : Option Resp → Int | some r => r.status | none => 0
def errOf : Option HErr → HErr | some e => e | none => default
def raOf : Option Resp → RA | some r => r.ra | none => .absent
def raPresent (r : Option Resp) : Bool := raOf r != .absent
def raInt : RA → Int | .int n => n | _ => 0
def raErr : RA → Option Unit | .int _ => none | _ => some ()
def gIsStatus : Option GErr → Bool | some (.status _) => true | _ => false
def gCode : Option GErr → Nat | some (.status c) => c | _ => 2   -- `codes.Unknown` for non-status errors

/-! ## models of the three predicates -/

def retryableStatus (s : Int) : Bool := s == 429 || (decide (s ≥ 500) && s != 501)

def retryableError (e : HErr) : Bool :=
  !e.unsupportedScheme && !(e.isUrlError && (e.certNotTrusted || e.stoppedAfterRedirects || e.unknownAuthority))

/-- `retryHandleFunc(resp, err)` -/
def retryHandle (resp : Option Resp) (err : Option HErr) : Bool :=
  match err with
  | some e => retryableError e
  | none => match resp with
    | some r => retryableStatus r.status
    | none => false

/-- `DelayFunc`: the Retry-After seconds as nanoseconds for a 429 / 503 carrying an integer header, else -1 -/
def delayFn (resp : Option Resp) : Int :=
  match resp with
  | some r => if r.status == 429 || r.status == 503 then (match r.ra with | .int n => 1000000000 * n | _ => -1) else -1
  | none => -1

/-- the gRPC retry predicate over the extracted code table -/
def grpcHandle (table : List Nat) (err : Option GErr) : Bool :=
  match err with
  | some (.status c) => table.contains c
  | _ => false

/-! ## contexts -/

/-- a context: its values (first binding wins), deadline, and the cancellation sources that make it done.
    `isBg` = it is the identical `context.Background()` value. -/
structure Ctx where
  isBg : Bool := false
  vals : List (Nat × Nat) := []
  deadline : Option Int := none
  srcs : List Nat := []
deriving Repr, DecidableEq

def Ctx.bg : Ctx := { isBg := true }
def Ctx.WF (c : Ctx) : Prop := c.isBg = true → c.vals = [] ∧ c.deadline = none ∧ c.srcs = []
def Ctx.lookup (c : Ctx) (k : Nat) : Option Nat := (c.vals.find? (·.1 == k)).map (·.2)
/-- done once any of its sources has fired -/
def Ctx.done (c : Ctx) (fired : Nat → Bool) : Bool := c.srcs.any fired

/-- `util.MergeContexts(ctx1, ctx2)`; `own` is the cancellation source of the returned cancel function -/
def merge (a b : Ctx) (own : Nat) : Ctx :=
  if a.isBg then b
  else if b.isBg then a
  else { isBg := false, vals := a.vals, deadline := a.deadline, srcs := a.srcs ++ b.srcs ++ [own] }

/-! ## request bodies -/

/-- the body kinds `bodyReader` distinguishes (`http.Request.Body` can only hold the last three and `none`) -/
inductive BodyKind
  | none | buffer | bytesReader | seekable | plain
deriving Repr, DecidableEq

/-- the caller's underlying reader: immutable content and a read position -/
structure Src where
  content : List Nat
  pos : Nat
deriving Repr, DecidableEq

def Src.rest (s : Src) : List Nat := s.content.drop s.pos

/-- what `bodyReader` captures before the first attempt: a private buffer, or (seekable) the start offset -/
inductive Captured
  | nothing
  | buffered (bytes : List Nat)
  | seek (start : Nat)
deriving Repr, DecidableEq

/-- `bodyReader(request.Body)`: returns the capture and the caller's reader afterwards (buffering consumes it) -/
def capture (k : BodyKind) (s : Src) : Captured × Src :=
  match k with
  | .none => (.nothing, s)
  | .buffer => (.buffered s.rest, s)                                -- `body.Bytes()` does not consume
  | .bytesReader | .plain => (.buffered s.rest, { s with pos := s.content.length })   -- `io.ReadAll`
  | .seekable => (.seek s.pos, s)

/-- one sequential attempt reads its whole body: what it reads and the caller's reader afterwards -/
def attemptRead (c : Captured) (s : Src) : List Nat × Src :=
  match c with
  | .nothing => ([], s)
  | .buffered bytes => (bytes, s)
  | .seek start => (s.content.drop start, { s with pos := s.content.length })

/-- `n` sequential attempts -/
def attemptsRead (c : Captured) : Nat → Src → List (List Nat)
  | 0, _ => []
  | n + 1, s => let (b, s') := attemptRead c s; b :: attemptsRead c n s'

/-! concurrent attempts (hedging): reads are chunked, and seekable attempts share the caller's reader -/
inductive RAct
  | start (att : Nat)          -- the attempt obtains its body (seekable: seeks the shared reader)
  | read (att : Nat) (n : Nat) -- the attempt reads up to `n` bytes
deriving Repr, DecidableEq

structure ConcSt where
  shared : Src
  priv : List (Nat × Nat)          -- per attempt: private position in the buffered bytes
  got : List (Nat × List Nat)      -- per attempt: bytes read so far
deriving Repr, DecidableEq

def getD (l : List (Nat × α)) (k : Nat) (d : α) : α := ((l.find? (·.1 == k)).map (·.2)).getD d
def setKV (l : List (Nat × α)) (k : Nat) (v : α) : List (Nat × α) := (k, v) :: l.filter (·.1 != k)

def concStep (c : Captured) (st : ConcSt) : RAct → ConcSt
  | .start a => match c with
    | .seek start => { st with shared := { st.shared with pos := start }, got := setKV st.got a [] }
    | _ => { st with priv := setKV st.priv a 0, got := setKV st.got a [] }
  | .read a n => match c with
    | .seek _ =>
      let chunk := (st.shared.content.drop st.shared.pos).take n
      { st with shared := { st.shared with pos := st.shared.pos + chunk.length }, got := setKV st.got a (getD st.got a [] ++ chunk) }
    | .buffered bytes =>
      let p := getD st.priv a 0
      let chunk := (bytes.drop p).take n
      { st with priv := setKV st.priv a (p + chunk.length), got := setKV st.got a (getD st.got a [] ++ chunk) }
    | .nothing => st

/-! ## the attempt loop of the HTTP retry policy over a server script -/

/-- what one attempt hands back to the executor -/
inductive Att
  | resp (r : Resp)
  | err (e : HErr)
deriving Repr, DecidableEq, Inhabited

def Att.retryable : Att → Bool
  | .resp r => retryHandle (some r) none
  | .err e => retryHandle none (some e)
/-- `AbortOnErrors(context.Canceled)` -/
def Att.aborts : Att → Bool
  | .resp _ => false
  | .err e => e.isCanceled

inductive Final (α : Type)
  | returned (a : α)     -- the attempt's own (result, error)
  | exceeded (a : α)     -- (zero, ExceededError{last result, last error})
deriving Repr, DecidableEq

def Final.att {α : Type} : Final α → α | .returned a => a | .exceeded a => a

/-- retry loop of a retry policy whose failure condition is `retryable` and abort condition `aborts`, with `budget`
    retries left, at attempt index `i`: (number of attempts made, final result) -/
def retryLoop {α : Type} (retryable aborts : α → Bool) (script : Nat → α) (rlf : Bool) : (budget : Nat) → (i : Nat) → Nat × Final α
  | b, i =>
    let a := script i
    if !retryable a then (i + 1, .returned a)
    else match b with
      | 0 => (i + 1, if rlf then .returned a else .exceeded a)
      | b + 1 => if aborts a then (i + 1, .returned a) else retryLoop retryable aborts script rlf b (i + 1)

/-- the HTTP retry policy (`failsafehttp.RetryPolicyBuilder`) over a server script -/
def retryRun (script : Nat → Att) (rlf : Bool) (budget i : Nat) : Nat × Final Att :=
  retryLoop Att.retryable Att.aborts script rlf budget i

/-- the gRPC retry policy (`failsafegrpc.RetryPolicyBuilder`) over a script of call outcomes (`none` = success) -/
def grpcRun (table : List Nat) (script : Nat → Option GErr) (budget : Nat) : Nat × Final (Option GErr) :=
  retryLoop (grpcHandle table) (fun _ => false) script false budget 0

/-- the delay the policy schedules after attempt `a` (default builder: delay function, else no delay) -/
def scheduledDelay (a : Att) : Int :=
  match a with
  | .resp r => let d := delayFn (some r); if d != -1 then d else 0
  | .err _ => 0

end Failsafe.Adapters
