import Failsafe.Classify
/-! Vocabulary of the regenerated classification kernels. -/
namespace Failsafe.ClassifyKernels
open Failsafe Failsafe.Classify

/-- `util.AppliesToAny(conditions, result, err)` over the registered closures -/
def appliesToAny (cs : List Cond) (v : Int) (e : Option Err) : Bool := cs.any (fun c => c.eval false ⟨v, e⟩)
/-- `reflect.DeepEqual` on results -/
def valEq (a b : Int) : Bool := a == b
/-- `errors.Is(err, target)`; false for a nil error -/
def errIsOpt (e : Option Err) (t : Nat) : Bool := match e with | some e => e.is t | none => false
/-- `util.ErrorTypesMatch(err, target)`; false for a nil error -/
def typeMatchOpt (e : Option Err) (t : Nat) : Bool := match e with | some e => e.typeMatch t | none => false

end Failsafe.ClassifyKernels
