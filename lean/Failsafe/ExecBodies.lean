import Failsafe.Basic
/-!
# Vocabulary and reference definitions for the regenerated *bodies* of the execution and of the policy executors

The GEN translator turns the Go bodies of `execution.go`'s mutex-protected methods and of the executors' decision code
(`retrypolicy.executor.OnFailure`, `policy.BaseExecutor.PostExecute`, the cache executor's `PreExecute` / `PostExecute` /
`getCacheKey`, the fallback executor's `Apply`, the bulkhead and breaker executors' `PreExecute`) into Lean definitions over
the state records below (`Generated/ExecBodies.lean`, regenerated on every check). `Tie/ExecBodies.lean` proves each of them
equal to the reference definition in this file; `Lemmas/ExecBodiesLink.lean` proves that the composition model `Exec.lean`
computes exactly these reference definitions at the places where it transcribes the code.

Effects that are not values (listener calls, cache reads and writes, the breaker's record, the semaphore) are an ordered
log of names in the state: the *order* of effects is part of what is tied.
-/
namespace Failsafe.ExecBodies
open Failsafe

/-! ## execution.go -/

/-- what the mutex-protected methods of `execution` read and write. The counters and the cancel cell are shared by all copies
of one execution, `lastVal` / `lastErr` / `ctxErr` / `cancelFunc` / `isHedge` belong to the copy. -/
structure XSt where
  attempts : Nat := 1
  retries : Nat := 0
  hedges : Nat := 0
  executions : Nat := 0
  lastVal : Int := 0
  lastErr : Option Err := none
  cell : Option PR := none            -- `*e.canceledResult`
  ctxErr : Option Err := none         -- `e.ctx.Err()`
  cancelFunc : Option Unit := none    -- `e.cancelFunc` (nil for an execution without a cancellable context of its own)
  cancelCalls : Nat := 0              -- calls of `e.cancelFunc` made so far
  stamps : Nat := 0                   -- assignments `attemptStartTime = time.Now()`
  isHedge : Bool := false
deriving Repr, DecidableEq

/-- `newExecution` -/
def XSt.new : XSt := {}

def PR.zero : PR := ⟨0, none, false, false, false⟩

def optVal (r : Option PR) : Int := (r.map (·.val)).getD 0
def optErr (r : Option PR) : Option Err := r.bind (·.err)

def addAttempts (s : XSt) (n : Nat) : XSt := { s with attempts := s.attempts + n }
def addRetries (s : XSt) (n : Nat) : XSt := { s with retries := s.retries + n }
def addHedges (s : XSt) (n : Nat) : XSt := { s with hedges := s.hedges + n }
def addExecutions (s : XSt) (n : Nat) : XSt := { s with executions := s.executions + n }
/-- calling the cancel function of a context: the context's error becomes `context.Canceled` unless it already had one -/
def callCancelFunc (s : XSt) : XSt :=
  { s with cancelCalls := s.cancelCalls + 1, ctxErr := match s.ctxErr with | some e => some e | none => some Err.canceled }

/-- `isCanceledWithResult` -/
def isCanc (s : XSt) : Bool × Option PR :=
  match s.ctxErr with
  | none => (false, none)
  | some e => (true, match s.cell with | none => some ⟨0, some e, true, false, false⟩ | some r => some r)

/-- `RecordResult` -/
def recordResult (s : XSt) (result : Option PR) : Option PR × XSt :=
  if (isCanc s).1 then ((isCanc s).2, s)
  else match result with
    | none => (none, s)
    | some r => (none, { s with lastVal := r.val, lastErr := r.err })

/-- `InitializeRetry` -/
def initializeRetry (s : XSt) : Option PR × XSt :=
  if (isCanc s).1 then ((isCanc s).2, s)
  else
    let a := s.attempts + 1
    (none, { s with attempts := a, retries := if a > 1 then s.retries + 1 else s.retries, stamps := s.stamps + 1, cell := none })

/-- `Cancel` -/
def cancel (s : XSt) (result : Option PR) : XSt :=
  if (isCanc s).1 then s
  else
    let s := { s with cell := result }
    let s := match result with | none => s | some r => { s with lastVal := r.val, lastErr := r.err }
    match s.cancelFunc with | none => s | some _ => callCancelFunc s

/-- `CopyForHedge` (the context of the copy is a child of the parent's: not part of this record) -/
def copyForHedge (s : XSt) : XSt := { s with isHedge := true, attempts := s.attempts + 1, hedges := s.hedges + 1 }

/-- `record` -/
def record (s : XSt) : XSt := { s with executions := s.executions + 1 }

/-- `LastError` -/
def lastError (s : XSt) : Option Err :=
  if s.lastErr.isNone && s.ctxErr.isSome then s.ctxErr else s.lastErr

/-- `IsCanceled`: the execution's own context is done — nothing else (in particular not the shared cancel cell: a Timeout that fired
for one attempt leaves a result there that says nothing about a sibling attempt's context) -/
def isCanceledFlag (s : XSt) : Bool := s.ctxErr.isSome
/-- `IsHedge`, `LastResult` -/
def isHedgeFlag (s : XSt) : Bool := s.isHedge
def lastResult (s : XSt) : Int := s.lastVal

/-- `CopyWithResult` -/
def copyWithResult (s : XSt) (result : Option PR) : XSt :=
  match result with | none => s | some r => { s with lastVal := r.val, lastErr := r.err }

/-! ## retrypolicy.executor.OnFailure -/

structure RCfg where
  maxRetries : Int
  maxDuration : Int
  returnLastFailure : Bool
  onAbort : Option Unit := some ()               -- listeners registered?
  onRetriesExceeded : Option Unit := some ()
deriving Repr

/-- the retry executor's per-execution state plus the ordered log of listener calls -/
structure RSt where
  failed : Int := 0
  exceeded : Bool := false
  log : List String := []
deriving Repr, DecidableEq

def RSt.emit (s : RSt) (n : String) : RSt := { s with log := s.log ++ [n] }
def rBaseOnFailure (s : RSt) : RSt := s.emit "onFailure"
def rOnAbort (s : RSt) : RSt := s.emit "onAbort"
def rOnRetriesExceeded (s : RSt) : RSt := s.emit "onRetriesExceeded"
/-- `config.allowsRetries` -/
def allowsRetries (c : RCfg) : Bool := c.maxRetries == -1 || decide (c.maxRetries > 0)
/-- `internal.FailureResult(ExceededError{LastResult, LastError})` -/
def exceededResult (r : PR) : PR :=
  failureResult (match r.err with | some e => .exceededE r.val e | none => .exceededV r.val)

/-- `maxRetriesExceeded || maxDurationExceeded` -/
def retryExceeded (c : RCfg) (failed elapsed : Int) : Bool :=
  (c.maxRetries != -1 && decide (failed > c.maxRetries)) || (c.maxDuration != 0 && decide (elapsed > c.maxDuration))

/-- reference definition of the retry decision -/
def retryOnFailure (c : RCfg) (s : RSt) (elapsed : Int) (abortable : Bool) (result : PR) : PR × RSt :=
  let s := rBaseOnFailure s
  let failed := s.failed + 1
  let exc : Bool := retryExceeded c failed elapsed
  let s := { s with failed := failed, exceeded := exc }
  let shouldRetry := !abortable && !exc && allowsRetries c
  let done := abortable || !shouldRetry
  let s := if abortable && c.onAbort.isSome then rOnAbort s else s
  let s := if exc && !abortable && c.onRetriesExceeded.isSome then rOnRetriesExceeded s else s
  if exc && !c.returnLastFailure then (exceededResult result, s) else (result.withDone done false, s)

/-! ## retrypolicy.executor.Apply: one iteration of the retry loop

What the loop does with its execution and its executor is abstract here (`LoopOps`): the composition model instantiates these
operations with its own definitions (`Lemmas/ExecBodiesLink.retryLoop_link`), and the regenerated loop body is proved equal to
`retryIter` for **every** instantiation — so the *order* of the steps (inner call, cancellation check, exhausted pass-through,
`PostExecute`, `Done` check, `RecordResult`, delay, `OnRetryScheduled`, the wait, `InitializeRetry`, `OnRetry`) and which of them can end
the loop is what the source says now. `none` = go round again. -/

structure LoopOps (σ : Type) where
  innerV : σ → PR                       -- `innerFn(exec)`: the result …
  innerS : σ → σ                        -- … and what running everything inside does to the state
  isCanc : σ → Bool × PR                -- `IsCanceledWithResult`
  exceeded : σ → Bool                   -- `e.retriesExceeded`
  postV : σ → PR → PR                   -- `e.PostExecute(result)` (classification, `OnFailure` decision or `OnSuccess`)
  postS : σ → PR → σ
  recordV : σ → PR → Option PR          -- `RecordResult(result)`: a cancel result, or nil
  recordS : σ → PR → σ
  delayV : σ → PR → Int                 -- `e.getDelay`
  delayS : σ → PR → σ
  hasOnRetryScheduled : Option Unit := some ()
  onRetryScheduled : σ → PR → Int → σ
  wait : σ → Int → σ                    -- the timer / cancellation select
  initV : σ → Option PR                 -- `InitializeRetry()`
  initS : σ → σ
  hasOnRetry : Option Unit := some ()
  onRetry : σ → PR → σ

/-- reference definition of one iteration -/
def retryIter {σ : Type} (ops : LoopOps σ) (s0 : σ) : Option PR × σ :=
  let res := ops.innerV s0
  let s := ops.innerS s0
  if (ops.isCanc s).1 then (some (ops.isCanc s).2, s)
  else if ops.exceeded s then (some res, s)
  else
    let res2 := ops.postV s res
    let s := ops.postS s res
    if res2.done then (some res2, s)
    else
      match ops.recordV s res2 with
      | some c => (some c, ops.recordS s res2)
      | none =>
        let s := ops.recordS s res2
        let d := ops.delayV s res2
        let s := ops.delayS s res2
        let s := if ops.hasOnRetryScheduled.isSome then ops.onRetryScheduled s res2 d else s
        let s := ops.wait s d
        match ops.initV s with
        | some c => (some c, ops.initS s)
        | none =>
          let s := ops.initS s
          (none, if ops.hasOnRetry.isSome then ops.onRetry s res2 else s)

/-! ## policy.BaseExecutor.PostExecute -/

/-- reference definition: a failure is marked (`WithFailure`) *before* `OnFailure` sees it and what `OnFailure` returns is the
result; a success is marked `WithDone(true, true)` *before* `OnSuccess` sees it -/
def postExecute {σ : Type} (isFailure : PR → Bool) (onFailure : σ → PR → PR × σ) (onSuccess : σ → PR → σ) (s : σ) (er : PR) : PR × σ :=
  if isFailure er then onFailure s er.withFailure else (er.withDone true true, onSuccess s (er.withDone true true))

/-! ## cachepolicy.executor -/

structure CSt where
  entries : List (String × Int) := []
  log : List String := []
deriving Repr, DecidableEq

/-- what `ctx.Value(CacheKey)` may hold -/
inductive Raw | str (s : String) | other
deriving Repr, DecidableEq
def rawStr : Option Raw → String | some (.str s) => s | _ => ""
def rawIsStr : Option Raw → Bool | some (.str _) => true | _ => false

structure CCfg where
  key : String
  ctxRaw : Option Raw             -- `ctx.Value(CacheKey)`
  onHit : Option Unit := some ()
  onMiss : Option Unit := some ()
  onCache : Option Unit := some ()
deriving Repr

def CSt.emit (s : CSt) (n : String) : CSt := { s with log := s.log ++ [n] }
def cOnHit (s : CSt) : CSt := s.emit "onHit"
def cOnMiss (s : CSt) : CSt := s.emit "onMiss"
def cOnCache (s : CSt) : CSt := s.emit "onCache"
def cacheGet (s : CSt) (k : String) : Option Int := (s.entries.find? (·.1 == k)).map (·.2)
def cacheSet (s : CSt) (k : String) (v : Int) : CSt := { s with entries := (k, v) :: s.entries.filter (·.1 != k) }

/-- `getCacheKey`: a string under `CacheKey` in the context wins, even when empty -/
def getCacheKey (c : CCfg) : String := match c.ctxRaw with | some (.str k) => k | _ => c.key
def optInt (o : Option Int) : Int := o.getD 0

/-- `PreExecute`: `some result` = the hit that short-circuits everything inside -/
def cachePre (c : CCfg) (s : CSt) : Option PR × CSt :=
  let k := getCacheKey c
  match (if k != "" then cacheGet s k else none) with
  | some v => (some ⟨v, none, true, true, true⟩, if c.onHit.isSome then cOnHit s else s)
  | none => (none, if c.onMiss.isSome then cOnMiss s else s)

/-- `PostExecute` -/
def cachePost (c : CCfg) (s : CSt) (condCount : Nat) (condsApply : Bool) (er : PR) : PR × CSt :=
  let should := (condCount == 0 && er.err.isNone) || condsApply
  if should && getCacheKey c != "" then
    let s := cacheSet s (getCacheKey c) er.val
    (er, if c.onCache.isSome then cOnCache s else s)
  else (er, s)

/-! ## fallback.executor.Apply (after the inner call) -/

structure FSt where
  fnCalled : Bool := false
  log : List String := []
deriving Repr, DecidableEq
def FSt.emit (s : FSt) (n : String) : FSt := { s with log := s.log ++ [n] }
def fCallFn (s : FSt) : FSt := { s.emit "fn" with fnCalled := true }
def fOnFallbackExecuted (s : FSt) : FSt := s.emit "onFallbackExecuted"

/-- reference definition: `inner` is what the layer inside returned, `post` the executor's `PostExecute`; `canc b` is the answer of
`IsCanceledWithResult` (`b`: the fallback function has been called); `fo` is the function's output and
`foFails` its classification by the policy's own conditions -/
def fallbackApply (s : FSt) (inner : PR) (post : Unit → PR → PR) (canc : Bool → Bool × PR) (fo : Outcome) (foFails : Bool)
    (onExecuted : Option Unit) : PR × FSt :=
  let result := post () inner
  if result.success then (result, s)
  else if (canc s.fnCalled).1 then ((canc s.fnCalled).2, s)
  else
    let s := fCallFn s
    if (canc true).1 then ((canc true).2, s)
    else
      let s := if onExecuted.isSome then fOnFallbackExecuted s else s
      (⟨fo.val, fo.err, true, !foFails, !foFails⟩, s)

/-! ## bulkhead.executor.PreExecute -/

structure BSt where
  log : List String := []
deriving Repr, DecidableEq
def bOnFull (s : BSt) : BSt := { s with log := s.log ++ ["onFull"] }
def errIsFull (e : Option Err) (_ : Unit) : Bool := match e with | some e => e.is Err.FULL | none => false
def failOpt (e : Option Err) : Option PR := e.map failureResult

/-- reference definition: `acq` is what `AcquirePermitWithMaxWait` returned; a wait that ended with anything but `ErrFull`
reports what the execution was cancelled with (D12) -/
def bulkheadPre (s : BSt) (acq : Option Err) (canc : Bool × Option PR) (onFull : Option Unit) : Option PR × BSt :=
  match acq with
  | none => (none, s)
  | some e =>
    let s := if onFull.isSome && e.is Err.FULL then bOnFull s else s
    if !e.is Err.FULL && canc.1 then (canc.2, s) else (some (failureResult e), s)

/-! ## circuitbreaker.executor and ratelimiter.executor

The breaker itself and the limiter itself are the models of `Breaker.lean` / `Limiter.lean` (tied kernel by kernel); what is tied
here is how the *executors* use them: admission before anything inside runs, the policy listener before the record (so that the
state-change events a record causes come after `OnSuccess` / `OnFailure`), the result handed on unchanged. -/

structure AdmitOps (σ : Type) where
  tryV : σ → Bool                 -- `TryAcquirePermit()`
  tryS : σ → σ
  baseOnSuccess : σ → PR → σ      -- `BaseExecutor.OnSuccess`: the policy's `OnSuccess` listener
  baseOnFailure : σ → PR → σ
  recordSuccess : σ → σ
  recordFailure : σ → PR → σ      -- `recordFailure(exec.CopyWithResult(result))`

def breakerPre {σ : Type} (ops : AdmitOps σ) (s : σ) : Option PR × σ :=
  if ops.tryV s then (none, ops.tryS s) else (some (failureResult Err.opened), ops.tryS s)
def breakerOnSuccess {σ : Type} (ops : AdmitOps σ) (s : σ) (result : PR) : σ := ops.recordSuccess (ops.baseOnSuccess s result)
def breakerOnFailure {σ : Type} (ops : AdmitOps σ) (s : σ) (result : PR) : PR × σ :=
  (result, ops.recordFailure (ops.baseOnFailure s result) result)

/-- the breaker's own `recordResult` / `recordSuccess` / `recordFailure` (circuitbreaker.go): classify, then record into the
current state's statistics, then check the thresholds (`viaExec`: whether an execution is handed to the check — only then a
delay function is consulted when the breaker opens) -/
structure BrkOps (σ : Type) where
  statsRecord : σ → Bool → σ          -- `cb.state.recordSuccess()` / `recordFailure()`
  check : σ → Bool → σ                -- `cb.state.checkThresholdAndReleasePermit(exec)`

def brkRecordSuccess {σ : Type} (ops : BrkOps σ) (s : σ) : σ := ops.check (ops.statsRecord s true) false
def brkRecordFailure {σ : Type} (ops : BrkOps σ) (s : σ) (viaExec : Bool) : σ := ops.check (ops.statsRecord s false) viaExec
def brkRecordResult {σ : Type} (ops : BrkOps σ) (s : σ) (isFailure : Bool) : σ :=
  if isFailure then brkRecordFailure ops s false else brkRecordSuccess ops s

/-- `policy.BaseDelayablePolicy.ComputeDelay`: the delay function's answer when there is an execution and a function, else `-1`
("no delay computed"; a function may also answer `-1` itself to decline — the caller then falls back to the configured delay) -/
def computeDelay (exec : Option Unit) (fn : Option Int) : Int :=
  match exec, fn with | some _, some d => d | _, _ => -1
def optIntVal (o : Option Int) : Int := o.getD 0

structure LimitOps (σ : Type) where
  acquireV : σ → Option Err       -- `acquirePermitsWithMaxWait`: nil, `ErrExceeded`, or what the cancelled wait reports
  acquireS : σ → σ
  onExceeded : σ → σ
  hasOnExceeded : Option Unit := some ()
  innerV : σ → PR                 -- `innerFn(exec)`
  innerS : σ → σ

def errIsRate (e : Option Err) (_ : Unit) : Bool := match e with | some e => e.is Err.RATE | none => false

/-- `ratelimiter.executor.Apply`: what is inside runs only after a permit was granted; a refusal fires the listener -/
def limiterApply {σ : Type} (ops : LimitOps σ) (s : σ) : PR × σ :=
  match ops.acquireV s with
  | none => (ops.innerV (ops.acquireS s), ops.innerS (ops.acquireS s))
  | some e =>
    let s := ops.acquireS s
    (failureResult e, if ops.hasOnExceeded.isSome && e.is Err.RATE then ops.onExceeded s else s)
def failE (e : Option Err) : PR := match e with | some e => failureResult e | none => failureResult Err.rate

end Failsafe.ExecBodies
