import Failsafe.Basic
import Failsafe.Classify
import Failsafe.Breaker
import Failsafe.Limiter
/-!
# Sequential composition semantics of the eight policies (executor.go and the policy executors)

`Layer := Run → Option (PR × Run)`: a layer maps the run state before to the policy result and the run state after;
`none` is divergence (a wrapped function that blocks until cancelled with nothing that will ever cancel it, or fuel
exhausted in an unlimited retry loop) — never a default value.

`Run` holds the *world* (the stateful policy instances addressed by id, so one instance may occur at several positions or
in several executions), the per-execution counters, the per-position retry executor state, the remaining script of function
outcomes, the cancel scope and the ordered event log with the statistics sampled at each event.

Each `applyPolicy` case transcribes the executor's `Apply` / `PreExecute` / `PostExecute` / `OnSuccess` / `OnFailure`
(FACTS pins the order of effects). Timeout and hedge are modelled for deterministic timed scripts: an outcome is either
instant (completes long before any timer) or blocks until its execution is cancelled.
-/
namespace Failsafe.Exec
open Failsafe Failsafe.Classify

/-- one scripted outcome of the wrapped function -/
structure Item where
  val : Int
  err : Option Err
  blocks : Bool := false      -- returns only once its execution is cancelled
  sleeps : Bool := false      -- takes longer than any configured retry max duration before it returns
  adv : Int := 0              -- the invocation advances the (virtual) clock of the breakers and rate limiters by this much: time passes
                              -- *during* an execution (a breaker's delay elapses between two attempts, a limiter's next permit becomes free)
deriving Repr

/-- an emitted listener call with the execution statistics it observed -/
structure Event where
  name : String
  pos : Nat
  att : Nat
  exe : Nat
  seen : Option Outcome := none    -- for "fn" / "fb.fn": the last outcome the function observed on its execution
deriving Repr, DecidableEq

inductive FbKind | value (v : Int) | error (e : Err) deriving Repr

inductive LimCfg | smooth (c : Limiter.SCfg) | bursty (c : Limiter.BCfg) deriving Repr
inductive LimSt | smooth (s : Limiter.SSt) | bursty (s : Limiter.BSt) deriving Repr

inductive Policy
  | retry (maxRetries : Int) (retLast : Bool) (handle abort : List Cond)
  | breaker (id : Nat) (handle : List Cond)
  | bulkhead (id : Nat)
  | limiter (id : Nat)
  | fallback (k : FbKind) (handle : List Cond)
  | cache (id : Nat) (key : String) (cacheIf : List Nat)
  | timeout
  | hedge (maxHedges : Nat) (cancelOn : List Cond)
deriving Repr

structure World where
  breakers : List (Breaker.Cfg × Breaker.B) := []
  bulk : List (Nat × Nat) := []                    -- (capacity, held)
  caches : List (List (String × Int)) := []
  limiters : List (LimCfg × LimSt) := []
  now : Int := 0
deriving Repr

structure Run where
  w : World
  script : List Item
  ctxKey : Option String := none
  inTimeout : Bool := false        -- some enclosing Timeout will cancel a blocking function
  cancelled : Bool := false        -- the current cancel scope has been cancelled (by its Timeout)
  timeoutPos : Nat := 0
  inv : Nat := 0                   -- function invocations started
  attempts : Nat := 1
  retries : Nat := 0
  hedges : Nat := 0
  execs : Nat := 0                 -- function invocations completed
  failed : List (Nat × Nat) := []  -- per position: the retry executor's failedAttempts
  exceeded : List Nat := []        -- positions whose retry executor has retriesExceeded set
  last : Outcome := ⟨0, none⟩      -- `LastResult` / `LastError` of the execution (copy) the current layers run on
  log : List Event := []
  ext : Option Err := none         -- the execution has been cancelled from outside (context / async Cancel): the cause
  cancelAt : Option (String × Nat) := none   -- scripted cancellation point: the k-th occurrence of an event ("fn", "rp.onRetryScheduled")
  cancelCause : Err := Err.canceled          -- what the scripted cancellation reports (context.Canceled / ErrExecutionCanceled)
  seenAt : Nat := 0                -- occurrences of the cancellation point's event so far
  hedgeAttempt : Bool := false     -- the execution copy the function currently runs on was made by `CopyForHedge` (`IsHedge`)
  mdPos : List Nat := []           -- positions of the retry policies configured with a max duration (static configuration)
  slept : Nat := 0                 -- invocations so far that outlasted the max duration: `ElapsedTime() > maxDuration` iff > 0
  hpLast : Outcome := ⟨0, none⟩    -- `LastResult` / `LastError` of the execution a hedge policy was entered with (every hedge copy starts from it)
deriving Repr

abbrev Layer := Run → Option (PR × Run)

def Run.emit (r : Run) (name : String) (pos : Nat) : Run :=
  { r with log := r.log ++ [⟨name, pos, r.attempts, r.execs, none⟩] }

/-- an event of a user function (the wrapped function or a fallback function) together with the `LastResult`/`LastError` it saw -/
def Run.emitSeen (r : Run) (name : String) (pos : Nat) (o : Outcome) : Run :=
  { r with log := r.log ++ [⟨name, pos, r.attempts, r.execs, some o⟩] }

/-- an event of a listener that is handed `CopyWithResult(result)` of the outcome just recorded as the execution's last one -/
def Run.emitLast (r : Run) (name : String) (pos : Nat) : Run := r.emitSeen name pos r.last

def getFailed (r : Run) (pos : Nat) : Nat := ((r.failed.find? (·.1 == pos)).map (·.2)).getD 0
def setFailed (r : Run) (pos n : Nat) : Run := { r with failed := (pos, n) :: r.failed.filter (·.1 != pos) }

def timeoutResult : PR := failureResult Err.timeout

/-- `IsCanceledWithResult`: the execution the current layers run on is cancelled, by its Timeout or from outside -/
def Run.isCanc (r : Run) : Bool := r.cancelled || r.ext.isSome

/-- the result a cancelled execution reports: the Timeout's stored result, else the external cause (`ctx.Err()` or the
result `ExecutionResult.Cancel` stored) with `Done` set and both success flags clear -/
def Run.cancelRes (r : Run) : PR :=
  if r.cancelled then timeoutResult
  else match r.ext with
    | some e => failureResult e
    | none => timeoutResult

@[simp] theorem Run.cancelRes_done (r : Run) : r.cancelRes.done = true := by
  unfold Run.cancelRes; split
  · rfl
  · split <;> rfl
theorem Run.cancelRes_not_success (r : Run) : r.cancelRes.success = false ∧ r.cancelRes.successAll = false := by
  unfold Run.cancelRes; split
  · exact ⟨rfl, rfl⟩
  · split <;> exact ⟨rfl, rfl⟩

@[simp] theorem Run.isCanc_log (r : Run) (l : List Event) : ({ r with log := l } : Run).isCanc = r.isCanc := rfl
@[simp] theorem Run.cancelRes_log (r : Run) (l : List Event) : ({ r with log := l } : Run).cancelRes = r.cancelRes := rfl

/-- what `LastResult()` / `LastError()` show the user function: the last recorded outcome, except that `LastError` reports the
context's error when no error is recorded and the context is done -/
def Run.seenLast (r : Run) : Outcome :=
  if r.last.err.isNone && r.ext.isSome then ⟨r.last.val, some Err.canceled⟩ else r.last

/-- what a listener that is handed `CopyWithResult(result)` reads: the result's value and error, except that `LastError()` reports
the context's error when the result carries none and the context of the copy is done (cancelled from outside, or the copy
belongs to a Timeout scope that has fired) -/
def Run.seenBy (r : Run) (o : Outcome) : Outcome :=
  if o.err.isNone && (r.ext.isSome || r.cancelled) then ⟨o.val, some Err.canceled⟩ else o

/-- the scripted cancellation fires at the k-th occurrence of its event (the harness cancels from inside that callback) -/
def Run.trigger (r : Run) (name : String) : Run :=
  match r.cancelAt with
  | some (nm, k) =>
    if nm == name then
      { r with seenAt := r.seenAt + 1, ext := if r.seenAt + 1 == k && r.ext.isNone then some r.cancelCause else r.ext }
    else r
  | none => r

/-! the scripted cancellation point touches nothing but `ext` and its own counter -/
@[simp] theorem Run.trigger_w (r : Run) (n : String) : (r.trigger n).w = r.w := by unfold Run.trigger; split <;> (try split) <;> rfl
@[simp] theorem Run.trigger_script (r : Run) (n : String) : (r.trigger n).script = r.script := by unfold Run.trigger; split <;> (try split) <;> rfl
@[simp] theorem Run.trigger_failed (r : Run) (n : String) : (r.trigger n).failed = r.failed := by unfold Run.trigger; split <;> (try split) <;> rfl
@[simp] theorem Run.trigger_exceeded (r : Run) (n : String) : (r.trigger n).exceeded = r.exceeded := by unfold Run.trigger; split <;> (try split) <;> rfl
@[simp] theorem Run.trigger_log (r : Run) (n : String) : (r.trigger n).log = r.log := by unfold Run.trigger; split <;> (try split) <;> rfl
@[simp] theorem Run.trigger_attempts (r : Run) (n : String) : (r.trigger n).attempts = r.attempts := by unfold Run.trigger; split <;> (try split) <;> rfl
@[simp] theorem Run.trigger_retries (r : Run) (n : String) : (r.trigger n).retries = r.retries := by unfold Run.trigger; split <;> (try split) <;> rfl
@[simp] theorem Run.trigger_hedges (r : Run) (n : String) : (r.trigger n).hedges = r.hedges := by unfold Run.trigger; split <;> (try split) <;> rfl
@[simp] theorem Run.trigger_execs (r : Run) (n : String) : (r.trigger n).execs = r.execs := by unfold Run.trigger; split <;> (try split) <;> rfl
@[simp] theorem Run.trigger_inv (r : Run) (n : String) : (r.trigger n).inv = r.inv := by unfold Run.trigger; split <;> (try split) <;> rfl
@[simp] theorem Run.trigger_cancelled (r : Run) (n : String) : (r.trigger n).cancelled = r.cancelled := by unfold Run.trigger; split <;> (try split) <;> rfl
@[simp] theorem Run.trigger_inTimeout (r : Run) (n : String) : (r.trigger n).inTimeout = r.inTimeout := by unfold Run.trigger; split <;> (try split) <;> rfl
@[simp] theorem Run.trigger_timeoutPos (r : Run) (n : String) : (r.trigger n).timeoutPos = r.timeoutPos := by unfold Run.trigger; split <;> (try split) <;> rfl
@[simp] theorem Run.trigger_last (r : Run) (n : String) : (r.trigger n).last = r.last := by unfold Run.trigger; split <;> (try split) <;> rfl
@[simp] theorem Run.trigger_ctxKey (r : Run) (n : String) : (r.trigger n).ctxKey = r.ctxKey := by unfold Run.trigger; split <;> (try split) <;> rfl

/-- the user function: pops the next scripted outcome (an exhausted script succeeds with the zero value). A blocking
outcome is released by the enclosing Timeout's timer: listener, then `Cancel(timeoutResult)`. -/
def base : Layer := fun r =>
  -- the function observes the last recorded outcome of its execution
  -- `IsHedge` of the execution the function is handed is part of the event (`fnh`)
  let r := (r.emitSeen (if r.hedgeAttempt then "fnh" else "fn") 0 r.seenLast).trigger "fn"
  match r.script with
  | [] => some (fnResult 0 none, { r with inv := r.inv + 1, execs := r.execs + 1 })
  | it :: rest =>
    let r := { r with script := rest, inv := r.inv + 1, slept := r.slept + (if it.sleeps then 1 else 0),
                      w := { r.w with now := r.w.now + it.adv } }
    if it.blocks then
      if r.ext.isSome then some (fnResult it.val it.err, { r with execs := r.execs + 1 })   -- released by the external cancellation
      else if !r.inTimeout then none
      else
        let r := if r.cancelled then r else r.emit "to.onTimeoutExceeded" r.timeoutPos
        some (fnResult it.val it.err, { r with cancelled := true, execs := r.execs + 1 })
    else some (fnResult it.val it.err, { r with execs := r.execs + 1 })

def updBreaker (r : Run) (id : Nat) (f : Breaker.Cfg → Breaker.B → Breaker.B) : Run :=
  { r with w := { r.w with breakers := r.w.breakers.mapIdx (fun i cb => if i == id then (cb.1, f cb.1 cb.2) else cb) } }

def breakerEventName (e : Breaker.Event) : String :=
  s!"cb[{e.old.str}>{e.new.str}:{e.metrics.1}_{e.metrics.2.1}_{e.metrics.2.2.1}_{e.metrics.2.2.2.1}_{e.metrics.2.2.2.2}]"

/-- move the breaker's freshly emitted state-change events into the run log -/
def drainBreaker (r : Run) (id pos : Nat) : Run :=
  match r.w.breakers[id]? with
  | none => r
  | some (_, b) =>
    let r := b.events.foldl (fun r ev => { r with log := r.log ++ [⟨breakerEventName ev, pos, 0, 0, none⟩] }) r
    updBreaker r id (fun _ b => { b with events := [] })

/-- `maxDuration != 0 && exec.ElapsedTime() > maxDuration` for the retry policy at `pos` -/
def durExceeded (pos : Nat) (r : Run) : Bool := r.mdPos.contains pos && decide (r.slept > 0)

@[simp] theorem durExceeded_emit (pos : Nat) (r : Run) (n : String) (p : Nat) : durExceeded pos (r.emit n p) = durExceeded pos r := rfl
@[simp] theorem durExceeded_emitSeen (pos : Nat) (r : Run) (n : String) (p : Nat) (o : Outcome) : durExceeded pos (r.emitSeen n p o) = durExceeded pos r := rfl
@[simp] theorem durExceeded_emitLast (pos : Nat) (r : Run) (n : String) (p : Nat) : durExceeded pos (r.emitLast n p) = durExceeded pos r := rfl
@[simp] theorem durExceeded_setFailed (pos : Nat) (r : Run) (p n : Nat) : durExceeded pos (setFailed r p n) = durExceeded pos r := rfl

/-- `retrypolicy.executor.OnFailure` decision: (result, run) after a failure was classified -/
def retryOnFailure (pos : Nat) (m : Int) (retLast : Bool) (abort : List Cond) (res1 : PR) (r : Run) : PR × Run :=
  let dur := durExceeded pos r
  -- every listener of the retry policy is handed `CopyWithResult(result)`: it sees the attempt's outcome as the last one
  let r := r.emitSeen "rp.onFailure" pos res1.outcome
  let failed := getFailed r pos + 1
  let r := setFailed r pos failed
  let exc : Bool := decide (m ≠ -1 ∧ (failed : Int) > m) || dur
  let r := if exc then { r with exceeded := pos :: r.exceeded } else r
  let abortable := isAbortable abort res1.outcome
  let shouldRetry := !abortable && !exc && decide (m = -1 ∨ m > 0)
  let done := abortable || !shouldRetry
  let r := if abortable then r.emitSeen "rp.onAbort" pos res1.outcome else r
  let r := if exc && !abortable then r.emitSeen "rp.onRetriesExceeded" pos res1.outcome else r
  if exc && !retLast then
    (failureResult (match res1.err with | some e => .exceededE res1.val e | none => .exceededV res1.val), r)
  else (res1.withDone done false, r)

def retryLoop (pos : Nat) (m : Int) (retLast : Bool) (handle abort : List Cond) (inner : Layer) : Nat → Layer
  | 0 => fun _ => none
  | fuel + 1 => fun r =>
    match inner r with
    | none => none
    | some (res, r) =>
      if r.isCanc then some (r.cancelRes, r) else                -- IsCanceledWithResult
      if r.exceeded.contains pos then some (res, r) else         -- retriesExceeded: pass through
      if isFailure handle res.outcome then
        let (res2, r) := retryOnFailure pos m retLast abort res.withFailure r
        if res2.done then some (res2, r)
        else
          -- RecordResult, delay, InitializeRetry, listeners
          let r := { r with last := res2.outcome }
          let r := (r.emitLast "rp.onRetryScheduled" pos).trigger "rp.onRetryScheduled"
          -- the delay wait is left at once when the execution is cancelled; InitializeRetry then reports the cancellation
          if r.isCanc then some (r.cancelRes, r) else
          let r := { r with attempts := r.attempts + 1, retries := r.retries + 1 }
          let r := r.emitLast "rp.onRetry" pos
          retryLoop pos m retLast handle abort inner fuel r
      else
        let res1 := res.withDone true true
        some (res1, r.emitSeen "rp.onSuccess" pos res.outcome)

/-- one rate-limiter acquisition with max wait 0 at the world's clock: (admitted, new state) -/
def limAcquire (c : LimCfg) (s : LimSt) (now : Int) : Bool × LimSt :=
  match c, s with
  | .smooth c, .smooth s => let r := Limiter.smoothAcquire c s now 1 0; (r.1 != -1, .smooth r.2)
  | .bursty c, .bursty s => let r := Limiter.burstyAcquire c s now 1 0; (r.1 != -1, .bursty r.2)
  | _, s => (false, s)

/-- the hedge coordinator over instant / blocking attempts. `k` attempts have been started, `done` of them have completed,
`blocked` are blocked. -/
def hedgeLoop (pos maxHedges : Nat) (cancelOn : List Cond) (inner : Layer) : Nat → Nat → Nat → Nat → Layer
  | 0, _, _, _ => fun _ => none
  | fuel + 1, k, done, blocked => fun r =>
    -- start attempt k (k = 0: the first attempt, no event; k ≥ 1: a hedge, run on a `CopyForHedge` copy)
    -- every attempt runs on its own copy of the parent execution: what an earlier attempt recorded on its copy is not seen
    let r := if k == 0 then { r with hedgeAttempt := false, hpLast := r.last } else
      ({ r with attempts := r.attempts + 1, hedges := r.hedges + 1, hedgeAttempt := true, last := r.hpLast }).emit "hp.onHedge" pos
    match r.script with
    | it :: _ =>
      if it.blocks then
        -- the attempt blocks; its function has been entered (and has observed the last recorded outcome)
        let r := r.emitSeen (if r.hedgeAttempt then "fnh" else "fn") 0 r.seenLast
        let r := { r with script := r.script.drop 1, inv := r.inv + 1 }
        if k < maxHedges then hedgeLoop pos maxHedges cancelOn inner fuel (k + 1) done (blocked + 1) r
        else
          -- nothing left to start: only an enclosing Timeout can release the blocked attempts
          if !r.inTimeout then none
          else
            let r := if r.cancelled then r else r.emit "to.onTimeoutExceeded" r.timeoutPos
            some (timeoutResult, { r with cancelled := true, execs := r.execs + blocked + 1 })
      else
        match inner r with
        | none => none
        | some (res, r) =>
          -- the coordinator first asks whether the parent execution has been cancelled meanwhile
          if r.isCanc then some (r.cancelRes, { r with execs := r.execs + blocked }) else
          let isFinal := decide (done + 1 = maxHedges + 1)
          if isFinal || isCancellable cancelOn res.outcome then
            -- accepted: the other started attempts are cancelled and return
            some (res, { r with execs := r.execs + blocked })
          else if k < maxHedges then hedgeLoop pos maxHedges cancelOn inner fuel (k + 1) (done + 1) blocked r
          else
            if blocked == 0 then some (res, r)   -- unreachable: the last completion is final
            else if !r.inTimeout then none
            else
              let r := if r.cancelled then r else r.emit "to.onTimeoutExceeded" r.timeoutPos
              some (timeoutResult, { r with cancelled := true, execs := r.execs + blocked })
    | [] =>
      match inner r with
      | none => none
      | some (res, r) =>
        if r.isCanc then some (r.cancelRes, { r with execs := r.execs + blocked }) else
        let isFinal := decide (done + 1 = maxHedges + 1)
        if isFinal || isCancellable cancelOn res.outcome then some (res, { r with execs := r.execs + blocked })
        else if k < maxHedges then hedgeLoop pos maxHedges cancelOn inner fuel (k + 1) (done + 1) blocked r
        else if blocked == 0 then some (res, r)
        else if !r.inTimeout then none
        else
          let r := if r.cancelled then r else r.emit "to.onTimeoutExceeded" r.timeoutPos
          some (timeoutResult, { r with cancelled := true, execs := r.execs + blocked })

def cacheKeyOf (r : Run) (key : String) : String := match r.ctxKey with | some ck => ck | none => key

/-- `(len(cacheConditions) == 0 && err == nil) || AppliesToAny(cacheConditions, result, err)`: every `CacheIf` call adds a condition -/
def shouldCache (cacheIf : List Nat) (res : PR) : Bool :=
  (cacheIf.isEmpty && res.err.isNone) || cacheIf.any (fun p => predicate p res.outcome)

def applyPolicy (fuel pos : Nat) : Policy → Layer → Layer
  | .retry m rl h a, inner => retryLoop pos m rl h a inner fuel
  | .breaker id h, inner => fun r =>
      match r.w.breakers[id]? with
      | none => none
      | some (c, b) =>
        let (b, ok) := Breaker.tryAcquire c b r.w.now
        let r := drainBreaker (updBreaker r id (fun _ _ => b)) id pos
        if !ok then some (failureResult Err.opened, r) else
        match inner r with
        | none => none
        | some (res, r) =>
          if isFailure h res.outcome then
            let r := r.emitSeen "cb.onFailure" pos (r.seenBy res.outcome)
            let r := drainBreaker (updBreaker r id (fun c b => Breaker.record c b r.w.now false true)) id pos
            some (res.withFailure, r)
          else
            let r := r.emitSeen "cb.onSuccess" pos (r.seenBy res.outcome)
            let r := drainBreaker (updBreaker r id (fun c b => Breaker.record c b r.w.now true false)) id pos
            some (res.withDone true true, r)
  | .bulkhead id, inner => fun r =>
      match r.w.bulk[id]? with
      | none => none
      | some (cap, held) =>
        if held < cap then
          let setHeld (r : Run) (h : Nat) : Run := { r with w := { r.w with bulk := r.w.bulk.set id (cap, h) } }
          match inner (setHeld r (held + 1)) with
          | none => none
          | some (res, r) =>
            let held' := ((r.w.bulk[id]?).map (·.2)).getD 0
            some (res, setHeld r (held' - 1))
        else some (failureResult Err.full, r.emit "bh.onFull" pos)
  | .limiter id, inner => fun r =>
      match r.w.limiters[id]? with
      | none => none
      | some (c, s) =>
        let (ok, s') := limAcquire c s r.w.now
        let r := { r with w := { r.w with limiters := r.w.limiters.set id (c, s') } }
        if ok then inner r else some (failureResult Err.rate, r.emit "rl.onRateLimitExceeded" pos)
  | .fallback k h, inner => fun r =>
      match inner r with
      | none => none
      | some (res, r) =>
        if isFailure h res.outcome then
          let r := r.emitSeen "fb.onFailure" pos (r.seenBy res.outcome)
          if r.isCanc then some (r.cancelRes, r) else
          let fo : Outcome := match k with | .value v => ⟨v, none⟩ | .error e => ⟨0, some e⟩
          -- the fallback function sees the failed outcome as the execution's last result
          let r := r.emitSeen "fb.fn" pos res.outcome
          let r := r.emit "fb.onFallbackExecuted" pos
          let ok := !isFailure h fo
          some (⟨fo.val, fo.err, true, ok, ok⟩, r)
        else some (res.withDone true true, r.emitSeen "fb.onSuccess" pos (r.seenBy res.outcome))
  | .timeout, inner => fun r =>
      -- the Timeout runs what is inside it on a cancellable copy of the execution: cancel scope and last outcome are local
      let saved := (r.inTimeout, r.cancelled, r.timeoutPos, r.last)
      match inner { r with inTimeout := true, cancelled := false, timeoutPos := pos } with
      | none => none
      | some (res, r) =>
        let fired := r.cancelled
        let r := { r with inTimeout := saved.1, cancelled := saved.2.1, timeoutPos := saved.2.2.1, last := saved.2.2.2 }
        if fired then some (timeoutResult.withFailure, r)
        else if (match res.err with | some e => e.is Err.TIMEOUT | none => false) then some (res.withFailure, r)
        else some (res.withDone true true, r)
  | .hedge n co, inner => fun r =>
      -- the parent execution's last outcome is not touched by what the attempts record on their copies
      (hedgeLoop pos n co inner (n + 2) 0 0 0 r).map (fun x => (x.1, { x.2 with last := r.last }))
  | .cache id key cif, inner => fun r =>
      let k := cacheKeyOf r key
      let entries := (r.w.caches[id]?).getD []
      match (if k != "" then entries.find? (·.1 == k) else none) with
      | some (_, v) => some (⟨v, none, true, true, true⟩, r.emit "ca.onHit" pos)
      | none =>
        let r := r.emit "ca.onMiss" pos
        match inner r with
        | none => none
        | some (res, r) =>
          if shouldCache cif res && k != "" then
            let entries := (r.w.caches[id]?).getD []
            let entries := (k, res.val) :: entries.filter (·.1 != k)
            let r := { r with w := { r.w with caches := r.w.caches.set id entries } }
            some (res, r.emit "ca.onCache" pos)
          else some (res, r)

/-- `executor.execute`'s composition loop: `policies[i].ToExecutor().Apply(outerFn)` for `i = len-1 … 0` -/
def executeStack (fuel : Nat) : Nat → List Policy → Layer
  | _, [] => base
  | pos, p :: ps => applyPolicy fuel pos p (executeStack fuel (pos + 1) ps)

/-- `executor.execute`: run the stack, then the completion listeners -/
def execute (fuel : Nat) (ps : List Policy) (r : Run) : Option (PR × Run) :=
  match executeStack fuel 0 ps r with
  | none => none
  | some (res, r) =>
    -- the completion events carry the result and error the caller receives (`ExecutionDoneEvent.Result` / `.Error`)
    let r := if res.successAll then r.emitSeen "ex.onSuccess" 0 res.outcome else r.emitSeen "ex.onFailure" 0 res.outcome
    some (res, r.emitSeen "ex.onDone" 0 res.outcome)

end Failsafe.Exec
