/-!
# Values, error trees, outcomes, policy results and the flag algebra (common/result.go)

Results are integers (0 = the zero value of `R`). Errors are finite trees: a plain error value `leaf id ty` has an identity
`id` (what `==` / `errors.Is` compare) and a dynamic type `ty` (what `util.ErrorTypesMatch` compares); `wrap` is an error
with `Unwrap() error`, `join` one with `Unwrap() []error` (two children), `exceededE/V` is `retrypolicy.ExceededError`
carrying the last result and (for `E`) the last error. The semantics of `errors.Is` and of the type match over these trees
are validated against Go by the `classify` differential slice.
-/
namespace Failsafe

inductive Err
  | leaf (id ty : Nat)
  | wrap (id ty : Nat) (c : Err)
  | join (id ty : Nat) (a b : Err)
  | exceededE (lv : Int) (le : Err)
  | exceededV (lv : Int)
deriving Repr, DecidableEq, Inhabited

namespace Err
/-! reserved identities of the library's sentinels -/
def OPEN : Nat := 100          -- circuitbreaker.ErrOpen
def FULL : Nat := 101          -- bulkhead.ErrFull
def TIMEOUT : Nat := 102       -- timeout.ErrExceeded
def RATE : Nat := 103          -- ratelimiter.ErrExceeded
def EXECCANCELED : Nat := 104  -- failsafe.ErrExecutionCanceled
def CANCELED : Nat := 105      -- context.Canceled
def DEADLINE : Nat := 106      -- context.DeadlineExceeded
def RETRYEXCEEDED : Nat := 107 -- retrypolicy.ErrExceeded (only ever a target)
/-! dynamic types -/
def TY_PLAIN : Nat := 0        -- *errors.errorString
def TY_WRAP : Nat := 10        -- *fmt.wrapError
def TY_JOIN : Nat := 11        -- *errors.joinError
def TY_EXCEEDED : Nat := 12    -- retrypolicy.ExceededError
def TY_DEADLINE : Nat := 13    -- context.deadlineExceededError

def opened : Err := .leaf OPEN TY_PLAIN
def full : Err := .leaf FULL TY_PLAIN
def timeout : Err := .leaf TIMEOUT TY_PLAIN
def rate : Err := .leaf RATE TY_PLAIN
def execCanceled : Err := .leaf EXECCANCELED TY_PLAIN
def canceled : Err := .leaf CANCELED TY_PLAIN
def deadline : Err := .leaf DEADLINE TY_DEADLINE

/-- `errors.Is(e, target)` where `target` is an error value with identity `target` -/
def is : Err → Nat → Bool
  | .leaf id _, t => id == t
  | .wrap id _ c, t => id == t || c.is t
  | .join id _ a b, t => id == t || a.is t || b.is t
  | .exceededE _ le, t => t == RETRYEXCEEDED || le.is t     -- custom `Is`, then `Unwrap() = LastError`
  | .exceededV _, t => t == RETRYEXCEEDED                   -- `Unwrap()` is a fresh `fmt.Errorf` value

/-- `util.ErrorTypesMatch(e, target)` where `target` has dynamic type `ty` -/
def typeMatch : Err → Nat → Bool
  | .leaf _ ty, t => ty == t
  | .wrap _ ty c, t => ty == t || c.typeMatch t
  | .join _ ty a b, t => ty == t || a.typeMatch t || b.typeMatch t
  | .exceededE _ le, t => t == TY_EXCEEDED || le.typeMatch t
  | .exceededV _, t => t == TY_EXCEEDED || t == TY_PLAIN

/-- canonical text used by the line protocol -/
def str : Err → String
  | .leaf id ty => s!"L{id}:{ty}"
  | .wrap id ty c => if ty == 5 then s!"N{id}:{ty}({c.str})" else s!"W{id}:{ty}({c.str})"   -- 5: an aggregate with a nil first slot
  | .join id ty a b => s!"J{id}:{ty}({a.str},{b.str})"
  | .exceededE lv le => s!"X({lv},{le.str})"
  | .exceededV lv => s!"X({lv},-)"
end Err

def errStr : Option Err → String | none => "-" | some e => e.str

/-- an outcome of the wrapped function or of a policy layer -/
structure Outcome where
  val : Int
  err : Option Err
deriving Repr, DecidableEq

/-- `common.PolicyResult` -/
structure PR where
  val : Int
  err : Option Err
  done : Bool
  success : Bool
  successAll : Bool
deriving Repr, DecidableEq

namespace PR
/-- `WithDone` -/
def withDone (r : PR) (d s : Bool) : PR := { r with done := d, success := s, successAll := s && r.successAll }
/-- `WithFailure` -/
def withFailure (r : PR) : PR := { r with success := false, successAll := false }
def outcome (r : PR) : Outcome := ⟨r.val, r.err⟩
end PR

/-- `internal.FailureResult(err)` -/
def failureResult (e : Err) : PR := ⟨0, some e, true, false, false⟩
/-- the result the user function's wrapper produces -/
def fnResult (v : Int) (e : Option Err) : PR := ⟨v, e, true, true, true⟩

end Failsafe
