import Failsafe.Delay
/-! Vocabulary of the regenerated retry-delay kernels. -/
namespace Failsafe.DelayKernels
open Failsafe.Delay

structure DSt where
  last : Int
deriving Repr

/-- `time.Duration(x)`: truncation for floats, identity for integers -/
class ToDur (α : Type) where toDur : α → Int
instance : ToDur Float32 := ⟨fun f => f.toInt64.toInt⟩
instance : ToDur Int := ⟨id⟩
export ToDur (toDur)

def f64ToInt (f : Float) : Int := f.toInt64.toInt
def f32ToInt (f : Float32) : Int := f.toInt64.toInt
/-- `util.RandomDelay` -/
def randomDelay (delay jitter : Int) (rnd : Float) : Int := delay + jitterAddend jitter rnd
/-- `util.RandomDelayFactor` -/
def randomDelayFactor (delay : Int) (jf rnd : Float32) : Int := jitterByFactor delay jf rnd

end Failsafe.DelayKernels
