/-!
# Circuit breaker model (circuitbreaker/circuitstats.go, circuitstates.go, circuitbreaker.go)

`Ring` = `countingStats` (bit ring, `head`, `occupiedBits`, running counts), `Timed` = `timedStats` (10 slices, running
summary, `head = now / bucketNanos`; reads do not roll the window, records do), `B` = the breaker with its three states,
trial permits, open start/delay and the state-change events emitted (with the metrics snapshot of the state left).
`uint` is `Nat`; every truncating subtraction site is covered by an obligation in `Failsafe.Props.C03`.
The driver executes these definitions against the real breaker through the virtual clock hook.
-/
namespace Failsafe.Breaker

/-- builder configuration (names as in `circuitbreakerbuilder.go`) -/
structure Cfg where
  ft : Nat      -- failureThreshold
  frt : Nat     -- failureRateThreshold
  ftc : Nat     -- failureThresholdingCapacity
  fet : Nat     -- failureExecutionThreshold
  period : Int  -- failureThresholdingPeriod (ns), 0 = count based
  st : Nat      -- successThreshold
  stc : Nat     -- successThresholdingCapacity
  delay : Int   -- Delay
  delayFn : Int := -1   -- value returned by a configured DelayFunc (-1 = none / "no delay computed")
deriving Repr

/-! ## countingStats -/

structure Ring where
  size : Nat
  bits : List Bool
  head : Nat
  occ  : Nat
  succ : Nat
  fail : Nat
deriving Repr

def Ring.new (size : Nat) : Ring := ⟨size, List.replicate size false, 0, 0, 0, 0⟩

/-- `countingStats.setNext` (the two `- 1` are the uint subtraction sites) -/
def setNext (r : Ring) (v : Bool) : Ring :=
  let old := r.bits.getD r.head false
  let succ0 := if r.occ < r.size then r.succ else if old then r.succ - 1 else r.succ
  let fail0 := if r.occ < r.size then r.fail else if old then r.fail else r.fail - 1
  { size := r.size, bits := r.bits.set r.head v, head := (r.head + 1) % r.size,
    occ := if r.occ < r.size then r.occ + 1 else r.occ,
    succ := if v then succ0 + 1 else succ0,
    fail := if v then fail0 else fail0 + 1 }

/-! ## timedStats -/

abbrev N : Nat := 10

structure Timed where
  bucketNanos : Int
  buckets : List (Nat × Nat)     -- (successes, failures) per slot, length N
  sumS : Nat
  sumF : Nat
  head : Nat
deriving Repr

def Timed.new (period : Int) : Timed := ⟨Int.tdiv period 10, List.replicate N (0, 0), 0, 0, 0⟩

/-- the `for` loop of `currentBucket`: clear slots `(head+1 … head+n) mod N`, subtracting them from the summary -/
def clear : Nat → Nat → Timed → Timed
  | 0, _, t => t
  | n + 1, i, t =>
    let idx := (t.head + i + 1) % N
    let b := t.buckets.getD idx (0, 0)
    clear n (i + 1) { t with buckets := t.buckets.set idx (0, 0), sumS := t.sumS - b.1, sumF := t.sumF - b.2 }

def roll (t : Timed) (newHead : Nat) : Timed :=
  if newHead > t.head then { clear (min N (newHead - t.head)) 0 t with head := newHead } else t

/-- `recordSuccess`/`recordFailure` at slice index `slice = now / bucketNanos` -/
def recordAt (t : Timed) (slice : Nat) (v : Bool) : Timed :=
  let t := roll t slice
  let idx := t.head % N
  let b := t.buckets.getD idx (0, 0)
  if v then { t with buckets := t.buckets.set idx (b.1 + 1, b.2), sumS := t.sumS + 1 }
  else { t with buckets := t.buckets.set idx (b.1, b.2 + 1), sumF := t.sumF + 1 }

def sliceOf (t : Timed) (now : Int) : Nat := (Int.tdiv now t.bucketNanos).toNat

/-! ## stats interface -/

inductive Stats
  | ring (r : Ring)
  | timed (t : Timed)
deriving Repr

/-- `uint(math.Round(float64(f)/float64(n)*100))`, with the library's guard for `n = 0`. Lean's native `Float` is
IEEE-754 binary64 like Go's `float64` (validated bit for bit by the differential check). -/
def pct (f n : Nat) : Nat :=
  if n = 0 then 0 else (Float.round (Float.ofNat f / Float.ofNat n * 100.0)).toUInt64.toNat

def Stats.exec : Stats → Nat | .ring r => r.occ | .timed t => t.sumS + t.sumF
def Stats.fails : Stats → Nat | .ring r => r.fail | .timed t => t.sumF
def Stats.succs : Stats → Nat | .ring r => r.succ | .timed t => t.sumS
def Stats.frate (s : Stats) : Nat := pct s.fails s.exec
def Stats.srate (s : Stats) : Nat := pct s.succs s.exec
def Stats.record (s : Stats) (now : Int) (v : Bool) : Stats :=
  match s with | .ring r => .ring (setNext r v) | .timed t => .timed (recordAt t (sliceOf t now) v)

/-! ## the three states -/

inductive Tag | closed | opened | halfOpen deriving Repr, DecidableEq
def Tag.str : Tag → String | .closed => "closed" | .opened => "open" | .halfOpen => "half-open"

/-- a state-change event: old state, new state, metrics snapshot of the old state (exec, fails, frate, succs, srate) -/
structure Event where
  old : Tag
  new : Tag
  metrics : Nat × Nat × Nat × Nat × Nat
deriving Repr

structure B where
  tag : Tag
  stats : Stats
  start : Int      -- open state: instant of opening
  delay : Int      -- open state: delay in force
  permits : Nat    -- half-open state: permittedExecutions
  events : List Event
deriving Repr

/-- `newClosedState`: time based stats when a thresholding period is configured, else a ring of the execution threshold
or the thresholding capacity -/
def closedCap (c : Cfg) : Nat := if c.fet ≠ 0 then c.fet else c.ftc
def closedStats (c : Cfg) : Stats :=
  if c.period ≠ 0 then .timed (Timed.new c.period) else .ring (Ring.new (closedCap c))

/-- `newHalfOpenState`: capacity = success capacity, else execution threshold, else failure capacity -/
def halfOpenCap (c : Cfg) : Nat :=
  if c.stc ≠ 0 then c.stc else if c.fet ≠ 0 then c.fet else c.ftc

def B.new (c : Cfg) : B := ⟨.closed, closedStats c, 0, 0, 0, []⟩

def snapshot (s : Stats) : Nat × Nat × Nat × Nat × Nat := (s.exec, s.fails, s.frate, s.succs, s.srate)

/-- `transitionTo`; `viaExec` says whether the failure that opens came through an execution (only then the delay function
is consulted) -/
def transition (c : Cfg) (b : B) (now : Int) (new : Tag) (viaExec : Bool := false) : B :=
  if b.tag = new then b else
  let ev : Event := ⟨b.tag, new, snapshot b.stats⟩
  match new with
  | .closed => { b with tag := .closed, stats := closedStats c, events := b.events ++ [ev] }
  | .opened =>
    let d := if viaExec && c.delayFn != -1 then c.delayFn else c.delay
    { b with tag := .opened, start := now, delay := d, events := b.events ++ [ev] }
  | .halfOpen => { b with tag := .halfOpen, stats := .ring (Ring.new (halfOpenCap c)), permits := halfOpenCap c,
                          events := b.events ++ [ev] }

/-- closed state: `checkThresholdAndReleasePermit` decision -/
def closedShouldOpen (c : Cfg) (s : Stats) : Bool :=
  decide (s.exec ≥ c.fet) &&
    ((c.frt != 0 && decide (s.frate ≥ c.frt)) || (c.frt == 0 && decide (s.fails ≥ c.ft)))

/-- half-open state: (successesExceeded, failuresExceeded) -/
def halfOpenDecision (c : Cfg) (s : Stats) : Bool × Bool :=
  if c.st ≠ 0 then (decide (s.succs ≥ c.st), decide (s.fails > c.stc - c.st))
  else if c.frt ≠ 0 then
    let ete := decide (s.exec ≥ c.fet)
    (ete && decide (s.srate > 100 - c.frt), ete && decide (s.frate ≥ c.frt))
  else (decide (s.succs > c.ftc - c.ft), decide (s.fails ≥ c.ft))

def check (c : Cfg) (b : B) (now : Int) (viaExec : Bool := false) : B :=
  match b.tag with
  | .closed => if closedShouldOpen c b.stats then transition c b now .opened viaExec else b
  | .opened => b
  | .halfOpen =>
    let d := halfOpenDecision c b.stats
    let b1 := if d.1 then transition c b now .closed else if d.2 then transition c b now .opened viaExec else b
    -- `permittedExecutions++` happens on the OLD half-open state object; only visible if still half-open
    if b1.tag = .halfOpen then { b1 with permits := b1.permits + 1 } else b1

/-- `recordSuccess` / `recordFailure` -/
def record (c : Cfg) (b : B) (now : Int) (v : Bool) (viaExec : Bool := false) : B :=
  check c { b with stats := b.stats.record now v } now viaExec

/-- `TryAcquirePermit` -/
def tryAcquire (c : Cfg) (b : B) (now : Int) : B × Bool :=
  match b.tag with
  | .closed => (b, true)
  | .opened =>
    if now - b.start ≥ b.delay then
      let b := transition c b now .halfOpen
      if b.permits > 0 then ({ b with permits := b.permits - 1 }, true) else (b, false)
    else (b, false)
  | .halfOpen => if b.permits > 0 then ({ b with permits := b.permits - 1 }, true) else (b, false)

/-- `RemainingDelay` -/
def remaining (b : B) (now : Int) : Int :=
  match b.tag with | .opened => max 0 (b.delay - (now - b.start)) | _ => 0

/-- configurations the builders document: thresholds within capacities, rate in 1..100, period at least 10 ns -/
def Cfg.WF (c : Cfg) : Prop :=
  1 ≤ c.ft ∧ c.ft ≤ c.ftc ∧ c.frt ≤ 100 ∧ (c.st = 0 ∧ c.stc = 0 ∨ 1 ≤ c.st ∧ c.st ≤ c.stc) ∧
  (c.period = 0 ∨ 10 ≤ c.period) ∧ 0 ≤ c.delay ∧ (c.frt ≠ 0 → c.period ≠ 0) ∧ (c.period = 0 → c.fet = 0) ∧
  (c.frt = 0 → c.fet ≠ 0 → c.ftc ≤ c.fet)

instance (c : Cfg) : Decidable c.WF := by unfold Cfg.WF; exact inferInstance

end Failsafe.Breaker
