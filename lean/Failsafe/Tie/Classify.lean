import Failsafe.Classify
import Failsafe.ClassifyKernels
import Failsafe.Generated.Classify
import Failsafe.Tie.Tactic
set_option linter.unusedSimpArgs false
/-! # GEN tie: classification kernels and the flag algebra regenerated from /repo equal the model's. -/
namespace Failsafe.Tie.Classify
open Failsafe Failsafe.Classify Failsafe.ClassifyKernels

theorem some_bne_none (x : Err) : (some x != (none : Option Err)) = true := by
  rw [bne_iff_ne]; simp

theorem tie_isFailure (b : Built) (o : Outcome) : Generated.Classify.isFailureGen b o = isFailureB false b o := by
  obtain ⟨v, e⟩ := o
  simp only [Generated.Classify.isFailureGen, isFailureB, appliesToAny]
  cases e <;> by_cases hl : b.conds.length = 0 <;> simp [hl, some_bne_none]

theorem tie_isAbortable (cs : List Cond) (o : Outcome) : Generated.Classify.isAbortableGen cs o = isAbortable cs o := by
  obtain ⟨v, e⟩ := o
  simp only [Generated.Classify.isAbortableGen, isAbortable, appliesToAny]

/-- a result condition only matches outcomes without an error (the D2 repair is in the regenerated closure) -/
theorem tie_handleResult (v : Int) (o : Outcome) :
    Generated.Classify.handleResultClosure v o = (Cond.result v).eval false o := by
  simp only [Generated.Classify.handleResultClosure, Cond.eval, valEq]
  cases o.err <;> simp

theorem tie_abortResult (v : Int) (o : Outcome) :
    Generated.Classify.abortResultClosure v o = (Cond.result v).eval false o := by
  simp only [Generated.Classify.abortResultClosure, Cond.eval, valEq]
  cases o.err <;> simp

theorem tie_handleErrors (t : Nat) (o : Outcome) :
    Generated.Classify.handleErrorsClosure t o = (Cond.errIs t).eval false o := by
  simp only [Generated.Classify.handleErrorsClosure, Cond.eval, errIsOpt]
  cases o.err <;> rfl

theorem tie_abortErrors (t : Nat) (o : Outcome) :
    Generated.Classify.abortErrorsClosure t o = (Cond.errIs t).eval false o := by
  simp only [Generated.Classify.abortErrorsClosure, Cond.eval, errIsOpt]
  cases o.err <;> rfl

theorem tie_handleTypes (t : Nat) (o : Outcome) :
    Generated.Classify.handleTypesClosure t o = (Cond.errType t).eval false o := by
  simp only [Generated.Classify.handleTypesClosure, Cond.eval, typeMatchOpt]
  cases o.err <;> rfl

theorem tie_withDone : Generated.Classify.withDoneGen = PR.withDone := by
  funext r d s
  simp only [Generated.Classify.withDoneGen, PR.withDone]

theorem tie_withFailure : Generated.Classify.withFailureGen = PR.withFailure := by
  funext r
  simp only [Generated.Classify.withFailureGen, PR.withFailure]

end Failsafe.Tie.Classify
