import Failsafe.ExecBodies
import Failsafe.Generated.XRetry
set_option linter.unusedSimpArgs false
/-! # GEN tie: `retrypolicy.executor.OnFailure`, regenerated from /repo on every check, equals the reference definition of `Failsafe/ExecBodies.lean` for every state and argument. -/
namespace Failsafe.Tie.XRetry
open Failsafe Failsafe.ExecBodies

theorem tie_retryOnFailure (c : RCfg) (s : RSt) (elapsed : Int) (abortable : Bool) (result : PR) :
    Generated.XRetry.retryOnFailureGen c s elapsed abortable result = retryOnFailure c s elapsed abortable result := by
  simp only [Generated.XRetry.retryOnFailureGen, retryOnFailure, retryExceeded, rBaseOnFailure, rOnAbort, rOnRetriesExceeded, RSt.emit]
  cases abortable <;> cases hr : c.returnLastFailure <;> cases ha : c.onAbort <;> cases he : c.onRetriesExceeded <;>
    by_cases h1 : c.maxRetries = -1 <;> by_cases h2 : s.failed + 1 > c.maxRetries <;> by_cases h3 : c.maxDuration = 0 <;>
    by_cases h4 : elapsed > c.maxDuration <;> simp [h1, h2, h3, h4, hr, ha, he]

end Failsafe.Tie.XRetry
