import Failsafe.ExecBodies
import Failsafe.Breaker
import Failsafe.Generated.XBreaker
/-! # GEN tie: the circuit breaker's `recordResult` / `recordSuccess` / `recordFailure` (circuitbreaker.go), regenerated from /repo on every check, equal the reference definitions for every instantiation — and the breaker model's `record` is that composition. -/
namespace Failsafe.Tie.XBreaker
open Failsafe Failsafe.ExecBodies

theorem tie_brkRecordSuccess {σ : Type} (ops : BrkOps σ) (s : σ) : Generated.XBreaker.brkRecordSuccessGen ops s = brkRecordSuccess ops s := rfl
theorem tie_brkRecordFailure {σ : Type} (ops : BrkOps σ) (s : σ) (e : Bool) : Generated.XBreaker.brkRecordFailureGen ops s e = brkRecordFailure ops s e := rfl
theorem tie_brkRecordResult {σ : Type} (ops : BrkOps σ) (s : σ) (f : Bool) : Generated.XBreaker.brkRecordResultGen ops s f = brkRecordResult ops s f := by
  cases f <;> rfl

/-- the breaker model's operations: record into the current state's statistics; check the thresholds -/
def modelOps (c : Breaker.Cfg) (now : Int) : BrkOps Breaker.B :=
  { statsRecord := fun b v => { b with stats := b.stats.record now v }, check := fun b ve => Breaker.check c b now ve }

/-- **`Breaker.record` (the definition the C03 / C04 theorems are about) is the code's record-then-check**, with the execution
handed to the check exactly on the failure path that came through an execution -/
theorem model_record_is_the_codes (c : Breaker.Cfg) (b : Breaker.B) (now : Int) (viaExec : Bool) :
    Breaker.record c b now true = brkRecordSuccess (modelOps c now) b ∧
    Breaker.record c b now false viaExec = brkRecordFailure (modelOps c now) b viaExec := ⟨rfl, rfl⟩

end Failsafe.Tie.XBreaker
