import Failsafe.ExecBodies
import Failsafe.Generated.XDelayable
/-! # GEN tie: `policy.BaseDelayablePolicy.ComputeDelay` regenerated from /repo equals the reference definition: the delay function's own answer is handed on untouched (in particular its `-1` = "use the configured delay", which the breaker, the retry policy and the hedge policy all test for). -/
namespace Failsafe.Tie.XDelayable
open Failsafe Failsafe.ExecBodies

theorem tie_computeDelay (exec : Option Unit) (fn : Option Int) : Generated.XDelayable.computeDelayGen exec fn = computeDelay exec fn := by
  simp only [Generated.XDelayable.computeDelayGen, computeDelay, optIntVal]
  cases exec <;> cases fn <;> simp

/-- a delay function that declines is indistinguishable from none -/
theorem declining_is_none (exec : Option Unit) : computeDelay exec (some (-1)) = computeDelay exec none := by
  cases exec <;> rfl

end Failsafe.Tie.XDelayable
