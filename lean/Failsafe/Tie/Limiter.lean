import Failsafe.Limiter
import Failsafe.GoArith
import Failsafe.Generated.Limiter
import Failsafe.Tie.Tactic
set_option linter.unusedSimpArgs false
/-!
# GEN tie for the rate limiter: the kernels regenerated from /repo equal the hand-written model.
Every theorem about `Failsafe.Limiter.*` is thereby a theorem about what the source says now.
-/
namespace Failsafe.Tie.Limiter
open Failsafe Failsafe.Limiter

theorem tie_exceeds : Generated.Limiter.exceedsMaxWaitTime = exceeds := by
  funext w mw
  simp only [Generated.Limiter.exceedsMaxWaitTime, exceeds]

theorem tie_roundDown : Generated.Limiter.roundDownGen = roundDown := by
  funext a b
  simp only [Generated.Limiter.roundDownGen, roundDown, goMod]

theorem tie_bursty : Generated.Limiter.burstyAcquire = burstyAcquire := by
  funext c s now req mw
  simp only [Generated.Limiter.burstyAcquire, burstyAcquire, roll, waitFor, goDiv, goMod]
  tie_close

theorem tie_smooth : Generated.Limiter.smoothAcquire = smoothAcquire := by
  funext c s now k mw
  simp only [Generated.Limiter.smoothAcquire, smoothAcquire, roundDown, goDiv, goMod]
  tie_close

end Failsafe.Tie.Limiter
