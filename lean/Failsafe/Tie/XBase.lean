import Failsafe.ExecBodies
import Failsafe.Generated.XBase
set_option linter.unusedSimpArgs false
/-! # GEN tie: `policy.BaseExecutor.PostExecute`, regenerated from /repo on every check, equals the reference definition of `Failsafe/ExecBodies.lean` for every state and argument. -/
namespace Failsafe.Tie.XBase
open Failsafe Failsafe.ExecBodies

theorem tie_postExecute {σ : Type} (isF : PR → Bool) (fv : σ → PR → PR) (fs : σ → PR → σ) (os : σ → PR → σ) (s : σ) (er : PR) :
    Generated.XBase.postExecuteGen isF fv fs os s er = postExecute isF (fun s a => (fv s a, fs s a)) os s er := by
  simp only [Generated.XBase.postExecuteGen, postExecute]

end Failsafe.Tie.XBase
