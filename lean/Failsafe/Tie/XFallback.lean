import Failsafe.ExecBodies
import Failsafe.Generated.XFallback
set_option linter.unusedSimpArgs false
/-! # GEN tie: the fallback executor's `Apply`, regenerated from /repo on every check, equals the reference definition of `Failsafe/ExecBodies.lean` for every state and argument. -/
namespace Failsafe.Tie.XFallback
open Failsafe Failsafe.ExecBodies

theorem tie_fallbackApply (s : FSt) (inner : PR) (post : Unit → PR → PR) (canc : Bool → Bool × PR) (fo : Outcome) (ff : Bool) (oe : Option Unit) :
    Generated.XFallback.fallbackApplyGen s inner post canc fo ff oe = fallbackApply s inner post canc fo ff oe := by
  simp only [Generated.XFallback.fallbackApplyGen, fallbackApply, PR.zero, fCallFn, FSt.emit]
  by_cases h1 : (post () inner).success = true <;> by_cases h2 : (canc s.fnCalled).1 = true <;> by_cases h3 : (canc true).1 = true <;>
    cases oe <;> simp [h1, h2, h3]

end Failsafe.Tie.XFallback
