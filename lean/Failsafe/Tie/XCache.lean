import Failsafe.ExecBodies
import Failsafe.Generated.XCache
set_option linter.unusedSimpArgs false
/-! # GEN tie: the cache executor's `getCacheKey` / `PreExecute` / `PostExecute`, regenerated from /repo on every check, equals the reference definition of `Failsafe/ExecBodies.lean` for every state and argument. -/
namespace Failsafe.Tie.XCache
open Failsafe Failsafe.ExecBodies

theorem tie_getCacheKey (c : CCfg) : Generated.XCache.getCacheKeyGen c = getCacheKey c := by
  simp only [Generated.XCache.getCacheKeyGen, getCacheKey]
  rcases h : c.ctxRaw with _ | (_ | _) <;> simp [rawStr, rawIsStr]

theorem tie_cachePre (c : CCfg) (s : CSt) : Generated.XCache.cachePreGen c s = cachePre c s := by
  simp only [Generated.XCache.cachePreGen, cachePre, PR.zero, optInt]
  by_cases hk : getCacheKey c = "" <;> cases hg : cacheGet s (getCacheKey c) <;> cases c.onHit <;> cases c.onMiss <;> simp [hk, hg]

theorem tie_cachePost (c : CCfg) (s : CSt) (n : Nat) (ca : Bool) (er : PR) :
    Generated.XCache.cachePostGen c s n ca er = cachePost c s n ca er := by
  simp only [Generated.XCache.cachePostGen, cachePost]
  by_cases hk : getCacheKey c = "" <;> cases ca <;> cases he : er.err <;> by_cases hn : n = 0 <;> cases c.onCache <;> simp [hk, he, hn]

end Failsafe.Tie.XCache
