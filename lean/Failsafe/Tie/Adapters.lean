import Failsafe.Adapters
import Failsafe.Generated.Adapters
import Failsafe.Generated.Facts
import Failsafe.Tie.Tactic
set_option linter.unusedSimpArgs false
/-! # GEN tie: the HTTP / gRPC retry predicates and the Retry-After delay function regenerated from /repo equal the model's. -/
namespace Failsafe.Tie.Adapters
open Failsafe Failsafe.Adapters

theorem tie_retryHandle (resp : Option Resp) (err : Option HErr) :
    Generated.Adapters.retryHandleGen resp err = retryHandle resp err := by
  cases err with
  | some e =>
    obtain ⟨us, u, c, r, ua, cn, dl⟩ := e
    cases us <;> cases u <;> cases c <;> cases r <;> cases ua <;>
      simp [Generated.Adapters.retryHandleGen, retryHandle, retryableError, errOf]
  | none =>
    cases resp with
    | none => simp [Generated.Adapters.retryHandleGen, retryHandle]
    | some r =>
      simp only [Generated.Adapters.retryHandleGen, retryHandle, retryableStatus, statusOf]
      by_cases h1 : r.status = 429 <;> by_cases h2 : r.status ≥ 500 <;> by_cases h3 : r.status = 501 <;> simp [h1, h2, h3]

theorem tie_delayFn (resp : Option Resp) : Generated.Adapters.delayFnGen resp = delayFn resp := by
  cases resp with
  | none => simp [Generated.Adapters.delayFnGen, delayFn]
  | some r =>
    obtain ⟨st, ra⟩ := r
    cases ra <;> by_cases h1 : st = 429 <;> by_cases h2 : st = 503 <;>
      simp [Generated.Adapters.delayFnGen, delayFn, statusOf, raOf, raPresent, raInt, raErr, h1, h2]

theorem tie_grpcHandle (table : List Nat) (err : Option GErr) :
    Generated.Adapters.grpcHandleGen table err = grpcHandle table err := by
  cases err with
  | none => simp [Generated.Adapters.grpcHandleGen, grpcHandle]
  | some e => cases e <;> simp [Generated.Adapters.grpcHandleGen, grpcHandle, gIsStatus, gCode]

/-- FACTS: the code table of the gRPC retry policy is {DeadlineExceeded, ResourceExhausted, Unavailable} -/
theorem grpc_table : Generated.Facts.grpcRetryableCodes = [4, 8, 14] := by decide

end Failsafe.Tie.Adapters
