/-! Generic closing script for GEN tie equalities (after `funext` and `simp only [defs]`). -/
namespace Failsafe.Tie

/-- split every `if`/`match`, then close each leaf by reflexivity, simplification or linear arithmetic -/
macro "tie_close" : tactic =>
  `(tactic| (first
      | rfl
      | (repeat' split) <;> (first | rfl | (simp_all; done) | (simp_all <;> omega) | omega | (simp_all <;> grind) | grind)))

end Failsafe.Tie
