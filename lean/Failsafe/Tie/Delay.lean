import Failsafe.Delay
import Failsafe.DelayKernels
import Failsafe.Generated.Delay
set_option linter.unusedSimpArgs false
/-! # GEN tie: retry delay kernels regenerated from /repo equal the model's. -/
namespace Failsafe.Tie.Delay
open Failsafe Failsafe.Delay Failsafe.DelayKernels

theorem tie_adjustForMaxDuration : Generated.Delay.adjustForMaxDurationGen = adjustForMaxDuration := by
  funext c d e
  simp only [Generated.Delay.adjustForMaxDurationGen, adjustForMaxDuration]
  by_cases h : c.maxDuration = 0 <;> simp [h]

theorem tie_randomDelay (d j : Int) (r : Float) : Generated.Delay.randomDelayGen d j r = randomDelay d j r := rfl
theorem tie_randomDelayFactor (d : Int) (jf r : Float32) : Generated.Delay.randomDelayFactorGen d jf r = randomDelayFactor d jf r := rfl
theorem tie_randomInRange (lo hi : Int) (r : Float) : Generated.Delay.randomInRangeGen lo hi r = randomInRange lo hi r := rfl

theorem tie_adjustForJitter (c : Cfg) (d : Int) (r64 : Float) (r32 : Float32) :
    Generated.Delay.adjustForJitterGen c d r64 r32 =
      adjustForJitter c d (jitterAddend c.jitter r64) (jitterByFactor d c.jitterFactor r32) := by
  simp only [Generated.Delay.adjustForJitterGen, adjustForJitter, randomDelay, randomDelayFactor]
  by_cases h : c.jitter = 0 <;> simp [h]

/-- `getDelay`: delay function value if it returned one, else fixed/backoff/random; jitter only for non-zero delays; then the
max-duration clamp. The jittered value is **not** written back to the backoff state (no assignment to `lastDelay` here). -/
theorem tie_getDelay (c : Cfg) (computed fr : Int) (jit : Int → Int) (elapsed : Int) :
    Generated.Delay.getDelayGen c computed fr jit elapsed =
      adjustForMaxDuration c (let d := if computed ≠ -1 then computed else fr; if d ≠ 0 then jit d else d) elapsed := by
  simp only [Generated.Delay.getDelayGen]
  by_cases h1 : computed = -1 <;> simp [h1]

theorem tie_fixedOrRandom (c : Cfg) (last retries : Int) (rnd : Float) :
    ((Generated.Delay.fixedOrRandomGen c ⟨last⟩ retries rnd).1, (Generated.Delay.fixedOrRandomGen c ⟨last⟩ retries rnd).2.last) =
      fixedOrRandom c last retries (randomInRange c.delayMin c.delayMax rnd) := by
  simp only [Generated.Delay.fixedOrRandomGen, fixedOrRandom, scale, toDur, ToDur.toDur, id]
  by_cases h1 : c.delay = 0 <;> by_cases h2 : last = 0 <;> by_cases h3 : retries ≥ 1 <;> by_cases h4 : c.maxDelay = 0 <;>
    by_cases h5 : c.delayMin = 0 <;> by_cases h6 : c.delayMax = 0 <;> simp [h1, h2, h3, h4, h5, h6]

end Failsafe.Tie.Delay
