import Failsafe.ExecBodies
import Failsafe.Generated.XBulkhead
set_option linter.unusedSimpArgs false
/-! # GEN tie: the bulkhead executor's `PreExecute`, regenerated from /repo on every check, equals the reference definition of `Failsafe/ExecBodies.lean` for every state and argument. -/
namespace Failsafe.Tie.XBulkhead
open Failsafe Failsafe.ExecBodies

theorem tie_bulkheadPre (s : BSt) (acq : Option Err) (canc : Bool × Option PR) (onFull : Option Unit) :
    Generated.XBulkhead.bulkheadPreGen s acq canc onFull = bulkheadPre s acq canc onFull := by
  simp only [Generated.XBulkhead.bulkheadPreGen, bulkheadPre, errIsFull, failOpt]
  cases acq with
  | none => simp
  | some e => cases h : e.is Err.FULL <;> cases hc : canc.1 <;> cases onFull <;> simp [h, hc]

end Failsafe.Tie.XBulkhead
