import Failsafe.ExecKernels
import Failsafe.Generated.Execution
/-! # GEN tie: the statistics getters of `execution.go` regenerated from /repo equal the documented definitions. -/
namespace Failsafe.Tie.Execution
open Failsafe Failsafe.ExecKernels

theorem tie_isFirstAttempt : Generated.Execution.isFirstAttemptGen = isFirstAttempt := rfl
theorem tie_isRetry : Generated.Execution.isRetryGen = isRetry := rfl
theorem tie_attempts (c : Counters) : Generated.Execution.attemptsGen c = c.attempts := rfl
theorem tie_retries (c : Counters) : Generated.Execution.retriesGen c = c.retries := rfl
theorem tie_hedges (c : Counters) : Generated.Execution.hedgesGen c = c.hedges := rfl
theorem tie_executions (c : Counters) : Generated.Execution.executionsGen c = c.executions := rfl

end Failsafe.Tie.Execution
