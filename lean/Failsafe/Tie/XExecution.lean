import Failsafe.ExecBodies
import Failsafe.Generated.XExecution
set_option linter.unusedSimpArgs false
/-! # GEN tie: the mutex-protected methods and copies of `execution.go`, regenerated from /repo on every check, equals the reference definition of `Failsafe/ExecBodies.lean` for every state and argument. -/
namespace Failsafe.Tie.XExecution
open Failsafe Failsafe.ExecBodies

theorem tie_isCanc (s : XSt) : Generated.XExecution.isCancGen s = isCanc s := by
  simp only [Generated.XExecution.isCancGen, isCanc, PR.zero]
  cases h1 : s.ctxErr <;> cases h2 : s.cell <;> simp

theorem tie_recordResult (s : XSt) (r : Option PR) : Generated.XExecution.recordResultGen s r = recordResult s r := by
  simp only [Generated.XExecution.recordResultGen, recordResult, optVal, optErr]
  cases r <;> cases h : (isCanc s).1 <;> simp

theorem tie_initializeRetry (s : XSt) : Generated.XExecution.initializeRetryGen s = initializeRetry s := by
  simp only [Generated.XExecution.initializeRetryGen, initializeRetry, addAttempts, addRetries]
  cases h : (isCanc s).1 <;> simp
  by_cases h2 : 0 < s.attempts <;> simp [h2]

theorem tie_cancel (s : XSt) (r : Option PR) : Generated.XExecution.cancelGen s r = cancel s r := by
  simp only [Generated.XExecution.cancelGen, cancel, optVal, optErr]
  cases r <;> cases h : (isCanc s).1 <;> cases hc : s.cancelFunc <;> simp [hc]

theorem tie_copyForHedge (s : XSt) : Generated.XExecution.copyForHedgeGen s = copyForHedge s := rfl

theorem tie_record (s : XSt) : Generated.XExecution.recordGen s = record s := rfl

theorem tie_lastError (s : XSt) : Generated.XExecution.lastErrorGen s = lastError s := by
  simp only [Generated.XExecution.lastErrorGen, lastError]
  cases s.lastErr <;> cases s.ctxErr <;> simp

theorem tie_copyWithResult (s : XSt) (r : Option PR) : Generated.XExecution.copyWithResultGen s r = copyWithResult s r := by
  simp only [Generated.XExecution.copyWithResultGen, copyWithResult, optVal, optErr]
  cases r <;> simp

theorem tie_isCanceledFlag (s : XSt) : Generated.XExecution.isCanceledFlagGen s = isCanceledFlag s := by
  simp only [Generated.XExecution.isCanceledFlagGen, isCanceledFlag]
  cases s.ctxErr <;> simp
theorem tie_isHedgeFlag (s : XSt) : Generated.XExecution.isHedgeFlagGen s = isHedgeFlag s := rfl
theorem tie_lastResult (s : XSt) : Generated.XExecution.lastResultGen s = lastResult s := rfl

end Failsafe.Tie.XExecution
