import Failsafe.ExecBodies
import Failsafe.Generated.XAdmit
set_option linter.unusedSimpArgs false
/-! # GEN tie: the circuit breaker executor's `PreExecute` / `OnSuccess` / `OnFailure` and the rate limiter executor's `Apply`, regenerated from /repo on every check, equal the reference definitions for every instantiation of the operations they are made of. -/
namespace Failsafe.Tie.XAdmit
open Failsafe Failsafe.ExecBodies

theorem tie_breakerPre {σ : Type} (ops : AdmitOps σ) (s : σ) : Generated.XAdmit.breakerPreGen ops s = breakerPre ops s := by
  simp only [Generated.XAdmit.breakerPreGen, breakerPre]
  cases ops.tryV s <;> simp

theorem tie_breakerOnSuccess {σ : Type} (ops : AdmitOps σ) (s : σ) (r : PR) :
    Generated.XAdmit.breakerOnSuccessGen ops s r = breakerOnSuccess ops s r := rfl

theorem tie_breakerOnFailure {σ : Type} (ops : AdmitOps σ) (s : σ) (r : PR) :
    Generated.XAdmit.breakerOnFailureGen ops s r = breakerOnFailure ops s r := rfl

theorem tie_limiterApply {σ : Type} (ops : LimitOps σ) (s : σ) : Generated.XAdmit.limiterApplyGen ops s = limiterApply ops s := by
  simp only [Generated.XAdmit.limiterApplyGen, limiterApply, failE, errIsRate]
  cases h : ops.acquireV s with
  | none => simp
  | some e => cases ops.hasOnExceeded <;> cases e.is Err.RATE <;> simp

end Failsafe.Tie.XAdmit
