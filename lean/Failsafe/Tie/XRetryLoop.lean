import Failsafe.ExecBodies
import Failsafe.Generated.XRetryLoop
set_option linter.unusedSimpArgs false
/-! # GEN tie: one iteration of the retry loop (`retrypolicy.executor.Apply`), regenerated from /repo on every check, equals the reference definition for every instantiation of the operations it is made of. -/
namespace Failsafe.Tie.XRetryLoop
open Failsafe Failsafe.ExecBodies

theorem opt_pair {α σ : Type} [DecidableEq α] (o : Option α) (x : σ) (b : Option α × σ) :
    (if (o != none) = true then (o, x) else b) = (match o with | some c => (some c, x) | none => b) := by
  cases o <;> simp

theorem flag_branch {β : Type} (h : Option Unit) (x y : β) : (if (h != none) = true then x else y) = if h.isSome = true then x else y := by
  cases h <;> simp

theorem tie_retryIter {σ : Type} (ops : LoopOps σ) (s : σ) : Generated.XRetryLoop.retryIterGen ops s = retryIter ops s := by
  simp only [Generated.XRetryLoop.retryIterGen, retryIter, flag_branch]
  by_cases h1 : (ops.isCanc (ops.innerS s)).1 = true
  · simp [h1]
  · simp only [h1, Bool.false_eq_true, if_false]
    by_cases h2 : ops.exceeded (ops.innerS s) = true
    · simp [h2]
    · simp only [h2, Bool.false_eq_true, if_false]
      by_cases h3 : (ops.postV (ops.innerS s) (ops.innerV s)).done = true
      · simp [h3]
      · simp only [h3, Bool.false_eq_true, if_false]
        simp only [opt_pair]
        cases h4 : ops.recordV (ops.postS (ops.innerS s) (ops.innerV s)) (ops.postV (ops.innerS s) (ops.innerV s)) <;> first | rfl | (simp only []; split <;> simp_all)

end Failsafe.Tie.XRetryLoop
