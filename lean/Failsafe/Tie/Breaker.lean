import Failsafe.Breaker
import Failsafe.BreakerKernels
import Failsafe.Generated.Breaker
import Failsafe.Tie.Tactic
set_option linter.unusedSimpArgs false
/-!
# GEN tie for the circuit breaker: decision kernels regenerated from /repo equal the model's.
(`timedStats.currentBucket` — pointer aliasing inside a loop — is not translated; it is tied by DIFF only.)
-/
namespace Failsafe.Tie.Breaker
open Failsafe Failsafe.Breaker Failsafe.BreakerKernels

theorem tie_closedCheck (c : Cfg) (st : Stats) (d : Dec) :
    Generated.Breaker.closedCheck c st d = (if closedShouldOpen c st then decOpen d () else d) := by
  simp only [Generated.Breaker.closedCheck, closedShouldOpen]
  by_cases h1 : st.exec ≥ c.fet <;> simp [h1]

theorem tie_halfOpenCheck (c : Cfg) (st : Stats) (d : Dec) :
    Generated.Breaker.halfOpenCheck c st d =
      (let dec := halfOpenDecision c st
       let d1 := if dec.1 then decClose d else if dec.2 then decOpen d () else d
       { d1 with permits := d1.permits + 1 }) := by
  simp only [Generated.Breaker.halfOpenCheck, halfOpenDecision]
  by_cases h1 : c.st = 0 <;> by_cases h2 : c.frt = 0 <;> simp [h1, h2]

theorem tie_openTry (start delay now : Int) (delegated : Bool) (d : Dec) :
    Generated.Breaker.openTry start delay now delegated d =
      (if now - start ≥ delay then (delegated, decHalfOpen d) else (false, d)) := by
  simp only [Generated.Breaker.openTry]
  by_cases h : now - start ≥ delay <;> simp [h]

/-- the model's `tryAcquire` in the open state is this kernel followed by the half-open state's own `tryAcquirePermit` -/
theorem model_openTry (c : Cfg) (b : B) (now : Int) (hb : b.tag = .opened) :
    (tryAcquire c b now).2 =
      (Generated.Breaker.openTry b.start b.delay now
        (Generated.Breaker.halfOpenTry { permits := halfOpenCap c }).1 {}).1 := by
  rw [tie_openTry]
  unfold tryAcquire transition Generated.Breaker.halfOpenTry
  simp only [hb]
  by_cases h : now - b.start ≥ b.delay
  · by_cases hc : halfOpenCap c > 0 <;> simp [h, hc]
  · simp [h]

theorem tie_openRemaining (b : B) (now : Int) (hb : b.tag = .opened) :
    Generated.Breaker.openRemaining b.start b.delay now = remaining b now := by
  simp only [Generated.Breaker.openRemaining, remaining, hb]

theorem tie_halfOpenTry (b : B) (c : Cfg) (now : Int) (hb : b.tag = .halfOpen) :
    (Generated.Breaker.halfOpenTry { permits := b.permits }).1 = (tryAcquire c b now).2 ∧
    (Generated.Breaker.halfOpenTry { permits := b.permits }).2.permits = (tryAcquire c b now).1.permits := by
  simp only [Generated.Breaker.halfOpenTry, tryAcquire, hb]
  by_cases h : b.permits > 0 <;> simp [h]

theorem tie_closedCap : Generated.Breaker.closedCapGen = closedCap := by
  funext c
  simp only [Generated.Breaker.closedCapGen, closedCap]
  by_cases h : c.fet = 0 <;> simp [h]

theorem tie_halfOpenCap : Generated.Breaker.halfOpenCapGen = halfOpenCap := by
  funext c
  simp only [Generated.Breaker.halfOpenCapGen, halfOpenCap]
  by_cases h1 : c.stc = 0 <;> by_cases h2 : c.fet = 0 <;> simp [h1, h2]

theorem tie_setNext (r : Ring) (v : Bool) : (Generated.Breaker.setNextGen r v).2 = setNext r v := by
  simp only [Generated.Breaker.setNextGen, setNext, ringTest, ringSetTo]
  simp only [List.getD_eq_getElem?_getD]
  by_cases h1 : r.occ < r.size <;> by_cases hb : r.bits[r.head]?.getD false = true <;> by_cases hv : v = true <;>
    simp [h1, hb, hv]

theorem tie_failureRate (r : Ring) : Generated.Breaker.countingFailureRate r = pct r.fail r.occ := by
  simp only [Generated.Breaker.countingFailureRate, pct, floatToNat]
  by_cases h : r.occ = 0 <;> simp [h]

theorem tie_successRate (r : Ring) : Generated.Breaker.countingSuccessRate r = pct r.succ r.occ := by
  simp only [Generated.Breaker.countingSuccessRate, pct, floatToNat]
  by_cases h : r.occ = 0 <;> simp [h]

/-! the statistics the thresholds are computed from: the counters `Stats.exec / fails / succs / frate / srate` of the model are the
getters of the two statistics implementations, for the ring and for the time window alike -/
theorem tie_countingCounts (r : Ring) :
    Generated.Breaker.countingExecutionCount r = (Stats.ring r).exec ∧ Generated.Breaker.countingFailureCount r = (Stats.ring r).fails ∧
    Generated.Breaker.countingSuccessCount r = (Stats.ring r).succs := ⟨rfl, rfl, rfl⟩

theorem tie_timedCounts (t : Timed) :
    Generated.Breaker.timedExecutionCount t = (Stats.timed t).exec ∧ Generated.Breaker.timedFailureCount t = (Stats.timed t).fails ∧
    Generated.Breaker.timedSuccessCount t = (Stats.timed t).succs := ⟨rfl, rfl, rfl⟩

theorem tie_timedFailureRate (t : Timed) : Generated.Breaker.timedFailureRate t = (Stats.timed t).frate := by
  simp only [Generated.Breaker.timedFailureRate, Stats.frate, Stats.fails, Stats.exec, pct, floatToNat]
  by_cases h : t.sumS + t.sumF = 0 <;> simp [h]

theorem tie_timedSuccessRate (t : Timed) : Generated.Breaker.timedSuccessRate t = (Stats.timed t).srate := by
  simp only [Generated.Breaker.timedSuccessRate, Stats.srate, Stats.succs, Stats.exec, pct, floatToNat]
  by_cases h : t.sumS + t.sumF = 0 <;> simp [h]

end Failsafe.Tie.Breaker
