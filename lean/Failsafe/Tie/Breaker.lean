import Failsafe.Breaker
import Failsafe.BreakerKernels
import Failsafe.Generated.Breaker
import Failsafe.Tie.Tactic
set_option linter.unusedSimpArgs false
/-!
# GEN tie for the circuit breaker: decision kernels regenerated from /repo equal the model's.
(`timedStats.currentBucket` — pointer aliasing inside a loop — is not translated; it is tied by DIFF only.)
-/
namespace Failsafe.Tie.Breaker
open Failsafe Failsafe.Breaker Failsafe.BreakerKernels

theorem tie_closedCheck (c : Cfg) (st : Stats) (d : Dec) :
    Generated.Breaker.closedCheck c st d = (if closedShouldOpen c st then decOpen d () else d) := by
  simp only [Generated.Breaker.closedCheck, closedShouldOpen]
  by_cases h1 : st.exec ≥ c.fet <;> simp [h1]

theorem tie_halfOpenCheck (c : Cfg) (st : Stats) (d : Dec) :
    Generated.Breaker.halfOpenCheck c st d =
      (let dec := halfOpenDecision c st
       let d1 := if dec.1 then decClose d else if dec.2 then decOpen d () else d
       { d1 with permits := d1.permits + 1 }) := by
  simp only [Generated.Breaker.halfOpenCheck, halfOpenDecision]
  by_cases h1 : c.st = 0 <;> by_cases h2 : c.frt = 0 <;> simp [h1, h2]

theorem tie_openTry (start delay now : Int) (delegated : Bool) (d : Dec) :
    Generated.Breaker.openTry start delay now delegated d =
      (if now - start ≥ delay then (delegated, decHalfOpen d) else (false, d)) := by
  simp only [Generated.Breaker.openTry]
  by_cases h : now - start ≥ delay <;> simp [h]

/-- the model's `tryAcquire` in the open state is this kernel followed by the half-open state's own `tryAcquirePermit` -/
theorem model_openTry (c : Cfg) (b : B) (now : Int) (hb : b.tag = .opened) :
    (tryAcquire c b now).2 =
      (Generated.Breaker.openTry b.start b.delay now
        (Generated.Breaker.halfOpenTry { permits := halfOpenCap c }).1 {}).1 := by
  rw [tie_openTry]
  unfold tryAcquire transition Generated.Breaker.halfOpenTry
  simp only [hb]
  by_cases h : now - b.start ≥ b.delay
  · by_cases hc : halfOpenCap c > 0 <;> simp [h, hc]
  · simp [h]

theorem tie_openRemaining (b : B) (now : Int) (hb : b.tag = .opened) :
    Generated.Breaker.openRemaining b.start b.delay now = remaining b now := by
  simp only [Generated.Breaker.openRemaining, remaining, hb]

theorem tie_halfOpenTry (b : B) (c : Cfg) (now : Int) (hb : b.tag = .halfOpen) :
    (Generated.Breaker.halfOpenTry { permits := b.permits }).1 = (tryAcquire c b now).2 ∧
    (Generated.Breaker.halfOpenTry { permits := b.permits }).2.permits = (tryAcquire c b now).1.permits := by
  simp only [Generated.Breaker.halfOpenTry, tryAcquire, hb]
  by_cases h : b.permits > 0 <;> simp [h]

theorem tie_closedCap : Generated.Breaker.closedCapGen = closedCap := by
  funext c
  simp only [Generated.Breaker.closedCapGen, closedCap]
  by_cases h : c.fet = 0 <;> simp [h]

theorem tie_halfOpenCap : Generated.Breaker.halfOpenCapGen = halfOpenCap := by
  funext c
  simp only [Generated.Breaker.halfOpenCapGen, halfOpenCap]
  by_cases h1 : c.stc = 0 <;> by_cases h2 : c.fet = 0 <;> simp [h1, h2]

theorem tie_setNext (r : Ring) (v : Bool) : (Generated.Breaker.setNextGen r v).2 = setNext r v := by
  simp only [Generated.Breaker.setNextGen, setNext, ringTest, ringSetTo]
  simp only [List.getD_eq_getElem?_getD]
  by_cases h1 : r.occ < r.size <;> by_cases hb : r.bits[r.head]?.getD false = true <;> by_cases hv : v = true <;>
    simp [h1, hb, hv]

theorem tie_failureRate (r : Ring) : Generated.Breaker.countingFailureRate r = pct r.fail r.occ := by
  simp only [Generated.Breaker.countingFailureRate, pct, floatToNat]
  by_cases h : r.occ = 0 <;> simp [h]

theorem tie_successRate (r : Ring) : Generated.Breaker.countingSuccessRate r = pct r.succ r.occ := by
  simp only [Generated.Breaker.countingSuccessRate, pct, floatToNat]
  by_cases h : r.occ = 0 <;> simp [h]

end Failsafe.Tie.Breaker
