/-!
# Rate limiter model (ratelimiter/ratelimiterstats.go)

Hand-written model of the two `acquirePermits` kernels. `Failsafe.Tie.Limiter` proves that the kernels
regenerated from `/repo` by the translator are equal to these definitions; the driver executes these same
definitions in the differential check. Go's `/` and `%` on signed integers are `Int.tdiv`/`Int.tmod`.
-/
namespace Failsafe.Limiter

/-- bursty configuration: permits per period, period length (ns) -/
structure BCfg where
  pp     : Int
  period : Int
deriving Repr

/-- bursty state: `availablePermits` (may be negative), `currentPeriod` -/
structure BSt where
  avail : Int
  cur   : Int
deriving DecidableEq, Repr

/-- smooth configuration: interval between permits (ns) -/
structure SCfg where
  interval : Int
deriving Repr

/-- smooth state: `nextFreePermitTime` -/
structure SSt where
  next : Int
deriving DecidableEq, Repr

/-- `exceedsMaxWaitTime` -/
def exceeds (w mw : Int) : Bool := mw != -1 && decide (w > mw)

/-- the period roll at the head of bursty `acquirePermits` -/
def roll (c : BCfg) (s : BSt) (now : Int) : BSt :=
  let np := Int.tdiv now c.period
  if s.cur < np then
    { cur := np, avail := if s.avail < 0 then min (s.avail + (np - s.cur) * c.pp) c.pp else c.pp }
  else s

/-- wait computed for a request that exceeds the available permits -/
def waitFor (c : BCfg) (s : BSt) (now req : Int) : Int :=
  let d := req - s.avail
  let ap := if Int.tmod d c.pp = 0 then Int.tdiv d c.pp - 1 else Int.tdiv d c.pp
  (s.cur + 1) * c.period - now + ap * c.period

/-- bursty `acquirePermits`: returns (wait or -1, new state) -/
def burstyAcquire (c : BCfg) (s : BSt) (now req maxWait : Int) : Int × BSt :=
  let s1 := roll c s now
  if req > s1.avail then
    let w := waitFor c s1 now req
    if exceeds w maxWait then (-1, s1) else (w, { s1 with avail := s1.avail - req })
  else (0, { s1 with avail := s1.avail - req })

/-- smooth `acquirePermits`: returns (wait or -1, new state) -/
def smoothAcquire (c : SCfg) (s : SSt) (now k maxWait : Int) : Int × SSt :=
  let nn := if now ≥ s.next then (now - Int.tmod now c.interval) + c.interval * k else s.next + c.interval * k
  let w := max (nn - now - c.interval) 0
  if exceeds w maxWait then (-1, s) else (w, { next := nn })

end Failsafe.Limiter
