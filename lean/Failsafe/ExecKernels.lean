/-! Vocabulary of the regenerated `execution.go` getters: the shared atomic counters of an execution. -/
namespace Failsafe.ExecKernels

structure Counters where
  attempts : Nat
  retries : Nat
  hedges : Nat
  executions : Nat
deriving Repr, DecidableEq

/-- `IsFirstAttempt`: documented as "Attempts is 1" -/
def isFirstAttempt (c : Counters) : Bool := c.attempts == 1
/-- `IsRetry`: documented as "Attempts is > 1" -/
def isRetry (c : Counters) : Bool := decide (c.attempts > 1)

end Failsafe.ExecKernels
