import Failsafe.Exec
import Failsafe.Props.C03
/-!
# C16 — events are emitted exactly once per occurrence and tell a consistent story

The event log is a field of the run state; every listener call of every executor is an `emit` whose placement (which
listener, under which guard, before/after which effect) is pinned by FACTS and validated by the differential check, which
records **every** listener the builders expose into one ordered log per execution.

Reading: "at most once" for `OnAbort` / `OnRetriesExceeded` is per entry of the retry layer (an outer retry that re-enters an
inner retry starts a new occurrence; an exhausted inner executor stays silent, see `C02.retry_exhausted_passthrough`).
-/
namespace Failsafe.Props.C16
open Failsafe Failsafe.Exec Failsafe.Classify

def count (name : String) (pos : Nat) (log : List Event) : Nat :=
  (log.filter (fun e => e.name == name && e.pos == pos)).length

theorem count_append (name : String) (pos : Nat) (a b : List Event) :
    count name pos (a ++ b) = count name pos a + count name pos b := by
  simp [count, List.filter_append]

theorem count_emit (name : String) (pos : Nat) (r : Run) (n : String) (p : Nat) :
    count name pos (r.emit n p).log = count name pos r.log + (if n == name && p == pos then 1 else 0) := by
  simp only [Run.emit, count_append]
  congr 1
  simp only [count, List.filter_cons, List.filter_nil]
  split <;> simp

theorem count_emitSeen (name : String) (pos : Nat) (r : Run) (n : String) (p : Nat) (o : Outcome) :
    count name pos (r.emitSeen n p o).log = count name pos r.log + (if n == name && p == pos then 1 else 0) := by
  simp only [Run.emitSeen, count_append]
  congr 1
  simp only [count, List.filter_cons, List.filter_nil]
  split <;> simp

theorem count_emitLast (name : String) (pos : Nat) (r : Run) (n : String) (p : Nat) :
    count name pos (r.emitLast n p).log = count name pos r.log + (if n == name && p == pos then 1 else 0) :=
  count_emitSeen name pos r n p r.last

/-- **the executor's own events**: every execution ends with exactly one verdict event, matching the returned result's
`SuccessAll`, followed by exactly one `OnDone` — and nothing after; both carry exactly the result and the error the caller receives -/
theorem one_done_one_verdict (fuel : Nat) (ps : List Policy) (r : Run) (res : PR) (r' : Run)
    (h : execute fuel ps r = some (res, r')) :
    ∃ r1, executeStack fuel 0 ps r = some (res, r1) ∧
      r'.log = r1.log ++ [⟨if res.successAll then "ex.onSuccess" else "ex.onFailure", 0, r1.attempts, r1.execs, some res.outcome⟩,
                          ⟨"ex.onDone", 0, r1.attempts, r1.execs, some res.outcome⟩] := by
  unfold execute at h
  split at h
  · simp at h
  · rename_i res1 r1 hin
    simp only [Option.some.injEq, Prod.mk.injEq] at h
    obtain ⟨rfl, rfl⟩ := h
    refine ⟨r1, hin, ?_⟩
    split <;> simp [Run.emit, Run.emitSeen, *]

/-- **per handled failure, the retry policy's events**: `OnFailure` always; `OnAbort` iff the failure matches an abort
condition; `OnRetriesExceeded` iff the budget is exhausted and it is not an abort; never both -/
theorem retry_onFailure_events (pos : Nat) (m : Int) (rl : Bool) (a : List Cond) (res1 : PR) (r : Run) :
    let exc : Bool := decide (m ≠ -1 ∧ ((getFailed r pos + 1 : Nat) : Int) > m) || durExceeded pos r
    let ab := isAbortable a res1.outcome
    (retryOnFailure pos m rl a res1 r).2.log =
      r.log ++ [⟨"rp.onFailure", pos, r.attempts, r.execs, some res1.outcome⟩]
        ++ (if ab then [⟨"rp.onAbort", pos, r.attempts, r.execs, some res1.outcome⟩] else [])
        ++ (if exc && !ab then [⟨"rp.onRetriesExceeded", pos, r.attempts, r.execs, some res1.outcome⟩] else []) := by
  unfold retryOnFailure
  simp only
  have hg : getFailed (r.emitSeen "rp.onFailure" pos res1.outcome) pos = getFailed r pos := rfl
  rw [hg]
  generalize (decide (m ≠ -1 ∧ ((getFailed r pos + 1 : Nat) : Int) > m) || durExceeded pos r) = exc
  generalize isAbortable a res1.outcome = ab
  cases exc <;> cases ab <;> cases rl <;> simp [Run.emit, Run.emitSeen, setFailed]

/-- **`OnRetryScheduled` once per retry decided, `OnRetry` once per retry started**: every scheduled retry is started — the two
counts grow together — except that a retry scheduled when the execution is cancelled during its delay is never started (then,
and only then, one more was scheduled than started, and the loop has returned with the execution cancelled); for any inner layer
that does not emit this policy's events -/
theorem retry_scheduled_eq_started (pos : Nat) (m : Int) (rl : Bool) (h a : List Cond) (inner : Layer)
    (hin : ∀ r res r1, inner r = some (res, r1) →
      count "rp.onRetryScheduled" pos r1.log = count "rp.onRetryScheduled" pos r.log ∧
      count "rp.onRetry" pos r1.log = count "rp.onRetry" pos r.log) :
    ∀ fuel r res r', retryLoop pos m rl h a inner fuel r = some (res, r') →
      (count "rp.onRetryScheduled" pos r'.log - count "rp.onRetryScheduled" pos r.log =
         count "rp.onRetry" pos r'.log - count "rp.onRetry" pos r.log ∨
       (count "rp.onRetryScheduled" pos r'.log - count "rp.onRetryScheduled" pos r.log =
         count "rp.onRetry" pos r'.log - count "rp.onRetry" pos r.log + 1 ∧ r'.isCanc = true)) ∧
      count "rp.onRetryScheduled" pos r.log ≤ count "rp.onRetryScheduled" pos r'.log ∧
      count "rp.onRetry" pos r.log ≤ count "rp.onRetry" pos r'.log := by
  intro fuel
  induction fuel with
  | zero => intro r res r' hh; simp [retryLoop] at hh
  | succ n ih =>
    intro r res r' hh
    simp only [retryLoop] at hh
    cases hi : inner r with
    | none => simp [hi] at hh
    | some x =>
      obtain ⟨res1, r1⟩ := x
      obtain ⟨h1, h2⟩ := hin r res1 r1 hi
      simp only [hi] at hh
      have hof : ∀ nm, (nm = "rp.onRetryScheduled" ∨ nm = "rp.onRetry") →
          count nm pos (retryOnFailure pos m rl a res1.withFailure r1).2.log = count nm pos r1.log := by
        intro nm hnm
        rw [retry_onFailure_events]
        simp only [count_append]
        rcases hnm with rfl | rfl <;>
          (repeat' split) <;> simp [count]
      by_cases hc : r1.isCanc = true
      · simp only [hc, if_true, Option.some.injEq, Prod.mk.injEq] at hh
        obtain ⟨_, rfl⟩ := hh; omega
      · simp only [hc] at hh
        by_cases he : r1.exceeded.contains pos = true
        · simp only [he, if_true, Option.some.injEq, Prod.mk.injEq] at hh
          obtain ⟨_, rfl⟩ := hh; omega
        · simp only [he] at hh
          by_cases hfl : isFailure h res1.outcome = true
          · simp only [hfl, if_true] at hh
            by_cases hd : (retryOnFailure pos m rl a res1.withFailure r1).1.done = true
            · simp only [hd, if_true, Option.some.injEq, Prod.mk.injEq] at hh
              obtain ⟨_, rfl⟩ := hh
              rw [hof _ (Or.inl rfl), hof _ (Or.inr rfl)]; omega
            · simp only [hd] at hh
              have e1 := hof _ (Or.inl rfl)
              have e2 := hof _ (Or.inr rfl)
              generalize hX : (({ (retryOnFailure pos m rl a res1.withFailure r1).2 with
                  last := (retryOnFailure pos m rl a res1.withFailure r1).1.outcome }).emitLast "rp.onRetryScheduled" pos).trigger "rp.onRetryScheduled" = X at hh
              have hXs : count "rp.onRetryScheduled" pos X.log = count "rp.onRetryScheduled" pos r1.log + 1 := by
                rw [← hX, Run.trigger_log]; simp only [Run.emitLast, Run.emitSeen, count_append]; rw [e1]; simp [count]
              have hXr : count "rp.onRetry" pos X.log = count "rp.onRetry" pos r1.log := by
                rw [← hX, Run.trigger_log]; simp only [Run.emitLast, Run.emitSeen, count_append]; rw [e2]; simp [count]
              by_cases hx : X.isCanc = true
              · simp only [hx, if_true, Option.some.injEq, Prod.mk.injEq] at hh
                obtain ⟨_, rfl⟩ := hh
                refine ⟨Or.inr ⟨by omega, hx⟩, by omega, by omega⟩
              · simp only [hx] at hh
                have := ih _ res r' hh
                simp only [count_emit, count_emitLast, count_emitSeen, Run.emit, Run.emitLast, Run.emitSeen, count_append, count] at this hXs hXr h1 h2 ⊢
                simp at this hXs hXr
                rcases this with ⟨h0 | ⟨h0, hcan⟩, hm1, hm2⟩
                · exact ⟨Or.inl (by omega), by omega, by omega⟩
                · exact ⟨Or.inr ⟨by omega, hcan⟩, by omega, by omega⟩
          · simp only [hfl, Option.some.injEq, Prod.mk.injEq] at hh
            obtain ⟨_, rfl⟩ := hh
            simp only [count_emit, count_emitSeen]
            simp; omega

/-- **rejection events**: `OnFull` fires exactly when the bulkhead refuses (and then nothing inside runs) -/
theorem bulkhead_onFull_iff (fuel pos id : Nat) (inner : Layer) (r : Run) (cap held : Nat) (hb : r.w.bulk[id]? = some (cap, held)) :
    (¬ held < cap → applyPolicy fuel pos (.bulkhead id) inner r = some (failureResult Err.full, r.emit "bh.onFull" pos)) ∧
    (held < cap → ∀ res r', applyPolicy fuel pos (.bulkhead id) inner r = some (res, r') →
        ∃ r1, inner { r with w := { r.w with bulk := r.w.bulk.set id (cap, held + 1) } } = some (res, r1) ∧ r'.log = r1.log) := by
  constructor
  · intro hfull
    simp only [applyPolicy, hb, hfull, if_false]
  · intro hfree res r' hh
    simp only [applyPolicy, hb, hfree, if_true] at hh
    split at hh
    · simp at hh
    · rename_i res1 r1 hin
      simp only [Option.some.injEq, Prod.mk.injEq] at hh
      obtain ⟨rfl, rfl⟩ := hh
      exact ⟨r1, hin, rfl⟩

/-- `OnRateLimitExceeded` fires exactly when the limiter refuses (and then nothing inside runs) -/
theorem limiter_event_iff (fuel pos id : Nat) (inner : Layer) (r : Run) (c : LimCfg) (s : LimSt)
    (hb : r.w.limiters[id]? = some (c, s)) :
    let r0 : Run := { r with w := { r.w with limiters := r.w.limiters.set id (c, (limAcquire c s r.w.now).2) } }
    applyPolicy fuel pos (.limiter id) inner r =
      if (limAcquire c s r.w.now).1 then inner r0
      else some (failureResult Err.rate, r0.emit "rl.onRateLimitExceeded" pos) := by
  simp only [applyPolicy, hb]

/-- breaker state-change events form a connected path from the initial state with the metrics of the state left: C03 -/
theorem breaker_events_connected (c : Breaker.Cfg) (t0 : Int) (ops : List C03.Op) :
    C03.EvInv (ops.foldl (C03.apply c) (Breaker.B.new c, t0)).1 := C03.events_connected_path c t0 ops

example : count "ex.onDone" 0 [⟨"ex.onSuccess", 0, 1, 1, none⟩, ⟨"ex.onDone", 0, 1, 1, none⟩] = 1 := by decide

end Failsafe.Props.C16
