import Failsafe.Classify
/-!
# C12 — failure classification follows the documented handle-condition rules
-/
namespace Failsafe.Props.C12
open Failsafe Failsafe.Classify

/-- the documented meaning of one condition: errors by `errors.Is`, error types by the type of the error or of anything it
wraps or joins, results by equality **for outcomes without an error**, predicates by the predicate -/
def Cond.matchesDoc (c : Cond) (o : Outcome) : Bool :=
  match c with
  | .errIs t => match o.err with | some e => e.is t | none => false
  | .errType ty => match o.err with | some e => e.typeMatch ty | none => false
  | .result v => o.err.isNone && o.val == v
  | .pred id => predicate id o

theorem eval_eq_matchesDoc (c : Cond) (o : Outcome) : c.eval false o = Cond.matchesDoc c o := by
  cases c <;> simp [Cond.eval, Cond.matchesDoc] <;> (cases o.err <;> rfl)

theorem build_spec (regs : List Cond) :
    ∀ b0 : Built, (regs.foldl register b0).conds = b0.conds ++ regs ∧
      (regs.foldl register b0).errorsChecked = (b0.errorsChecked || regs.any Cond.inspectsErrors) := by
  induction regs with
  | nil => intro b0; simp
  | cons c cs ih =>
    intro b0
    have := ih (register b0 c)
    simp only [List.foldl_cons]
    refine ⟨by rw [this.1]; simp [register], by rw [this.2]; simp [register, Bool.or_assoc]⟩

/-- **the truth table**, for every registration list (any subset, order, multiplicity) and every outcome: a failure exactly
when no conditions are configured and it carries an error; or some configured condition matches it; or it carries an error
and no error-handling condition was configured -/
theorem isFailure_iff (regs : List Cond) (o : Outcome) :
    isFailure regs o = true ↔
      (regs = [] ∧ o.err.isSome) ∨ (∃ c ∈ regs, Cond.matchesDoc c o = true) ∨
      (o.err.isSome ∧ ∀ c ∈ regs, c.inspectsErrors = false) := by
  have hb := build_spec regs ⟨[], false⟩
  simp only [isFailure, build, isFailureB, hb.1, hb.2, List.nil_append, Bool.false_or]
  cases regs with
  | nil => simp
  | cons c cs =>
    simp only [List.length_cons, Nat.succ_ne_zero, if_false, reduceCtorEq, false_and, false_or]
    by_cases h : (c :: cs).any (fun c => c.eval false o) = true
    · simp only [h, if_true, true_iff]
      left
      simpa [eval_eq_matchesDoc] using h
    · simp only [h, if_false]
      have hn : ¬ ∃ c' ∈ c :: cs, Cond.matchesDoc c' o = true := by simpa [eval_eq_matchesDoc] using h
      simp only [hn, false_or]
      simp [Bool.and_eq_true, List.any_eq_true]

/-! ### builder calls with an empty target list

`HandleErrors()` / `HandleErrorTypes()` with no targets configure **no condition**. The rule's first clause therefore still applies
when such calls are all there is ("no conditions are configured and it carries an error"); next to real conditions they count as
error handling having been configured. -/

def Reg.conds (regs : List Reg) : List Cond := regs.filterMap (fun r => match r with | .cond c => some c | .noTargets => none)
def Reg.inspects : Reg → Bool | .cond c => c.inspectsErrors | .noTargets => true

theorem buildR_spec (regs : List Reg) :
    ∀ b0 : Built, (regs.foldl registerR b0).conds = b0.conds ++ Reg.conds regs ∧
      (regs.foldl registerR b0).errorsChecked = (b0.errorsChecked || regs.any Reg.inspects) := by
  induction regs with
  | nil => intro b0; simp [Reg.conds]
  | cons r rs ih =>
    intro b0
    have := ih (registerR b0 r)
    simp only [List.foldl_cons]
    cases r with
    | cond c =>
      refine ⟨by rw [this.1]; simp [registerR, register, Reg.conds], by rw [this.2]; simp [registerR, register, Reg.inspects, Bool.or_assoc]⟩
    | noTargets =>
      refine ⟨by rw [this.1]; simp [registerR, Reg.conds], by rw [this.2]; simp [registerR, Reg.inspects]⟩

/-- **the truth table for every list of builder calls**, empty target lists included -/
theorem isFailureR_iff (regs : List Reg) (o : Outcome) :
    isFailureR regs o = true ↔
      (Reg.conds regs = [] ∧ o.err.isSome) ∨ (∃ c ∈ Reg.conds regs, Cond.matchesDoc c o = true) ∨
      (o.err.isSome ∧ ∀ r ∈ regs, Reg.inspects r = false) := by
  have hb := buildR_spec regs ⟨[], false⟩
  simp only [isFailureR, buildR, isFailureB, hb.1, hb.2, List.nil_append, Bool.false_or]
  cases hc : Reg.conds regs with
  | nil =>
    simp only [List.length_nil, if_true, List.not_mem_nil, false_and, exists_false, false_or, true_and]
    constructor
    · intro h; exact Or.inl h
    · rintro (h | ⟨h, _⟩) <;> exact h
  | cons c cs =>
    simp only [List.length_cons, Nat.succ_ne_zero, if_false, reduceCtorEq, false_and, false_or]
    by_cases h : (c :: cs).any (fun c => c.eval false o) = true
    · simp only [h, if_true, true_iff]
      left
      simpa [eval_eq_matchesDoc] using h
    · simp only [h, if_false]
      have hn : ¬ ∃ c' ∈ c :: cs, Cond.matchesDoc c' o = true := by simpa [eval_eq_matchesDoc] using h
      simp only [hn, false_or]
      simp [Bool.and_eq_true, List.any_eq_true]

theorem Reg.conds_map (cs : List Cond) : Reg.conds (cs.map Reg.cond) = cs := by
  induction cs with
  | nil => rfl
  | cons c cs ih => simp only [Reg.conds, List.map_cons, List.filterMap_cons] at ih ⊢; rw [ih]

theorem Reg.any_map (cs : List Cond) : (cs.map Reg.cond).any Reg.inspects = cs.any Cond.inspectsErrors := by
  induction cs with
  | nil => rfl
  | cons c cs ih => simp only [List.map_cons, List.any_cons, Reg.inspects, ih]

/-- a list of real conditions classifies as before: the extension changes nothing where no empty call occurs -/
theorem isFailureR_conds (cs : List Cond) (o : Outcome) : isFailureR (cs.map Reg.cond) o = isFailure cs o := by
  have h1 := buildR_spec (cs.map Reg.cond) ⟨[], false⟩
  have h2 := build_spec cs ⟨[], false⟩
  simp only [isFailureR, isFailure, buildR, build, isFailureB, h1.1, h1.2, h2.1, h2.2, Reg.conds_map, Reg.any_map]

/-- an empty `HandleErrors()` alone leaves the default in force: errors are failures (what the second round-9 change to C12 breaks) -/
example : isFailureR [.noTargets] ⟨0, some (.leaf 1 0)⟩ = true ∧ isFailureR [.noTargets, .cond (.result 1)] ⟨0, some (.leaf 1 0)⟩ = false := by decide

/-- abort conditions: any match aborts; none configured means never abort -/
theorem abort_iff (regs : List Cond) (o : Outcome) :
    isAbortable regs o = true ↔ ∃ c ∈ regs, Cond.matchesDoc c o = true := by
  simp [isAbortable, eval_eq_matchesDoc]

/-- hedge cancel conditions: any match cancels; none configured means cancel on any result -/
theorem cancel_iff (regs : List Cond) (o : Outcome) :
    isCancellable regs o = true ↔ regs = [] ∨ ∃ c ∈ regs, Cond.matchesDoc c o = true := by
  unfold isCancellable
  cases regs with
  | nil => simp
  | cons c cs => simp [abort_iff]

/-- order and multiplicity of registrations are irrelevant -/
theorem isFailure_perm (r1 r2 : List Cond) (h : ∀ c, c ∈ r1 ↔ c ∈ r2) (o : Outcome) :
    isFailure r1 o = isFailure r2 o := by
  have e1 := isFailure_iff r1 o
  have e2 := isFailure_iff r2 o
  have hnil : r1 = [] ↔ r2 = [] := by
    constructor
    · intro h1; subst h1; cases r2 with
      | nil => rfl
      | cons c cs => exact absurd ((h c).2 (by simp)) (by simp)
    · intro h2; subst h2; cases r1 with
      | nil => rfl
      | cons c cs => exact absurd ((h c).1 (by simp)) (by simp)
  have : (isFailure r1 o = true) ↔ (isFailure r2 o = true) := by
    rw [e1, e2, hnil]
    constructor
    · rintro (a | ⟨c, hc, hm⟩ | ⟨a, b⟩)
      · exact Or.inl a
      · exact Or.inr (Or.inl ⟨c, (h c).1 hc, hm⟩)
      · exact Or.inr (Or.inr ⟨a, fun c hc => b c ((h c).2 hc)⟩)
    · rintro (a | ⟨c, hc, hm⟩ | ⟨a, b⟩)
      · exact Or.inl a
      · exact Or.inr (Or.inl ⟨c, (h c).2 hc, hm⟩)
      · exact Or.inr (Or.inr ⟨a, fun c hc => b c ((h c).1 hc)⟩)
  cases h1 : isFailure r1 o <;> cases h2 : isFailure r2 o <;> simp_all

/-- the defect D2 as it was (result conditions ignoring the error) violates the table: witness kept for the record -/
theorem result_condition_ignores_error_witness :
    isFailureB true (build [.result 0, .errIs 1]) ⟨0, some (.leaf 2 0)⟩ = true ∧
    isFailure [.result 0, .errIs 1] ⟨0, some (.leaf 2 0)⟩ = false := by decide

/-! non-vacuity -/
example : isFailure [.errType 3, .result 1] ⟨0, some (.wrap 9 10 (.join 8 11 (.leaf 1 0) (.leaf 2 3)))⟩ = true := by decide
example : isFailure [.result 1] ⟨1, none⟩ = true ∧ isFailure [.result 1] ⟨0, some (.leaf 1 0)⟩ = true ∧
          isFailure [.result 1, .pred 0] ⟨0, some (.leaf 1 0)⟩ = false := by decide

end Failsafe.Props.C12
