import Failsafe.Exec
import Failsafe.Props.C16
/-!
# C01 — policies compose as nested wrappers, in declaration order

`executeStack` is the model of `executor.execute`'s composition loop (FACTS pins the loop: `for i := len-1 … 0`,
`ToExecutor` once per policy per execution, `outerFn = pe.Apply(outerFn)`).
-/
namespace Failsafe.Props.C01
open Failsafe Failsafe.Exec Failsafe.Classify

/-- the nesting `P1(P2(…Pn(fn)))` written as a right fold over the policy list with positions -/
def nestFrom (fuel : Nat) (pos : Nat) (ps : List Policy) : Layer :=
  (ps.zipIdx pos).foldr (fun pi inner => applyPolicy fuel pi.2 pi.1 inner) base

/-- **the composition loop is the nesting**, for every policy list (with repetition) -/
theorem execute_is_nesting (fuel : Nat) (ps : List Policy) : ∀ pos, executeStack fuel pos ps = nestFrom fuel pos ps := by
  induction ps with
  | nil => intro pos; rfl
  | cons p ps ih =>
    intro pos
    simp only [executeStack, nestFrom, List.zipIdx_cons, List.foldr_cons]
    rw [ih (pos + 1)]
    rfl

/-- every layer boundary returns a finished result (`Done = true`): what a layer hands to the layer outside is final -/
def DoneLayer (l : Layer) : Prop := ∀ r res r', l r = some (res, r') → res.done = true

theorem base_done : DoneLayer base := by
  intro r res r' h
  unfold base at h
  simp only at h
  generalize ((r.emitSeen (if r.hedgeAttempt then "fnh" else "fn") 0 r.seenLast).trigger "fn") = X at h
  repeat' (split at h)
  all_goals first
    | (simp at h; done)
    | (simp only [Option.some.injEq, Prod.mk.injEq] at h; obtain ⟨rfl, _⟩ := h; rfl)

theorem retry_done (pos : Nat) (m : Int) (rl : Bool) (h a : List Cond) (inner : Layer) (hi : DoneLayer inner) :
    ∀ fuel, DoneLayer (retryLoop pos m rl h a inner fuel) := by
  intro fuel
  induction fuel with
  | zero => intro r res r' hh; simp [retryLoop] at hh
  | succ n ih =>
    intro r res r' hh
    simp only [retryLoop] at hh
    cases hin : inner r with
    | none => simp [hin] at hh
    | some x =>
      obtain ⟨res1, r1⟩ := x
      have h1 := hi r res1 r1 hin
      simp only [hin] at hh
      by_cases hc : r1.isCanc = true
      · simp only [hc, if_true, Option.some.injEq, Prod.mk.injEq] at hh
        obtain ⟨rfl, _⟩ := hh; exact Run.cancelRes_done _
      · simp only [hc] at hh
        by_cases he : r1.exceeded.contains pos = true
        · simp only [he, if_true, Option.some.injEq, Prod.mk.injEq] at hh
          obtain ⟨rfl, _⟩ := hh; exact h1
        · simp only [he] at hh
          by_cases hfl : isFailure h res1.outcome = true
          · simp only [hfl, if_true] at hh
            by_cases hd : (retryOnFailure pos m rl a res1.withFailure r1).1.done = true
            · simp only [hd, if_true, Option.some.injEq, Prod.mk.injEq] at hh
              obtain ⟨rfl, _⟩ := hh; exact hd
            · simp only [hd] at hh
              generalize (({ (retryOnFailure pos m rl a res1.withFailure r1).2 with
                  last := (retryOnFailure pos m rl a res1.withFailure r1).1.outcome }).emit "rp.onRetryScheduled" pos).trigger "rp.onRetryScheduled" = X at hh
              by_cases hx : X.isCanc = true
              · simp only [hx, if_true, Option.some.injEq, Prod.mk.injEq] at hh
                obtain ⟨rfl, _⟩ := hh; exact Run.cancelRes_done _
              · simp only [hx] at hh
                exact ih _ res r' hh
          · simp only [hfl, Option.some.injEq, Prod.mk.injEq] at hh
            obtain ⟨rfl, _⟩ := hh; rfl

theorem hedge_done (pos n : Nat) (co : List Cond) (inner : Layer) (hi : DoneLayer inner) :
    ∀ fuel k d b, DoneLayer (hedgeLoop pos n co inner fuel k d b) := by
  intro fuel
  induction fuel with
  | zero => intro k d b r res r' h; simp [hedgeLoop] at h
  | succ f ih =>
    intro k d b r res r' h
    simp only [hedgeLoop] at h
    generalize (if (k == 0) = true then { r with hedgeAttempt := false } else ({ r with attempts := r.attempts + 1, hedges := r.hedges + 1, hedgeAttempt := true }).emit "hp.onHedge" pos) = r0 at h
    cases hin : inner r0 with
    | none =>
      simp only [hin] at h
      repeat' (split at h)
      all_goals first
        | (simp at h; done)
        | exact ih _ _ _ _ _ _ h
        | (simp only [Option.some.injEq, Prod.mk.injEq] at h; obtain ⟨rfl, _⟩ := h; rfl)
    | some x =>
      obtain ⟨res1, r1⟩ := x
      have h1 := hi r0 res1 r1 hin
      simp only [hin] at h
      repeat' (split at h)
      all_goals first
        | (simp at h; done)
        | exact ih _ _ _ _ _ _ h
        | (simp only [Option.some.injEq, Prod.mk.injEq] at h; obtain ⟨rfl, _⟩ := h; first | exact h1 | rfl | exact Run.cancelRes_done _)

theorem applyPolicy_done (fuel pos : Nat) (p : Policy) (inner : Layer) (hi : DoneLayer inner) :
    DoneLayer (applyPolicy fuel pos p inner) := by
  cases p with
  | retry m rl h a => exact retry_done pos m rl h a inner hi fuel
  | hedge n co => exact hedge_done pos n co inner hi _ _ _ _
  | breaker id h =>
    intro r res r' hh
    simp only [applyPolicy] at hh
    cases hb : r.w.breakers[id]? with
    | none => simp [hb] at hh
    | some cb =>
      obtain ⟨c, b⟩ := cb
      simp only [hb] at hh
      cases hin : inner (drainBreaker (updBreaker r id (fun _ _ => (Breaker.tryAcquire c b r.w.now).1)) id pos) with
      | none =>
        simp only [hin] at hh
        repeat' (split at hh)
        all_goals first
          | (simp at hh; done)
          | (simp only [Option.some.injEq, Prod.mk.injEq] at hh; obtain ⟨rfl, _⟩ := hh; rfl)
      | some x =>
        obtain ⟨res1, r1⟩ := x
        have h1 := hi _ res1 r1 hin
        simp only [hin] at hh
        repeat' (split at hh)
        all_goals first
          | (simp at hh; done)
          | (simp only [Option.some.injEq, Prod.mk.injEq] at hh; obtain ⟨rfl, _⟩ := hh
             first | rfl | exact h1 | (simp only [PR.withFailure]; exact h1))
  | bulkhead id =>
    intro r res r' hh
    simp only [applyPolicy] at hh
    cases hb : r.w.bulk[id]? with
    | none => simp [hb] at hh
    | some ch =>
      obtain ⟨cap, held⟩ := ch
      simp only [hb] at hh
      cases hin : inner { r with w := { r.w with bulk := r.w.bulk.set id (cap, held + 1) } } with
      | none =>
        simp only [hin] at hh
        repeat' (split at hh)
        all_goals first
          | (simp at hh; done)
          | (simp only [Option.some.injEq, Prod.mk.injEq] at hh; obtain ⟨rfl, _⟩ := hh; rfl)
      | some x =>
        obtain ⟨res1, r1⟩ := x
        have h1 := hi _ res1 r1 hin
        simp only [hin] at hh
        repeat' (split at hh)
        all_goals first
          | (simp at hh; done)
          | (simp only [Option.some.injEq, Prod.mk.injEq] at hh; obtain ⟨rfl, _⟩ := hh; first | rfl | exact h1)
  | limiter id =>
    intro r res r' hh
    simp only [applyPolicy] at hh
    cases hb : r.w.limiters[id]? with
    | none => simp [hb] at hh
    | some cs =>
      obtain ⟨c, s0⟩ := cs
      simp only [hb] at hh
      split at hh
      · exact hi _ res r' hh
      · simp only [Option.some.injEq, Prod.mk.injEq] at hh; obtain ⟨rfl, _⟩ := hh; rfl
  | fallback k h =>
    intro r res r' hh
    simp only [applyPolicy] at hh
    cases hin : inner r with
    | none => simp [hin] at hh
    | some x =>
      obtain ⟨res1, r1⟩ := x
      simp only [hin] at hh
      repeat' (split at hh)
      all_goals (simp only [Option.some.injEq, Prod.mk.injEq] at hh; obtain ⟨rfl, _⟩ := hh; first | rfl | exact Run.cancelRes_done _)
  | timeout =>
    intro r res r' hh
    simp only [applyPolicy] at hh
    cases hin : inner { r with inTimeout := true, cancelled := false, timeoutPos := pos } with
    | none => simp [hin] at hh
    | some x =>
      obtain ⟨res1, r1⟩ := x
      have h1 := hi _ res1 r1 hin
      simp only [hin] at hh
      repeat' (split at hh)
      all_goals (simp only [Option.some.injEq, Prod.mk.injEq] at hh; obtain ⟨rfl, _⟩ := hh
                 first | rfl | (simp only [PR.withFailure]; exact h1))
  | cache id key cif =>
    intro r res r' hh
    simp only [applyPolicy] at hh
    cases hin : inner (r.emit "ca.onMiss" pos) with
    | none =>
      simp only [hin] at hh
      repeat' (split at hh)
      all_goals first
        | (simp at hh; done)
        | (simp only [Option.some.injEq, Prod.mk.injEq] at hh; obtain ⟨rfl, _⟩ := hh; rfl)
    | some x =>
      obtain ⟨res1, r1⟩ := x
      have h1 := hi _ res1 r1 hin
      simp only [hin] at hh
      repeat' (split at hh)
      all_goals first
        | (simp at hh; done)
        | (simp only [Option.some.injEq, Prod.mk.injEq] at hh; obtain ⟨rfl, _⟩ := hh; first | rfl | exact h1)

/-- **every layer of every stack hands a finished result outwards** -/
theorem layer_done (fuel : Nat) (ps : List Policy) : ∀ pos, DoneLayer (executeStack fuel pos ps) := by
  induction ps with
  | nil => intro pos; exact base_done
  | cons p ps ih => intro pos; exact applyPolicy_done fuel pos p _ (ih (pos + 1))

/-- **the caller receives precisely the outermost layer's result and error**, and the completion listeners report the
verdict `SuccessAll` of that result -/
theorem caller_gets_outermost (fuel : Nat) (ps : List Policy) (r : Run) (res : PR) (r' : Run)
    (h : execute fuel ps r = some (res, r')) :
    ∃ r1, nestFrom fuel 0 ps r = some (res, r1) ∧ res.done = true ∧
      r'.log = r1.log ++ [⟨if res.successAll then "ex.onSuccess" else "ex.onFailure", 0, r1.attempts, r1.execs, none⟩,
                          ⟨"ex.onDone", 0, r1.attempts, r1.execs, none⟩] := by
  obtain ⟨r1, h1, hl⟩ := C16.one_done_one_verdict fuel ps r res r' h
  exact ⟨r1, by rw [← execute_is_nesting]; exact h1, layer_done fuel ps 0 r res r1 h1, hl⟩

/-- **the function is invoked only when every enclosing policy admits the attempt**: a rejecting layer returns its own
result whatever is inside it (the inner layer — every policy nested inside and the function — is never entered) -/
theorem rejecting_layer_ignores_inner (fuel pos : Nat) (inner inner' : Layer) (r : Run) :
    (∀ id h c b, r.w.breakers[id]? = some (c, b) → (Breaker.tryAcquire c b r.w.now).2 = false →
        applyPolicy fuel pos (.breaker id h) inner r = applyPolicy fuel pos (.breaker id h) inner' r) ∧
    (∀ id cap held, r.w.bulk[id]? = some (cap, held) → ¬ held < cap →
        applyPolicy fuel pos (.bulkhead id) inner r = applyPolicy fuel pos (.bulkhead id) inner' r) ∧
    (∀ id c s, r.w.limiters[id]? = some (c, s) → (limAcquire c s r.w.now).1 = false →
        applyPolicy fuel pos (.limiter id) inner r = applyPolicy fuel pos (.limiter id) inner' r) := by
  refine ⟨?_, ?_, ?_⟩
  · intro id h c b hb hrej
    simp only [applyPolicy, hb, hrej, Bool.not_false, if_true]
  · intro id cap held hb hfull
    simp only [applyPolicy, hb, hfull, if_false]
  · intro id c s hb hrej
    simp only [applyPolicy, hb, hrej, Bool.false_eq_true, if_false]

example : nestFrom 5 0 [] = base := rfl

end Failsafe.Props.C01
