import Failsafe.Exec
import Failsafe.Props.C16
/-!
# C01 — policies compose as nested wrappers, in declaration order

`executeStack` is the model of `executor.execute`'s composition loop (FACTS pins the loop: `for i := len-1 … 0`,
`ToExecutor` once per policy per execution, `outerFn = pe.Apply(outerFn)`).
-/
namespace Failsafe.Props.C01
open Failsafe Failsafe.Exec Failsafe.Classify

/-- the nesting `P1(P2(…Pn(fn)))` written as a right fold over the policy list with positions -/
def nestFrom (fuel : Nat) (pos : Nat) (ps : List Policy) : Layer :=
  (ps.zipIdx pos).foldr (fun pi inner => applyPolicy fuel pi.2 pi.1 inner) base

/-- **the composition loop is the nesting**, for every policy list (with repetition) -/
theorem execute_is_nesting (fuel : Nat) (ps : List Policy) : ∀ pos, executeStack fuel pos ps = nestFrom fuel pos ps := by
  induction ps with
  | nil => intro pos; rfl
  | cons p ps ih =>
    intro pos
    simp only [executeStack, nestFrom, List.zipIdx_cons, List.foldr_cons]
    rw [ih (pos + 1)]
    rfl

/-- every layer boundary returns a finished result (`Done = true`): what a layer hands to the layer outside is final -/
def DoneLayer (l : Layer) : Prop := ∀ r res r', l r = some (res, r') → res.done = true

theorem base_done : DoneLayer base := by
  intro r res r' h
  unfold base at h
  simp only at h
  generalize ((r.emitSeen (if r.hedgeAttempt then "fnh" else "fn") 0 r.seenLast).trigger "fn") = X at h
  repeat' (split at h)
  all_goals first
    | (simp at h; done)
    | (simp only [Option.some.injEq, Prod.mk.injEq] at h; obtain ⟨rfl, _⟩ := h; rfl)

theorem retry_done (pos : Nat) (m : Int) (rl : Bool) (h a : List Cond) (inner : Layer) (hi : DoneLayer inner) :
    ∀ fuel, DoneLayer (retryLoop pos m rl h a inner fuel) := by
  intro fuel
  induction fuel with
  | zero => intro r res r' hh; simp [retryLoop] at hh
  | succ n ih =>
    intro r res r' hh
    simp only [retryLoop] at hh
    cases hin : inner r with
    | none => simp [hin] at hh
    | some x =>
      obtain ⟨res1, r1⟩ := x
      have h1 := hi r res1 r1 hin
      simp only [hin] at hh
      by_cases hc : r1.isCanc = true
      · simp only [hc, if_true, Option.some.injEq, Prod.mk.injEq] at hh
        obtain ⟨rfl, _⟩ := hh; exact Run.cancelRes_done _
      · simp only [hc] at hh
        by_cases he : r1.exceeded.contains pos = true
        · simp only [he, if_true, Option.some.injEq, Prod.mk.injEq] at hh
          obtain ⟨rfl, _⟩ := hh; exact h1
        · simp only [he] at hh
          by_cases hfl : isFailure h res1.outcome = true
          · simp only [hfl, if_true] at hh
            by_cases hd : (retryOnFailure pos m rl a res1.withFailure r1).1.done = true
            · simp only [hd, if_true, Option.some.injEq, Prod.mk.injEq] at hh
              obtain ⟨rfl, _⟩ := hh; exact hd
            · simp only [hd] at hh
              generalize (({ (retryOnFailure pos m rl a res1.withFailure r1).2 with
                  last := (retryOnFailure pos m rl a res1.withFailure r1).1.outcome }).emitLast "rp.onRetryScheduled" pos).trigger "rp.onRetryScheduled" = X at hh
              by_cases hx : X.isCanc = true
              · simp only [hx, if_true, Option.some.injEq, Prod.mk.injEq] at hh
                obtain ⟨rfl, _⟩ := hh; exact Run.cancelRes_done _
              · simp only [hx] at hh
                exact ih _ res r' hh
          · simp only [hfl, Option.some.injEq, Prod.mk.injEq] at hh
            obtain ⟨rfl, _⟩ := hh; rfl

theorem hedge_done (pos n : Nat) (co : List Cond) (inner : Layer) (hi : DoneLayer inner) :
    ∀ fuel k d b, DoneLayer (hedgeLoop pos n co inner fuel k d b) := by
  intro fuel
  induction fuel with
  | zero => intro k d b r res r' h; simp [hedgeLoop] at h
  | succ f ih =>
    intro k d b r res r' h
    simp only [hedgeLoop] at h
    generalize (if (k == 0) = true then { r with hedgeAttempt := false, hpLast := r.last } else ({ r with attempts := r.attempts + 1, hedges := r.hedges + 1, hedgeAttempt := true, last := r.hpLast }).emit "hp.onHedge" pos) = r0 at h
    cases hin : inner r0 with
    | none =>
      simp only [hin] at h
      repeat' (split at h)
      all_goals first
        | (simp at h; done)
        | exact ih _ _ _ _ _ _ h
        | (simp only [Option.some.injEq, Prod.mk.injEq] at h; obtain ⟨rfl, _⟩ := h; rfl)
    | some x =>
      obtain ⟨res1, r1⟩ := x
      have h1 := hi r0 res1 r1 hin
      simp only [hin] at h
      repeat' (split at h)
      all_goals first
        | (simp at h; done)
        | exact ih _ _ _ _ _ _ h
        | (simp only [Option.some.injEq, Prod.mk.injEq] at h; obtain ⟨rfl, _⟩ := h; first | exact h1 | rfl | exact Run.cancelRes_done _)

theorem applyPolicy_done (fuel pos : Nat) (p : Policy) (inner : Layer) (hi : DoneLayer inner) :
    DoneLayer (applyPolicy fuel pos p inner) := by
  cases p with
  | retry m rl h a => exact retry_done pos m rl h a inner hi fuel
  | hedge n co =>
    intro r res r' hh
    simp only [applyPolicy] at hh
    cases hl : hedgeLoop pos n co inner (n + 2) 0 0 0 r with
    | none => simp [hl] at hh
    | some x =>
      simp only [hl, Option.map_some, Option.some.injEq, Prod.mk.injEq] at hh
      obtain ⟨rfl, _⟩ := hh
      exact hedge_done pos n co inner hi _ _ _ _ r x.1 x.2 hl
  | breaker id h =>
    intro r res r' hh
    simp only [applyPolicy] at hh
    cases hb : r.w.breakers[id]? with
    | none => simp [hb] at hh
    | some cb =>
      obtain ⟨c, b⟩ := cb
      simp only [hb] at hh
      cases hin : inner (drainBreaker (updBreaker r id (fun _ _ => (Breaker.tryAcquire c b r.w.now).1)) id pos) with
      | none =>
        simp only [hin] at hh
        repeat' (split at hh)
        all_goals first
          | (simp at hh; done)
          | (simp only [Option.some.injEq, Prod.mk.injEq] at hh; obtain ⟨rfl, _⟩ := hh; rfl)
      | some x =>
        obtain ⟨res1, r1⟩ := x
        have h1 := hi _ res1 r1 hin
        simp only [hin] at hh
        repeat' (split at hh)
        all_goals first
          | (simp at hh; done)
          | (simp only [Option.some.injEq, Prod.mk.injEq] at hh; obtain ⟨rfl, _⟩ := hh
             first | rfl | exact h1 | (simp only [PR.withFailure]; exact h1))
  | bulkhead id =>
    intro r res r' hh
    simp only [applyPolicy] at hh
    cases hb : r.w.bulk[id]? with
    | none => simp [hb] at hh
    | some ch =>
      obtain ⟨cap, held⟩ := ch
      simp only [hb] at hh
      cases hin : inner { r with w := { r.w with bulk := r.w.bulk.set id (cap, held + 1) } } with
      | none =>
        simp only [hin] at hh
        repeat' (split at hh)
        all_goals first
          | (simp at hh; done)
          | (simp only [Option.some.injEq, Prod.mk.injEq] at hh; obtain ⟨rfl, _⟩ := hh; rfl)
      | some x =>
        obtain ⟨res1, r1⟩ := x
        have h1 := hi _ res1 r1 hin
        simp only [hin] at hh
        repeat' (split at hh)
        all_goals first
          | (simp at hh; done)
          | (simp only [Option.some.injEq, Prod.mk.injEq] at hh; obtain ⟨rfl, _⟩ := hh; first | rfl | exact h1)
  | limiter id =>
    intro r res r' hh
    simp only [applyPolicy] at hh
    cases hb : r.w.limiters[id]? with
    | none => simp [hb] at hh
    | some cs =>
      obtain ⟨c, s0⟩ := cs
      simp only [hb] at hh
      split at hh
      · exact hi _ res r' hh
      · simp only [Option.some.injEq, Prod.mk.injEq] at hh; obtain ⟨rfl, _⟩ := hh; rfl
  | fallback k h =>
    intro r res r' hh
    simp only [applyPolicy] at hh
    cases hin : inner r with
    | none => simp [hin] at hh
    | some x =>
      obtain ⟨res1, r1⟩ := x
      simp only [hin] at hh
      repeat' (split at hh)
      all_goals (simp only [Option.some.injEq, Prod.mk.injEq] at hh; obtain ⟨rfl, _⟩ := hh; first | rfl | exact Run.cancelRes_done _)
  | timeout =>
    intro r res r' hh
    simp only [applyPolicy] at hh
    cases hin : inner { r with inTimeout := true, cancelled := false, timeoutPos := pos } with
    | none => simp [hin] at hh
    | some x =>
      obtain ⟨res1, r1⟩ := x
      have h1 := hi _ res1 r1 hin
      simp only [hin] at hh
      repeat' (split at hh)
      all_goals (simp only [Option.some.injEq, Prod.mk.injEq] at hh; obtain ⟨rfl, _⟩ := hh
                 first | rfl | (simp only [PR.withFailure]; exact h1))
  | cache id key cif =>
    intro r res r' hh
    simp only [applyPolicy] at hh
    cases hin : inner (r.emit "ca.onMiss" pos) with
    | none =>
      simp only [hin] at hh
      repeat' (split at hh)
      all_goals first
        | (simp at hh; done)
        | (simp only [Option.some.injEq, Prod.mk.injEq] at hh; obtain ⟨rfl, _⟩ := hh; rfl)
    | some x =>
      obtain ⟨res1, r1⟩ := x
      have h1 := hi _ res1 r1 hin
      simp only [hin] at hh
      repeat' (split at hh)
      all_goals first
        | (simp at hh; done)
        | (simp only [Option.some.injEq, Prod.mk.injEq] at hh; obtain ⟨rfl, _⟩ := hh; first | rfl | exact h1)

/-- **every layer of every stack hands a finished result outwards** -/
theorem layer_done (fuel : Nat) (ps : List Policy) : ∀ pos, DoneLayer (executeStack fuel pos ps) := by
  induction ps with
  | nil => intro pos; exact base_done
  | cons p ps ih => intro pos; exact applyPolicy_done fuel pos p _ (ih (pos + 1))

/-- **the caller receives precisely the outermost layer's result and error**, and the completion listeners report the
verdict `SuccessAll` of that result -/
theorem caller_gets_outermost (fuel : Nat) (ps : List Policy) (r : Run) (res : PR) (r' : Run)
    (h : execute fuel ps r = some (res, r')) :
    ∃ r1, nestFrom fuel 0 ps r = some (res, r1) ∧ res.done = true ∧
      r'.log = r1.log ++ [⟨if res.successAll then "ex.onSuccess" else "ex.onFailure", 0, r1.attempts, r1.execs, some res.outcome⟩,
                          ⟨"ex.onDone", 0, r1.attempts, r1.execs, some res.outcome⟩] := by
  obtain ⟨r1, h1, hl⟩ := C16.one_done_one_verdict fuel ps r res r' h
  exact ⟨r1, by rw [← execute_is_nesting]; exact h1, layer_done fuel ps 0 r res r1 h1, hl⟩

/-- **the function is invoked only when every enclosing policy admits the attempt**: a rejecting layer returns its own
result whatever is inside it (the inner layer — every policy nested inside and the function — is never entered) -/
theorem rejecting_layer_ignores_inner (fuel pos : Nat) (inner inner' : Layer) (r : Run) :
    (∀ id h c b, r.w.breakers[id]? = some (c, b) → (Breaker.tryAcquire c b r.w.now).2 = false →
        applyPolicy fuel pos (.breaker id h) inner r = applyPolicy fuel pos (.breaker id h) inner' r) ∧
    (∀ id cap held, r.w.bulk[id]? = some (cap, held) → ¬ held < cap →
        applyPolicy fuel pos (.bulkhead id) inner r = applyPolicy fuel pos (.bulkhead id) inner' r) ∧
    (∀ id c s, r.w.limiters[id]? = some (c, s) → (limAcquire c s r.w.now).1 = false →
        applyPolicy fuel pos (.limiter id) inner r = applyPolicy fuel pos (.limiter id) inner' r) := by
  refine ⟨?_, ?_, ?_⟩
  · intro id h c b hb hrej
    simp only [applyPolicy, hb, hrej, Bool.not_false, if_true]
  · intro id cap held hb hfull
    simp only [applyPolicy, hb, hfull, if_false]
  · intro id c s hb hrej
    simp only [applyPolicy, hb, hrej, Bool.false_eq_true, if_false]

example : nestFrom 5 0 [] = base := rfl

/-! ## each policy handles only what the policy inside it returned

`Eqv`: two layer results agree on value, error, the overall verdict (`SuccessAll`) and the run state; the implementation's
`Done` / `Success` flags are ignored. `applyPolicy_congr`: every policy layer maps layers that agree in this sense to layers
that agree — nothing a policy does depends on the `Done` / `Success` flags of what is inside it (they are plumbing, not
behaviour): the nesting is a function of the (value, error, verdict) triples alone. `stack_congr` lifts this to every policy list. -/

def Eqv : Option (PR × Run) → Option (PR × Run) → Prop
  | none, none => True
  | some (p, r), some (q, s) => p.val = q.val ∧ p.err = q.err ∧ p.successAll = q.successAll ∧ r = s
  | _, _ => False

theorem Eqv.refl (a : Option (PR × Run)) : Eqv a a := by
  cases a with
  | none => trivial
  | some x => exact ⟨rfl, rfl, rfl, rfl⟩

def LEqv (l l' : Layer) : Prop := ∀ r, Eqv (l r) (l' r)

/-- what a layer may look at: the outcome and the verdict -/
theorem eqv_cases {a b : Option (PR × Run)} (h : Eqv a b) :
    (a = none ∧ b = none) ∨ ∃ p q r, a = some (p, r) ∧ b = some (q, r) ∧ p.val = q.val ∧ p.err = q.err ∧ p.successAll = q.successAll := by
  cases a with
  | none => cases b with
    | none => exact Or.inl ⟨rfl, rfl⟩
    | some y => cases h
  | some x => cases b with
    | none => obtain ⟨p, r⟩ := x; cases h
    | some y =>
      obtain ⟨p, r⟩ := x; obtain ⟨q, s⟩ := y
      obtain ⟨h1, h2, h3, h4⟩ := h
      subst h4
      exact Or.inr ⟨p, q, r, rfl, rfl, h1, h2, h3⟩

theorem outcome_eq {p q : PR} (h1 : p.val = q.val) (h2 : p.err = q.err) : p.outcome = q.outcome := by
  simp [PR.outcome, h1, h2]

theorem breaker_congr (fuel pos id : Nat) (hd : List Cond) (inner inner' : Layer) (h : LEqv inner inner') :
    LEqv (applyPolicy fuel pos (.breaker id hd) inner) (applyPolicy fuel pos (.breaker id hd) inner') := by
  intro r
  simp only [applyPolicy]
  cases hb : r.w.breakers[id]? with
  | none => trivial
  | some cb =>
    simp only
    split
    · exact Eqv.refl _
    · rename_i hok
      rcases eqv_cases (h (drainBreaker (updBreaker r id fun _ _ => (Breaker.tryAcquire cb.1 cb.2 r.w.now).1) id pos)) with
        ⟨ha, hb'⟩ | ⟨p, q, r1, ha, hb', h1, h2, h3⟩
      · simp [ha, hb', Eqv]
      · simp only [ha, hb', outcome_eq h1 h2]
        split <;> simp [Eqv, PR.withFailure, PR.withDone, h1, h2, h3]

theorem bulkhead_congr (fuel pos id : Nat) (inner inner' : Layer) (h : LEqv inner inner') :
    LEqv (applyPolicy fuel pos (.bulkhead id) inner) (applyPolicy fuel pos (.bulkhead id) inner') := by
  intro r
  simp only [applyPolicy]
  cases hb : r.w.bulk[id]? with
  | none => trivial
  | some ch =>
    simp only
    split
    · rcases eqv_cases (h { r with w := { r.w with bulk := r.w.bulk.set id (ch.1, ch.2 + 1) } }) with
        ⟨ha, hb'⟩ | ⟨p, q, r1, ha, hb', h1, h2, h3⟩
      · simp [ha, hb', Eqv]
      · simp [ha, hb', Eqv, h1, h2, h3]
    · exact Eqv.refl _

theorem limiter_congr (fuel pos id : Nat) (inner inner' : Layer) (h : LEqv inner inner') :
    LEqv (applyPolicy fuel pos (.limiter id) inner) (applyPolicy fuel pos (.limiter id) inner') := by
  intro r
  simp only [applyPolicy]
  cases hb : r.w.limiters[id]? with
  | none => trivial
  | some cs =>
    simp only
    split
    · exact h _
    · exact Eqv.refl _

theorem fallback_congr (fuel pos : Nat) (k : FbKind) (hd : List Cond) (inner inner' : Layer) (h : LEqv inner inner') :
    LEqv (applyPolicy fuel pos (.fallback k hd) inner) (applyPolicy fuel pos (.fallback k hd) inner') := by
  intro r
  simp only [applyPolicy]
  rcases eqv_cases (h r) with ⟨ha, hb'⟩ | ⟨p, q, r1, ha, hb', h1, h2, h3⟩
  · simp [ha, hb', Eqv]
  · simp only [ha, hb', outcome_eq h1 h2]
    split
    · split
      · exact Eqv.refl _
      · exact Eqv.refl _
    · simp [Eqv, PR.withDone, h1, h2, h3]

theorem timeout_congr (fuel pos : Nat) (inner inner' : Layer) (h : LEqv inner inner') :
    LEqv (applyPolicy fuel pos .timeout inner) (applyPolicy fuel pos .timeout inner') := by
  intro r
  simp only [applyPolicy]
  rcases eqv_cases (h { r with inTimeout := true, cancelled := false, timeoutPos := pos }) with
    ⟨ha, hb'⟩ | ⟨p, q, r1, ha, hb', h1, h2, h3⟩
  · simp [ha, hb', Eqv]
  · simp only [ha, hb', h2]
    split
    · exact Eqv.refl _
    · cases he : q.err with
      | none => simp [Eqv, PR.withDone, h1, h2, h3, he]
      | some e => by_cases ht : e.is Err.TIMEOUT = true <;> simp [Eqv, PR.withFailure, PR.withDone, h1, h2, h3, he, ht]

theorem cache_congr (fuel pos id : Nat) (key : String) (cif : List Nat) (inner inner' : Layer) (h : LEqv inner inner') :
    LEqv (applyPolicy fuel pos (.cache id key cif) inner) (applyPolicy fuel pos (.cache id key cif) inner') := by
  intro r
  simp only [applyPolicy]
  split
  · exact Eqv.refl _
  · rcases eqv_cases (h (r.emit "ca.onMiss" pos)) with ⟨ha, hb'⟩ | ⟨p, q, r1, ha, hb', h1, h2, h3⟩
    · simp [ha, hb', Eqv]
    · have hsc : shouldCache cif p = shouldCache cif q := by
        unfold shouldCache; simp [h2, outcome_eq h1 h2]
      simp only [ha, hb', hsc, h1]
      split <;> simp [Eqv, h1, h2, h3]

theorem retryOnFailure_congr (pos : Nat) (m : Int) (rl : Bool) (a : List Cond) (p q : PR) (r : Run)
    (h1 : p.val = q.val) (h2 : p.err = q.err) :
    (retryOnFailure pos m rl a p r).2 = (retryOnFailure pos m rl a q r).2 ∧
    (retryOnFailure pos m rl a p r).1.val = (retryOnFailure pos m rl a q r).1.val ∧
    (retryOnFailure pos m rl a p r).1.err = (retryOnFailure pos m rl a q r).1.err ∧
    (retryOnFailure pos m rl a p r).1.done = (retryOnFailure pos m rl a q r).1.done ∧
    (retryOnFailure pos m rl a p r).1.successAll = (retryOnFailure pos m rl a q r).1.successAll := by
  have ho : p.outcome = q.outcome := outcome_eq h1 h2
  unfold retryOnFailure
  simp only [ho, h1, h2]
  split <;> simp [PR.withDone, failureResult, h1, h2]

theorem retry_congr (pos : Nat) (m : Int) (rl : Bool) (hd a : List Cond) (inner inner' : Layer) (h : LEqv inner inner') :
    ∀ fuel, LEqv (retryLoop pos m rl hd a inner fuel) (retryLoop pos m rl hd a inner' fuel) := by
  intro fuel
  induction fuel with
  | zero => intro r; simp [retryLoop, Eqv]
  | succ n ih =>
    intro r
    simp only [retryLoop]
    rcases eqv_cases (h r) with ⟨ha, hb'⟩ | ⟨p, q, r1, ha, hb', h1, h2, h3⟩
    · simp [ha, hb', Eqv]
    · simp only [ha, hb']
      by_cases hc : r1.isCanc = true
      · simp only [hc, if_true]; exact Eqv.refl _
      · simp only [hc]
        by_cases he : r1.exceeded.contains pos = true
        · simp only [he, if_true]; exact ⟨h1, h2, h3, rfl⟩
        · simp only [he, outcome_eq h1 h2]
          by_cases hf : isFailure hd q.outcome = true
          · simp only [hf, if_true]
            have hwf1 : p.withFailure.val = q.withFailure.val := h1
            have hwf2 : p.withFailure.err = q.withFailure.err := h2
            obtain ⟨e2, e1v, e1e, e1d, e1s⟩ := retryOnFailure_congr pos m rl a p.withFailure q.withFailure r1 hwf1 hwf2
            rw [e2, e1d]
            by_cases hdn : (retryOnFailure pos m rl a q.withFailure r1).1.done = true
            · simp only [hdn, if_true]; exact ⟨e1v, e1e, e1s, rfl⟩
            · simp only [hdn]
              have ho : (retryOnFailure pos m rl a p.withFailure r1).1.outcome = (retryOnFailure pos m rl a q.withFailure r1).1.outcome :=
                outcome_eq e1v e1e
              rw [ho]
              generalize (({ (retryOnFailure pos m rl a q.withFailure r1).2 with
                  last := (retryOnFailure pos m rl a q.withFailure r1).1.outcome }).emitLast "rp.onRetryScheduled" pos).trigger "rp.onRetryScheduled" = X
              by_cases hx : X.isCanc = true
              · simp only [hx, if_true]; exact Eqv.refl _
              · simp only [hx]; exact ih _
          · simp only [hf]; exact ⟨h1, h2, by simp [PR.withDone, h3], rfl⟩

theorem hedge_congr (pos n : Nat) (co : List Cond) (inner inner' : Layer) (h : LEqv inner inner') :
    ∀ fuel k d b, LEqv (hedgeLoop pos n co inner fuel k d b) (hedgeLoop pos n co inner' fuel k d b) := by
  intro fuel
  induction fuel with
  | zero => intro k d b r; simp [hedgeLoop, Eqv]
  | succ f ih =>
    intro k d b r
    simp only [hedgeLoop]
    generalize (if (k == 0) = true then { r with hedgeAttempt := false, hpLast := r.last } else ({ r with attempts := r.attempts + 1, hedges := r.hedges + 1, hedgeAttempt := true, last := r.hpLast }).emit "hp.onHedge" pos) = r0
    rcases eqv_cases (h r0) with ⟨ha, hb'⟩ | ⟨p, q, r1, ha, hb', h1, h2, h3⟩
    · simp only [ha, hb']
      repeat' split
      all_goals first
        | exact Eqv.refl _
        | exact ih _ _ _ _
        | trivial
    · simp only [ha, hb', outcome_eq h1 h2]
      repeat' split
      all_goals first
        | exact Eqv.refl _
        | exact ih _ _ _ _
        | exact ⟨h1, h2, h3, rfl⟩
        | trivial

/-- **each policy handles only what the policy inside it returned**: value, error and verdict — never the plumbing flags -/
theorem applyPolicy_congr (fuel pos : Nat) (p : Policy) (inner inner' : Layer) (h : LEqv inner inner') :
    LEqv (applyPolicy fuel pos p inner) (applyPolicy fuel pos p inner') := by
  cases p with
  | retry m rl hd a => exact retry_congr pos m rl hd a inner inner' h fuel
  | breaker id hd => exact breaker_congr fuel pos id hd inner inner' h
  | bulkhead id => exact bulkhead_congr fuel pos id inner inner' h
  | limiter id => exact limiter_congr fuel pos id inner inner' h
  | fallback k hd => exact fallback_congr fuel pos k hd inner inner' h
  | cache id key cif => exact cache_congr fuel pos id key cif inner inner' h
  | timeout => exact timeout_congr fuel pos inner inner' h
  | hedge n co =>
    intro r
    simp only [applyPolicy]
    rcases eqv_cases (hedge_congr pos n co inner inner' h (n + 2) 0 0 0 r) with ⟨ha, hb'⟩ | ⟨p, q, r1, ha, hb', h1, h2, h3⟩
    · simp [ha, hb', Eqv]
    · simp [ha, hb', Eqv, h1, h2, h3]

/-- the composition loop over an arbitrary innermost layer -/
def stackOver (fn : Layer) (fuel : Nat) : Nat → List Policy → Layer
  | _, [] => fn
  | pos, p :: ps => applyPolicy fuel pos p (stackOver fn fuel (pos + 1) ps)

theorem stackOver_base (fuel pos : Nat) (ps : List Policy) : stackOver base fuel pos ps = executeStack fuel pos ps := by
  induction ps generalizing pos with
  | nil => rfl
  | cons p ps ih => simp [stackOver, executeStack, ih]

/-- … for every policy list (with repetition) and position: replacing what is innermost by something that agrees with it on
(value, error, verdict, run state) changes nothing the whole stack does or returns -/
theorem stack_congr (fuel : Nat) (ps : List Policy) (pos : Nat) (fn fn' : Layer) (h : LEqv fn fn') :
    LEqv (stackOver fn fuel pos ps) (stackOver fn' fuel pos ps) := by
  induction ps generalizing pos with
  | nil => exact h
  | cons p ps ih => exact applyPolicy_congr fuel pos p _ _ (ih (pos + 1))

/-- in particular the plumbing flags the function's wrapper sets are irrelevant: any `Done` / `Success` values give the same
execution (value, error, verdict, invocations, statistics, events, world) -/
theorem flags_are_plumbing (fuel : Nat) (ps : List Policy) (d s : Bool) (r : Run) :
    Eqv (executeStack fuel 0 ps r)
        (stackOver (fun r => (base r).map (fun x => ({ x.1 with done := d, success := s }, x.2))) fuel 0 ps r) := by
  rw [← stackOver_base]
  apply stack_congr
  intro r
  show Eqv (base r) ((base r).map _)
  cases base r with
  | none => trivial
  | some x => exact ⟨rfl, rfl, rfl, rfl⟩

/-! ## A compositional, flag-free denotation

`stack_congr` says that layers only look at (value, error, verdict, run). Hence the semantics factors through the domain `Den`
of observable meanings: each policy has a meaning function `applyDen` on `Den`, and the meaning of a stack is the composition
of these functions — the denotational reading of "policies compose as nested wrappers". -/
/-- what an execution layer means to an observer: value, error, verdict, and the run (invocations, statistics, events, world) -/
abbrev Obs := Int × Option Err × Bool
abbrev Den := Run → Option (Obs × Run)

def erase (l : Layer) : Den := fun r => (l r).map (fun x => ((x.1.val, x.1.err, x.1.successAll), x.2))

/-- any representative of an observable meaning (the plumbing flags are set to arbitrary values) -/
def lift (d : Den) : Layer := fun r => (d r).map (fun y => (⟨y.1.1, y.1.2.1, true, y.1.2.2, y.1.2.2⟩, y.2))

theorem lift_erase (l : Layer) : LEqv (lift (erase l)) l := by
  intro r
  unfold lift erase
  cases l r with
  | none => trivial
  | some x => exact ⟨rfl, rfl, rfl, rfl⟩

theorem erase_congr {l l' : Layer} (h : LEqv l l') : erase l = erase l' := by
  funext r
  have := h r
  unfold erase
  rcases eqv_cases this with ⟨ha, hb⟩ | ⟨p, q, r1, ha, hb, h1, h2, h3⟩
  · simp [ha, hb]
  · simp [ha, hb, h1, h2, h3]

/-- the flag-free meaning of a policy: a function from the meaning of what it wraps to the meaning of the wrapped whole -/
def applyDen (fuel pos : Nat) (p : Policy) (d : Den) : Den := erase (applyPolicy fuel pos p (lift d))

def denStack (d : Den) (fuel : Nat) : Nat → List Policy → Den
  | _, [] => d
  | pos, p :: ps => applyDen fuel pos p (denStack d fuel (pos + 1) ps)

/-- **compositional, flag-free denotation**: what a stack of policies means to an observer is obtained by applying each
policy's flag-free meaning function, outermost last, to the observable meaning of the wrapped function. The `Done` /
`Success` flags of `PolicyResult` never carry information from one layer to the next that is not in (value, error, verdict). -/
theorem den_compositional (fuel : Nat) (ps : List Policy) (pos : Nat) (fn : Layer) :
    erase (stackOver fn fuel pos ps) = denStack (erase fn) fuel pos ps := by
  induction ps generalizing pos with
  | nil => rfl
  | cons p ps ih =>
    show erase (applyPolicy fuel pos p (stackOver fn fuel (pos + 1) ps)) = applyDen fuel pos p (denStack (erase fn) fuel (pos + 1) ps)
    rw [← ih (pos + 1)]
    unfold applyDen
    apply erase_congr
    apply applyPolicy_congr
    intro r
    have := lift_erase (stackOver fn fuel (pos + 1) ps) r
    -- symmetric use
    rcases eqv_cases this with ⟨ha, hb⟩ | ⟨p', q, r1, ha, hb, h1, h2, h3⟩
    · rw [ha, hb]; trivial
    · rw [ha, hb]; exact ⟨h1.symm, h2.symm, h3.symm, rfl⟩

/-- for the executor: the observable meaning of `executeStack` is the denotation of the policy list over the function's meaning -/
theorem execute_denotation (fuel : Nat) (ps : List Policy) :
    erase (executeStack fuel 0 ps) = denStack (erase base) fuel 0 ps := by
  rw [← stackOver_base]; exact den_compositional fuel ps 0 base

/-- the representative chosen by `lift` does not matter: any values of the two plumbing flags give the same meaning function -/
theorem applyDen_any_flags (fuel pos : Nat) (p : Policy) (d : Den) (dn sc : Bool) :
    erase (applyPolicy fuel pos p (fun r => (d r).map (fun y => (⟨y.1.1, y.1.2.1, dn, sc, y.1.2.2⟩, y.2)))) = applyDen fuel pos p d := by
  unfold applyDen
  apply erase_congr
  apply applyPolicy_congr
  intro r
  show Eqv ((d r).map _) ((d r).map _)
  cases d r with
  | none => trivial
  | some y => exact ⟨rfl, rfl, rfl, rfl⟩

end Failsafe.Props.C01
