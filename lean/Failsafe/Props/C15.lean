import Failsafe.Conc.Future
import Failsafe.Conc.TraceFuture
import Failsafe.Exec
/-!
# C15 — async results follow the future protocol and agree with sync execution
-/
namespace Failsafe.Props.C15
open Failsafe.Conc Failsafe.Conc.Future

theorem reach_closed : closedB sys reach = true := by decide

/-- **the protocol**, in every reachable state of every interleaving of the producer with any number of `Cancel` calls (readers
do not change the state, so what holds of every state holds for every reader at every instant): `Done` is closed at most once;
closed ⇒ `IsDone`; `IsDone` ⇒ the result is available and the completion listeners have run; the result cell is written
exactly once, so all readers get the same values, however many call concurrently -/
theorem future_protocol (s : St) (h : Reachable sys s) : protocol s = true :=
  invariant_of_closed sys reach protocol reach_closed (by decide) s h

theorem closed_once (s : St) (h : Reachable sys s) : s.closes ≤ 1 := by
  have := future_protocol s h
  simp only [protocol, Bool.and_eq_true, decide_eq_true_eq] at this
  exact this.1.1.1.1

theorem isDone_imp_result (s : St) (h : Reachable sys s) (hd : s.doneFlag = true) : s.resultVersion = 1 ∧ listenersRan s = true := by
  have := future_protocol s h
  simp only [protocol, Bool.and_eq_true, Bool.or_eq_true, Bool.not_eq_true', beq_iff_eq] at this
  rcases this.1.1.2 with h1 | h1
  · rw [hd] at h1; cases h1
  · exact h1

theorem closed_imp_isDone (s : St) (h : Reachable sys s) (hc : s.closes = 1) : s.doneFlag = true := by
  have := future_protocol s h
  simp only [protocol, Bool.and_eq_true, Bool.or_eq_true, beq_iff_eq] at this
  rcases this.1.1.1.2 with h1 | h1
  · omega
  · exact h1.1.1

/-- once written the result never changes: every later state reports the same version (stability of `Get`) -/
theorem get_stable (s s' : St) (a : Act) (hs : step s a = some s') (hv : s.resultVersion = 1) (hr : Reachable sys s) :
    s'.resultVersion = 1 := by
  have hr' : Reachable sys s' := Reachable.step s s' a hr (by cases a <;> simp [sys]) hs
  have h1 := future_protocol s' hr'
  have hmono : s.resultVersion ≤ s'.resultVersion := by
    cases a <;> simp only [step] at hs <;> (split at hs) <;>
      first | (cases hs; done) | (simp only [Option.some.injEq] at hs; subst hs; simp)
  simp only [protocol, Bool.and_eq_true, decide_eq_true_eq] at h1
  have := h1.1.2
  omega

/-! **The values are those of the equivalent synchronous execution**: not a theorem of this file. Both entry points call the
same `execute` on a fresh execution (FACTS `effects/executor:executor.executeSync`, `bodies/executor:executor.executeAsync`), the
composition model `Exec.execute` has no notion of sync / async, and the differential check runs every compose case through
either entry point at random and compares it with that one model. -/

example : reach.any (fun s => s.pc == .closed && s.cancelCalls == 2) = true := by decide
example : reach.length = 15 := by decide

/-! ## TRACE tie: recorded runs of real asynchronous executions are replayed through the model

`TraceFuture.osys` is `Conc.Future` plus the readers' observation points. `Trace.accepts` is exact (`Trace.accepts_iff`); the
theorems below say what a reader's observation implies in every state an accepted trace can be in. -/
section trace
open Failsafe.Conc.TraceFuture

theorem accepted_states_reachable (fuel : Nat) (tr : List Ev) (Y : List St) (h : Trace.accepts osys fuel tr = some Y) (t : St) (ht : t ∈ Y) :
    Reachable Future.sys t :=
  reach_core t (Trace.accepted_state_reachable osys fuel tr Y h t ht)

/-- **a reader that gets `IsDone() = true` is later than the completion listeners and the result** -/
theorem seen_isDone_imp (s : St) (hr : Trace.Reach osys s) (h : shows s .seeIsDone (.seeIsDone true) = true) :
    s.resultVersion = 1 ∧ listenersRan s = true := by
  simp only [shows, beq_iff_eq] at h
  exact isDone_imp_result s (reach_core s hr) h

/-- **a reader that finds `Done()` closed also gets `IsDone() = true`, the result, and the listeners have run** -/
theorem seen_closed_imp (s : St) (hr : Trace.Reach osys s) (h : shows s .seeClosed (.seeClosed true) = true) :
    s.doneFlag = true ∧ s.resultVersion = 1 ∧ listenersRan s = true := by
  simp only [shows, beq_iff_eq, decide_eq_true_eq] at h
  have hc := closed_once s (reach_core s hr)
  have h1 : s.closes = 1 := by omega
  have hd := closed_imp_isDone s (reach_core s hr) h1
  exact ⟨hd, isDone_imp_result s (reach_core s hr) hd⟩

/-- `Get()` only returns once the channel is closed, and then the result is there -/
theorem got_imp (s : St) (hr : Trace.Reach osys s) (hst : TraceFuture.step s .got = some s) :
    s.doneFlag = true ∧ s.resultVersion = 1 := by
  simp only [TraceFuture.step] at hst
  split at hst
  · rename_i hc
    have hc1 := closed_once s (reach_core s hr)
    have hd := closed_imp_isDone s (reach_core s hr) (by omega)
    exact ⟨hd, (isDone_imp_result s (reach_core s hr) hd).1⟩
  · cases hst

/-- along any run of the traced system, the completion listeners can only have run if the run shows the `listener` event -/
theorem listener_event_of_ran (a b : St) (tr : List Ev) (h : Trace.Run osys a tr b) (ha : listenersRan a = false)
    (hb : listenersRan b = true) : Ev.listener ∈ tr := by
  induction h with
  | nil s => rw [ha] at hb; cases hb
  | silent s s' s'' x tr hm hs hst _ ih =>
    -- a silent step is one of the producer's stores, none of which is enabled before the listeners have run
    have hpc : s.pc = .running := by simpa [listenersRan] using ha
    cases x with
    | core c =>
      cases c with
      | finishListeners => simp [osys, silent] at hs
      | cancel => simp [osys, silent] at hs
      | storeResult => simp [osys, TraceFuture.step, Future.step, hpc] at hst
      | storeDone => simp [osys, TraceFuture.step, Future.step, hpc] at hst
      | close => simp [osys, TraceFuture.step, Future.step, hpc] at hst
    | seeIsDone => simp [osys, silent] at hs
    | seeClosed => simp [osys, silent] at hs
    | got => simp [osys, silent] at hs
  | vis s s' s'' x e tr hm hs hsh hst hrest ih =>
    cases x with
    | core c =>
      cases c with
      | finishListeners =>
        cases e <;> simp only [osys, shows] at hsh <;> first | (cases hsh; done) | exact List.mem_cons_self
      | cancel =>
        have hs' : listenersRan s' = false := by
          simp only [osys, TraceFuture.step, Future.step] at hst
          split at hst
          · simp only [Option.some.injEq] at hst; subst hst; exact ha
          · cases hst
        exact List.mem_cons_of_mem _ (ih hs' hb)
      | storeResult => simp [osys, silent] at hs
      | storeDone => simp [osys, silent] at hs
      | close => simp [osys, silent] at hs
    | seeIsDone =>
      simp only [osys, TraceFuture.step, Option.some.injEq] at hst; subst hst
      exact List.mem_cons_of_mem _ (ih ha hb)
    | seeClosed =>
      simp only [osys, TraceFuture.step, Option.some.injEq] at hst; subst hst
      exact List.mem_cons_of_mem _ (ih ha hb)
    | got =>
      simp only [osys, TraceFuture.step] at hst
      split at hst
      · simp only [Option.some.injEq] at hst; subst hst
        exact List.mem_cons_of_mem _ (ih ha hb)
      · cases hst

/-- **on traces**: in every trace the model can show — hence in every recorded run the acceptor accepts — an observation
`IsDone() = true` comes after the completion listener's event -/
theorem isDone_true_after_listener (t1 t2 : List Ev) (c : St) (h : Trace.Run osys osys.init (t1 ++ Ev.seeIsDone true :: t2) c) :
    Ev.listener ∈ t1 := by
  obtain ⟨b, hb1, hb2⟩ := Trace.Run.split_append t1 (Ev.seeIsDone true :: t2) h
  obtain ⟨b2, hb3, _⟩ := Trace.Run.split_cons hb2
  obtain ⟨s, s', x, htau, hx, hsil, hsh, hst, _⟩ := Trace.Run.single_vis hb3
  -- the state in which the reader looked is reachable, and it shows IsDone = true: the listeners have run there
  have hrun : Trace.Run osys osys.init t1 s := by
    have := Trace.Run.append hb1 (Trace.Run.of_tau htau (Trace.Run.nil s))
    simpa using this
  have hreach : Trace.Reach osys s := Trace.Run.reach hrun Trace.Reach.init
  have hdone : s.doneFlag = true := by
    cases x with
    | seeIsDone => simpa [osys, shows] using hsh
    | core c => cases c <;> simp [osys, shows] at hsh
    | seeClosed => simp [osys, shows] at hsh
    | got => simp [osys, shows] at hsh
  have hran := (isDone_imp_result s (reach_core s hreach) hdone).2
  exact listener_event_of_ran osys.init s t1 hrun (by decide) hran

/-- **on traces**: an observation that `Done()` is closed comes after the completion listener's event -/
theorem closed_after_listener (t1 t2 : List Ev) (c : St) (h : Trace.Run osys osys.init (t1 ++ Ev.seeClosed true :: t2) c) :
    Ev.listener ∈ t1 := by
  obtain ⟨b, hb1, hb2⟩ := Trace.Run.split_append t1 (Ev.seeClosed true :: t2) h
  obtain ⟨b2, hb3, _⟩ := Trace.Run.split_cons hb2
  obtain ⟨s, s', x, htau, hx, hsil, hsh, hst, _⟩ := Trace.Run.single_vis hb3
  have hrun : Trace.Run osys osys.init t1 s := by
    have := Trace.Run.append hb1 (Trace.Run.of_tau htau (Trace.Run.nil s))
    simpa using this
  have hreach : Trace.Reach osys s := Trace.Run.reach hrun Trace.Reach.init
  have hsee : shows s .seeClosed (.seeClosed true) = true := by
    cases x with
    | seeClosed => exact hsh
    | core c => cases c <;> simp [osys, shows] at hsh
    | seeIsDone => simp [osys, shows] at hsh
    | got => simp [osys, shows] at hsh
  have hran := (seen_closed_imp s hreach hsee).2.2
  exact listener_event_of_ran osys.init s t1 hrun (by decide) hran

/-- **on traces**: a `Get()` that returned comes after the completion listener's event -/
theorem got_after_listener (t1 t2 : List Ev) (c : St) (h : Trace.Run osys osys.init (t1 ++ Ev.got :: t2) c) :
    Ev.listener ∈ t1 := by
  obtain ⟨b, hb1, hb2⟩ := Trace.Run.split_append t1 (Ev.got :: t2) h
  obtain ⟨b2, hb3, _⟩ := Trace.Run.split_cons hb2
  obtain ⟨s, s', x, htau, hx, hsil, hsh, hst, _⟩ := Trace.Run.single_vis hb3
  have hrun : Trace.Run osys osys.init t1 s := by
    have := Trace.Run.append hb1 (Trace.Run.of_tau htau (Trace.Run.nil s))
    simpa using this
  have hreach : Trace.Reach osys s := Trace.Run.reach hrun Trace.Reach.init
  cases x with
  | got =>
    have hst' : TraceFuture.step s .got = some s' := hst
    have hss : s' = s := by
      simp only [TraceFuture.step] at hst'
      split at hst'
      · simp only [Option.some.injEq] at hst'; exact hst'.symm
      · cases hst'
    rw [hss] at hst'
    have hdone := (got_imp s hreach hst').1
    have hran := (isDone_imp_result s (reach_core s hreach) hdone).2
    exact listener_event_of_ran osys.init s t1 hrun (by decide) hran
  | core c => cases c <;> simp [osys, shows] at hsh
  | seeIsDone => simp [osys, shows] at hsh
  | seeClosed => simp [osys, shows] at hsh

/-- non-vacuity, decided by running the acceptor: a protocol-conforming trace is accepted; `IsDone() = true` before the completion
listener, or `Done()` closed while `IsDone()` is still false afterwards, is rejected -/
example : (Trace.accepts osys 20 [.seeIsDone false, .listener, .seeClosed false, .seeIsDone true, .seeClosed true, .got]).map (·.isEmpty) = some false := by decide
example : (Trace.accepts osys 20 [.seeIsDone true, .listener]).map (·.isEmpty) = some true := by decide
example : (Trace.accepts osys 20 [.listener, .seeClosed true, .seeIsDone false]).map (·.isEmpty) = some true := by decide

end trace

end Failsafe.Props.C15
