import Failsafe.Exec
import Failsafe.Tie.Execution
import Failsafe.Lemmas.ExecBodiesLink
import Failsafe.Conc.TraceHedge
import Failsafe.Props.C09
/-!
# C17 — execution statistics count attempts, executions, retries and hedges exactly

The counters of the model are the execution's shared atomics (`attempts`, `retries`, `hedges`, `executions`) plus the
harness-side invocation counter `inv`. Events carry the values sampled when they were emitted; the differential check
compares them with `Attempts()` / `Executions()` observed inside every listener, and with `Retries()` / `Hedges()` at the end.
-/
namespace Failsafe.Props.C17
open Failsafe Failsafe.Exec Failsafe.Classify

/-- `Attempts = 1 + Retries + Hedges` -/
def Stats (r : Run) : Prop := r.attempts = 1 + r.retries + r.hedges

def Preserves (l : Layer) : Prop := ∀ r res r', l r = some (res, r') → Stats r → Stats r'

theorem stats_trigger (r : Run) (n : String) (hs : Stats r) : Stats (r.trigger n) := by
  unfold Stats at *; simp only [Run.trigger_attempts, Run.trigger_retries, Run.trigger_hedges]; exact hs

theorem base_preserves : Preserves base := by
  intro r res r' h hs
  have hX : Stats ((r.emitSeen (if r.hedgeAttempt then "fnh" else "fn") 0 r.seenLast).trigger "fn") := stats_trigger _ _ hs
  unfold base at h
  simp only at h
  generalize ((r.emitSeen (if r.hedgeAttempt then "fnh" else "fn") 0 r.seenLast).trigger "fn") = X at h hX
  repeat' (split at h)
  all_goals first
    | (simp at h; done)
    | (simp only [Option.some.injEq, Prod.mk.injEq] at h; obtain ⟨_, rfl⟩ := h
       first | exact hX | (split <;> exact hX))

def counters (r : Run) : Nat × Nat × Nat := (r.attempts, r.retries, r.hedges)

theorem stats_of_counters (r r' : Run) (h : counters r' = counters r) (hs : Stats r) : Stats r' := by
  simp only [counters, Prod.mk.injEq] at h
  unfold Stats at *
  omega

@[simp] theorem counters_emit (r : Run) (n : String) (p : Nat) : counters (r.emit n p) = counters r := rfl
@[simp] theorem counters_emitSeen (r : Run) (n : String) (p : Nat) (o : Outcome) : counters (r.emitSeen n p o) = counters r := rfl
@[simp] theorem counters_emitLast (r : Run) (n : String) (p : Nat) : counters (r.emitLast n p) = counters r := rfl
@[simp] theorem counters_setFailed (r : Run) (p n : Nat) : counters (setFailed r p n) = counters r := rfl
@[simp] theorem counters_exceeded (r : Run) (l : List Nat) : counters { r with exceeded := l } = counters r := rfl

theorem retryOnFailure_counters (pos : Nat) (m : Int) (rl : Bool) (a : List Cond) (res : PR) (r : Run) :
    counters (retryOnFailure pos m rl a res r).2 = counters r := by
  unfold retryOnFailure
  simp only
  split <;>
    simp only [apply_ite counters, counters_emit, counters_emitSeen, counters_setFailed, counters_exceeded, ite_self]

theorem retryOnFailure_stats (pos : Nat) (m : Int) (rl : Bool) (a : List Cond) (res : PR) (r : Run) (hs : Stats r) :
    Stats (retryOnFailure pos m rl a res r).2 :=
  stats_of_counters r _ (retryOnFailure_counters pos m rl a res r) hs

theorem retry_preserves (pos : Nat) (m : Int) (rl : Bool) (h a : List Cond) (inner : Layer) (hi : Preserves inner) :
    ∀ fuel, Preserves (retryLoop pos m rl h a inner fuel) := by
  intro fuel
  induction fuel with
  | zero => intro r res r' hh; simp [retryLoop] at hh
  | succ n ih =>
    intro r res r' hh hs
    simp only [retryLoop] at hh
    cases hin : inner r with
    | none => simp [hin] at hh
    | some x =>
      obtain ⟨res1, r1⟩ := x
      have hs1 := hi r res1 r1 hin hs
      simp only [hin] at hh
      by_cases hc : r1.isCanc = true
      · simp only [hc, if_true, Option.some.injEq, Prod.mk.injEq] at hh
        obtain ⟨_, rfl⟩ := hh; exact hs1
      · simp only [hc] at hh
        by_cases he : r1.exceeded.contains pos = true
        · simp only [he, if_true, Option.some.injEq, Prod.mk.injEq] at hh
          obtain ⟨_, rfl⟩ := hh; exact hs1
        · simp only [he] at hh
          by_cases hf : isFailure h res1.outcome = true
          · simp only [hf, if_true] at hh
            have hs2 := retryOnFailure_stats pos m rl a res1.withFailure r1 hs1
            by_cases hd : (retryOnFailure pos m rl a res1.withFailure r1).1.done = true
            · simp only [hd, if_true, Option.some.injEq, Prod.mk.injEq] at hh
              obtain ⟨_, rfl⟩ := hh; exact hs2
            · simp only [hd] at hh
              generalize hX : (({ (retryOnFailure pos m rl a res1.withFailure r1).2 with
                  last := (retryOnFailure pos m rl a res1.withFailure r1).1.outcome }).emitLast "rp.onRetryScheduled" pos).trigger "rp.onRetryScheduled" = X at hh
              have hsX : Stats X := by rw [← hX]; exact stats_trigger _ _ hs2
              by_cases hx : X.isCanc = true
              · simp only [hx, if_true, Option.some.injEq, Prod.mk.injEq] at hh
                obtain ⟨_, rfl⟩ := hh; exact hsX
              · simp only [hx] at hh
                apply ih _ res r' hh
                show _ = _
                simp only [Run.emitLast, Run.emitSeen]
                have : X.attempts = 1 + X.retries + X.hedges := hsX
                omega
          · simp only [hf, Option.some.injEq, Prod.mk.injEq] at hh
            obtain ⟨_, rfl⟩ := hh; exact hs1

theorem stats_fire (r1 : Run) (extra : Nat) (ha : Stats r1) :
    Stats ({ (if r1.cancelled = true then r1 else r1.emit "to.onTimeoutExceeded" r1.timeoutPos) with
              cancelled := true, execs := (if r1.cancelled = true then r1 else r1.emit "to.onTimeoutExceeded" r1.timeoutPos).execs + extra }) := by
  split <;> exact ha

theorem stats_execs (r1 : Run) (n : Nat) (ha : Stats r1) : Stats { r1 with execs := n } := ha

theorem hedge_preserves (pos n : Nat) (co : List Cond) (inner : Layer) (hi : Preserves inner) :
    ∀ fuel k done blocked, Preserves (hedgeLoop pos n co inner fuel k done blocked) := by
  intro fuel
  induction fuel with
  | zero => intro k d b r res r' h; simp [hedgeLoop] at h
  | succ f ih =>
    intro k d b r res r' h hs
    simp only [hedgeLoop] at h
    have hs0 : Stats (if (k == 0) = true then { r with hedgeAttempt := false, hpLast := r.last } else ({ r with attempts := r.attempts + 1, hedges := r.hedges + 1, hedgeAttempt := true, last := r.hpLast }).emit "hp.onHedge" pos) := by
      split
      · exact hs
      · show _ = _
        simp only [Run.emit]
        have : r.attempts = 1 + r.retries + r.hedges := hs
        omega
    generalize (if (k == 0) = true then { r with hedgeAttempt := false, hpLast := r.last } else ({ r with attempts := r.attempts + 1, hedges := r.hedges + 1, hedgeAttempt := true, last := r.hpLast }).emit "hp.onHedge" pos) = r0 at h hs0
    have hsd : Stats { r0 with script := List.drop 1 r0.script, inv := r0.inv + 1 } := hs0
    cases hin : inner r0 with
    | none =>
      simp only [hin] at h
      repeat' (split at h)
      all_goals first
        | (simp at h; done)
        | exact ih _ _ _ _ _ _ h hsd
        | (simp only [Option.some.injEq, Prod.mk.injEq] at h; obtain ⟨_, rfl⟩ := h
           first | exact stats_fire _ _ hsd | exact hsd | exact hs0)
    | some x =>
      obtain ⟨res1, r1⟩ := x
      have h1 := hi r0 res1 r1 hin hs0
      simp only [hin] at h
      repeat' (split at h)
      all_goals first
        | (simp at h; done)
        | exact ih _ _ _ _ _ _ h h1
        | exact ih _ _ _ _ _ _ h hsd
        | (simp only [Option.some.injEq, Prod.mk.injEq] at h; obtain ⟨_, rfl⟩ := h
           first | exact stats_fire _ _ h1 | exact stats_fire _ _ hsd | exact stats_execs _ _ h1 | exact h1 | exact hsd | exact hs0)

@[simp] theorem counters_updBreaker (r : Run) (id : Nat) (f) : counters (updBreaker r id f) = counters r := rfl

theorem counters_drainBreaker (r : Run) (id pos : Nat) : counters (drainBreaker r id pos) = counters r := by
  unfold drainBreaker
  split
  · rfl
  · rename_i c b _
    simp only [counters_updBreaker]
    suffices ∀ (es : List Breaker.Event) (r : Run),
        counters (es.foldl (fun r ev => { r with log := r.log ++ [⟨breakerEventName ev, pos, 0, 0, none⟩] }) r) = counters r from this _ r
    intro es
    induction es with
    | nil => intro r; rfl
    | cons e es ih => intro r; simp only [List.foldl_cons]; rw [ih]; rfl

theorem stats_drain (r : Run) (id pos : Nat) (h : Stats r) : Stats (drainBreaker r id pos) :=
  stats_of_counters r _ (counters_drainBreaker r id pos) h

/-- every policy layer preserves `Attempts = 1 + Retries + Hedges`, whatever is inside it -/
theorem applyPolicy_preserves (fuel pos : Nat) (p : Policy) (inner : Layer) (hi : Preserves inner) :
    Preserves (applyPolicy fuel pos p inner) := by
  cases p with
  | retry m rl h a => exact retry_preserves pos m rl h a inner hi fuel
  | hedge n co =>
    intro r res r' hh hs
    simp only [applyPolicy] at hh
    cases hl : hedgeLoop pos n co inner (n + 2) 0 0 0 r with
    | none => simp [hl] at hh
    | some x =>
      simp only [hl, Option.map_some, Option.some.injEq, Prod.mk.injEq] at hh
      obtain ⟨_, rfl⟩ := hh
      exact hedge_preserves pos n co inner hi _ _ _ _ r x.1 x.2 hl hs
  | breaker id h =>
    intro r res r' hh hs
    simp only [applyPolicy] at hh
    cases hb : r.w.breakers[id]? with
    | none => simp [hb] at hh
    | some cb =>
      obtain ⟨c, b⟩ := cb
      simp only [hb] at hh
      have hs1 : Stats (drainBreaker (updBreaker r id (fun _ _ => (Breaker.tryAcquire c b r.w.now).1)) id pos) :=
        stats_drain _ id pos hs
      cases hin : inner (drainBreaker (updBreaker r id (fun _ _ => (Breaker.tryAcquire c b r.w.now).1)) id pos) with
      | none =>
        simp only [hin] at hh
        repeat' (split at hh)
        all_goals first
          | (simp at hh; done)
          | (simp only [Option.some.injEq, Prod.mk.injEq] at hh; obtain ⟨_, rfl⟩ := hh; exact hs1)
      | some x =>
        obtain ⟨res1, r1⟩ := x
        have h1 := hi _ res1 r1 hin hs1
        simp only [hin] at hh
        repeat' (split at hh)
        all_goals first
          | (simp at hh; done)
          | (simp only [Option.some.injEq, Prod.mk.injEq] at hh; obtain ⟨_, rfl⟩ := hh
             first | exact hs1 | exact stats_drain _ id pos h1)
  | bulkhead id =>
    intro r res r' hh hs
    simp only [applyPolicy] at hh
    cases hb : r.w.bulk[id]? with
    | none => simp [hb] at hh
    | some ch =>
      obtain ⟨cap, held⟩ := ch
      simp only [hb] at hh
      have hs1 : Stats { r with w := { r.w with bulk := r.w.bulk.set id (cap, held + 1) } } := hs
      cases hin : inner { r with w := { r.w with bulk := r.w.bulk.set id (cap, held + 1) } } with
      | none =>
        simp only [hin] at hh
        repeat' (split at hh)
        all_goals first
          | (simp at hh; done)
          | (simp only [Option.some.injEq, Prod.mk.injEq] at hh; obtain ⟨_, rfl⟩ := hh; exact hs)
      | some x =>
        obtain ⟨res1, r1⟩ := x
        have h1 := hi _ res1 r1 hin hs1
        simp only [hin] at hh
        repeat' (split at hh)
        all_goals first
          | (simp at hh; done)
          | (simp only [Option.some.injEq, Prod.mk.injEq] at hh; obtain ⟨_, rfl⟩ := hh
             first | exact hs | exact h1)
  | limiter id =>
    intro r res r' hh hs
    simp only [applyPolicy] at hh
    cases hb : r.w.limiters[id]? with
    | none => simp [hb] at hh
    | some cs =>
      obtain ⟨c, s0⟩ := cs
      simp only [hb] at hh
      split at hh
      · exact hi _ res r' hh hs
      · simp only [Option.some.injEq, Prod.mk.injEq] at hh; obtain ⟨_, rfl⟩ := hh; exact hs
  | fallback k h =>
    intro r res r' hh hs
    simp only [applyPolicy] at hh
    cases hin : inner r with
    | none => simp [hin] at hh
    | some x =>
      obtain ⟨res1, r1⟩ := x
      have h1 := hi _ res1 r1 hin hs
      simp only [hin] at hh
      repeat' (split at hh)
      all_goals (simp only [Option.some.injEq, Prod.mk.injEq] at hh; obtain ⟨_, rfl⟩ := hh; exact h1)
  | timeout =>
    intro r res r' hh hs
    simp only [applyPolicy] at hh
    have hs1 : Stats { r with inTimeout := true, cancelled := false, timeoutPos := pos } := hs
    cases hin : inner { r with inTimeout := true, cancelled := false, timeoutPos := pos } with
    | none => simp [hin] at hh
    | some x =>
      obtain ⟨res1, r1⟩ := x
      have h1 := hi _ res1 r1 hin hs1
      simp only [hin] at hh
      repeat' (split at hh)
      all_goals (simp only [Option.some.injEq, Prod.mk.injEq] at hh; obtain ⟨_, rfl⟩ := hh; exact h1)
  | cache id key cif =>
    intro r res r' hh hs
    simp only [applyPolicy] at hh
    have hs1 : Stats (r.emit "ca.onMiss" pos) := hs
    cases hin : inner (r.emit "ca.onMiss" pos) with
    | none =>
      simp only [hin] at hh
      repeat' (split at hh)
      all_goals first
        | (simp at hh; done)
        | (simp only [Option.some.injEq, Prod.mk.injEq] at hh; obtain ⟨_, rfl⟩ := hh; exact hs)
    | some x =>
      obtain ⟨res1, r1⟩ := x
      have h1 := hi _ res1 r1 hin hs1
      simp only [hin] at hh
      repeat' (split at hh)
      all_goals first
        | (simp at hh; done)
        | (simp only [Option.some.injEq, Prod.mk.injEq] at hh; obtain ⟨_, rfl⟩ := hh
           first | exact hs | exact h1)

theorem executeStack_preserves (fuel : Nat) (ps : List Policy) : ∀ pos, Preserves (executeStack fuel pos ps) := by
  induction ps with
  | nil => intro pos; exact base_preserves
  | cons p ps ih => intro pos; exact applyPolicy_preserves fuel pos p _ (ih (pos + 1))

/-- **`Attempts = 1 + Retries + Hedges` at every event of every execution of every policy list** — the invariant holds in the
final state, and since the log only ever grows by `emit`, which samples the counters of a state satisfying it -/
theorem attempts_eq_one_plus_retries_plus_hedges (fuel : Nat) (ps : List Policy) (w : World) (script : List Item)
    (ck : Option String) (res : PR) (r' : Run)
    (h : execute fuel ps { w := w, script := script, ctxKey := ck } = some (res, r')) :
    r'.attempts = 1 + r'.retries + r'.hedges := by
  unfold execute at h
  split at h
  · simp at h
  · rename_i res1 r1 hin
    have := executeStack_preserves fuel ps 0 _ res1 r1 hin (by rfl)
    simp only [Option.some.injEq, Prod.mk.injEq] at h
    obtain ⟨_, rfl⟩ := h
    split <;> exact this

/-- **an attempt rejected by an open breaker counts as an attempt but not as an execution**: the function is not invoked,
`Executions` does not change -/
theorem breaker_rejection_not_an_execution (fuel pos id : Nat) (h : List Cond) (inner : Layer) (r : Run) (c : Breaker.Cfg) (b : Breaker.B)
    (hb : r.w.breakers[id]? = some (c, b)) (hrej : (Breaker.tryAcquire c b r.w.now).2 = false) (res : PR) (r' : Run)
    (hh : applyPolicy fuel pos (.breaker id h) inner r = some (res, r')) :
    res = failureResult Err.opened ∧ r'.inv = r.inv ∧ r'.execs = r.execs ∧ r'.attempts = r.attempts := by
  simp only [applyPolicy, hb, hrej] at hh
  simp only [Bool.not_false, if_true, Option.some.injEq, Prod.mk.injEq] at hh
  obtain ⟨rfl, rfl⟩ := hh
  refine ⟨rfl, ?_, ?_, ?_⟩ <;>
  · have := counters_drainBreaker (updBreaker r id fun _ _ => (Breaker.tryAcquire c b r.w.now).1) id pos
    unfold drainBreaker
    split
    · rfl
    · suffices ∀ (es : List Breaker.Event) (r0 : Run),
          ((es.foldl (fun r ev => { r with log := r.log ++ [⟨breakerEventName ev, pos, 0, 0, none⟩] }) r0).inv = r0.inv) ∧
          ((es.foldl (fun r ev => { r with log := r.log ++ [⟨breakerEventName ev, pos, 0, 0, none⟩] }) r0).execs = r0.execs) ∧
          ((es.foldl (fun r ev => { r with log := r.log ++ [⟨breakerEventName ev, pos, 0, 0, none⟩] }) r0).attempts = r0.attempts) by
        first | exact (this _ _).1 | exact (this _ _).2.1 | exact (this _ _).2.2
      intro es
      induction es with
      | nil => intro r0; exact ⟨rfl, rfl, rfl⟩
      | cons e es ih => intro r0; simp only [List.foldl_cons]; have := ih { r0 with log := r0.log ++ [⟨breakerEventName e, pos, 0, 0, none⟩] }; exact this

/-- a full bulkhead and a refusing rate limiter likewise: no invocation, no execution -/
theorem bulkhead_rejection_not_an_execution (fuel pos id : Nat) (inner : Layer) (r : Run) (cap held : Nat)
    (hb : r.w.bulk[id]? = some (cap, held)) (hfull : ¬ held < cap) (res : PR) (r' : Run)
    (hh : applyPolicy fuel pos (.bulkhead id) inner r = some (res, r')) :
    res = failureResult Err.full ∧ r'.inv = r.inv ∧ r'.execs = r.execs ∧ r'.attempts = r.attempts := by
  simp only [applyPolicy, hb, hfull, if_false, Option.some.injEq, Prod.mk.injEq] at hh
  obtain ⟨rfl, rfl⟩ := hh
  exact ⟨rfl, rfl, rfl, rfl⟩

example : Stats { w := {}, script := [] } := rfl

/-! ## the boolean flags agree with the counters (about the getters as regenerated from `execution.go`) -/

open Failsafe.ExecKernels in
/-- `IsFirstAttempt ⇔ Attempts = 1` and `IsRetry ⇔ Attempts > 1`, for the regenerated getters -/
theorem flags_agree (c : Counters) :
    (Generated.Execution.isFirstAttemptGen c = true ↔ Generated.Execution.attemptsGen c = 1) ∧
    (Generated.Execution.isRetryGen c = true ↔ Generated.Execution.attemptsGen c > 1) := by
  rw [Tie.Execution.tie_isFirstAttempt, Tie.Execution.tie_isRetry, Tie.Execution.tie_attempts]
  simp [isFirstAttempt, isRetry]

open Failsafe.ExecKernels in
/-- with at least one attempt (always: an execution starts with `Attempts = 1`) exactly one of the two flags holds; and under
the statistics invariant `Attempts = 1 + Retries + Hedges` an execution "is a retry" as soon as a retry *or a hedge* has started -/
theorem first_xor_retry (c : Counters) (h : 1 ≤ c.attempts) :
    (Generated.Execution.isFirstAttemptGen c = true ∧ Generated.Execution.isRetryGen c = false) ∨
    (Generated.Execution.isFirstAttemptGen c = false ∧ Generated.Execution.isRetryGen c = true) := by
  rw [Tie.Execution.tie_isFirstAttempt, Tie.Execution.tie_isRetry]
  by_cases h1 : c.attempts = 1
  · left; simp [isFirstAttempt, isRetry, h1]
  · right; simp [isFirstAttempt, isRetry, h1]; omega

open Failsafe.ExecKernels in
theorem isRetry_iff_retries_or_hedges (c : Counters) (hs : c.attempts = 1 + c.retries + c.hedges) :
    Generated.Execution.isRetryGen c = true ↔ 0 < c.retries + c.hedges := by
  rw [Tie.Execution.tie_isRetry]; simp [isRetry]; omega

/-! ## What listeners are shown as `LastResult` / `LastError`

Every listener of a retry policy is handed the attempt's outcome (`Props/C16.retry_onFailure_events` carries it in the event);
the policy-level `OnSuccess` / `OnFailure` listeners of breaker and fallback are handed the result they classified, read
through `LastError()`'s context rule (`Run.seenBy`). -/

/-- the value a listener reads is always the result's -/
theorem seenBy_val (r : Run) (o : Outcome) : (r.seenBy o).val = o.val := by
  unfold Run.seenBy; split <;> rfl

/-- an error carried by the result is what the listener reads -/
theorem seenBy_err (r : Run) (o : Outcome) (e : Err) (h : o.err = some e) : r.seenBy o = o := by
  unfold Run.seenBy; simp [h]

/-- while nothing is cancelled (no cancellation from outside, not inside a Timeout scope that has fired) a listener reads
exactly the most recent completed attempt's result and error -/
theorem seenBy_not_cancelled (r : Run) (o : Outcome) (h1 : r.ext = none) (h2 : r.cancelled = false) : r.seenBy o = o := by
  unfold Run.seenBy; simp [h1, h2]

/-- the only deviation: a result without an error, read on a copy whose context is done, shows the context's error -/
theorem seenBy_cancelled (r : Run) (o : Outcome) (h : o.err = none) (hc : r.ext.isSome = true ∨ r.cancelled = true) :
    r.seenBy o = ⟨o.val, some Err.canceled⟩ := by
  unfold Run.seenBy
  rcases hc with hc | hc <;> simp [h, hc]

/-! ## The counters of `execution.go`, on the regenerated bodies

The reference definitions below are what the bodies of `newExecution`'s zero state, `InitializeRetry`, `CopyForHedge`, `record`,
`Cancel`, `RecordResult`, `CopyWithResult` and `LastError` — regenerated from the source on every run — are proved equal to
(`Tie/XExecution.lean`). Hedge attempts run concurrently, so the invariant is stated for **every order** of the operations. -/
section counters
open Failsafe.ExecBodies

/-- every operation the library performs on an execution's shared state -/
inductive XOp
  | initializeRetry | copyForHedge | record
  | cancel (r : Option PR) | recordResult (r : Option PR) | copyWithResult (r : Option PR)

def XOp.apply (s : XSt) : XOp → XSt
  | .initializeRetry => (ExecBodies.initializeRetry s).2
  | .copyForHedge => ExecBodies.copyForHedge s
  | .record => ExecBodies.record s
  | .cancel r => ExecBodies.cancel s r
  | .recordResult r => (ExecBodies.recordResult s r).2
  | .copyWithResult r => ExecBodies.copyWithResult s r

def XInv (s : XSt) : Prop := s.attempts = 1 + s.retries + s.hedges

theorem xinv_step (s : XSt) (op : XOp) (h : XInv s) : XInv (op.apply s) := by
  unfold XInv at *
  cases op with
  | initializeRetry =>
    simp only [XOp.apply, ExecBodies.initializeRetry]
    split
    · exact h
    · simp only []; split <;> omega
  | copyForHedge => simp only [XOp.apply, ExecBodies.copyForHedge]; omega
  | record => exact h
  | cancel r =>
    simp only [XOp.apply, ExecBodies.cancel]
    split
    · exact h
    · cases r <;> simp only [] <;> split <;> simpa [callCancelFunc] using h
  | recordResult r =>
    simp only [XOp.apply, ExecBodies.recordResult]
    split
    · exact h
    · cases r <;> exact h
  | copyWithResult r => cases r <;> exact h

/-- **`Attempts = 1 + Retries + Hedges` after any sequence of the operations of `execution.go`, in any order**, from a new
execution — on the regenerated bodies themselves -/
theorem counters_invariant (ops : List XOp) : XInv (ops.foldl XOp.apply XSt.new) := by
  have : ∀ (s : XSt), XInv s → XInv (ops.foldl XOp.apply s) := by
    induction ops with
    | nil => intro s h; exact h
    | cons o os ih => intro s h; exact ih _ (xinv_step s o h)
  exact this _ (by simp [XInv, XSt.new])

/-- a retry is one more attempt and one more retry; a hedge one more attempt and one more hedge; `record` counts a completed
invocation and nothing else -/
theorem counter_steps (s : XSt) (h1 : 1 ≤ s.attempts) :
    ((isCanc s).1 = false → (ExecBodies.initializeRetry s).2.attempts = s.attempts + 1 ∧ (ExecBodies.initializeRetry s).2.retries = s.retries + 1 ∧
        (ExecBodies.initializeRetry s).2.hedges = s.hedges ∧ (ExecBodies.initializeRetry s).2.executions = s.executions) ∧
    ((ExecBodies.copyForHedge s).attempts = s.attempts + 1 ∧ (ExecBodies.copyForHedge s).hedges = s.hedges + 1 ∧
        (ExecBodies.copyForHedge s).retries = s.retries ∧ (ExecBodies.copyForHedge s).isHedge = true) ∧
    ((ExecBodies.record s).executions = s.executions + 1 ∧ (ExecBodies.record s).attempts = s.attempts) := by
  refine ⟨fun h => ?_, ⟨rfl, rfl, rfl, rfl⟩, ⟨rfl, rfl⟩⟩
  simp [ExecBodies.initializeRetry, h]; omega

/-- a rejected attempt (the policy returned before the function) never reaches `record`: `Executions` only moves in `record` -/
theorem executions_only_in_record (s : XSt) (op : XOp) (h : (op.apply s).executions ≠ s.executions) : ∃ _ : op = XOp.record, True := by
  cases op with
  | record => exact ⟨rfl, trivial⟩
  | initializeRetry => simp only [XOp.apply, ExecBodies.initializeRetry] at h; split at h <;> simp at h
  | copyForHedge => simp [XOp.apply, ExecBodies.copyForHedge] at h
  | cancel r =>
    exfalso; apply h
    simp only [XOp.apply, ExecBodies.cancel]
    split
    · rfl
    · cases r <;> simp only [] <;> split <;> simp [callCancelFunc]
  | recordResult r =>
    exfalso; apply h
    simp only [XOp.apply, ExecBodies.recordResult]
    split
    · rfl
    · cases r <;> rfl
  | copyWithResult r => exfalso; apply h; cases r <;> rfl

/-- **what the wrapped function and the listeners read as the last outcome is `LastResult` / `LastError` of the regenerated
`execution.go`** (links of the composition model) -/
theorem model_last_outcome_views_are_the_codes (r : Run) (o : Outcome) :
    r.seenLast = ⟨r.last.val, ExecBodies.lastError { lastVal := r.last.val, lastErr := r.last.err,
                                                     ctxErr := if r.ext.isSome then some Err.canceled else none }⟩ ∧
    r.seenBy o = (let c := ExecBodies.copyWithResult { ctxErr := if r.ext.isSome || r.cancelled then some Err.canceled else none } (some ⟨o.val, o.err, true, false, false⟩)
                  ⟨c.lastVal, ExecBodies.lastError c⟩) :=
  ⟨Failsafe.Lemmas.ExecBodiesLink.seenLast_link r, Failsafe.Lemmas.ExecBodiesLink.seenBy_link r o true false false⟩

example : XInv ([XOp.initializeRetry, .copyForHedge, .record, .cancel none, .initializeRetry].foldl XOp.apply XSt.new) := counters_invariant _
example : ([XOp.initializeRetry, .copyForHedge, .record].foldl XOp.apply XSt.new).attempts = 3 := by decide

end counters

section hedgeTrace
open Failsafe.Conc Failsafe.Conc.Hedge Failsafe.Conc.TraceHedge

/-- the configured number of attempts never changes -/
theorem core_n (n : Nat) (t : TS) (h : Trace.Reach (osys n) t) : t.core.n = n := by
  induction h with
  | init => simp [osys, Hedge.init]
  | step t t' a _ _ hst ih =>
    rcases Failsafe.Props.C09.step_core t t' a hst with h1 | ⟨x, h1⟩
    · rw [h1]; exact ih
    · cases x with
      | launch =>
        simp only [Hedge.step] at h1; split at h1
        · simp only [Option.some.injEq] at h1; rw [← h1]; exact ih
        · cases h1
      | timer =>
        simp only [Hedge.step] at h1; split at h1
        · simp only [Option.some.injEq] at h1; rw [← h1]; exact ih
        · cases h1
      | recv =>
        simp only [Hedge.step] at h1; split at h1
        · split at h1
          · simp only [Option.some.injEq] at h1; rw [← h1]; exact ih
          · cases h1
        · cases h1
      | count k c =>
        simp only [Hedge.step] at h1; split at h1
        · simp only [Option.some.injEq] at h1; rw [← h1]; exact ih
        · cases h1
      | trySend k c f =>
        simp only [Hedge.step] at h1; split at h1
        · split at h1 <;> (simp only [Option.some.injEq] at h1; rw [← h1]; exact ih)
        · cases h1

/-- one step of the traced hedge system moves the started-attempt counter only when it starts an attempt -/
theorem launched_step (t t' : TS) (x : TraceHedge.Act) (h : TraceHedge.step t x = some t') :
    t'.core.launched = t.core.launched + (if x = .launchFirst ∨ x = .launchHedge then 1 else 0) := by
  cases x with
  | launchFirst =>
    simp only [TraceHedge.step] at h
    split at h
    · simp only [Hedge.step] at h
      split at h
      · simp only [Option.map_some, Option.some.injEq] at h; subst h; simp
      · simp at h
    · cases h
  | launchHedge =>
    simp only [TraceHedge.step] at h
    split at h
    · simp only [Hedge.step] at h
      split at h
      · simp only [Option.map_some, Option.some.injEq] at h; subst h; simp
      · simp at h
    · cases h
  | timer =>
    simp only [TraceHedge.step, Hedge.step] at h
    split at h
    · simp only [Option.map_some, Option.some.injEq] at h; subst h; simp
    · simp at h
  | recv =>
    simp only [TraceHedge.step, Hedge.step] at h
    split at h
    · split at h
      · simp only [Option.map_some, Option.some.injEq] at h; subst h; simp
      · simp at h
    · simp at h
  | count k c =>
    simp only [TraceHedge.step] at h
    split at h
    · simp only [Hedge.step] at h
      split at h
      · simp only [Option.map_some, Option.some.injEq] at h; subst h; simp
      · simp at h
    · cases h
  | trySend k c f =>
    simp only [TraceHedge.step, Hedge.step] at h
    split at h
    · split at h <;> (simp only [Option.map_some, Option.some.injEq] at h; subst h; simp)
    · simp at h
  | fnRet k c =>
    simp only [TraceHedge.step] at h; split at h
    · simp only [Option.some.injEq] at h; subst h; simp
    · cases h
  | enter k =>
    simp only [TraceHedge.step] at h; split at h
    · simp only [Option.some.injEq] at h; subst h; simp
    · cases h
  | callerRet k =>
    simp only [TraceHedge.step] at h; split at h
    · simp only [Option.some.injEq] at h; subst h; simp
    · cases h
  | seeCancelled k =>
    simp only [TraceHedge.step] at h; split at h
    · simp only [Option.some.injEq] at h; subst h; simp
    · cases h
  | settled =>
    simp only [TraceHedge.step] at h; split at h
    · simp only [Option.some.injEq] at h; subst h; simp
    · cases h

/-- along any run of the traced hedge system the started-attempt counter grows by exactly the number of `OnHedge` events shown,
plus one for the (unannounced) first attempt if the run starts it -/
theorem launched_counts_hedge_events (n : Nat) (a b : TS) (tr : List Ev) (h : Trace.Run (osys n) a tr b) :
    b.core.launched = a.core.launched + tr.count Ev.hedge + (if a.core.launched = 0 ∧ 0 < b.core.launched then 1 else 0) := by
  induction h with
  | nil s => by_cases h0 : s.core.launched = 0 <;> simp [h0]
  | silent s s' s'' x tr hm hs hst _ ih =>
    have hl := launched_step s s' x hst
    cases x with
    | launchFirst =>
      have h0 : s.core.launched = 0 := by
        simp only [osys, TraceHedge.step] at hst; split at hst
        · assumption
        · cases hst
      simp only [true_or, ↓reduceIte] at hl
      rw [ih, hl, h0]
      simp
      split <;> omega
    | launchHedge => simp [osys, silent] at hs
    | fnRet k c => simp [osys, silent] at hs
    | enter k => simp [osys, silent] at hs
    | callerRet k => simp [osys, silent] at hs
    | seeCancelled k => simp [osys, silent] at hs
    | settled => simp [osys, silent] at hs
    | timer => simp at hl; rw [hl] at ih; exact ih
    | recv => simp at hl; rw [hl] at ih; exact ih
    | count k c => simp at hl; rw [hl] at ih; exact ih
    | trySend k c f => simp at hl; rw [hl] at ih; exact ih
  | vis s s' s'' x e tr hm hs hsh hst _ ih =>
    have hl := launched_step s s' x hst
    cases x with
    | launchHedge =>
      have h0 : 0 < s.core.launched := by
        simp only [osys, TraceHedge.step] at hst; split at hst
        · assumption
        · cases hst
      have he : e = Ev.hedge := by cases e <;> simp [osys, shows] at hsh; rfl
      simp only [or_true, ↓reduceIte] at hl
      subst he
      rw [hl] at ih
      have h1 : ¬ (s.core.launched + 1 = 0 ∧ 0 < s''.core.launched) := by omega
      have h2 : ¬ (s.core.launched = 0 ∧ 0 < s''.core.launched) := by omega
      simp only [h1, ↓reduceIte] at ih
      rw [List.count_cons_self]
      simp only [h2, ↓reduceIte]; omega
    | launchFirst => simp [osys, silent] at hs
    | timer => simp [osys, silent] at hs
    | recv => simp [osys, silent] at hs
    | count k c => simp [osys, silent] at hs
    | trySend k c f => simp [osys, silent] at hs
    | fnRet k c =>
      have he : e ≠ Ev.hedge := by intro he; subst he; simp [osys, shows] at hsh
      simp at hl; rw [hl] at ih; rw [List.count_cons_of_ne he]; exact ih
    | enter k =>
      have he : e ≠ Ev.hedge := by intro he; subst he; simp [osys, shows] at hsh
      simp at hl; rw [hl] at ih; rw [List.count_cons_of_ne he]; exact ih
    | callerRet k =>
      have he : e ≠ Ev.hedge := by intro he; subst he; simp [osys, shows] at hsh
      simp at hl; rw [hl] at ih; rw [List.count_cons_of_ne he]; exact ih
    | seeCancelled k =>
      have he : e ≠ Ev.hedge := by intro he; subst he; simp [osys, shows] at hsh
      simp at hl; rw [hl] at ih; rw [List.count_cons_of_ne he]; exact ih
    | settled =>
      have he : e ≠ Ev.hedge := by intro he; subst he; simp [osys, shows] at hsh
      simp at hl; rw [hl] at ih; rw [List.count_cons_of_ne he]; exact ih

/-- **on traces**: in every trace the model can show — hence in every recorded hedged run the acceptor accepts — the number of attempts
whose function was entered, read after the call has settled, is one more than the number of `OnHedge` calls made before that reading:
each hedge is counted once, the first attempt is not a hedge, and no attempt starts uncounted -/
theorem settled_attempts_eq_hedge_events (n : Nat) (t1 t2 : List Ev) (m : Nat) (c : TS)
    (h : Trace.Run (osys n) (osys n).init (t1 ++ Ev.settled m :: t2) c) : m = t1.count Ev.hedge + 1 := by
  obtain ⟨b, hb1, hb2⟩ := Trace.Run.split_append t1 (Ev.settled m :: t2) h
  obtain ⟨b2, hb3, _⟩ := Trace.Run.split_cons hb2
  obtain ⟨s, s', x, htau, hx, hsil, hsh, hst, _⟩ := Trace.Run.single_vis hb3
  have hrun : Trace.Run (osys n) (osys n).init t1 s := by
    have := Trace.Run.append hb1 (Trace.Run.of_tau htau (Trace.Run.nil s))
    simpa using this
  have hinv : Inv s.core := reach_inv n s (Trace.Run.reach hrun Trace.Reach.init)
  have hcnt := launched_counts_hedge_events n _ _ _ hrun
  cases x with
  | settled =>
    have hm : s.core.launched = m := by
      have h0 : shows s .settled (.settled m) = true := hsh
      simpa [shows] using h0
    have hret : s.core.returned = true := by
      simp only [osys, TraceHedge.step] at hst; split at hst
      · assumption
      · cases hst
    -- something was accepted, so some attempt finished, so at least one was started
    have hpos : 0 < s.core.launched := by
      have hacc := hinv.retAcc hret
      obtain ⟨x, hx⟩ := Option.isSome_iff_exists.mp hacc
      have hfin := (hinv.produced x (Or.inr hx)).1
      have hlt : x.1 < s.core.launched := by
        apply Nat.lt_of_not_le; intro hge
        have hidle : s.core.ths[x.1]? = some .idle := by
          have hlen : x.1 < s.core.n := by
            have := hinv.len
            have hsome : x.1 < s.core.ths.length := by
              apply Nat.lt_of_not_le; intro hh; rw [List.getElem?_eq_none hh] at hfin; cases hfin
            omega
          exact hinv.prefixStarted x.1 (by omega) hlen
        rw [hidle] at hfin; cases hfin
      omega
    have h0 : (osys n).init.core.launched = 0 := by simp [osys, Hedge.init]
    rw [h0] at hcnt
    simp only [hpos, and_self, ↓reduceIte, Nat.zero_add] at hcnt
    omega
  | launchFirst => simp [osys, shows] at hsh
  | launchHedge => simp [osys, shows] at hsh
  | timer => simp [osys, shows] at hsh
  | recv => simp [osys, shows] at hsh
  | fnRet k' c' => simp [osys, shows] at hsh
  | count k' c' => simp [osys, shows] at hsh
  | trySend k' c' f' => simp [osys, shows] at hsh
  | enter k' => simp [osys, shows] at hsh
  | seeCancelled k' => simp [osys, shows] at hsh
  | callerRet k' => simp [osys, shows] at hsh

/-- **on traces**: no trace the model can show has more `OnHedge` events than `maxHedges` (`n` attempts in all, the first is not a hedge) -/
theorem hedge_events_le_maxHedges (n : Nat) (tr : List Ev) (c : TS) (h : Trace.Run (osys n) (osys n).init tr c) :
    tr.count Ev.hedge ≤ n - 1 := by
  have hcnt := launched_counts_hedge_events n _ _ _ h
  have hle := (reach_inv n c (Trace.Run.reach h Trace.Reach.init)).launchedLe
  have h0 : (osys n).init.core.launched = 0 := by simp [osys, Hedge.init]
  have hn : c.core.n = n := by
    have := Trace.Run.reach h Trace.Reach.init
    exact core_n n c this
  rw [h0] at hcnt
  by_cases hp : 0 < c.core.launched
  · simp only [hp, and_self, ↓reduceIte, Nat.zero_add] at hcnt; omega
  · simp only [hp, and_false, ↓reduceIte, Nat.zero_add, Nat.add_zero] at hcnt; omega

/-- non-vacuity, decided by running the acceptor (maxHedges = 1): one hedge, two attempts — accepted; one hedge and a reading of one
or three attempts — rejected -/
example : (Trace.accepts (osys 2) 30 [.enter 0, .hedge, .enter 1, .finish 1 true, .callerRet 1, .finish 0 false, .settled 2]).map (·.isEmpty) = some false := by decide
example : (Trace.accepts (osys 2) 30 [.enter 0, .hedge, .enter 1, .finish 1 true, .callerRet 1, .settled 1]).map (·.isEmpty) = some true := by decide
example : (Trace.accepts (osys 2) 30 [.enter 0, .hedge, .enter 1, .finish 1 true, .callerRet 1, .settled 3]).map (·.isEmpty) = some true := by decide
example : (Trace.accepts (osys 2) 30 [.enter 0, .finish 0 true, .callerRet 0, .settled 1]).map (·.isEmpty) = some false := by decide

end hedgeTrace

end Failsafe.Props.C17
