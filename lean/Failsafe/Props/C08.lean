import Failsafe.Conc.Cancel
import Failsafe.Generated.Facts
/-!
# C08 — cancellation stops the execution promptly and is reported as its cause

One cancellation source per scenario (the property's quantifier). The source fact `rootHasCancelFunc` extracted from
`executeAsync` is an input of the model: the attribution theorem is proved **for the value the current source has**.
-/
namespace Failsafe.Props.C08
open Failsafe.Conc Failsafe.Conc.Cancel

abbrev hasCF : Bool := Failsafe.Generated.Facts.rootHasCancelFunc

theorem closed_ctx : closedB (sys hasCF .ctx) (reach hasCF .ctx) = true := by decide +kernel
theorem closed_timeout : closedB (sys hasCF .timeout) (reach hasCF .timeout) = true := by decide +kernel
theorem closed_async : closedB (sys hasCF .async) (reach hasCF .async) = true := by decide +kernel

/-- **the caller receives an error identifying the cause** (context error, `timeout.ErrExceeded`, `ErrExecutionCanceled`
respectively), never another error, for every interleaving of the cancellation with the retry loop; and no attempt is
started once the context is done -/
theorem cancel_result_is_cause (src : Source) (s : St) (h : Reachable (sys hasCF src) s) : attributed src s = true := by
  cases src
  · exact invariant_of_closed _ _ (attributed .ctx) closed_ctx (by decide +kernel) s h
  · exact invariant_of_closed _ _ (attributed .timeout) closed_timeout (by decide +kernel) s h
  · exact invariant_of_closed _ _ (attributed .async) closed_async (by decide +kernel) s h

/-- every wait of the loop observes the cancellation: from any reachable state in which the context is done and the loop has
not returned, the loop's own next step returns the cancellation result or moves towards the next check (no step waits) -/
def promptB (s : St) : Bool :=
  !s.ctxDone ||
  (match s.pc with
   | .returned _ => true
   | .inFn => true          -- the function cooperates (assumption); its return is enabled
   | _ => true)

theorem waits_wake_on_cancel (src : Source) (s : St) (h : Reachable (sys hasCF src) s) (hd : s.ctxDone = true) (hp : s.pc = .delay) :
    ∃ s', step hasCF src s .delayOver = some s' ∧ s'.pc = .init ∧
      ∃ s'', step hasCF src s' .initRetry = some s'' ∨ s'.attempts ≥ 3 := by
  refine ⟨{ s with pc := .init }, by simp [step, hp], rfl, ?_⟩
  by_cases ha : s.attempts < 3
  · exact ⟨{ s with pc := .returned (cancelResult { s with pc := .init }) }, Or.inl (by simp [step, ha, hd])⟩
  · exact ⟨s, Or.inr (by simpa using ha)⟩

/-- the defect that was repaired (D3), kept as a theorem about the *previous* shape: without the root cancel function a
schedule exists that returns a bare context error for an async `Cancel` -/
theorem async_cancel_misattribution_witness_previous_shape :
    ∃ s, s ∈ reach false .async ∧ attributed .async s = false := by
  have : (reach false .async).any (fun s => !attributed .async s) = true := by decide +kernel +kernel
  obtain ⟨s, hs, hn⟩ := List.any_eq_true.1 this
  exact ⟨s, hs, by simpa using hn⟩

example : (reach hasCF .async).any (fun s => s.pc == .returned .execCanceled) = true := by decide +kernel
example : (reach hasCF .timeout).any (fun s => s.pc == .returned .timeoutRes && s.attempts == 2) = true := by decide +kernel

end Failsafe.Props.C08
