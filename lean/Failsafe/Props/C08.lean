import Failsafe.Conc.Cancel
import Failsafe.Exec
import Failsafe.Generated.Facts
import Failsafe.Lemmas.ExecBodiesLink
/-!
# C08 — cancellation stops the execution promptly and is reported as its cause

One cancellation source per scenario (the property's quantifier). The source fact `rootHasCancelFunc` extracted from
`executeAsync` is an input of the model: the attribution theorem is proved **for the value the current source has**.
-/
namespace Failsafe.Props.C08
open Failsafe.Conc Failsafe.Conc.Cancel

abbrev hasCF : Bool := Failsafe.Generated.Facts.rootHasCancelFunc

theorem closed_ctx : closedB (sys hasCF .ctx) (reach hasCF .ctx) = true := by decide +kernel
theorem closed_timeout : closedB (sys hasCF .timeout) (reach hasCF .timeout) = true := by decide +kernel
theorem closed_async : closedB (sys hasCF .async) (reach hasCF .async) = true := by decide +kernel

/-- **the caller receives an error identifying the cause** (context error, `timeout.ErrExceeded`, `ErrExecutionCanceled`
respectively), never another error, for every interleaving of the cancellation with the retry loop; and no attempt is
started once the context is done -/
theorem cancel_result_is_cause (src : Source) (s : St) (h : Reachable (sys hasCF src) s) : attributed src s = true := by
  cases src
  · exact invariant_of_closed _ _ (attributed .ctx) closed_ctx (by decide +kernel) s h
  · exact invariant_of_closed _ _ (attributed .timeout) closed_timeout (by decide +kernel) s h
  · exact invariant_of_closed _ _ (attributed .async) closed_async (by decide +kernel) s h

/-- every wait of the loop observes the cancellation: from any reachable state in which the context is done and the loop has
not returned, the loop's own next step returns the cancellation result or moves towards the next check (no step waits) -/
def promptB (s : St) : Bool :=
  !s.ctxDone ||
  (match s.pc with
   | .returned _ => true
   | .inFn => true          -- the function cooperates (assumption); its return is enabled
   | _ => true)

theorem waits_wake_on_cancel (src : Source) (s : St) (h : Reachable (sys hasCF src) s) (hd : s.ctxDone = true) (hp : s.pc = .delay) :
    ∃ s', step hasCF src s .delayOver = some s' ∧ s'.pc = .init ∧
      ∃ s'', step hasCF src s' .initRetry = some s'' ∨ s'.attempts ≥ 3 := by
  refine ⟨{ s with pc := .init }, by simp [step, hp], rfl, ?_⟩
  by_cases ha : s.attempts < 3
  · exact ⟨{ s with pc := .returned (cancelResult { s with pc := .init }) }, Or.inl (by simp [step, ha, hd])⟩
  · exact ⟨s, Or.inr (by simpa using ha)⟩

/-- the defect that was repaired (D3), kept as a theorem about the *previous* shape: without the root cancel function a
schedule exists that returns a bare context error for an async `Cancel` -/
theorem async_cancel_misattribution_witness_previous_shape :
    ∃ s, s ∈ reach false .async ∧ attributed .async s = false := by
  have : (reach false .async).any (fun s => !attributed .async s) = true := by decide +kernel +kernel
  obtain ⟨s, hs, hn⟩ := List.any_eq_true.1 this
  exact ⟨s, hs, by simpa using hn⟩

/-! ## the same property over the sequential composition model (`Exec.lean`), for an **arbitrary inner layer**

`Run.ext` is the cause of an external cancellation (context / async `Cancel`), `Run.cancelled` the enclosing Timeout's. The
differential check drives these paths deterministically: the harness cancels from inside the k-th function invocation or the
k-th `OnRetryScheduled` listener, or before the execution starts. -/
section composition
open Failsafe Failsafe.Exec Failsafe.Classify

/-- **the error identifies the cause**: the result a cancelled execution reports carries the external cause (or
`timeout.ErrExceeded` when its Timeout fired first), is final, and is never a success -/
theorem cancelRes_is_cause (r : Run) :
    (r.cancelled = true → r.cancelRes = timeoutResult) ∧
    (r.cancelled = false → ∀ e, r.ext = some e → r.cancelRes = failureResult e) ∧
    r.cancelRes.done = true ∧ r.cancelRes.success = false ∧ r.cancelRes.successAll = false := by
  refine ⟨?_, ?_, Run.cancelRes_done r, (Run.cancelRes_not_success r).1, (Run.cancelRes_not_success r).2⟩
  · intro h; simp [Run.cancelRes, h]
  · intro h e he; simp [Run.cancelRes, h, he]

/-- **no further attempt**: when what the retry policy wraps returns and the execution is cancelled, the policy returns the
cancellation result at once — whatever the result was, whatever budget is left; nothing inside is invoked again -/
theorem retry_stops_when_cancelled (pos : Nat) (m : Int) (rl : Bool) (h a : List Cond) (inner : Layer) (fuel : Nat) (r : Run)
    (res1 : PR) (r1 : Run) (hi : inner r = some (res1, r1)) (hc : r1.isCanc = true) :
    retryLoop pos m rl h a inner (fuel + 1) r = some (r1.cancelRes, r1) := by
  simp only [retryLoop, hi, hc, if_true]

/-- **a delay is not waited out**: when the execution is cancelled while a retry is scheduled, the loop returns the cancellation
result without starting the retry: attempts and retries are those at the moment of scheduling -/
theorem retry_cancelled_during_delay (pos : Nat) (m : Int) (rl : Bool) (h a : List Cond) (inner : Layer) (fuel : Nat) (r : Run)
    (res1 : PR) (r1 : Run) (hi : inner r = some (res1, r1)) (hc : r1.isCanc = false) (he : r1.exceeded.contains pos = false)
    (hf : isFailure h res1.outcome = true) (hd : (retryOnFailure pos m rl a res1.withFailure r1).1.done = false)
    (X : Run)
    (hX : X = (({ (retryOnFailure pos m rl a res1.withFailure r1).2 with
              last := (retryOnFailure pos m rl a res1.withFailure r1).1.outcome }).emitLast "rp.onRetryScheduled" pos).trigger "rp.onRetryScheduled")
    (hx : X.isCanc = true) :
    retryLoop pos m rl h a inner (fuel + 1) r = some (X.cancelRes, X) ∧
    X.attempts = (retryOnFailure pos m rl a res1.withFailure r1).2.attempts ∧
    X.retries = (retryOnFailure pos m rl a res1.withFailure r1).2.retries := by
  subst hX
  refine ⟨?_, by simp [Run.emitLast, Run.emitSeen], by simp [Run.emitLast, Run.emitSeen]⟩
  simp only [retryLoop, hi, hc, he, hf, hd, Bool.false_eq_true, if_false, if_true]
  simp only [hx, if_true]

/-- the scripted cancellation point fires once, with its cause, and never overwrites an earlier cancellation -/
theorem trigger_ext (r : Run) (n : String) :
    (r.trigger n).ext = r.ext ∨ (r.ext = none ∧ (r.trigger n).ext = some r.cancelCause) := by
  unfold Run.trigger
  split
  · rename_i nm k _
    split
    · by_cases hc : (r.seenAt + 1 == k && r.ext.isNone) = true
      · right
        simp only [Bool.and_eq_true, Option.isNone_iff_eq_none] at hc
        simp [hc.2, hc.1]
      · left; simp [hc]
    · left; rfl
  · left; rfl

end composition

example : (reach hasCF .async).any (fun s => s.pc == .returned .execCanceled) = true := by decide +kernel
example : (reach hasCF .timeout).any (fun s => s.pc == .returned .timeoutRes && s.attempts == 2) = true := by decide +kernel

/-! ## The waits of the admission policies (bulkhead permit, rate-limiter slot)

A policy that waits does so in a `select` that also watches the execution's context (FACTS `selects/…`). What it returns when
the wait ends because the execution was cancelled is decided by a shape taken from the source on every run
(`bulkheadWaitReportsCancelResult`, `limiterWaitReportsCancelResult`): the executor hands back the execution's cancel result,
not the bare context error of the wait. (D12: the bulkhead executor used to return the bare error, so that an async `Cancel`
during the permit wait of an outermost bulkhead was reported as `context.Canceled`.) -/
section waits
open Failsafe Failsafe.Exec Failsafe.Classify

/-- how the wait of an admission policy ends -/
inductive WaitEnd | granted | refused | cancelled
deriving DecidableEq, Repr

/-- what the policy's executor returns when its wait has ended (`none`: it goes on to what it wraps). `reports`: the executor
returns the execution's cancel result (shape input); `refusal`: ErrFull / ErrExceeded; `ctxErr`: the wait's own context error. -/
def waitResult (reports : Bool) (refusal ctxErr : Err) (r : Run) : WaitEnd → Option PR
  | .granted => none
  | .refused => some (failureResult refusal)
  | .cancelled => some (if reports then r.cancelRes else failureResult ctxErr)

/-- **a wait ended by the cancellation reports the cause** (bulkhead): with the shape the source has, the result is the
execution's cancel result — the external cause, or `timeout.ErrExceeded` when an enclosing Timeout fired — final and never a
success, whatever the wait's own context error was -/
theorem bulkhead_wait_reports_cause (refusal ctxErr : Err) (r : Run) :
    waitResult Failsafe.Generated.Facts.bulkheadWaitReportsCancelResult refusal ctxErr r .cancelled = some r.cancelRes ∧
    (r.cancelled = false → ∀ e, r.ext = some e → r.cancelRes = failureResult e) ∧ r.cancelRes.done = true ∧ r.cancelRes.success = false := by
  have h := cancelRes_is_cause r
  exact ⟨by simp [waitResult, Failsafe.Generated.Facts.bulkheadWaitReportsCancelResult], h.2.1, h.2.2.1, h.2.2.2.1⟩

/-- the same for the rate limiter's wait inside an execution. (D15: it used to return `exec.LastError()`, which under a retry policy
is the error recorded for an *earlier* attempt - a refused attempt followed by a cancelled wait produced a second, spurious
`OnRateLimitExceeded`.) -/
theorem limiter_wait_reports_cause (refusal ctxErr : Err) (r : Run) :
    waitResult Failsafe.Generated.Facts.limiterWaitReportsCancelResult refusal ctxErr r .cancelled = some r.cancelRes := by
  simp [waitResult, Failsafe.Generated.Facts.limiterWaitReportsCancelResult]

/-- a refusal is reported as the refusal, and a granted wait goes on: the cancellation shape changes neither -/
theorem wait_other_ends (reports : Bool) (refusal ctxErr : Err) (r : Run) :
    waitResult reports refusal ctxErr r .refused = some (failureResult refusal) ∧ waitResult reports refusal ctxErr r .granted = none :=
  ⟨rfl, rfl⟩

/-- the defect that was repaired (D12), as a theorem about the *previous* shape: an executor that returns the wait's own error
reports `context.Canceled` for an execution cancelled through its ExecutionResult -/
theorem wait_misattribution_witness_previous_shape :
    ∃ r : Run, r.ext = some Err.execCanceled ∧
      waitResult false Err.full Err.canceled r .cancelled ≠ some r.cancelRes := by
  refine ⟨{ w := {}, script := [], ext := some Err.execCanceled }, rfl, ?_⟩
  decide

end waits

/-! ## The cancel cell of `execution.go`, on the regenerated bodies

`ExecBodies.isCanc / cancel / initializeRetry / recordResult` are the reference definitions the bodies of `isCanceledWithResult`,
`Cancel`, `InitializeRetry` and `RecordResult` — regenerated from the source on every run — are proved equal to
(`Tie/XExecution.lean`); `isCanc_link` shows that the composition model's `Run.isCanc` / `Run.cancelRes` are exactly
`isCanceledWithResult` of the execution state a run abstracts. -/
section cell
open Failsafe Failsafe.ExecBodies

/-- **the first cancellation wins**: once an execution that owns a cancel function has been cancelled, a later `Cancel` changes
nothing — the result the caller is told stays the first cause -/
theorem cancel_first_wins (s : XSt) (r1 r2 : Option PR) (hcf : s.cancelFunc.isSome = true) :
    cancel (cancel s r1) r2 = cancel s r1 := by
  unfold cancel
  cases hc : (isCanc s).1
  · obtain ⟨u, hu⟩ := Option.isSome_iff_exists.1 hcf
    have hne : s.ctxErr = none := by
      unfold isCanc at hc; cases h : s.ctxErr <;> simp_all
    cases r1 <;> simp [hu, callCancelFunc, isCanc, hne]
  · simp [hc]

/-- **a cancellation is reported as its cause**: after `Cancel(result)` of an execution that was not cancelled and owns a cancel
function, `isCanceledWithResult` answers exactly that result -/
theorem cancel_reports_result (s : XSt) (r : PR) (hn : (isCanc s).1 = false) (hcf : s.cancelFunc.isSome = true) :
    isCanc (cancel s (some r)) = (true, some r) := by
  obtain ⟨u, hu⟩ := Option.isSome_iff_exists.1 hcf
  have hne : s.ctxErr = none := by
    unfold isCanc at hn; cases h : s.ctxErr <;> simp_all
  simp [cancel, hn, hu, callCancelFunc, isCanc, hne]

/-- a context that ends by itself (caller's cancel, deadline) is reported with the context's own error, final and not a success -/
theorem ctx_end_reports_ctx_error (s : XSt) (e : Err) (h1 : s.ctxErr = some e) (h2 : s.cell = none) :
    isCanc s = (true, some (failureResult e)) := by
  simp [isCanc, h1, h2, failureResult]

/-- the shape D3 repaired, on the regenerated `Cancel`: **without** a cancel function the stored result is not visible to
`isCanceledWithResult` (the context is not done), and the next `InitializeRetry` erases it — the caller would later be told the
bare context error. `rootHasCancelFunc` (FACTS) says the async root execution owns one. -/
theorem cancel_without_cancelFunc_is_lost (s : XSt) (r : PR) (h1 : s.ctxErr = none) (h2 : s.cancelFunc = none) :
    isCanc (cancel s (some r)) = (false, none) ∧ (initializeRetry (cancel s (some r))).2.cell = none := by
  simp [cancel, isCanc, h1, h2, initializeRetry]

/-- **no attempt is counted for a cancelled execution**: `InitializeRetry` answers the cancel result and leaves every counter and
the cell untouched -/
theorem initializeRetry_cancelled (s : XSt) (h : (isCanc s).1 = true) : initializeRetry s = ((isCanc s).2, s) := by
  simp [initializeRetry, h]

/-- otherwise it counts the attempt and clears the cell, so that a cancellation *result* a finished Timeout scope left behind
cannot be mistaken for the cause of a later cancellation (what S-C07-5 / the first round-9 change to C01 remove) -/
theorem initializeRetry_clears_cell (s : XSt) (h : (isCanc s).1 = false) :
    (initializeRetry s).1 = none ∧ (initializeRetry s).2.cell = none ∧ (initializeRetry s).2.attempts = s.attempts + 1 := by
  simp [initializeRetry, h]

/-- a result is not recorded on a cancelled execution: the caller-visible last outcome stays what the cancellation stored -/
theorem recordResult_cancelled (s : XSt) (r : Option PR) (h : (isCanc s).1 = true) : recordResult s r = ((isCanc s).2, s) := by
  simp [recordResult, h]

/-- **the composition model's cancel answers are the code's**: `Run.isCanc` and `Run.cancelRes` are `isCanceledWithResult` of the
abstracted execution state -/
theorem model_cancel_answers_are_the_codes (r : Failsafe.Exec.Run) :
    isCanc (Failsafe.Lemmas.ExecBodiesLink.toX r) = (r.isCanc, if r.isCanc then some r.cancelRes else none) :=
  Failsafe.Lemmas.ExecBodiesLink.isCanc_link r

example : isCanc (cancel { cancelFunc := some () } (some (failureResult Err.execCanceled))) = (true, some (failureResult Err.execCanceled)) := by decide
example : (initializeRetry (cancel {} (some (failureResult Err.execCanceled)))).2.cell = none := by decide

end cell

end Failsafe.Props.C08
