import Failsafe.Exec
import Failsafe.Lemmas.ExecBodiesLink
/-!
# C10 — a fallback replaces exactly the failures it handles, once

Every theorem quantifies over an **arbitrary inner layer** (any composition of policies, any outcome it can return:
plain results, handled and unhandled errors, `ExceededError`, `ErrOpen`, `ErrFull`, rate-limit and timeout errors) and an
arbitrary run state. `pos` is the fallback's position in the stack, `fuel` is irrelevant for this policy.
-/
namespace Failsafe.Props.C10
open Failsafe Failsafe.Exec Failsafe.Classify

/-- what the fallback produces: its configured result or error -/
def fbOutcome : FbKind → Outcome
  | .value v => ⟨v, none⟩
  | .error e => ⟨0, some e⟩

/-- number of `fb.onFallbackExecuted` events of the fallback at `pos` in a log -/
def applications (pos : Nat) (log : List Event) : Nat :=
  (log.filter (fun e => e.name == "fb.onFallbackExecuted" && e.pos == pos)).length

/-- **applied iff handled failure and not cancelled; applied exactly once; its output replaces the result and is classified
by the same conditions; otherwise the inner result passes through** — the complete behaviour of the layer in one statement -/
theorem fallback_spec (fuel pos : Nat) (k : FbKind) (h : List Cond) (inner : Layer) (r : Run) :
    applyPolicy fuel pos (.fallback k h) inner r =
      match inner r with
      | none => none
      | some (res, r1) =>
        if isFailure h res.outcome then
          if r1.isCanc then some (r1.cancelRes, r1.emitSeen "fb.onFailure" pos (r1.seenBy res.outcome))
          else
            let ok := !isFailure h (fbOutcome k)
            some (⟨(fbOutcome k).val, (fbOutcome k).err, true, ok, ok⟩,
                  ((r1.emitSeen "fb.onFailure" pos (r1.seenBy res.outcome)).emitSeen "fb.fn" pos res.outcome).emit "fb.onFallbackExecuted" pos)
        else some (res.withDone true true, r1.emitSeen "fb.onSuccess" pos (r1.seenBy res.outcome)) := by
  simp only [applyPolicy]
  cases hi : inner r with
  | none => rfl
  | some x =>
    obtain ⟨res, r1⟩ := x
    simp only
    by_cases hf : isFailure h res.outcome = true
    · simp only [hf, if_true]
      have hc : (r1.emitSeen "fb.onFailure" pos (r1.seenBy res.outcome)).isCanc = r1.isCanc := rfl
      have hc2 : (r1.emitSeen "fb.onFailure" pos (r1.seenBy res.outcome)).cancelRes = r1.cancelRes := rfl
      rw [hc, hc2]
      by_cases hcan : r1.isCanc = true
      · simp [hcan]
      · simp only [hcan]
        cases k <;> simp [fbOutcome]
    · simp [hf]

/-- applied **iff** the inner outcome is a failure by the fallback's own conditions and the execution is not cancelled -/
theorem fallback_applied_iff (fuel pos : Nat) (k : FbKind) (h : List Cond) (inner : Layer) (r : Run)
    (res : PR) (r1 : Run) (hi : inner r = some (res, r1)) (res' : PR) (r' : Run)
    (ho : applyPolicy fuel pos (.fallback k h) inner r = some (res', r')) :
    (applications pos r'.log = applications pos r1.log + 1 ↔ (isFailure h res.outcome = true ∧ r1.isCanc = false)) ∧
    (¬ (isFailure h res.outcome = true ∧ r1.isCanc = false) → applications pos r'.log = applications pos r1.log) := by
  rw [fallback_spec, hi] at ho
  simp only at ho
  by_cases hf : isFailure h res.outcome = true
  · by_cases hcan : r1.isCanc = true
    · simp only [hf, hcan, if_true, Option.some.injEq, Prod.mk.injEq] at ho
      obtain ⟨_, rfl⟩ := ho
      simp [applications, Run.emit, Run.emitSeen, List.filter_append, hf, hcan]
    · simp only [hf, hcan, if_true, Option.some.injEq, Prod.mk.injEq] at ho
      obtain ⟨_, rfl⟩ := ho
      have hcan' : r1.isCanc = false := by simpa using hcan
      simp [applications, Run.emit, Run.emitSeen, List.filter_append, hf, hcan']
  · simp only [hf, Option.some.injEq, Prod.mk.injEq] at ho
    obtain ⟨_, rfl⟩ := ho
    simp [applications, Run.emit, Run.emitSeen, List.filter_append, hf]

/-- the fallback's output replaces the result and is itself classified by the same conditions; the overall verdict is reset
to that classification -/
theorem fallback_output_reclassified (fuel pos : Nat) (k : FbKind) (h : List Cond) (inner : Layer) (r : Run)
    (res : PR) (r1 : Run) (hi : inner r = some (res, r1)) (hf : isFailure h res.outcome = true) (hc : r1.isCanc = false) :
    ∃ r', applyPolicy fuel pos (.fallback k h) inner r =
      some (⟨(fbOutcome k).val, (fbOutcome k).err, true, !isFailure h (fbOutcome k), !isFailure h (fbOutcome k)⟩, r') := by
  rw [fallback_spec, hi]
  simp [hf, hc]

/-- results the fallback does not handle pass through unchanged (value, error; verdict = the inner layers' verdict) -/
theorem unhandled_passthrough (fuel pos : Nat) (k : FbKind) (h : List Cond) (inner : Layer) (r : Run)
    (res : PR) (r1 : Run) (hi : inner r = some (res, r1)) (hf : isFailure h res.outcome = false) :
    ∃ r', applyPolicy fuel pos (.fallback k h) inner r = some (res.withDone true true, r') ∧
      (res.withDone true true).val = res.val ∧ (res.withDone true true).err = res.err ∧
      (res.withDone true true).successAll = res.successAll := by
  rw [fallback_spec, hi]
  simp [hf, PR.withDone]

/-- under cancellation the fallback's output is never produced: the cancellation result is returned -/
theorem no_fallback_output_under_cancel (fuel pos : Nat) (k : FbKind) (h : List Cond) (inner : Layer) (r : Run)
    (res : PR) (r1 : Run) (hi : inner r = some (res, r1)) (hf : isFailure h res.outcome = true) (hc : r1.isCanc = true) :
    ∃ r', applyPolicy fuel pos (.fallback k h) inner r = some (r1.cancelRes, r') ∧ applications pos r'.log = applications pos r1.log := by
  rw [fallback_spec, hi]
  simp [hf, hc, applications, Run.emit, Run.emitSeen, List.filter_append]

/-- **the fallback function sees the failed result and error as the execution's last result**: the event of the fallback
function carries exactly the inner layer's outcome (including `ExceededError`, `ErrOpen`, `ErrFull`, rate-limit and timeout errors) -/
theorem fallback_sees_failed_outcome (fuel pos : Nat) (k : FbKind) (h : List Cond) (inner : Layer) (r : Run)
    (res : PR) (r1 : Run) (hi : inner r = some (res, r1)) (hf : isFailure h res.outcome = true) (hc : r1.isCanc = false)
    (res' : PR) (r' : Run) (ho : applyPolicy fuel pos (.fallback k h) inner r = some (res', r')) :
    (⟨"fb.fn", pos, r1.attempts, r1.execs, some res.outcome⟩ : Event) ∈ r'.log := by
  rw [fallback_spec, hi] at ho
  simp only [hf, hc, if_true, Bool.false_eq_true, if_false, Option.some.injEq, Prod.mk.injEq] at ho
  obtain ⟨_, rfl⟩ := ho
  simp [Run.emit, Run.emitSeen]

/-- the inner layer is entered exactly once and sees the run state unchanged: the fallback adds nothing before it -/
theorem fallback_calls_inner_once (fuel pos : Nat) (k : FbKind) (h : List Cond) (inner : Layer) (r : Run)
    (hd : inner r = none) : applyPolicy fuel pos (.fallback k h) inner r = none := by
  rw [fallback_spec, hd]

/-! non-vacuity: the hypotheses of the theorems above are satisfiable — an inner layer returning `ExceededError`, a fallback
handling `ErrExceeded`; and an inner layer returning an unhandled error -/
example : isFailure [.errIs Err.RETRYEXCEEDED] (failureResult (.exceededE 0 (.leaf 1 0))).outcome = true := by decide
example : isFailure [.errIs Err.RETRYEXCEEDED] (failureResult (.leaf 1 0)).outcome = false := by decide
example : isFailure [.errIs Err.RETRYEXCEEDED] (fbOutcome (.value 7)) = false := by decide

/-! ## On the regenerated body of the fallback executor's `Apply`

`ExecBodies.fallbackApply` is the reference definition the body regenerated from the source on every run is proved equal to
(`Tie/XFallback.lean`, `Tie/XBase.lean` for `PostExecute`); `fallback_link` shows that the model's fallback layer computes it. -/
section kernel
open Failsafe.ExecBodies

/-- **the fallback function runs exactly for a failure the policy handles on an execution that is not cancelled, and once** -/
theorem kernel_fn_called_iff (inner : PR) (post : Unit → PR → PR) (canc : Bool → Bool × PR) (fo : Outcome) (ff : Bool) (oe : Option Unit) :
    let out := ExecBodies.fallbackApply {} inner post canc fo ff oe
    (out.2.log.count "fn" = if !(post () inner).success && !(canc false).1 then 1 else 0) ∧ out.2.log.count "fn" ≤ 1 := by
  simp only [ExecBodies.fallbackApply, fCallFn, fOnFallbackExecuted, FSt.emit]
  cases (post () inner).success <;> cases (canc false).1 <;> cases (canc true).1 <;> cases oe <;> simp

/-- **its output replaces the failure and is re-classified by the policy's own conditions**; a success or an unhandled outcome
passes through as `PostExecute` returned it; under cancellation the cancel result is returned and the output discarded -/
theorem kernel_result (inner : PR) (post : Unit → PR → PR) (canc : Bool → Bool × PR) (fo : Outcome) (ff : Bool) (oe : Option Unit) :
    (ExecBodies.fallbackApply {} inner post canc fo ff oe).1 =
      if (post () inner).success then post () inner
      else if (canc false).1 then (canc false).2
      else if (canc true).1 then (canc true).2
      else ⟨fo.val, fo.err, true, !ff, !ff⟩ := by
  simp only [ExecBodies.fallbackApply, fCallFn, FSt.emit]
  split
  · rfl
  · split
    · rfl
    · split <;> rfl

/-- `OnFallbackExecuted` fires exactly when the output is used -/
theorem kernel_event_iff (inner : PR) (post : Unit → PR → PR) (canc : Bool → Bool × PR) (fo : Outcome) (ff : Bool) :
    (ExecBodies.fallbackApply {} inner post canc fo ff (some ())).2.log.count "onFallbackExecuted" =
      if !(post () inner).success && !(canc false).1 && !(canc true).1 then 1 else 0 := by
  simp only [ExecBodies.fallbackApply, fCallFn, fOnFallbackExecuted, FSt.emit]
  cases (post () inner).success <;> cases (canc false).1 <;> cases (canc true).1 <;> simp

/-- **the composition model's fallback layer is the code's** -/
theorem model_fallback_layer_is_the_codes (fuel pos : Nat) (k : FbKind) (h : List Cond) (inner : Layer) (r r1 : Run) (res : PR)
    (hin : inner r = some (res, r1)) :
    let fo : Outcome := match k with | .value v => ⟨v, none⟩ | .error e => ⟨0, some e⟩
    let r2 := if isFailure h res.outcome then r1.emitSeen "fb.onFailure" pos (r1.seenBy res.outcome)
              else r1.emitSeen "fb.onSuccess" pos (r1.seenBy res.outcome)
    let kk := ExecBodies.fallbackApply {} res (Failsafe.Lemmas.ExecBodiesLink.postOf h) (fun _ => (r2.isCanc, r2.cancelRes)) fo (isFailure h fo) (some ())
    ∃ r3, applyPolicy fuel pos (.fallback k h) inner r = some (kk.1, r3) ∧
      r3.log.map (·.name) = r2.log.map (·.name) ++ kk.2.log.map (fun n => if n = "fn" then "fb.fn" else "fb." ++ n) :=
  Failsafe.Lemmas.ExecBodiesLink.fallback_link fuel pos k h inner r r1 res hin

end kernel

end Failsafe.Props.C10
