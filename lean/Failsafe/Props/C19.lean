import Failsafe.Conc.Goroutines
import Failsafe.Conc.Timeout
import Failsafe.Conc.Future
import Failsafe.Generated.Facts
import Failsafe.Props.C07
import Failsafe.Props.C15
/-!
# C19 — finished executions leave no goroutines or connections behind

Property theorems only; models in `Conc/Goroutines.lean`, `Conc/Timeout.lean`, `Conc/Future.lean`. The spawn-site set and the
shape inputs come from FACTS (`Generated/Facts.lean`), so a new `go` statement or a changed release path is a broken obligation.
-/
namespace Failsafe.Props.C19
open Failsafe Failsafe.Conc Failsafe.Conc.Goroutines

/-! ## the set of things the library starts is exactly the modelled one -/

theorem spawn_sites_are_the_modelled_ones :
    Generated.Facts.spawnSites =
      ["context.AfterFunc internal/util/util.go:.MergeContexts",
       "go executor.go:executor.executeAsync",
       "go hedgepolicy/hedgeexecutor.go:executor.Apply",
       "time.AfterFunc timeout/timeoutexecutor.go:executor.Apply",
       "time.NewTimer bulkhead/bulkhead.go:bulkhead.AcquirePermitWithMaxWait",
       "time.NewTimer hedgepolicy/hedgeexecutor.go:executor.Apply",
       "time.NewTimer ratelimiter/ratelimiter.go:rateLimiter.AcquirePermits",
       "time.NewTimer ratelimiter/ratelimiter.go:rateLimiter.acquirePermitsWithMaxWait",
       "time.NewTimer retrypolicy/retryexecutor.go:executor.Apply",
       "time.Sleep ratelimiter/ratelimiter.go:rateLimiter.AcquirePermits"] := by decide

/-! ## hedge attempt goroutines never block on their send -/

theorem count_set_G {l : List G} {i : Nat} {a b x : G} (h : l[i]? = some a) :
    (l.set i b).count x + (if a = x then 1 else 0) = l.count x + (if b = x then 1 else 0) := by
  induction l generalizing i with
  | nil => simp at h
  | cons y ys ih =>
    cases i with
    | zero => simp at h; subst h; simp [List.count_cons]; omega
    | succ j =>
      simp at h
      have := ih (i := j) h
      simp [List.count_cons] at *; omega

theorem hinv_init (cap : Nat) : HInv { cap := cap } := by simp [HInv]

theorem hinv_step (s s' : HSt) (a : HAct) (h : HInv s) (hs : hstep s a = some s') : HInv s' := by
  unfold HInv at *
  cases a <;> simp only [hstep] at hs
  case launch =>
    split at hs
    · simp only [Option.some.injEq] at hs; subst hs; simpa [List.count_append] using h
    · cases hs
  case finish k wants =>
    split at hs
    · rename_i hk
      split at hs
      · rename_i hw
        simp only [Option.some.injEq] at hs; subst hs
        have c := count_set_G (l := s.gs) (i := k) (b := G.wantSend) (x := G.wantSend) hk
        simp only [Bool.and_eq_true, Bool.not_eq_true'] at hw
        have hsent := hw.2
        cases hrc : s.received <;> simp [hrc, hsent] at h c ⊢ <;> omega
      · simp only [Option.some.injEq] at hs; subst hs
        have c := count_set_G (l := s.gs) (i := k) (b := G.done) (x := G.wantSend) hk
        cases hrc : s.received <;> cases hsc : s.sent <;> simp [hrc, hsc] at h c ⊢ <;> omega
    · cases hs
  case send k =>
    split at hs
    · rename_i hk
      have c := count_set_G (l := s.gs) (i := k) (b := G.done) (x := G.wantSend) hk
      split at hs
      · split at hs
        · simp only [Option.some.injEq] at hs; subst hs
          cases hrc : s.received <;> cases hsc : s.sent <;> simp [hrc, hsc] at h c ⊢ <;> omega
        · cases hs
      · split at hs
        · simp only [Option.some.injEq] at hs; subst hs
          cases hrc : s.received <;> cases hsc : s.sent <;> simp [hrc, hsc] at h c ⊢ <;> omega
        · cases hs
    · cases hs
  case recv =>
    split at hs
    · rename_i hc
      simp only [Option.some.injEq] at hs; subst hs
      cases hrc : s.received <;> cases hsc : s.sent <;> simp [hrc, hsc] at h ⊢ <;> omega
    · cases hs
  case leave =>
    split at hs
    · simp only [Option.some.injEq] at hs; subst hs; exact h
    · cases hs

theorem hinv_run (s : HSt) (as : List HAct) (h : HInv s) : HInv (hrun s as) := by
  induction as generalizing s with
  | nil => exact h
  | cons a as ih =>
    simp only [hrun]
    cases hs : hstep s a with
    | none => exact ih s h
    | some s' => exact ih s' (hinv_step s s' a h hs)

theorem hrun_cap (s : HSt) (as : List HAct) : (hrun s as).cap = s.cap := by
  induction as generalizing s with
  | nil => rfl
  | cons a as ih =>
    simp only [hrun]
    cases hs : hstep s a with
    | none => exact ih s
    | some s' =>
      rw [ih s']
      cases a <;> simp only [hstep] at hs <;> (repeat' (split at hs)) <;>
        first | (cases hs; done) | (simp only [Option.some.injEq] at hs; subst hs; rfl)

/-- **No hedge attempt goroutine is ever stuck**, for any number of attempts, any schedule, whether the coordinator received a
result or returned because the execution was cancelled: with a result channel of capacity ≥ 1, an attempt whose function
has returned has ended, or its send completes in one step and then it has ended. -/
theorem attempt_goroutines_finish (cap : Nat) (hcap : 1 ≤ cap) (as : List HAct) (k : Nat) :
    let s := hrun { cap := cap } as
    s.gs[k]? = some .wantSend → ∃ s', hstep s (.send k) = some s' ∧ s'.gs[k]? = some .done := by
  intro s hk
  have hinv : HInv s := hinv_run _ as (hinv_init cap)
  have hc : s.cap = cap := hrun_cap _ as
  have hcount : 1 ≤ s.gs.count .wantSend := by
    have : G.wantSend ∈ s.gs := List.mem_of_getElem? hk
    exact List.count_pos_iff.2 this
  unfold HInv at hinv
  have hlen : s.chanLen = 0 := by split at hinv <;> split at hinv <;> omega
  have hlt : k < s.gs.length := by
    rcases Nat.lt_or_ge k s.gs.length with h | h
    · exact h
    · rw [List.getElem?_eq_none h] at hk; cases hk
  refine ⟨{ s with gs := s.gs.set k .done, chanLen := s.chanLen + 1 }, ?_, ?_⟩
  · simp only [hstep, hk, ↓reduceIte]
    have h0 : ¬ s.cap = 0 := by omega
    have h1 : s.chanLen < s.cap := by omega
    simp [h0, h1]
  · simp [List.getElem?_set, hlt]

theorem hedge_chan_cap_ok : 1 ≤ Generated.Facts.hedgeChanCap := by decide

theorem stuck_step (s s' : HSt) (a : HAct) (hc : s.cap = 0) (hw : s.coordWaiting = false) (hg : s.gs[0]? = some .wantSend)
    (hs : hstep s a = some s') : s'.cap = 0 ∧ s'.coordWaiting = false ∧ s'.gs[0]? = some .wantSend := by
  cases a with
  | launch => simp [hstep, hw] at hs
  | finish k wants =>
    simp only [hstep] at hs
    split at hs
    · rename_i hk
      have hk0 : k ≠ 0 := by intro e; subst e; rw [hg] at hk; cases hk
      split at hs
      · simp only [Option.some.injEq] at hs; subst hs
        exact ⟨hc, hw, (by simp [List.getElem?_set, hk0, hg])⟩
      · simp only [Option.some.injEq] at hs; subst hs
        exact ⟨hc, hw, (by simp [List.getElem?_set, hk0, hg])⟩
    · cases hs
  | send k => simp [hstep, hc, hw] at hs
  | recv => simp [hstep, hw] at hs
  | leave => simp [hstep, hw] at hs

/-- why the capacity matters: with an unbuffered channel, an attempt that finishes after the coordinator returned on
cancellation is blocked on its send in every continuation -/
theorem unbuffered_channel_leaks (as : List HAct) :
    (hrun (hrun { cap := 0 } [.launch, .leave, .finish 0 true]) as).gs[0]? = some .wantSend := by
  have key : ∀ (as : List HAct) (s : HSt), s.cap = 0 → s.coordWaiting = false → s.gs[0]? = some .wantSend →
      (hrun s as).gs[0]? = some .wantSend := by
    intro as
    induction as with
    | nil => intro s _ _ hg; exact hg
    | cons a as ih =>
      intro s hc hw hg
      simp only [hrun]
      cases hs : hstep s a with
      | none => exact ih s hc hw hg
      | some s' =>
        obtain ⟨h1, h2, h3⟩ := stuck_step s s' a hc hw hg hs
        exact ih s' h1 h2 h3
  exact key as _ (by decide) (by decide) (by decide)

/-! ## the context merger's watcher -/

theorem wreach_closed : closedB (wsys true) (wreach true) = true := by decide

/-- with a cancel function that stops the watcher: once an attempt has released its merged context, nothing that only a
source context could end is left behind — the watcher is gone or is finishing its callback -/
theorem watcher_ends_on_release (s : WSt) (h : Reachable (wsys true) s) : watcherEnds s = true :=
  invariant_of_closed (wsys true) (wreach true) watcherEnds wreach_closed (by decide) s h

/-- the defective shape (watcher ended only by its source contexts): after release it is still registered -/
theorem watcher_leak_witness : (wstep { stopOnRelease := false } .release).map (·.w) = some .registered := by decide

theorem merge_release_stops_watcher : Generated.Facts.mergeReleaseStopsWatcher = true := by decide

/-! ## the timeout's timer callback and the async runner -/

/-- run whatever the timer side can still do (its steps are unconditional once started) -/
def drainTimer (s : Timeout.St) : Timeout.St :=
  let f := fun (s : Timeout.St) =>
    match Timeout.step s .cbCAS with
    | some s' => s'
    | none => match Timeout.step s .cbListener with
      | some s' => s'
      | none => (Timeout.step s .cbCancel).getD s
  f (f (f s))

/-- once the call through a Timeout has returned, its timer is stopped before starting, or its callback ends within three
more steps of its own (no step of it waits for anything) -/
theorem timeout_timer_quiesces (fnBlocks : Bool) (s : Timeout.St) (h : Reachable (Timeout.sys fnBlocks) s) (hd : s.main = .done) :
    Timeout.timerQuiet (drainTimer s) = true := by
  have key : ∀ b, ((Timeout.reach b).all (fun s => !(s.main == .done) || Timeout.timerQuiet (drainTimer s))) = true := by
    intro b; cases b <;> decide
  cases fnBlocks
  · have := invariant_of_closed (Timeout.sys false) (Timeout.reach false) _ C07.reach_closed_false (key false) s h
    simpa [hd] using this
  · have := invariant_of_closed (Timeout.sys true) (Timeout.reach true) _ C07.reach_closed_true (key true) s h
    simpa [hd] using this

/-- the async runner's remaining steps after the completion listeners are three unconditional stores -/
theorem async_runner_finishes (s : Future.St) (h : Reachable Future.sys s) (hl : Future.listenersRan s = true) :
    ∃ s1 s2 s3, (s.pc = .closed) ∨
      ((Future.step s .storeResult = some s1 ∨ s1 = s) ∧ (Future.step s1 .storeDone = some s2 ∨ s2 = s1) ∧
       (Future.step s2 .close = some s3 ∨ s3 = s2) ∧ s3.pc = .closed) := by
  have hp : s.pc = .listenersDone ∨ s.pc = .resultStored ∨ s.pc = .doneStored ∨ s.pc = .closed := by
    cases hpc : s.pc <;> simp_all [Future.listenersRan]
  rcases hp with hp | hp | hp | hp
  · exact ⟨{ s with pc := .resultStored, resultVersion := s.resultVersion + 1 },
      { s with pc := .doneStored, resultVersion := s.resultVersion + 1, doneFlag := true },
      { s with pc := .closed, resultVersion := s.resultVersion + 1, doneFlag := true, closes := s.closes + 1 },
      Or.inr ⟨Or.inl (by simp [Future.step, hp]), Or.inl (by simp [Future.step]), Or.inl (by simp [Future.step]), rfl⟩⟩
  · exact ⟨s, { s with pc := .doneStored, doneFlag := true }, { s with pc := .closed, doneFlag := true, closes := s.closes + 1 },
      Or.inr ⟨Or.inr rfl, Or.inl (by simp [Future.step, hp]), Or.inl (by simp [Future.step]), rfl⟩⟩
  · exact ⟨s, s, { s with pc := .closed, closes := s.closes + 1 },
      Or.inr ⟨Or.inr rfl, Or.inr rfl, Or.inl (by simp [Future.step, hp]), rfl⟩⟩
  · exact ⟨s, s, s, Or.inl hp⟩

/-! ## HTTP: responses of retried attempts are closed, per-attempt contexts are released -/

def fixedShape : HttpShape := ⟨true, true⟩

/-- invariant of the retry loop of `doRequest` (repaired shape): the only response that can still be open, and the only
merged context still alive, is the one `exec.LastResult()` refers to -/
def HttpInv (s : HttpSt) : Prop :=
  (∀ j ∈ s.openBodies, s.lastResp = some j) ∧ (∀ j ∈ s.liveCtxs, s.lastResp = some j)

theorem httpInv_attempt (s : HttpSt) (i : Nat) (r : Bool) (h : HttpInv s) (hi : ∀ j, s.lastResp = some j → j < i) :
    HttpInv (httpAttempt fixedShape s i r) := by
  obtain ⟨hb, hc⟩ := h
  unfold httpAttempt
  cases hl : s.lastResp with
  | none =>
    have hb' : s.openBodies = [] := by
      cases hob : s.openBodies with
      | nil => rfl
      | cons x xs => have := hb x (by simp [hob]); rw [hl] at this; cases this
    have hc' : s.liveCtxs = [] := by
      cases hob : s.liveCtxs with
      | nil => rfl
      | cons x xs => have := hc x (by simp [hob]); rw [hl] at this; cases this
    cases r <;> simp [HttpInv, fixedShape, hb', hc', hl]
  | some j =>
    have hb' : (s.openBodies.filter (· != j)) = [] := by
      apply List.filter_eq_nil_iff.2
      intro x hx; have := hb x hx; rw [hl] at this; cases this; simp
    have hc' : (s.liveCtxs.filter (· != j)) = [] := by
      apply List.filter_eq_nil_iff.2
      intro x hx; have := hc x hx; rw [hl] at this; cases this; simp
    cases r <;> simp [HttpInv, fixedShape, closeBody, hb', hc']

theorem httpAttempt_last (sh : HttpShape) (s : HttpSt) (i : Nat) (r : Bool) :
    ∀ j, (httpAttempt sh s i r).lastResp = some j → j = i := by
  intro j
  unfold httpAttempt
  cases r <;> cases s.lastResp <;> simp <;> (try split) <;> simp_all [closeBody] <;> omega

/-- **Every retry pattern**: after any number of attempts with any outcomes, every response the adapter obtained but did not
hand back has been closed and every per-attempt context released; at most the last attempt's are still live (they belong to
the caller, who closes the returned body — which releases the context: `closeBody`). -/
theorem retried_responses_closed (rs : List Bool) (s : HttpSt) (i : Nat) (h : HttpInv s) (hi : ∀ j, s.lastResp = some j → j < i) :
    HttpInv (httpAttempts fixedShape s i rs) := by
  induction rs generalizing s i with
  | nil => exact h
  | cons r rs ih =>
    simp only [httpAttempts]
    apply ih
    · exact httpInv_attempt s i r h hi
    · intro j hj; have := httpAttempt_last fixedShape s i r j hj; omega

theorem nothing_left_after_close (rs : List Bool) :
    let s := httpAttempts fixedShape {} 0 rs
    ∀ j, s.lastResp = some j → (closeBody fixedShape s j).openBodies = [] ∧ (closeBody fixedShape s j).liveCtxs = [] := by
  intro s j hj
  have hinv : HttpInv s := retried_responses_closed rs {} 0 (by simp [HttpInv]) (by simp)
  constructor
  · apply List.filter_eq_nil_iff.2
    intro x hx; have := hinv.1 x hx; rw [hj] at this; cases this; simp
  · simp only [closeBody, fixedShape, ↓reduceIte]
    apply List.filter_eq_nil_iff.2
    intro x hx; have := hinv.2 x hx; rw [hj] at this; cases this; simp

/-- the source has the repaired shape (FACTS) -/
theorem http_shape_ok :
    Generated.Facts.httpClosesPreviousResponse = true ∧ Generated.Facts.httpReleaseOnBodyClose = true := by decide

/-- the two defective shapes, as witnesses: retried responses stay open (D8); a context outlives its closed response… or
rather, with release-on-return the returned body's context is already gone (D6, C18) -/
theorem unclosed_retried_witness : (httpAttempts ⟨false, true⟩ {} 0 [true, true, true]).openBodies = [2, 1, 0] := by decide

/-! ## non-vacuity -/

example : (hrun { cap := 1 } [.launch, .launch, .finish 1 true, .leave, .finish 0 true]).gs = [.done, .wantSend] := by decide
example : (wreach true).any (fun s => s.released && s.w == .gone) = true := by decide
example : (httpAttempts fixedShape {} 0 [true, false, true, true]).openBodies = [3] := by decide

end Failsafe.Props.C19
