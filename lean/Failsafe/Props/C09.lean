import Failsafe.Conc.Hedge
/-!
# C09 — hedge: bounded attempts, spaced by the delay, one winner, losers cancelled

For every `maxHedges` (any `n = maxHedges + 1`), every order in which attempts complete and every outcome (each `finish` action
carries whether that attempt's result matches the cancel conditions), every interleaving with the coordinator.
Reading: a result is *accepted* when the coordinator receives it.
-/
namespace Failsafe.Props.C09
open Failsafe.Conc.Hedge

/-- every reachable state of every schedule satisfies the invariant -/
theorem reachable_inv (n : Nat) (as : List Act) (s : St) (h : as.foldlM (m := Option) step (init n) = some s) : Inv s :=
  inv_run (init n) as (init_inv n) s h

/-- **at most `maxHedges + 1` attempts are started** -/
theorem attempts_le (n : Nat) (as : List Act) (s : St) (h : as.foldlM (m := Option) step (init n) = some s) :
    s.launched ≤ n := by
  have hi := reachable_inv n as s h
  have hn : s.n = n := by
    suffices ∀ (as : List Act) (s0 s : St), as.foldlM (m := Option) step s0 = some s → s.n = s0.n from this as (init n) s h
    intro as
    induction as with
    | nil => intro s0 s hs; simp at hs; subst hs; rfl
    | cons a as ih =>
      intro s0 s hs
      simp [List.foldlM] at hs
      cases hstep : step s0 a with
      | none => simp [hstep] at hs
      | some s1 =>
        simp [hstep] at hs
        rw [ih s1 s hs]
        cases a <;> simp only [step] at hstep <;> (repeat' (split at hstep)) <;>
          first | (cases hstep; done) | (simp only [Option.some.injEq] at hstep; subst hstep; rfl)
  rw [← hn]; exact hi.launchedLe

/-- **hedge `k` is never started before the first `k` hedge delays have elapsed**: the number of attempts started never exceeds
the number of delay timers that have fired plus one -/
theorem hedge_k_not_before (n : Nat) (as : List Act) (s : St) (h : as.foldlM (m := Option) step (init n) = some s) :
    s.launched ≤ s.timers + 1 := by
  have := (reachable_inv n as s h).notBefore
  split at this <;> omega

/-- **none is started once a result has been accepted** -/
theorem none_after_accept (s : St) (hr : s.returned = true) : step s .launch = none := by
  simp [step, hr]

/-- **at most one result is ever sent** (so a sender never blocks, whatever the channel's capacity) -/
theorem at_most_one_send (n : Nat) (as : List Act) (s : St) (h : as.foldlM (m := Option) step (init n) = some s) : s.sends ≤ 1 := by
  have := (reachable_inv n as s h).sendsEq
  split at this <;> omega

/-- **the caller receives a result actually produced by one of the attempts**; one that does not match the cancel conditions
only after all `maxHedges + 1` attempts have finished -/
theorem winner_produced_by_attempt (n : Nat) (as : List Act) (s : St) (h : as.foldlM (m := Option) step (init n) = some s)
    (w : Nat) (c : Bool) (hacc : s.accepted = some (w, c)) :
    s.ths[w]? = some .finished ∧ (c = false → s.finishedCount = s.n) :=
  (reachable_inv n as s h).produced (w, c) (Or.inr hacc)

/-- **a result matching the cancel conditions is delivered as soon as it is produced, without waiting for the others**: the
send happens in the very step in which such an attempt finishes, provided nothing was sent before -/
theorem cancellable_sent_at_once (s : St) (k : Nat) (hrun : s.ths[k]? = some .running) (hns : s.sent = false) :
    ∃ s', step s (.finish k true) = some s' ∧ s'.chan = some (k, true) := by
  simp [step, hrun, hns]

/-- **at the moment it returns every other started attempt has been cancelled and the winning attempt has not** -/
theorem losers_cancelled_winner_not (s s' : St) (h : step s .recv = some s') :
    ∃ w c, s'.accepted = some (w, c) ∧ s'.returned = true ∧ w ∉ s'.cancelled ∧
      ∀ k, k < s.launched → k ≠ w → k ∈ s'.cancelled := by
  simp only [step] at h
  split at h
  · split at h
    · rename_i x hx
      simp only [Option.some.injEq] at h; subst h
      refine ⟨x.1, x.2, rfl, rfl, by simp, ?_⟩
      intro k hk hne
      simp [hk, hne]
    · cases h
  · cases h

example : Inv (init 3) := init_inv 3
example : (([Act.launch, .timer, .launch, .finish 1 true, .recv] : List Act).foldlM (m := Option) step (init 3)).map
    (fun s => (s.accepted, s.cancelled, s.launched)) = some (some (1, true), [0], 2) := by decide

end Failsafe.Props.C09
