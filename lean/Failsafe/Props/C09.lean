import Failsafe.Conc.Hedge
import Failsafe.Conc.TraceHedge
/-!
# C09 — hedge: bounded attempts, spaced by the delay, one winner, losers cancelled

For every `maxHedges` (any `n = maxHedges + 1`), every order in which attempts complete and every outcome (each `count` action
carries whether that attempt's result matches the cancel conditions), every interleaving with the coordinator.
Reading: a result is *accepted* when the coordinator receives it.
-/
namespace Failsafe.Props.C09
open Failsafe.Conc.Hedge

/-- every reachable state of every schedule satisfies the invariant -/
theorem reachable_inv (n : Nat) (as : List Act) (s : St) (h : as.foldlM (m := Option) step (init n) = some s) : Inv s :=
  inv_run (init n) as (init_inv n) s h

/-- **at most `maxHedges + 1` attempts are started** -/
theorem attempts_le (n : Nat) (as : List Act) (s : St) (h : as.foldlM (m := Option) step (init n) = some s) :
    s.launched ≤ n := by
  have hi := reachable_inv n as s h
  have hn : s.n = n := by
    suffices ∀ (as : List Act) (s0 s : St), as.foldlM (m := Option) step s0 = some s → s.n = s0.n from this as (init n) s h
    intro as
    induction as with
    | nil => intro s0 s hs; simp at hs; subst hs; rfl
    | cons a as ih =>
      intro s0 s hs
      simp [List.foldlM] at hs
      cases hstep : step s0 a with
      | none => simp [hstep] at hs
      | some s1 =>
        simp [hstep] at hs
        rw [ih s1 s hs]
        cases a <;> simp only [step] at hstep <;> (repeat' (split at hstep)) <;>
          first | (cases hstep; done) | (simp only [Option.some.injEq] at hstep; subst hstep; rfl)
  rw [← hn]; exact hi.launchedLe

/-- **hedge `k` is never started before the first `k` hedge delays have elapsed**: the number of attempts started never exceeds
the number of delay timers that have fired plus one -/
theorem hedge_k_not_before (n : Nat) (as : List Act) (s : St) (h : as.foldlM (m := Option) step (init n) = some s) :
    s.launched ≤ s.timers + 1 := by
  have := (reachable_inv n as s h).notBefore
  split at this <;> omega

/-- **none is started once a result has been accepted** -/
theorem none_after_accept (s : St) (hr : s.returned = true) : step s .launch = none := by
  simp [step, hr]

/-- **at most one result is ever sent** (so a sender never blocks, whatever the channel's capacity) -/
theorem at_most_one_send (n : Nat) (as : List Act) (s : St) (h : as.foldlM (m := Option) step (init n) = some s) : s.sends ≤ 1 := by
  have := (reachable_inv n as s h).sendsEq
  split at this <;> omega

/-- **the caller receives a result actually produced by one of the attempts**; one that does not match the cancel conditions
only after all `maxHedges + 1` attempts have finished -/
theorem winner_produced_by_attempt (n : Nat) (as : List Act) (s : St) (h : as.foldlM (m := Option) step (init n) = some s)
    (w : Nat) (c : Bool) (hacc : s.accepted = some (w, c)) :
    s.ths[w]? = some .finished ∧ (c = false → s.finishedCount = s.n) :=
  (reachable_inv n as s h).produced (w, c) (Or.inr hacc)

/-- **a result matching the cancel conditions is delivered as soon as it is produced, without waiting for the others**: once the
attempt has been counted, its very next step sends the result, provided nothing was sent before (whether or not it was the final one) -/
theorem cancellable_sent_at_once (s : St) (k : Nat) (f : Bool) (hp : (k, true, f) ∈ s.pending) (hns : s.sent = false) :
    ∃ s', step s (.trySend k true f) = some s' ∧ s'.chan = some (k, true) := by
  simp [step, hp, hns]

/-- counting an attempt's result is what decides whether it is the final one, and puts it in line for the send -/
theorem count_enqueues (s : St) (k : Nat) (c : Bool) (hrun : s.ths[k]? = some .running) :
    ∃ s', step s (.count k c) = some s' ∧ (k, c, decide (s.finishedCount + 1 = s.n)) ∈ s'.pending ∧ s'.finishedCount = s.finishedCount + 1 := by
  simp [step, hrun]

/-- **the window the TRACE tie found**: the count and the send are two steps, so a *final* non-cancellable result can win the
`resultSent` CAS against a cancellable one that was counted before it — the caller is then handed a result that does not match the
cancel conditions, but (theorem `winner_produced_by_attempt`) only one that was delivered after all attempts had finished -/
example : (([Act.launch, .timer, .launch, .count 0 true, .count 1 false, .trySend 1 false true, .trySend 0 true false, .recv] : List Act).foldlM
    (m := Option) step (init 2)).map (fun s => (s.accepted, s.finishedCount)) = some (some (1, false), 2) := by decide

/-- **at the moment it returns every other started attempt has been cancelled and the winning attempt has not** -/
theorem losers_cancelled_winner_not (s s' : St) (h : step s .recv = some s') :
    ∃ w c, s'.accepted = some (w, c) ∧ s'.returned = true ∧ w ∉ s'.cancelled ∧
      ∀ k, k < s.launched → k ≠ w → k ∈ s'.cancelled := by
  simp only [step] at h
  split at h
  · split at h
    · rename_i x hx
      simp only [Option.some.injEq] at h; subst h
      refine ⟨x.1, x.2, rfl, rfl, by simp, ?_⟩
      intro k hk hne
      simp [hk, hne]
    · cases h
  · cases h

example : Inv (init 3) := init_inv 3
example : (([Act.launch, .timer, .launch, .count 1 true, .trySend 1 true false, .recv] : List Act).foldlM (m := Option) step (init 3)).map
    (fun s => (s.accepted, s.cancelled, s.launched)) = some (some (1, true), [0], 2) := by decide

/-! ## TRACE tie: recorded runs of the real hedge policy are replayed through the model

`TraceHedge.osys n` is `Conc.Hedge` plus observation points. `Trace.accepts` is exact (`Trace.accepts_iff`): a recorded event list is
accepted iff some interleaving of the model shows it. What an observation implies in every state an accepted trace can be in: -/
section trace
open Failsafe.Conc Failsafe.Conc.TraceHedge

theorem accepted_states_inv (n fuel : Nat) (tr : List Ev) (Y : List TS) (h : Trace.accepts (osys n) fuel tr = some Y) (t : TS) (ht : t ∈ Y) :
    Inv t.core :=
  reach_inv n t (Trace.accepted_state_reachable (osys n) fuel tr Y h t ht)

/-- **the value the caller is handed was produced by an attempt that had finished**, and one that does not match the cancel conditions
only once every one of the `maxHedges + 1` attempts had finished -/
theorem returned_value_was_produced (n : Nat) (t : TS) (hr : Trace.Reach (osys n) t) (k : Nat)
    (hst : TraceHedge.step t (.callerRet k) = some t) :
    t.core.ths[k]? = some .finished ∧ ∀ c, t.core.accepted = some (k, c) → c = false → t.core.finishedCount = t.core.n := by
  have hi := reach_inv n t hr
  simp only [TraceHedge.step] at hst
  split at hst
  · rename_i hc
    cases hacc : t.core.accepted with
    | none => simp [hacc] at hc
    | some x =>
      have hk : x.1 = k := by simpa [hacc] using hc.2
      have hp := hi.produced x (Or.inr hacc)
      refine ⟨by rw [← hk]; exact hp.1, fun c hc2 hcf => ?_⟩
      have : x = (k, c) := by simpa [hacc] using hc2
      exact hp.2 (by rw [this]; exact hcf)
  · cases hst

/-- **`OnHedge` is called at most `maxHedges` times**: a hedge launch needs an attempt slot that is still idle -/
theorem hedge_event_needs_slot (n : Nat) (t t' : TS) (hr : Trace.Reach (osys n) t) (hst : TraceHedge.step t .launchHedge = some t') :
    t.core.launched < t.core.n ∧ t'.core.launched = t.core.launched + 1 ∧ t.core.returned = false := by
  simp only [TraceHedge.step] at hst
  split at hst
  · simp only [Hedge.step] at hst
    split at hst
    · rename_i hc
      simp only [Option.map_some, Option.some.injEq] at hst; subst hst
      exact ⟨hc.2.2.1, rfl, by simpa using hc.1⟩
    · simp at hst
  · cases hst

/-- **after the return the readings are forced**: every launched attempt other than the winner reads cancelled, the winner does not -/
theorem readings_after_return (n : Nat) (t : TS) (hr : Trace.Reach (osys n) t) (k : Nat) (b : Bool)
    (hst : TraceHedge.step t (.seeCancelled k) = some t) (hsh : shows t (.seeCancelled k) (.seeCancelled k b) = true) :
    b = t.core.cancelled.contains k := by
  simp only [shows, beq_self_eq_true, Bool.true_and, beq_iff_eq] at hsh
  exact hsh.symm

/-- "attempt k's function has returned": it is finished in the model, or its return has been seen and not yet counted -/
def Returned (t : TS) (k : Nat) : Prop := t.core.ths[k]? = some .finished ∨ ∃ c, (k, c) ∈ t.retd

/-- along any run, an attempt whose function has returned either had already returned at the start or the run shows its `finish` event -/
theorem returned_needs_finish_event (n : Nat) (a b : TS) (tr : List Ev) (h : Trace.Run (osys n) a tr b) (k : Nat)
    (hb : Returned b k) : Returned a k ∨ ∃ c, Ev.finish k c ∈ tr := by
  induction h with
  | nil s => exact Or.inl hb
  | silent s s' s'' x tr hm hs hst _ ih =>
    rcases ih hb with h1 | h1
    · -- the silent step cannot make an attempt "returned" out of nothing
      left
      cases x with
      | launchFirst =>
        simp only [osys, TraceHedge.step] at hst
        split at hst
        · simp only [Hedge.step] at hst
          split at hst
          · rename_i hc
            simp only [Option.map_some, Option.some.injEq] at hst; subst hst
            rcases h1 with h1 | h1
            · left
              by_cases hk : k = s.core.launched
              · subst hk; simp [List.getElem?_set] at h1
              · simpa [List.getElem?_set, Ne.symm hk] using h1
            · exact Or.inr h1
          · simp at hst
        · cases hst
      | launchHedge => simp [osys, silent] at hs
      | timer =>
        simp only [osys, TraceHedge.step, Hedge.step] at hst
        split at hst
        · simp only [Option.map_some, Option.some.injEq] at hst; subst hst; exact h1
        · simp at hst
      | recv =>
        simp only [osys, TraceHedge.step, Hedge.step] at hst
        split at hst
        · split at hst
          · simp only [Option.map_some, Option.some.injEq] at hst; subst hst; exact h1
          · simp at hst
        · simp at hst
      | count k' c' =>
        simp only [osys, TraceHedge.step] at hst
        split at hst
        · rename_i hmem
          simp only [Hedge.step] at hst
          split at hst
          · simp only [Option.map_some, Option.some.injEq] at hst; subst hst
            by_cases hk : k = k'
            · subst hk; exact Or.inr ⟨c', by simpa using hmem⟩
            · rcases h1 with h1 | ⟨c, h1⟩
              · left; simpa [List.getElem?_set, Ne.symm hk] using h1
              · exact Or.inr ⟨c, List.mem_of_mem_erase h1⟩
          · simp at hst
        · cases hst
      | trySend k' c' f' =>
        simp only [osys, TraceHedge.step, Hedge.step] at hst
        split at hst
        · split at hst <;> (simp only [Option.map_some, Option.some.injEq] at hst; subst hst; exact h1)
        · simp at hst
      | fnRet k' c' => simp [osys, silent] at hs
      | enter k' => simp [osys, silent] at hs
      | callerRet k' => simp [osys, silent] at hs
      | seeCancelled k' => simp [osys, silent] at hs
      | settled => simp [osys, silent] at hs
    · exact Or.inr h1
  | vis s s' s'' x e tr hm hs hsh hst _ ih =>
    rcases ih hb with h1 | ⟨c, h1⟩
    · cases x with
      | fnRet k' c' =>
        simp only [osys, TraceHedge.step] at hst
        split at hst
        · simp only [Option.some.injEq] at hst; subst hst
          have he : e = Ev.finish k' c' := by
            cases e <;> simp [osys, shows] at hsh
            obtain ⟨rfl, rfl⟩ := hsh; rfl
          rcases h1 with h1 | ⟨c, h1⟩
          · exact Or.inl (Or.inl h1)
          · simp only [List.mem_cons, Prod.mk.injEq] at h1
            rcases h1 with ⟨rfl, rfl⟩ | h1
            · exact Or.inr ⟨c, by rw [he]; exact List.mem_cons_self⟩
            · exact Or.inl (Or.inr ⟨c, h1⟩)
        · cases hst
      | launchHedge =>
        simp only [osys, TraceHedge.step] at hst
        split at hst
        · simp only [Hedge.step] at hst
          split at hst
          · simp only [Option.map_some, Option.some.injEq] at hst; subst hst
            rcases h1 with h1 | h1
            · left; left
              by_cases hk : k = s.core.launched
              · subst hk; simp [List.getElem?_set] at h1
              · simpa [List.getElem?_set, Ne.symm hk] using h1
            · exact Or.inl (Or.inr h1)
          · simp at hst
        · cases hst
      | enter k' => simp only [osys, TraceHedge.step] at hst; split at hst <;> simp_all
      | callerRet k' => simp only [osys, TraceHedge.step] at hst; split at hst <;> simp_all
      | seeCancelled k' => simp only [osys, TraceHedge.step] at hst; split at hst <;> simp_all
      | settled => simp only [osys, TraceHedge.step] at hst; split at hst <;> simp_all
      | launchFirst => simp [osys, silent] at hs
      | timer => simp [osys, silent] at hs
      | recv => simp [osys, silent] at hs
      | count k' c' => simp [osys, silent] at hs
      | trySend k' c' f' => simp [osys, silent] at hs
    · exact Or.inr ⟨c, List.mem_cons_of_mem _ h1⟩

/-- **on traces**: in every trace the model can show — hence in every recorded run the acceptor accepts — the attempt whose value the
caller is handed has had its function return before (its `finish` event precedes the `ret` event) -/
theorem returned_value_after_its_finish (n : Nat) (t1 t2 : List Ev) (k : Nat) (c : TS)
    (h : Trace.Run (osys n) (osys n).init (t1 ++ Ev.callerRet k :: t2) c) : ∃ cc, Ev.finish k cc ∈ t1 := by
  obtain ⟨b, hb1, hb2⟩ := Trace.Run.split_append t1 (Ev.callerRet k :: t2) h
  obtain ⟨b2, hb3, _⟩ := Trace.Run.split_cons hb2
  obtain ⟨s, s', x, htau, hx, hsil, hsh, hst, _⟩ := Trace.Run.single_vis hb3
  have hrun : Trace.Run (osys n) (osys n).init t1 s := by
    have := Trace.Run.append hb1 (Trace.Run.of_tau htau (Trace.Run.nil s))
    simpa using this
  have hreach : Trace.Reach (osys n) s := Trace.Run.reach hrun Trace.Reach.init
  cases x with
  | callerRet k' =>
    have hk : k' = k := by
      have h0 : shows s (.callerRet k') (.callerRet k) = true := hsh
      simpa [shows] using h0
    subst hk
    have hss : s' = s := by simp only [osys, TraceHedge.step] at hst; split at hst <;> simp_all
    rw [hss] at hst
    have hfin := (returned_value_was_produced n s hreach k' hst).1
    rcases returned_needs_finish_event n (osys n).init s t1 hrun k' (Or.inl hfin) with h0 | h0
    · -- initially every attempt is idle and nothing has returned
      exfalso
      rcases h0 with h0 | ⟨cc, h0⟩
      · simp only [osys, Hedge.init] at h0
        by_cases hkn : k' < n
        · simp [hkn] at h0
        · simp [hkn] at h0
      · simp [osys] at h0
    · exact h0
  | launchFirst => simp [osys, shows] at hsh
  | launchHedge => simp [osys, shows] at hsh
  | timer => simp [osys, shows] at hsh
  | recv => simp [osys, shows] at hsh
  | fnRet k' c' => simp [osys, shows] at hsh
  | count k' c' => simp [osys, shows] at hsh
  | trySend k' c' f' => simp [osys, shows] at hsh
  | enter k' => simp [osys, shows] at hsh
  | seeCancelled k' => simp [osys, shows] at hsh
  | settled => simp [osys, shows] at hsh

/-- every step of the traced system either leaves the model component alone or is one step of the hedge model -/
theorem step_core (t t' : TS) (a : TraceHedge.Act) (h : TraceHedge.step t a = some t') :
    t'.core = t.core ∨ ∃ x, Hedge.step t.core x = some t'.core := by
  have map_core : ∀ (x : Hedge.Act) (f : St → TS), (Hedge.step t.core x).map f = some t' → (∀ s, (f s).core = s) →
      Hedge.step t.core x = some t'.core := by
    intro x f hm hf
    cases hs : Hedge.step t.core x with
    | none => simp [hs] at hm
    | some s => simp only [hs, Option.map_some, Option.some.injEq] at hm; subst hm; rw [hf s]
  cases a with
  | launchFirst => simp only [TraceHedge.step] at h; split at h; exact Or.inr ⟨_, map_core _ _ h (fun _ => rfl)⟩; cases h
  | launchHedge => simp only [TraceHedge.step] at h; split at h; exact Or.inr ⟨_, map_core _ _ h (fun _ => rfl)⟩; cases h
  | timer => exact Or.inr ⟨.timer, map_core .timer _ (by simpa [TraceHedge.step] using h) (fun _ => rfl)⟩
  | recv => exact Or.inr ⟨.recv, map_core .recv _ (by simpa [TraceHedge.step] using h) (fun _ => rfl)⟩
  | count k c => simp only [TraceHedge.step] at h; split at h; exact Or.inr ⟨_, map_core _ _ h (fun _ => rfl)⟩; cases h
  | trySend k c f => exact Or.inr ⟨.trySend k c f, map_core (.trySend k c f) _ (by simpa [TraceHedge.step] using h) (fun _ => rfl)⟩
  | fnRet k c =>
    simp only [TraceHedge.step] at h; split at h
    · simp only [Option.some.injEq] at h; subst h; exact Or.inl rfl
    · cases h
  | enter k =>
    simp only [TraceHedge.step] at h; split at h
    · simp only [Option.some.injEq] at h; subst h; exact Or.inl rfl
    · cases h
  | callerRet k =>
    simp only [TraceHedge.step] at h; split at h
    · simp only [Option.some.injEq] at h; subst h; exact Or.inl rfl
    · cases h
  | seeCancelled k =>
    simp only [TraceHedge.step] at h; split at h
    · simp only [Option.some.injEq] at h; subst h; exact Or.inl rfl
    · cases h
  | settled =>
    simp only [TraceHedge.step] at h; split at h
    · simp only [Option.some.injEq] at h; subst h; exact Or.inl rfl
    · cases h

/-- once the call has returned, the cancelled set is exactly the started attempts other than the accepted one -/
def CancOk (s : St) : Prop :=
  s.returned = true → ∃ x, s.accepted = some x ∧ s.cancelled = (List.range s.launched).filter (· ≠ x.1)

/-- after the return nothing the model can do changes what was accepted or how many attempts were started -/
theorem after_return_step (s s' : St) (a : Hedge.Act) (hi : Inv s) (hr : s.returned = true) (hs : Hedge.step s a = some s') :
    s'.returned = true ∧ s'.accepted = s.accepted ∧ s'.launched = s.launched ∧ s'.cancelled = s.cancelled := by
  cases a with
  | launch =>
    simp only [Hedge.step] at hs; split at hs
    · rename_i hg; exact absurd hr hg.1
    · cases hs
  | timer =>
    simp only [Hedge.step] at hs; split at hs
    · simp only [Option.some.injEq] at hs; subst hs; exact ⟨hr, rfl, rfl, rfl⟩
    · cases hs
  | recv =>
    have hc : s.chan = none := (hi.accSent (hi.retAcc hr)).2
    simp [Hedge.step, hc] at hs
  | count k c =>
    simp only [Hedge.step] at hs; split at hs
    · simp only [Option.some.injEq] at hs; subst hs; exact ⟨hr, rfl, rfl, rfl⟩
    · cases hs
  | trySend k c f =>
    simp only [Hedge.step] at hs; split at hs
    · split at hs <;> (simp only [Option.some.injEq] at hs; subst hs; exact ⟨hr, rfl, rfl, rfl⟩)
    · cases hs

theorem cancOk_step (s s' : St) (a : Hedge.Act) (hi : Inv s) (h : CancOk s) (hs : Hedge.step s a = some s') : CancOk s' := by
  by_cases hr : s.returned = true
  · obtain ⟨h1, h2, h3, h4⟩ := after_return_step s s' a hi hr hs
    intro _
    obtain ⟨x, hx1, hx2⟩ := h hr
    exact ⟨x, by rw [h2, hx1], by rw [h4, h3, hx2]⟩
  · cases a with
    | launch =>
      simp only [Hedge.step] at hs; split at hs
      · simp only [Option.some.injEq] at hs; subst hs; intro h'; exact absurd h' hr
      · cases hs
    | timer =>
      simp only [Hedge.step] at hs; split at hs
      · simp only [Option.some.injEq] at hs; subst hs; intro h'; exact absurd h' hr
      · cases hs
    | recv =>
      simp only [Hedge.step] at hs; split at hs
      · split at hs
        · rename_i x _
          simp only [Option.some.injEq] at hs; subst hs; intro _; exact ⟨x, rfl, rfl⟩
        · cases hs
      · cases hs
    | count k c =>
      simp only [Hedge.step] at hs; split at hs
      · simp only [Option.some.injEq] at hs; subst hs; intro h'; exact absurd h' hr
      · cases hs
    | trySend k c f =>
      simp only [Hedge.step] at hs; split at hs
      · split at hs <;> (simp only [Option.some.injEq] at hs; subst hs; intro h'; exact absurd h' hr)
      · cases hs

theorem reach_cancOk (n : Nat) (t : TS) (h : Trace.Reach (osys n) t) : CancOk t.core := by
  induction h with
  | init => intro h; simp [osys, Hedge.init] at h
  | step t t' a hr _ hst ih =>
    rcases step_core t t' a hst with h1 | ⟨x, h1⟩
    · rw [h1]; exact ih
    · exact cancOk_step _ _ x (reach_inv n t hr) ih h1

/-- along any run that starts after the return, the accepted value and the number of started attempts stay what they were -/
theorem after_return_run (n : Nat) (a b : TS) (tr : List Ev) (h : Trace.Run (osys n) a tr b) (ha : Trace.Reach (osys n) a)
    (hr : a.core.returned = true) : b.core.returned = true ∧ b.core.accepted = a.core.accepted := by
  induction h with
  | nil s => exact ⟨hr, rfl⟩
  | silent s s' s'' x tr hm hs hst _ ih =>
    have hreach := Trace.Reach.step s s' x ha hm hst
    rcases step_core s s' x hst with h1 | ⟨y, h1⟩
    · have := ih hreach (by rw [h1]; exact hr); rw [h1] at this; exact this
    · obtain ⟨q1, q2, _, _⟩ := after_return_step _ _ y (reach_inv n s ha) hr h1
      have := ih hreach q1; rw [q2] at this; exact this
  | vis s s' s'' x e tr hm hs hsh hst _ ih =>
    have hreach := Trace.Reach.step s s' x ha hm hst
    rcases step_core s s' x hst with h1 | ⟨y, h1⟩
    · have := ih hreach (by rw [h1]; exact hr); rw [h1] at this; exact this
    · obtain ⟨q1, q2, _, _⟩ := after_return_step _ _ y (reach_inv n s ha) hr h1
      have := ih hreach q1; rw [q2] at this; exact this

/-- **on traces**: in every trace the model can show — hence in every recorded hedged run the acceptor accepts — once the caller has been
handed attempt `w`'s value, every later `IsCanceled()` reading of a started attempt is `true` for every attempt other than `w` and `false`
for `w` itself: all outstanding attempts are cancelled, the accepted one is not -/
theorem readings_after_return_on_traces (n : Nat) (t1 t2 t3 : List Ev) (w k : Nat) (b : Bool) (c : TS)
    (h : Trace.Run (osys n) (osys n).init (t1 ++ Ev.callerRet w :: (t2 ++ Ev.seeCancelled k b :: t3)) c) : b = decide (k ≠ w) := by
  obtain ⟨b1, hb1, hb2⟩ := Trace.Run.split_append t1 _ h
  obtain ⟨b2, hb3, hb4⟩ := Trace.Run.split_cons hb2
  obtain ⟨s, s', x, htau, hx, hsil, hsh, hst, htau2⟩ := Trace.Run.single_vis hb3
  obtain ⟨b3, hb5, hb6⟩ := Trace.Run.split_append t2 _ hb4
  obtain ⟨b4, hb7, _⟩ := Trace.Run.split_cons hb6
  obtain ⟨u, u', y, htau3, hy, hsil2, hsh2, hst2, _⟩ := Trace.Run.single_vis hb7
  have hrun_s : Trace.Run (osys n) (osys n).init t1 s := by
    have := Trace.Run.append hb1 (Trace.Run.of_tau htau (Trace.Run.nil s))
    simpa using this
  have hreach_s : Trace.Reach (osys n) s := Trace.Run.reach hrun_s Trace.Reach.init
  have hreach_s' : Trace.Reach (osys n) s' := Trace.Reach.step s s' x hreach_s hx hst
  have hrun_u : Trace.Run (osys n) s' t2 u := by
    have := Trace.Run.append (Trace.Run.of_tau htau2 hb5) (Trace.Run.of_tau htau3 (Trace.Run.nil u))
    simpa using this
  have hreach_u : Trace.Reach (osys n) u := Trace.Run.reach hrun_u hreach_s'
  cases x with
  | callerRet w' =>
    have hw : w' = w := by
      have h0 : shows s (.callerRet w') (.callerRet w) = true := hsh
      simpa [shows] using h0
    subst hw
    have hg : s.core.returned = true ∧ (s.core.accepted.map (·.1)) = some w' := by
      simp only [osys, TraceHedge.step] at hst; split at hst
      · assumption
      · cases hst
    have hss : s' = s := by
      have h9 : TraceHedge.step s (.callerRet w') = some s' := hst
      simp only [TraceHedge.step, hg, and_self, ↓reduceIte, Option.some.injEq] at h9
      exact h9.symm
    subst hss
    obtain ⟨hru, hacc⟩ := after_return_run n _ _ _ hrun_u hreach_s' hg.1
    obtain ⟨xx, hx1, hx2⟩ := reach_cancOk n u hreach_u hru
    have hxw : xx.1 = w' := by
      have := hg.2; rw [← hacc, hx1] at this; simpa using this
    cases y with
    | seeCancelled k' =>
      have h0 : shows u (.seeCancelled k') (.seeCancelled k b) = true := hsh2
      simp only [shows, Bool.and_eq_true, beq_iff_eq] at h0
      obtain ⟨hk, hb⟩ := h0
      subst hk
      have hlt : k' < u.core.launched := by
        simp only [osys, TraceHedge.step] at hst2; split at hst2
        · rename_i hh; exact hh.2
        · cases hst2
      rw [← hb, hx2, hxw]
      by_cases hkw : k' = w'
      · subst hkw; simp
      · simp [hkw, hlt]
    | launchFirst => simp [osys, shows] at hsh2
    | launchHedge => simp [osys, shows] at hsh2
    | timer => simp [osys, shows] at hsh2
    | recv => simp [osys, shows] at hsh2
    | fnRet k' c' => simp [osys, shows] at hsh2
    | count k' c' => simp [osys, shows] at hsh2
    | trySend k' c' f' => simp [osys, shows] at hsh2
    | enter k' => simp [osys, shows] at hsh2
    | callerRet k' => simp [osys, shows] at hsh2
    | settled => simp [osys, shows] at hsh2
  | launchFirst => simp [osys, shows] at hsh
  | launchHedge => simp [osys, shows] at hsh
  | timer => simp [osys, shows] at hsh
  | recv => simp [osys, shows] at hsh
  | fnRet k' c' => simp [osys, shows] at hsh
  | count k' c' => simp [osys, shows] at hsh
  | trySend k' c' f' => simp [osys, shows] at hsh
  | enter k' => simp [osys, shows] at hsh
  | seeCancelled k' => simp [osys, shows] at hsh
  | settled => simp [osys, shows] at hsh

/-- non-vacuity, decided by running the acceptor (maxHedges = 1): the hedge wins and the first attempt is cancelled — accepted; the
caller handed the value of an attempt that has not finished, a third attempt, or a winner that reads cancelled — rejected -/
example : (Trace.accepts (osys 2) 30 [.enter 0, .hedge, .enter 1, .finish 1 true, .callerRet 1, .seeCancelled 0 true, .seeCancelled 1 false, .finish 0 false]).map (·.isEmpty) = some false := by decide
/-- the order in which functions return is not the order in which the library processes their results: found by the soak -/
example : (Trace.accepts (osys 2) 30 [.enter 0, .hedge, .enter 1, .finish 0 true, .finish 1 true, .callerRet 1, .seeCancelled 0 true, .seeCancelled 1 false]).map (·.isEmpty) = some false := by decide
example : (Trace.accepts (osys 2) 30 [.enter 0, .hedge, .enter 1, .callerRet 1]).map (·.isEmpty) = some true := by decide
example : (Trace.accepts (osys 2) 30 [.enter 0, .hedge, .hedge]).map (·.isEmpty) = some true := by decide
example : (Trace.accepts (osys 2) 30 [.enter 0, .hedge, .enter 1, .finish 1 true, .callerRet 1, .seeCancelled 1 true]).map (·.isEmpty) = some true := by decide

end trace

end Failsafe.Props.C09
