import Failsafe.Limiter
import Failsafe.Lemmas.Bursty
import Failsafe.Lemmas.BurstyBridge
import Failsafe.Lemmas.Smooth
/-!
# C05 — rate limiter never admits faster than configured; refusals cost nothing

All statements are about `Failsafe.Limiter.smoothAcquire` / `burstyAcquire`, which `Failsafe.Tie.Limiter` proves equal
to the kernels regenerated from `/repo`. Instants are non-negative (a stopwatch), `interval`, `period`, `pp` positive.
A permit "becomes usable" at the request instant plus the returned wait; the `i`-th permit of a `k`-permit request is the
`i`-th of `k` single requests at the same instant (`*_k_eq_singles`).
-/
namespace Failsafe.Props.C05
open Failsafe.Limiter

/-- a request: instant, permits, max wait (-1 = none) -/
structure Req where
  t  : Int
  k  : Nat
  mw : Int
deriving Repr

/-! ## Smooth: refinement to a slot counter -/

/-- abstract spec: `n` is the next free slot. A request takes slots `first … first+k-1`, `first = max(⌊t/I⌋, n)`. -/
def slotStep (I n : Int) (r : Req) : Option (Int × Int) × Int :=
  let f := max (r.t / I) n
  let w := max (I * (f + r.k - 1) - r.t) 0
  if r.mw ≠ -1 ∧ w > r.mw then (none, n) else (some (f, w), f + r.k)

/-- outputs of the spec over a history: per request `none` (refused) or `(first slot, wait)` -/
def slotRun (I : Int) : Int → List Req → List (Option (Int × Int))
  | _, [] => []
  | n, r :: rs => (slotStep I n r).1 :: slotRun I (slotStep I n r).2 rs

/-- outputs of the implementation model over a history: per request the returned wait (-1 = refused) -/
def smoothRun (c : SCfg) : SSt → List Req → List Int
  | _, [] => []
  | s, r :: rs => (smoothAcquire c s r.t r.k r.mw).1 :: smoothRun c (smoothAcquire c s r.t r.k r.mw).2 rs

theorem smooth_step_refines (c : SCfg) (hI : 0 < c.interval) (s : SSt) (n : Int) (hn : s.next = c.interval * n)
    (r : Req) (ht : 0 ≤ r.t) (hk : 1 ≤ r.k) :
    smoothAcquire c s r.t r.k r.mw =
      (match (slotStep c.interval n r).1 with | none => -1 | some fw => fw.2,
       ⟨c.interval * (slotStep c.interval n r).2⟩) := by
  rw [Sm.smoothAcquire_eq c s r.t r.k r.mw ht]
  have hcl := Sm.acquire_closed c.interval hI s n hn r.t r.k (by omega)
  have hgen : Sm.acquire c.interval s r.t r.k r.mw =
      if r.mw ≠ -1 ∧ (Sm.acquire c.interval s r.t r.k (-1)).1 > r.mw then (-1, s)
      else Sm.acquire c.interval s r.t r.k (-1) := by
    unfold Sm.acquire
    simp only
    by_cases h : r.mw ≠ -1 ∧ max ((if r.t ≥ s.next then r.t - r.t % c.interval + c.interval * ↑r.k else s.next + c.interval * ↑r.k) - r.t - c.interval) 0 > r.mw
    · simp [h]
    · simp [h]
  rw [hgen, hcl]
  unfold slotStep Sm.firstSlot Sm.slotOf
  simp only
  by_cases h : r.mw ≠ -1 ∧ max (c.interval * (max (r.t / c.interval) n + ↑r.k - 1) - r.t) 0 > r.mw
  · simp only [h, if_true]
    first | done | (cases s; simp_all)
  · simp only [h, if_false]
    first | done | simp

/-- **refinement**: for every history the smooth limiter returns exactly the slot counter's answers -/
theorem smooth_refines_slots (c : SCfg) (hI : 0 < c.interval) :
    ∀ (rs : List Req) (s : SSt) (n : Int), s.next = c.interval * n → (∀ r ∈ rs, 0 ≤ r.t ∧ 1 ≤ r.k) →
      smoothRun c s rs = (slotRun c.interval n rs).map (fun o => match o with | none => -1 | some fw => fw.2) := by
  intro rs
  induction rs with
  | nil => intro s n _ _; simp [smoothRun, slotRun]
  | cons r rs ih =>
    intro s n hn hall
    have hr := hall r (by simp)
    have hstep := smooth_step_refines c hI s n hn r hr.1 hr.2
    simp only [smoothRun, slotRun, List.map_cons]
    rw [hstep]
    simp only
    congr 1
    exact ih _ _ rfl (fun r' hr' => hall r' (by simp [hr']))

/-- granted slot ranges `(first, k)` of a spec history -/
def grantedRanges (I : Int) : Int → List Req → List (Int × Int)
  | _, [] => []
  | n, r :: rs =>
    match (slotStep I n r).1 with
    | none => grantedRanges I (slotStep I n r).2 rs
    | some fw => (fw.1, (r.k : Int)) :: grantedRanges I (slotStep I n r).2 rs

theorem slotStep_mono (I n : Int) (r : Req) : n ≤ (slotStep I n r).2 := by
  unfold slotStep
  simp only
  split
  · exact Int.le_refl _
  · have := Int.le_max_right (r.t / I) n
    simp only
    omega

/-- **one permit per slot**: granted slot ranges never start before the counter, and are disjoint and increasing -/
theorem smooth_one_per_slot (I : Int) :
    ∀ (rs : List Req) (n : Int),
      (∀ fk ∈ grantedRanges I n rs, n ≤ fk.1) ∧
      (grantedRanges I n rs).Pairwise (fun a b => a.1 + a.2 ≤ b.1) := by
  intro rs
  induction rs with
  | nil => intro n; simp [grantedRanges]
  | cons r rs ih =>
    intro n
    have hmono := slotStep_mono I n r
    have ih' := ih (slotStep I n r).2
    simp only [grantedRanges]
    cases hso : (slotStep I n r).1 with
    | none =>
      simp only
      exact ⟨fun fk hfk => Int.le_trans hmono (ih'.1 fk hfk), ih'.2⟩
    | some fw =>
      simp only
      have hf : fw.1 = max (r.t / I) n ∧ (slotStep I n r).2 = fw.1 + r.k := by
        unfold slotStep at hso ⊢
        simp only at hso ⊢
        split at hso
        · simp at hso
        · rename_i hc
          simp only [hc, if_false]
          simp only [Option.some.injEq] at hso
          subst hso
          simp
      constructor
      · intro fk hfk
        rw [List.mem_cons] at hfk
        rcases hfk with rfl | hfk
        · rw [hf.1]; exact Int.le_max_right _ _
        · exact Int.le_trans hmono (ih'.1 fk hfk)
      · rw [List.pairwise_cons]
        refine ⟨?_, ih'.2⟩
        intro fk hfk
        have := ih'.1 fk hfk
        rw [hf.2] at this
        exact this

/-- **earliest / not in the past**: a granted request starts at `max(⌊t/I⌋, n)` and waits exactly until the start of
its last slot (never negative) -/
theorem smooth_earliest (I n : Int) (r : Req) (f w : Int) (h : (slotStep I n r).1 = some (f, w)) :
    f = max (r.t / I) n ∧ w = max (I * (f + r.k - 1) - r.t) 0 ∧ 0 ≤ w := by
  unfold slotStep at h
  simp only at h
  split at h
  · simp at h
  · simp only [Option.some.injEq, Prod.mk.injEq] at h
    obtain ⟨h1, h2⟩ := h
    subst h1
    subst h2
    exact ⟨rfl, rfl, Int.le_max_right _ _⟩

/-- **k at once = k singles** (state and wait of the last) -/
theorem smooth_k_eq_singles (c : SCfg) (hI : 0 < c.interval) (s : SSt) (n : Int) (hn : s.next = c.interval * n)
    (t : Int) (k : Nat) (hk : 1 ≤ k) :
    Sm.acquire c.interval s t k (-1) = Sm.singles c.interval t k (0, s) :=
  Sm.acquire_k_eq_singles c.interval hI s n hn t k hk

/-- **a refusal leaves the limiter exactly as it was** -/
theorem smooth_refusal_noop (c : SCfg) (s : SSt) (t k mw : Int) (ht : 0 ≤ t)
    (h : (smoothAcquire c s t k mw).1 = -1) : (smoothAcquire c s t k mw).2 = s := by
  rw [Sm.smoothAcquire_eq c s t k mw ht] at h ⊢
  exact Sm.refusal_is_noop c.interval s t k mw h

/-! ## Bursty: ordinal counter and the per-period bound -/

/-- usable period of each permit for a history of single unlimited-wait requests at the given instants -/
def burstyPeriods (c : BCfg) : BSt → List Int → List Int
  | _, [] => []
  | s, t :: ts =>
    ((t + (burstyAcquire c s t 1 (-1)).1) / c.period) :: burstyPeriods c (burstyAcquire c s t 1 (-1)).2 ts

theorem bursty_single (c : BCfg) (hpp : 0 < c.pp) (hper : 0 < c.period) (s : BSt) (t : Int) (h0 : 0 ≤ t)
    (hcur : s.cur ≤ t / c.period) (hi : BH.Inv c s) :
    (burstyAcquire c s t 1 (-1)).2 = (BH.take1 c (BH.roll c s t)).2 ∧
    (t + (burstyAcquire c s t 1 (-1)).1) / c.period = (BH.take1 c (BH.roll c s t)).1 ∧
    0 ≤ (burstyAcquire c s t 1 (-1)).1 := by
  have hroll := BH.roll_spec c s t hpp hi hcur
  rw [acquire_eq_rolled, acquire_rolled c (roll c s t) t 1 (roll_rolled c s t), roll_eq_BH c s t h0]
  obtain ⟨hi1, hcur1, _⟩ := hroll
  unfold BH.take1
  by_cases h : (1 : Int) > (BH.roll c s t).avail
  · simp only [h, if_true]
    have hd : 0 ≤ 1 - (BH.roll c s t).avail := by omega
    unfold waitFor
    simp only
    rw [Int.tmod_eq_emod_of_nonneg hd, Int.tdiv_eq_ediv_of_nonneg hd]
    refine ⟨by first | rfl | trivial, ?_, ?_⟩
    · have : ∀ ap : Int, t + (((BH.roll c s t).cur + 1) * c.period - t + ap * c.period) = ((BH.roll c s t).cur + 1 + ap) * c.period := by
        intro ap; rw [Int.add_mul ((BH.roll c s t).cur + 1) ap]; omega
      rw [this]
      exact Int.mul_ediv_cancel _ (by omega)
    · -- wait ≥ 0: (cur+1)*period - t > 0 and ap ≥ 0
      obtain ⟨q, r, hq, hr, hqr, hr0, hrlt⟩ := BH.ediv_emod_spec (1 - (BH.roll c s t).avail) c.pp hpp
      have hlt : t < (t / c.period + 1) * c.period := by
        have := Int.lt_ediv_add_one_mul_self t hper
        exact this
      rw [hcur1]
      have hap : 0 ≤ (if (1 - (BH.roll c s t).avail) % c.pp = 0 then (1 - (BH.roll c s t).avail) / c.pp - 1 else (1 - (BH.roll c s t).avail) / c.pp) := by
        rw [hq, hr]
        have hq0 : 0 ≤ q := by
          by_cases hqn : q < 0
          · exfalso
            have : c.pp * q ≤ c.pp * (-1) := Int.mul_le_mul_of_nonneg_left (by omega) (by omega)
            omega
          · omega
        split
        · rename_i hz
          have : q ≠ 0 := by
            intro hq0'; subst hq0'; omega
          omega
        · exact hq0
      have := Int.mul_nonneg hap (Int.le_of_lt hper)
      omega
  · simp only [h, if_false]
    refine ⟨by first | rfl | trivial, ?_, Int.le_refl _⟩
    simp only [Int.add_zero]
    exact hcur1.symm

theorem burstyPeriods_eq (c : BCfg) (hpp : 0 < c.pp) (hper : 0 < c.period) :
    ∀ (ts : List Int) (s : BSt), BH.Inv c s → (∀ t ∈ ts, 0 ≤ t ∧ s.cur ≤ t / c.period) → ts.Pairwise (· ≤ ·) →
      burstyPeriods c s ts = (BH.run c s ts).map (·.1) := by
  intro ts
  induction ts with
  | nil => intro s _ _ _; simp [burstyPeriods, BH.run]
  | cons t ts ih =>
    intro s hi hall hsorted
    have ht := hall t (by simp)
    have hs := bursty_single c hpp hper s t ht.1 ht.2 hi
    have hr := BH.roll_spec c s t hpp hi ht.2
    have htk := BH.take1_spec c (BH.roll c s t) hpp hr.1
    rw [List.pairwise_cons] at hsorted
    simp only [burstyPeriods, BH.run, List.map_cons]
    rw [hs.2.1, hs.1]
    congr 1
    apply ih _ htk.2.2.2.1
    · intro t' ht'
      refine ⟨(hall t' (by simp [ht'])).1, ?_⟩
      rw [htk.2.2.2.2, hr.2.1]
      exact Int.ediv_le_ediv hper (hsorted.1 t' ht')
    · exact hsorted.2

/-- **the per-period bound**: for every history of single-permit requests at non-decreasing non-negative instants, at
most `pp` permits become usable within any one period `q` -/
theorem bursty_le_pp_per_period (c : BCfg) (hpp : 0 < c.pp) (hper : 0 < c.period)
    (s : BSt) (hi : s.avail ≤ c.pp) (ts : List Int) (hall : ∀ t ∈ ts, 0 ≤ t ∧ s.cur ≤ t / c.period)
    (hsorted : ts.Pairwise (· ≤ ·)) (q : Int) :
    ((burstyPeriods c s ts).filter (fun p => p = q)).length ≤ c.pp.toNat := by
  rw [burstyPeriods_eq c hpp hper ts s hi hall hsorted]
  have := BH.bursty_le_pp_per_period c hpp hper s hi ts (fun t ht => (hall t ht).2) hsorted q
  rw [List.filter_map, List.length_map]
  exact this

/-- **ordinal refinement** (earliest grant): after the roll the next ordinal is `max(previous, cur·pp)`; each permit takes
the next ordinal `G` and becomes usable in period `⌊G/pp⌋` -/
theorem bursty_refines_ordinals (c : BCfg) (hpp : 0 < c.pp) (s : BSt) (hi : s.avail ≤ c.pp) :
    (BH.take1 c s).1 * c.pp ≤ BH.ord c s ∧ BH.ord c s < ((BH.take1 c s).1 + 1) * c.pp ∧
    BH.ord c (BH.take1 c s).2 = BH.ord c s + 1 := by
  have := BH.take1_spec c s hpp hi
  exact ⟨this.1, this.2.1, this.2.2.1⟩

/-- **k at once = k singles** -/
theorem bursty_k_eq_singles (c : BCfg) (s : BSt) (t : Int) (k : Nat) (hk : 1 ≤ k) :
    burstyAcquire c s t k (-1) = singles c t k (0, s) :=
  Failsafe.Limiter.bursty_k_eq_singles c s t k hk

/-- with a max wait: refused iff it must wait and the last single's wait exceeds the max wait; else as without -/
theorem bursty_maxwait (c : BCfg) (s : BSt) (t k mw : Int) :
    burstyAcquire c s t k mw =
      if k > (roll c s t).avail ∧ exceeds (burstyAcquire c s t k (-1)).1 mw = true
      then (-1, roll c s t) else burstyAcquire c s t k (-1) :=
  Failsafe.Limiter.bursty_maxwait c s t k mw

/-- answers of the bursty limiter over a history -/
def burstyRun (c : BCfg) : BSt → List Req → List Int
  | _, [] => []
  | s, r :: rs => (burstyAcquire c s r.t r.k r.mw).1 :: burstyRun c (burstyAcquire c s r.t r.k r.mw).2 rs

/-- **a refusal is unobservable**: every later history (instants not before the refusal) is answered as if the refused
request had never been made -/
theorem bursty_refusal_unobservable (c : BCfg) (hpp : 0 < c.pp) (hper : 0 < c.period) (s : BSt) (t k mw : Int)
    (h0 : 0 ≤ t) (hw : 0 ≤ (burstyAcquire c s t k (-1)).1) (href : (burstyAcquire c s t k mw).1 = -1)
    (later : List Req) (hl : ∀ r ∈ later, t ≤ r.t) (hs : later.Pairwise (fun a b => a.t ≤ b.t)) :
    burstyRun c (burstyAcquire c s t k mw).2 later = burstyRun c s later := by
  rw [bursty_refusal_state c s t k mw hw href]
  cases later with
  | nil => rfl
  | cons r rs =>
    simp only [burstyRun]
    rw [Failsafe.Limiter.bursty_refusal_unobservable c hpp hper s t h0 r.t r.k r.mw (hl r (by simp))]

/-- waits are never negative -/
theorem bursty_wait_nonneg (c : BCfg) (hpp : 0 < c.pp) (hper : 0 < c.period) (s : BSt) (t : Int) (h0 : 0 ≤ t)
    (hcur : s.cur ≤ t / c.period) (hi : s.avail ≤ c.pp) : 0 ≤ (burstyAcquire c s t 1 (-1)).1 :=
  (bursty_single c hpp hper s t h0 hcur hi).2.2

/-! ## Blocking acquire: a timed model of `acquirePermitsWithMaxWait`

The blocking call arms a timer with the computed wait at instant `armed` and returns `nil` only from the timer branch
(FACTS: `limiter_nil_only_from_timer`). The Go runtime never fires a timer early (trusted). -/

inductive BlockOutcome | acquired (at_ : Int) | canceled (at_ : Int) | refused
deriving Repr, DecidableEq

/-- the possible outcomes of a blocking acquire armed at `armed` with wait `w`; `fire` is when the runtime delivers the timer -/
def blockingAcquire (w armed fire : Int) (cancelAt : Option Int) : BlockOutcome :=
  if w = -1 then .refused
  else match cancelAt with
    | some c => if c < fire then .canceled c else .acquired fire
    | none => .acquired fire

/-- **a blocking acquire does not succeed before its wait has elapsed** (given timers never fire early) -/
theorem blocking_acquire_not_early (w armed fire : Int) (cancelAt : Option Int) (hfire : armed + w ≤ fire) (at_ : Int)
    (h : blockingAcquire w armed fire cancelAt = .acquired at_) : armed + w ≤ at_ := by
  unfold blockingAcquire at h
  split at h
  · simp at h
  · split at h
    · split at h
      · simp at h
      · simp only [BlockOutcome.acquired.injEq] at h; omega
    · simp only [BlockOutcome.acquired.injEq] at h; omega

/-! ## Non-vacuity: concrete configurations and states meeting every hypothesis above -/

example : (0:Int) < (SCfg.mk 100).interval ∧ (SSt.mk 300).next = 100 * 3 := by decide
example : smoothRun ⟨100⟩ ⟨0⟩ [⟨0, 1, 0⟩, ⟨10, 1, 0⟩, ⟨10, 2, -1⟩, ⟨250, 1, 0⟩] = [0, -1, 190, -1] := by decide
example : BH.Inv ⟨2, 100⟩ ⟨2, 0⟩ ∧ (0:Int) < 2 ∧ (0:Int) < 100 := by simp [BH.Inv]
example : burstyPeriods ⟨2, 100⟩ ⟨2, 0⟩ [0, 0, 0, 350, 350, 350, 350, 350] = [0, 0, 1, 3, 3, 4, 4, 5] := by decide
/-- the D1 history on the repaired kernel: the 5-permit burst after the idle gap is refused -/
example : (burstyAcquire ⟨2, 100⟩ (burstyAcquire ⟨2, 100⟩ ⟨2, 0⟩ 0 3 (-1)).2 350 5 0).1 = -1 := by decide

end Failsafe.Props.C05
