import Failsafe.Exec
import Failsafe.Lemmas.ExecBodiesLink
/-!
# C11 — cache: a hit skips everything inside it; only cacheable results are stored

All theorems quantify over an arbitrary inner layer and run state.
-/
namespace Failsafe.Props.C11
open Failsafe Failsafe.Exec Failsafe.Classify

/-- the entry the cache policy would read for this execution: none when the effective key is empty -/
def lookup (r : Run) (id : Nat) (key : String) : Option Int :=
  let k := cacheKeyOf r key
  if k != "" then (((r.w.caches[id]?).getD []).find? (·.1 == k)).map (·.2) else none

/-- **a hit skips everything inside**: the cached value is returned with no error and a successful verdict; the result, the
world (every stateful policy inside), the counters and the script are the same **whatever the inner layer is** — it is never
entered; the only event is the hit -/
theorem cache_hit_skips_inner (fuel pos id : Nat) (key : String) (cif : List Nat) (inner : Layer) (r : Run) (v : Int)
    (hhit : lookup r id key = some v) :
    applyPolicy fuel pos (.cache id key cif) inner r = some (⟨v, none, true, true, true⟩, r.emit "ca.onHit" pos) := by
  simp only [applyPolicy, lookup] at *
  by_cases hk : (cacheKeyOf r key != "") = true
  · simp only [hk, if_true] at hhit ⊢
    cases hf : List.find? (fun x => x.1 == cacheKeyOf r key) ((r.w.caches[id]?).getD []) with
    | none => simp [hf] at hhit
    | some kv => simp only [hf, Option.map_some, Option.some.injEq] at hhit; subst hhit; rfl
  · simp [hk] at hhit

/-- corollary: on a hit the function is not invoked and no inner policy is affected -/
theorem cache_hit_world_unchanged (fuel pos id : Nat) (key : String) (cif : List Nat) (inner : Layer) (r : Run) (v : Int)
    (hhit : lookup r id key = some v) (res : PR) (r' : Run)
    (h : applyPolicy fuel pos (.cache id key cif) inner r = some (res, r')) :
    r'.w = r.w ∧ r'.inv = r.inv ∧ r'.script = r.script ∧ r'.attempts = r.attempts ∧ res.val = v ∧ res.err = none := by
  rw [cache_hit_skips_inner fuel pos id key cif inner r v hhit] at h
  simp only [Option.some.injEq, Prod.mk.injEq] at h
  obtain ⟨rfl, rfl⟩ := h
  simp [Run.emit]

/-- the updated cache contents when the policy stores `v` under `k` -/
def stored (r : Run) (id : Nat) (k : String) (v : Int) : Run :=
  { r with w := { r.w with caches := r.w.caches.set id ((k, v) :: ((r.w.caches[id]?).getD []).filter (·.1 != k)) } }

/-- **on a miss the inner result is returned unchanged** (flags included) **and stored iff cacheable and a key exists** -/
theorem cache_miss_spec (fuel pos id : Nat) (key : String) (cif : List Nat) (inner : Layer) (r : Run)
    (hmiss : lookup r id key = none) :
    applyPolicy fuel pos (.cache id key cif) inner r =
      match inner (r.emit "ca.onMiss" pos) with
      | none => none
      | some (res, r1) =>
        if shouldCache cif res && cacheKeyOf r key != "" then
          some (res, (stored r1 id (cacheKeyOf r key) res.val).emit "ca.onCache" pos)
        else some (res, r1) := by
  simp only [applyPolicy, lookup] at *
  have hfind : (if (cacheKeyOf r key != "") = true then
      List.find? (fun x => x.1 == cacheKeyOf r key) ((r.w.caches[id]?).getD []) else none) = none := by
    by_cases hk : (cacheKeyOf r key != "") = true
    · simp only [hk, if_true] at hmiss ⊢
      cases hf : List.find? (fun x => x.1 == cacheKeyOf r key) ((r.w.caches[id]?).getD []) with
      | none => rfl
      | some kv => simp [hf] at hmiss
    · simp [hk]
  rw [hfind]
  rfl

/-- stored **iff** the result carries no error (or satisfies the configured `CacheIf` condition) **and** the key is non-empty -/
theorem cache_store_iff (cif : List Nat) (res : PR) :
    shouldCache cif res = true ↔
      (cif = [] ∧ res.err = none) ∨ (∃ p ∈ cif, predicate p res.outcome = true) := by
  unfold shouldCache
  simp [Option.isNone_iff_eq_none, List.isEmpty_iff]

/-- every `CacheIf` call counts: adding a condition never stops an outcome from being stored that an earlier condition accepts -/
theorem cache_conditions_accumulate (cif : List Nat) (q : Nat) (res : PR) (p : Nat) (hp : p ∈ cif)
    (h : predicate p res.outcome = true) : shouldCache (cif ++ [q]) res = true := by
  rw [cache_store_iff]; exact Or.inr ⟨p, by simp [hp], h⟩

/-- a string key supplied through the context takes precedence over the configured key — even when it is empty -/
theorem ctx_key_precedence (r : Run) (key ck : String) (h : r.ctxKey = some ck) : cacheKeyOf r key = ck := by
  simp [cacheKeyOf, h]

theorem configured_key_without_ctx (r : Run) (key : String) (h : r.ctxKey = none) : cacheKeyOf r key = key := by
  simp [cacheKeyOf, h]

/-- with no key the cache is neither read nor written: the layer is the inner layer plus the miss event -/
theorem no_key_no_io (fuel pos id : Nat) (key : String) (cif : List Nat) (inner : Layer) (r : Run)
    (hk : cacheKeyOf r key = "") :
    applyPolicy fuel pos (.cache id key cif) inner r = inner (r.emit "ca.onMiss" pos) := by
  have hmiss : lookup r id key = none := by simp [lookup, hk]
  rw [cache_miss_spec fuel pos id key cif inner r hmiss]
  cases inner (r.emit "ca.onMiss" pos) with
  | none => rfl
  | some x => simp [hk]

/-- history level: the cache instance behaves like a finite map updated by exactly the stores above — a stored value is what
the next lookup under the same key finds, other keys are untouched -/
theorem stored_lookup (r : Run) (id : Nat) (k : String) (v : Int) (hid : id < r.w.caches.length) (hk : k ≠ "") (key : String)
    (hkey : cacheKeyOf (stored r id k v) key = k) : lookup (stored r id k v) id key = some v := by
  simp only [lookup, hkey]
  have : (k != "") = true := by simpa using hk
  simp only [this, if_true, stored]
  simp [List.getElem?_set, hid]

example : lookup { w := { caches := [[("k1", 5)]] }, script := [] } 0 "k1" = some 5 := by decide
example : lookup { w := { caches := [[("k1", 5)]] }, script := [], ctxKey := some "" } 0 "k1" = none := by decide

/-! ## On the regenerated bodies of the cache executor

`ExecBodies.cachePre / cachePost / getCacheKey` are the reference definitions the bodies of `PreExecute`, `PostExecute` and
`getCacheKey` — regenerated from the source on every run — are proved equal to (`Tie/XCache.lean`); `cache_link` shows that the
model's cache layer computes them. -/
section kernel
open Failsafe.ExecBodies

/-- **a string under `CacheKey` in the context wins over the configured key, even when it is empty**; any other value does not -/
theorem kernel_key_precedence (key : String) :
    (∀ k, getCacheKey ⟨key, some (.str k), some (), some (), some ()⟩ = k) ∧
    getCacheKey ⟨key, some .other, some (), some (), some ()⟩ = key ∧ getCacheKey ⟨key, none, some (), some (), some ()⟩ = key :=
  ⟨fun _ => rfl, rfl, rfl⟩

/-- **a hit**: exactly when the effective key is not empty and the cache holds it; the result is the cached value, no error, final
and a success; otherwise `PreExecute` lets the execution through (and `OnCacheMiss` fires, also without a key) -/
theorem kernel_hit_iff (c : CCfg) (s : CSt) :
    (cachePre c s).1 = (if getCacheKey c != "" then (cacheGet s (getCacheKey c)).map (fun v => ⟨v, none, true, true, true⟩) else none) ∧
    (cachePre c s).2.entries = s.entries := by
  unfold cachePre
  simp only []
  split <;> rename_i h
  · constructor
    · split at h <;> simp_all
    · split <;> rfl
  · constructor
    · split at h <;> simp_all
    · split <;> rfl

/-- **a store**: exactly when the result is cacheable (no conditions and no error, or some condition applies) and the effective key
is not empty; the inner result is returned untouched either way -/
theorem kernel_store_iff (c : CCfg) (s : CSt) (n : Nat) (ca : Bool) (er : PR) :
    (cachePost c s n ca er).1 = er ∧
    (cachePost c s n ca er).2.entries =
      (if ((n == 0 && er.err.isNone) || ca) && getCacheKey c != "" then (getCacheKey c, er.val) :: s.entries.filter (·.1 != getCacheKey c)
       else s.entries) := by
  unfold cachePost
  simp only []
  split
  · exact ⟨rfl, by split <;> rfl⟩
  · exact ⟨rfl, rfl⟩

/-- without a key there is no read and no write -/
theorem kernel_no_key_no_io (c : CCfg) (s : CSt) (n : Nat) (ca : Bool) (er : PR) (h : getCacheKey c = "") :
    (cachePre c s).1 = none ∧ (cachePost c s n ca er).2.entries = s.entries := by
  constructor
  · rw [(kernel_hit_iff c s).1]; simp [h]
  · rw [(kernel_store_iff c s n ca er).2]; simp [h]

/-- **the composition model's cache layer is the code's** -/
theorem model_cache_layer_is_the_codes (fuel pos id : Nat) (key : String) (cif : List Nat) (inner : Layer) (r : Run) :
    applyPolicy fuel pos (.cache id key cif) inner r =
      (let c := Failsafe.Lemmas.ExecBodiesLink.cacheCfg r key
       match (ExecBodies.cachePre c ⟨(r.w.caches[id]?).getD [], []⟩).1 with
       | some hit => some (hit, r.emit "ca.onHit" pos)
       | none =>
         match inner (r.emit "ca.onMiss" pos) with
         | none => none
         | some (res, r2) =>
           let post := ExecBodies.cachePost c ⟨(r2.w.caches[id]?).getD [], []⟩ cif.length (cif.any (fun p => predicate p res.outcome)) res
           some (post.1, if post.2.log = [] then r2
                         else ({ r2 with w := { r2.w with caches := r2.w.caches.set id post.2.entries } }).emit "ca.onCache" pos)) :=
  Failsafe.Lemmas.ExecBodiesLink.cache_link fuel pos id key cif inner r

end kernel

end Failsafe.Props.C11
