import Failsafe.Delay
/-!
# C13 — retry delays stay within their configured envelope

Exact (integer) statements are proved outright. Statements that involve a floating-point product carry the IEEE fact they
need as an explicit hypothesis about the *value produced* (`|addend| ≤ jitter`, `last ≤ scale last factor` …); the
differential slice checks those facts on the real executor's delays (through the `VerifDelaySequence` hook, magnitudes from
microseconds to hours) on every run.
-/
namespace Failsafe.Props.C13
open Failsafe.Delay

/-- every scheduled delay is non-negative -/
theorem delay_nonneg (c : Cfg) (last retries elapsed ranged addend factored : Int) :
    0 ≤ (getDelay c last retries elapsed ranged addend factored).1 := by
  unfold getDelay adjustForMaxDuration
  simp only
  split <;> exact Int.le_max_left 0 _

/-- a delay never extends past the remaining max duration -/
theorem clamped_by_max_duration (c : Cfg) (last retries elapsed ranged addend factored : Int) (hm : c.maxDuration ≠ 0) :
    (getDelay c last retries elapsed ranged addend factored).1 ≤ max 0 (c.maxDuration - elapsed) := by
  unfold getDelay adjustForMaxDuration
  simp only [hm, ne_eq, not_false_eq_true, if_true]
  split <;>
    (apply Int.max_le.2
     exact ⟨Int.le_max_left _ _, Int.le_trans (Int.min_le_right _ _) (Int.le_max_right _ _)⟩)

/-- the un-jittered backoff state never exceeds `maxDelay` once it is a backoff value, and is exactly `delay` otherwise -/
theorem backoff_le_maxDelay (c : Cfg) (last retries ranged : Int) (hd : c.delay ≠ 0) :
    (fixedOrRandom c last retries ranged).2 =
      (if last ≠ 0 ∧ retries ≥ 1 ∧ c.maxDelay ≠ 0 then min (scale last c.delayFactor) c.maxDelay else c.delay) ∧
    (last ≠ 0 ∧ retries ≥ 1 ∧ c.maxDelay ≠ 0 → (fixedOrRandom c last retries ranged).2 ≤ c.maxDelay) := by
  unfold fixedOrRandom
  simp only [hd, ne_eq, not_false_eq_true, if_true]
  refine ⟨by first | trivial | rfl | (split <;> rfl), ?_⟩
  intro h
  rw [if_pos h]
  exact Int.min_le_right _ _

/-- **the k-th consecutive backoff delay is `min(scale^k(delay), maxDelay)`**: the state after `k` backoff steps -/
def backoffSeq (c : Cfg) : Nat → Int
  | 0 => c.delay
  | k + 1 => min (scale (backoffSeq c k) c.delayFactor) c.maxDelay

theorem backoff_sequence (c : Cfg) (hd : c.delay ≠ 0) (hmax : c.maxDelay ≠ 0) (hpos : ∀ k, backoffSeq c k ≠ 0) (ranged : Int) :
    ∀ k : Nat, (fixedOrRandom c (backoffSeq c k) (k + 1) ranged).1 = backoffSeq c (k + 1) := by
  intro k
  unfold fixedOrRandom
  have h1 : (k : Int) + 1 ≥ 1 := by omega
  simp only [hd, ne_eq, not_false_eq_true, if_true, hpos k, hmax, h1, and_self, backoffSeq]

/-- backoff never decreases — given the IEEE fact `last ≤ float32(last)·factor` truncated (true for `factor ≥ 1` up to
the rounding of `float32(last)`, which the differential check bounds) and while below `maxDelay` -/
theorem backoff_monotone (c : Cfg) (last : Int) (hscale : last ≤ scale last c.delayFactor) (hle : last ≤ c.maxDelay) :
    last ≤ min (scale last c.delayFactor) c.maxDelay := by
  exact Int.le_min.2 ⟨hscale, hle⟩

/-- fixed delay: with no backoff configured every delay is exactly `delay` (before jitter / clamp) -/
theorem fixed_exact (c : Cfg) (last retries ranged : Int) (hd : c.delay ≠ 0) (hmax : c.maxDelay = 0) :
    fixedOrRandom c last retries ranged = (c.delay, c.delay) := by
  unfold fixedOrRandom
  simp [hd, hmax]

/-- random delay: the value is the draw in `[delayMin, delayMax]` (envelope: hypothesis on the draw, checked differentially) -/
theorem random_in_range (c : Cfg) (last retries ranged : Int) (hd : c.delay = 0) (hmin : c.delayMin ≠ 0) (hmaxx : c.delayMax ≠ 0)
    (hr : c.delayMin ≤ ranged ∧ ranged ≤ c.delayMax) :
    c.delayMin ≤ (fixedOrRandom c last retries ranged).1 ∧ (fixedOrRandom c last retries ranged).1 ≤ c.delayMax ∧
    (fixedOrRandom c last retries ranged).2 = last := by
  unfold fixedOrRandom
  simp [hd, hmin, hmaxx, hr]

/-- the delay function's value is used when it returns one (≠ -1), before jitter and clamp; the backoff state is untouched -/
theorem delayFn_used (c : Cfg) (last retries elapsed ranged addend factored : Int) (h2 : c.delayFn ≠ -2) (h1 : c.delayFn ≠ -1)
    (hj : c.jitter = 0) (hjf : (c.jitterFactor != 0) = false) (hm : c.maxDuration = 0) (hpos : 0 ≤ c.delayFn) :
    getDelay c last retries elapsed ranged addend factored = (c.delayFn, last) := by
  unfold getDelay adjustForJitter adjustForMaxDuration
  simp only [h2, h1, ne_eq, not_false_eq_true, and_self, if_true, hj, hjf, hm, not_true_eq_false, if_false, Bool.false_eq_true]
  have : max 0 c.delayFn = c.delayFn := Int.max_eq_right hpos
  all_goals first | done | (split <;> simp [this]) | simp [this]

/-- absolute jitter shifts the delay by at most the configured jitter (given the draw's addend is within it) -/
theorem jitter_within (c : Cfg) (d addend factored : Int) (hj : c.jitter ≠ 0) (ha : -c.jitter ≤ addend ∧ addend ≤ c.jitter) :
    d - c.jitter ≤ adjustForJitter c d addend factored ∧ adjustForJitter c d addend factored ≤ d + c.jitter := by
  unfold adjustForJitter
  simp only [hj, ne_eq, not_false_eq_true, if_true]
  omega

/-- **jitter never accumulates into later backoff delays**: the backoff state after a step does not depend on the draws -/
theorem jitter_not_accumulated (c : Cfg) (last retries elapsed ranged : Int) (a1 a2 f1 f2 : Int) :
    (getDelay c last retries elapsed ranged a1 f1).2 = (getDelay c last retries elapsed ranged a2 f2).2 := by
  unfold getDelay
  simp only
  first | done | (split <;> rfl)

/-- the whole un-jittered sequence is a function of the configuration alone -/
def lastSeq (c : Cfg) (draws : Nat → Int × Int × Int) (elapsed : Nat → Int) : Nat → Int
  | 0 => 0
  | k + 1 => (getDelay c (lastSeq c draws elapsed k) k (elapsed k) (draws k).1 (draws k).2.1 (draws k).2.2).2

theorem lastSeq_independent_of_jitter (c : Cfg) (d1 d2 : Nat → Int × Int × Int) (e1 e2 : Nat → Int)
    (hr : ∀ k, (d1 k).1 = (d2 k).1) : ∀ k, lastSeq c d1 e1 k = lastSeq c d2 e2 k := by
  intro k
  induction k with
  | zero => rfl
  | succ n ih =>
    simp only [lastSeq]
    rw [ih]
    unfold getDelay
    simp only
    split
    · rfl
    · rw [hr n]

/-! ## timed model: the next attempt never starts before the scheduled delay has elapsed

The retry loop arms `time.NewTimer(delay)` at instant `armed` and proceeds from the timer branch at `fire ≥ armed + delay`
(Go timers never fire early: trusted) or from the cancellation branch, after which `InitializeRetry` returns the cancel result
and no attempt is started (FACTS: `selects/retry.Apply`, body of `Apply`). -/
inductive Wake | timer (at_ : Int) | cancelled (at_ : Int)

def nextAttemptStart : Wake → Option Int
  | .timer t => some t
  | .cancelled _ => none

theorem attempt_not_before_delay (armed delay fire : Int) (hf : armed + delay ≤ fire) (w : Wake) (hw : w = .timer fire ∨ ∃ t, w = .cancelled t)
    (s : Int) (hs : nextAttemptStart w = some s) : armed + delay ≤ s := by
  rcases hw with rfl | ⟨t, rfl⟩
  · simp [nextAttemptStart] at hs; omega
  · simp [nextAttemptStart] at hs

example : (getDelay { delay := 100, maxDelay := 1000, delayFactor := 2 } 0 0 0 0 0 0).2 = 100 := by
  simp [getDelay, fixedOrRandom]
example : (({ delay := 100, maxDelay := 1000 } : Cfg).delay ≠ 0) := by decide

end Failsafe.Props.C13
