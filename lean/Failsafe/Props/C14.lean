import Failsafe.Conc.Lockset
import Failsafe.Conc.Linearize
import Failsafe.Generated.Facts
/-!
# C14 — shared policies and executors are safe for concurrent use

Three claims. (1) *No data race*: `lock_discipline_orders_accesses` (any number of threads, any trace) shows that accesses made
under a variable's mutex are ordered by happens-before; the access table extracted from the source on every run (FACTS
`accessTable`, compared with the committed expectation) classifies every access to every field of the shared structs as under
the struct's mutex, on an atomic / channel, to an immutable field, or unguarded — and the unguarded ones must be exactly the
justified list below. (2) *No deadlock*: `no_deadlock` for lock graphs without nested acquisition, which FACTS `callsUnderLock`
pins. (3) *Every property above holds for each individual execution*: that is what the interleaving theorems of C02, C04, C06,
C07, C08, C09 and C15 state; the stress runs evaluate their oracles under load.
-/
namespace Failsafe.Props.C14
open Failsafe Failsafe.Conc.Lockset

/-- **(1) lock discipline ⇒ ordered accesses** (restated from `Conc/Lockset.lean` so that the axiom audit covers it) -/
theorem lock_discipline_orders_accesses (L : Nat → Nat) (o : Owners) (p q r : List Ev) (t u x : Nat) (w1 w2 : Bool) (htu : t ≠ u)
    (hv : Valid L o (p ++ [Ev.acc t x w1] ++ q ++ [Ev.acc u x w2] ++ r)) :
    ∃ q1 q2 q3, q = q1 ++ [Ev.rel t (L x)] ++ q2 ++ [Ev.acq u (L x)] ++ q3 :=
  Failsafe.Conc.Lockset.lock_discipline_orders_accesses L o p q r t u x w1 w2 htu hv

/-- in particular the two accesses are never adjacent, and the second thread cannot access `x` while the first still owns the lock -/
theorem no_unordered_pair (L : Nat → Nat) (o : Owners) (p r : List Ev) (t u x : Nat) (w1 w2 : Bool) (htu : t ≠ u) :
    ¬ Valid L o (p ++ [Ev.acc t x w1] ++ [] ++ [Ev.acc u x w2] ++ r) := by
  intro hv
  obtain ⟨q1, q2, q3, h⟩ := Failsafe.Conc.Lockset.lock_discipline_orders_accesses L o p [] r t u x w1 w2 htu hv
  have := congrArg List.length h
  simp at this

/-- The accesses of the shared structs (`execution`, `executionResult`, retry `executor`, `circuitBreaker`, `smoothStats`,
`burstyStats`, `bulkhead`) to *mutable* fields that neither the struct's mutex, an atomic nor a channel guards are exactly these:

* `circuitBreaker.state` in `Reset` — `Reset` is not part of the `CircuitBreaker` interface (it implements the test-only
  `internal/testutil.Resetable`); no concurrent use is documented or exercised;
* the `execution` getters `LastResult`, `LastError`, `AttemptStartTime`, `ElapsedAttemptTime` — they read per-copy fields. The
  writers (`RecordResult`, `InitializeRetry`, `Cancel`) hold `mtx`; user code only ever receives a copy made under `mtx`
  (`execute` copies for the function, listeners get `CopyWithResult`; FACTS `liveExecutionToUserCode`), and the library's own
  calls are the three sites of `getter_call_sites` below;
* the retry executor's `failedAttempts`, `retriesExceeded`, `lastDelay` — one executor per execution (FACTS `executeLoop`) whose
  loop runs on one goroutine at a time, **except** inside a hedge policy, whose attempt goroutines share it: open known finding
  D4 (witness replayed by the check on every run).

A new unguarded access, or a lock removed from a method, changes this list (or the table) and is a broken obligation. -/
theorem unguarded_accesses_are_the_justified_ones :
    Generated.Facts.unguardedAccesses =
      ["circuitBreaker.state Reset R",
       "execution.attemptStartTime AttemptStartTime R", "execution.attemptStartTime ElapsedAttemptTime R",
       "execution.lastError LastError R", "execution.lastResult LastResult R",
       "executor.failedAttempts OnFailure R", "executor.failedAttempts OnFailure W",
       "executor.lastDelay getFixedOrRandomDelay R", "executor.lastDelay getFixedOrRandomDelay W",
       "executor.retriesExceeded Apply R", "executor.retriesExceeded OnFailure R", "executor.retriesExceeded OnFailure W"] := by decide

/-- library call sites of the unlocked getters: the HTTP attempt function and `DelayFunc` receive copies (they sit in user-code
position); the rate limiter reads `LastError` only after receiving from `exec.Canceled()`, which the cancelling `Cancel` call
(which wrote the field under `mtx` before cancelling the context) happens-before -/
theorem getter_call_sites :
    Generated.Facts.unlockedGetterCallSites =
      ["failsafehttp/http.go:.doRequest exec.LastResult", "failsafehttp/policy.go:.DelayFunc exec.LastResult",
       "ratelimiter/ratelimiter.go:rateLimiter.acquirePermitsWithMaxWait exec.LastError"] := by decide

/-- user code never receives the live execution: the only syntactic hit is the breaker's delay function, whose argument is the
copy its caller made (`recordFailure(exec.CopyWithResult(result))`, body fact of the breaker executor's `OnFailure`) -/
theorem live_execution_never_escapes :
    Generated.Facts.liveExecutionToUserCode = ["circuitbreaker/circuitbreaker.go:circuitBreaker.transitionTo cb.ComputeDelay"] := by decide

/-- **(2) lock graph**: the only things that run while one of the library's mutexes is held are the breaker's state-change
listeners (user code; modelling assumption: a listener does not call back into the breaker that invoked it — the event
carries the metrics so that it need not). No library code acquires a second mutex while holding one. -/
theorem calls_under_lock_are_the_listeners :
    Generated.Facts.callsUnderLock = ["circuitBreaker.transitionTo: cb.stateChangedListener", "circuitBreaker.transitionTo: listener"] := by decide

theorem no_deadlock (o : Owners) (w : Waiting) (h : NoNesting o w) (t m : Nat) (hw : w t = some m) :
    o m = none ∨ ∃ u, o m = some u ∧ w u = none :=
  Failsafe.Conc.Lockset.no_deadlock o w h t m hw

/-- **the linearizability verdict of the correspondence check is exact**: the search the driver runs over a recorded concurrent
history (`Conc/Linearize.lean`) returns no state iff no order of the operations exists that respects real time and reproduces
every observed result on the sequential model — so a reported history is never an artefact of the search, and an accepted one
really has a linearization -/
theorem linearizability_verdict_exact {σ : Type} (step : σ → String → σ × String) (m : σ) (ops : List Failsafe.Conc.Linearize.HOp) :
    Failsafe.Conc.Linearize.linearize step (ops.length + 1) m ops = [] ↔ ¬ ∃ m', Failsafe.Conc.Linearize.IsLin step m ops m' :=
  Failsafe.Conc.Linearize.not_linearizable_iff step m ops

/-! ## non-vacuity: a valid two-thread trace with the ordering chain, and an invalid one -/

example : Valid (fun _ => 0) (fun _ => none)
    [.acq 1 0, .acc 1 7 true, .rel 1 0, .acq 2 0, .acc 2 7 false, .rel 2 0] := by
  simp [Valid, ok, apply]

example : ¬ Valid (fun _ => 0) (fun _ => none) [.acq 1 0, .acc 1 7 true, .acc 2 7 false] := by
  simp [Valid, ok, apply]

end Failsafe.Props.C14
