import Failsafe.Breaker
import Failsafe.Lemmas.Clock
import Failsafe.Lemmas.Ring
import Failsafe.Lemmas.Timed
/-!
# C03 — the circuit breaker follows its documented three-state machine

Statements are about `Failsafe.Breaker.*` (executed by the driver against the real breaker through the virtual clock,
decision kernels tied by `Failsafe.Tie.Breaker`). The failure rate is whatever `pct` (the library's float expression)
reports; theorems that depend on it carry the explicit hypothesis they need.
-/
namespace Failsafe.Props.C03
open Failsafe.Breaker

/-! ## Windows -/

/-- **count window**: the bit ring is exactly the last `cap` recorded results, for every capacity and history length:
occupancy, success count and failure count equal those of `h.drop (h.length - cap)`; the evicted entry is the oldest. -/
theorem ring_refines_lastN (cap : Nat) (hcap : 0 < cap) (h : List Bool) :
    let r := h.foldl setNext (Ring.new cap)
    r.occ = min h.length cap ∧
    r.succ = (h.drop (h.length - cap)).count true ∧
    r.fail = (h.drop (h.length - cap)).count false := by
  have hr := Failsafe.Breaker.ring_refines_lastN cap hcap h
  have hsize : (h.foldl setNext (Ring.new cap)).size = cap := by
    have : ∀ (l : List Bool) (r : Ring), (l.foldl setNext r).size = r.size := by
      intro l; induction l with
      | nil => intro r; rfl
      | cons v vs ih => intro r; simp only [List.foldl_cons]; rw [ih]; rfl
    rw [this]; rfl
  refine ⟨?_, ?_, ?_⟩
  · have := hr.occ; rw [hsize] at this; exact this
  · have := hr.succ; rw [hsize] at this; exact this
  · have := hr.fail; rw [hsize] at this; exact this

/-- the `uint` subtractions in `setNext` never truncate: the counter being decremented is positive -/
theorem ring_counts_sum (cap : Nat) (hcap : 0 < cap) (h : List Bool) :
    let r := h.foldl setNext (Ring.new cap)
    r.succ + r.fail = r.occ := by
  have h3 := ring_refines_lastN cap hcap h
  simp only at h3 ⊢
  rw [h3.1, h3.2.1, h3.2.2]
  have : ∀ l : List Bool, l.count true + l.count false = l.length := by
    intro l; induction l with
    | nil => rfl
    | cons x xs ih => cases x <;> simp [List.count_cons] <;> omega
  rw [this, List.length_drop]
  omega

/-- **time window**: for every history of records at non-decreasing slice indices the ten slots hold exactly the per-slice
counts of the slices in `(head-10, head]`, every other slot is empty, and the running summary equals the sum of the slots
(so `summary.remove(bucket)` never underflows). Results older than the period never count; those of the most recent nine
full slices always do. -/
theorem buckets_refine_window (p : Int) (h : Hist) (hs : h.Pairwise (fun a b => a.1 ≤ b.1)) :
    TRep (h.foldl (fun t e => recordAt t e.1 e.2) (Timed.new p)) h :=
  Failsafe.Breaker.buckets_refine_window p h hs

/-! ## Closed state -/

/-- the closed breaker opens on exactly the record after which the threshold holds; otherwise it stays closed and only its
statistics change -/
theorem closed_opens_iff (c : Cfg) (b : B) (now : Int) (v : Bool) (via : Bool) (hb : b.tag = .closed) :
    ((record c b now v via).tag = .opened ↔ closedShouldOpen c (b.stats.record now v) = true) ∧
    (closedShouldOpen c (b.stats.record now v) = false →
      record c b now v via = { b with stats := b.stats.record now v }) := by
  unfold record check
  simp only [hb]
  by_cases h : closedShouldOpen c (b.stats.record now v) = true
  · simp only [h, if_true]
    unfold transition
    simp [hb]
  · simp only [h]
    simp [hb]

/-- the documented meaning of the closed threshold -/
theorem closedShouldOpen_iff (c : Cfg) (s : Stats) :
    closedShouldOpen c s = true ↔
      s.exec ≥ c.fet ∧ ((c.frt ≠ 0 ∧ s.frate ≥ c.frt) ∨ (c.frt = 0 ∧ s.fails ≥ c.ft)) := by
  unfold closedShouldOpen
  simp only [Bool.and_eq_true, Bool.or_eq_true, decide_eq_true_eq, bne_iff_ne, beq_iff_eq, ne_eq]

/-- count-based breaker, from construction: it opens on exactly the record after which the last `cap` results contain at
least `failureThreshold` failures -/
theorem closed_count_opens_iff (c : Cfg) (hper : c.period = 0) (hfrt : c.frt = 0) (hfet : c.fet = 0) (hcap : 0 < c.ftc)
    (h : List Bool) (v : Bool) :
    let s := Stats.ring ((h ++ [v]).foldl setNext (Ring.new c.ftc))
    closedShouldOpen c s = true ↔ ((h ++ [v]).drop ((h ++ [v]).length - c.ftc)).count false ≥ c.ft := by
  simp only
  rw [closedShouldOpen_iff]
  have := ring_refines_lastN c.ftc hcap (h ++ [v])
  simp only at this
  simp only [Stats.exec, Stats.fails, hfrt, hfet]
  rw [this.2.2]
  simp

/-! ## Open state -/

/-- while open and before the delay has elapsed nothing is admitted and nothing changes -/
theorem open_admits_nothing_until (c : Cfg) (b : B) (now : Int) (hb : b.tag = .opened) (h : now - b.start < b.delay) :
    tryAcquire c b now = (b, false) := by
  unfold tryAcquire
  simp only [hb]
  have : ¬ now - b.start ≥ b.delay := by omega
  simp [this]

/-- exactly at `elapsed = delay` (and after) the next permit request half-opens the breaker -/
theorem halfopens_at (c : Cfg) (b : B) (now : Int) (hb : b.tag = .opened) (h : now - b.start ≥ b.delay) :
    (tryAcquire c b now).1.tag = .halfOpen ∧
    ((tryAcquire c b now).2 = true ↔ 0 < halfOpenCap c) ∧
    (tryAcquire c b now).1.events = b.events ++ [⟨.opened, .halfOpen, snapshot b.stats⟩] := by
  unfold tryAcquire
  simp only [hb, h, if_true]
  unfold transition
  simp only [hb]
  by_cases hc : 0 < halfOpenCap c
  · simp [hc]
  · have : halfOpenCap c = 0 := by omega
    simp [this]

/-- remaining delay: exact, zero from `elapsed = delay` on, and zero in the other states -/
theorem remainingDelay_eq (b : B) (now : Int) :
    remaining b now = (if b.tag = .opened then max 0 (b.delay - (now - b.start)) else 0) ∧
    (b.tag = .opened → (remaining b now = 0 ↔ now - b.start ≥ b.delay)) := by
  unfold remaining
  cases hb : b.tag <;> simp
  omega

/-- records while open do not change the state, its start or its delay (they land in the previous state's statistics) -/
theorem open_ignores_records (c : Cfg) (b : B) (now : Int) (v via : Bool) (hb : b.tag = .opened) :
    (record c b now v via).tag = .opened ∧ (record c b now v via).start = b.start ∧
    (record c b now v via).delay = b.delay ∧ (record c b now v via).events = b.events := by
  unfold record check
  simp [hb]

/-- the delay in force is the configured delay, or the delay function's value when the opening failure came through an
execution and the function returned one -/
theorem open_delay (c : Cfg) (b : B) (now : Int) (via : Bool) (hb : b.tag ≠ .opened) :
    (transition c b now .opened via).delay = (if via = true ∧ c.delayFn ≠ -1 then c.delayFn else c.delay) ∧
    (transition c b now .opened via).start = now := by
  unfold transition
  simp only [hb, if_false]
  by_cases h1 : via = true <;> by_cases h2 : c.delayFn = -1 <;> simp [h1, h2]

/-! ## Half-open state -/

/-- a fresh half-open state -/
def enterHalfOpen (c : Cfg) (b : B) (now : Int) : B := transition c b now .halfOpen

/-- record a list of results while the breaker is whatever it is -/
def recordAll (c : Cfg) (b : B) (now : Int) (rs : List Bool) : B := rs.foldl (fun b v => record c b now v) b

/-- `pct f n + pct (n-f) n ≥ 100`: carried as a hypothesis for the rate-threshold half-open case and validated against the
real function by the harness for every capacity it generates -/
def PctComplement (n : Nat) : Prop := ∀ f, f ≤ n → pct f n + pct (n - f) n ≥ 100

/-- the half-open decision is forced once the trial ring is full -/
theorem halfOpen_full_decides (c : Cfg) (wf : c.WF) (r : Ring) (hocc : r.occ = halfOpenCap c) (hsum : r.succ + r.fail = r.occ)
    (hcap : 0 < halfOpenCap c) (hp : c.st = 0 → c.frt ≠ 0 → PctComplement (halfOpenCap c)) :
    (halfOpenDecision c (.ring r)).1 = true ∨ (halfOpenDecision c (.ring r)).2 = true := by
  obtain ⟨hft1, hftc, hfrt, hst, hper, hdel, hfrtp, hperfet, hcount⟩ := wf
  unfold halfOpenDecision
  simp only [Stats.succs, Stats.fails, Stats.exec, Stats.frate, Stats.srate]
  by_cases h1 : c.st ≠ 0
  · rw [if_pos h1]
    have hc : halfOpenCap c = c.stc := by unfold halfOpenCap; rcases hst with ⟨a, b⟩ | ⟨a, b⟩ <;> simp <;> omega
    rcases hst with ⟨a, _⟩ | ⟨a, b⟩
    · omega
    · by_cases hs : r.succ ≥ c.st
      · left; simp [hs]
      · right; simp; omega
  · rw [if_neg h1]
    have hst0 : c.st = 0 := by omega
    have hstc0 : c.stc = 0 := by rcases hst with ⟨_, b⟩ | ⟨a, _⟩ <;> omega
    by_cases h2 : c.frt ≠ 0
    · rw [if_pos h2]
      have hc : c.fet ≤ halfOpenCap c := by
        unfold halfOpenCap; simp only [hstc0]; by_cases hf : c.fet ≠ 0 <;> simp [hf]
        omega
      have hex : r.occ ≥ c.fet := by omega
      have hpc := hp hst0 h2 r.fail (by omega)
      have hsucc : r.succ = halfOpenCap c - r.fail := by omega
      rw [← hsucc, ← hocc] at hpc
      simp only [hex, decide_true, Bool.true_and]
      by_cases hfr : pct r.fail r.occ ≥ c.frt
      · right; simp [hfr]
      · left; simp; omega
    · rw [if_neg h2]
      have hfrt0 : c.frt = 0 := by omega
      have hc : halfOpenCap c = c.ftc ∨ (halfOpenCap c = c.fet ∧ c.fet ≠ 0) := by
        unfold halfOpenCap; simp only [hstc0]; by_cases hf : c.fet ≠ 0 <;> simp [hf]
      by_cases hfl : r.fail ≥ c.ft
      · right; simp [hfl]
      · left
        simp only [decide_eq_true_eq]
        rcases hc with hc | ⟨hc, hne⟩
        · show decide (r.succ > c.ftc - c.ft) = true
          simp only [decide_eq_true_eq]; omega
        · have := hcount hfrt0 hne
          show decide (r.succ > c.ftc - c.ft) = true
          simp only [decide_eq_true_eq]; omega

/-- one record in the half-open state: either it leaves the state, or nothing but the statistics and the permit count
changed and the decision on the new statistics was "undecided" -/
theorem halfOpen_record (c : Cfg) (b : B) (now : Int) (v via : Bool) (hb : b.tag = .halfOpen) :
    ((halfOpenDecision c (b.stats.record now v)).1 = true → (record c b now v via).tag = .closed) ∧
    ((halfOpenDecision c (b.stats.record now v)).1 = false → (halfOpenDecision c (b.stats.record now v)).2 = true →
        (record c b now v via).tag = .opened) ∧
    ((halfOpenDecision c (b.stats.record now v)).1 = false → (halfOpenDecision c (b.stats.record now v)).2 = false →
        record c b now v via = { b with stats := b.stats.record now v, permits := b.permits + 1 }) := by
  unfold record check
  simp only [hb]
  refine ⟨?_, ?_, ?_⟩
  · intro h1; simp only [h1, if_true]; unfold transition; simp [hb]
  · intro h1 h2; simp only [h1, h2]; unfold transition; simp [hb]
  · intro h1 h2; simp only [h1, h2]; simp [hb]

theorem recordAll_cons (c : Cfg) (b : B) (now : Int) (v : Bool) (vs : List Bool) :
    recordAll c b now (v :: vs) = recordAll c (record c b now v) now vs := rfl

/-- while every prefix of the trial results leaves the breaker half-open, its statistics are the ring of those results and
the last decision was "undecided" -/
theorem stays_halfOpen (c : Cfg) (now : Int) :
    ∀ (rs : List Bool) (b : B) (r : Ring), b.tag = .halfOpen → b.stats = .ring r →
      (∀ k, k ≤ rs.length → (recordAll c b now (rs.take k)).tag = .halfOpen) →
      (recordAll c b now rs).stats = .ring (rs.foldl setNext r) ∧
      (rs ≠ [] → halfOpenDecision c (.ring (rs.foldl setNext r)) = (false, false)) := by
  intro rs
  induction rs with
  | nil => intro b r _ hs _; exact ⟨by simpa [recordAll] using hs, by simp⟩
  | cons v vs ih =>
    intro b r hb hs hall
    have h1 := hall 1 (by simp)
    simp only [List.take_succ_cons, List.take_zero] at h1
    have hrec := halfOpen_record c b now v false hb
    have hsr : b.stats.record now v = .ring (setNext r v) := by rw [hs]; rfl
    rw [hsr] at hrec
    have hd : halfOpenDecision c (.ring (setNext r v)) = (false, false) := by
      cases hd1 : (halfOpenDecision c (.ring (setNext r v))).1
      · cases hd2 : (halfOpenDecision c (.ring (setNext r v))).2
        · exact Prod.ext hd1 hd2
        · have := hrec.2.1 hd1 hd2
          simp only [recordAll, List.foldl_cons, List.foldl_nil] at h1
          rw [this] at h1; cases h1
      · have := hrec.1 hd1
        simp only [recordAll, List.foldl_cons, List.foldl_nil] at h1
        rw [this] at h1; cases h1
    have heq := hrec.2.2 (by rw [hd]) (by rw [hd])
    have hb' : (record c b now v).tag = .halfOpen := by rw [heq]; exact hb
    have hs' : (record c b now v).stats = .ring (setNext r v) := by rw [heq]
    have := ih (record c b now v) (setNext r v) hb' hs' (by
      intro k hk
      have := hall (k + 1) (by simp; omega)
      simpa [List.take_succ_cons, recordAll_cons] using this)
    rw [recordAll_cons]
    simp only [List.foldl_cons]
    refine ⟨this.1, ?_⟩
    intro _
    cases vs with
    | nil => simpa using hd
    | cons w ws => exact this.2 (by simp)

/-- **decided within the trial capacity**: from a fresh half-open state, whatever the trial results are, the breaker has
closed or re-opened after at most `capacity` of them (rate thresholds: under `PctComplement`) -/
theorem halfopen_decides_within_capacity (c : Cfg) (wf : c.WF) (hcap : 0 < halfOpenCap c)
    (hp : c.st = 0 → c.frt ≠ 0 → PctComplement (halfOpenCap c)) (b : B) (hb : b.tag ≠ .halfOpen) (now : Int)
    (rs : List Bool) (hlen : rs.length = halfOpenCap c) :
    ∃ k, k ≤ halfOpenCap c ∧ (recordAll c (enterHalfOpen c b now) now (rs.take k)).tag ≠ .halfOpen := by
  have hfresh : (enterHalfOpen c b now).tag = .halfOpen ∧ (enterHalfOpen c b now).stats = .ring (Ring.new (halfOpenCap c)) := by
    unfold enterHalfOpen transition; simp [hb]
  by_cases hall : ∀ k, k ≤ rs.length → (recordAll c (enterHalfOpen c b now) now (rs.take k)).tag = .halfOpen
  · exfalso
    have hst := stays_halfOpen c now rs _ _ hfresh.1 hfresh.2 hall
    have hne : rs ≠ [] := by intro h; rw [h] at hlen; simp at hlen; omega
    have hdec := hst.2 hne
    have h3 := ring_refines_lastN (halfOpenCap c) hcap rs
    have hsum := ring_counts_sum (halfOpenCap c) hcap rs
    simp only at h3 hsum
    have hocc : (rs.foldl setNext (Ring.new (halfOpenCap c))).occ = halfOpenCap c := by rw [h3.1, hlen]; simp
    have := halfOpen_full_decides c wf _ hocc hsum hcap hp
    rw [hdec] at this
    simp at this
  · have : ∃ k, k ≤ rs.length ∧ (recordAll c (enterHalfOpen c b now) now (rs.take k)).tag ≠ .halfOpen := by
      by_cases hex : ∃ k, k ≤ rs.length ∧ (recordAll c (enterHalfOpen c b now) now (rs.take k)).tag ≠ .halfOpen
      · exact hex
      · exfalso; apply hall; intro k hk
        by_cases ht : (recordAll c (enterHalfOpen c b now) now (rs.take k)).tag = .halfOpen
        · exact ht
        · exact absurd ⟨k, hk, ht⟩ hex
    obtain ⟨k, hk, hne⟩ := this
    exact ⟨k, by omega, hne⟩

/-- a trial that is admitted takes one permit; recording its result, whatever it is, gives the permit back while the state
stays half-open -/
theorem trial_permit_roundtrip (c : Cfg) (b : B) (now : Int) (v via : Bool) (hb : b.tag = .halfOpen) (hp : 0 < b.permits) :
    (tryAcquire c b now).2 = true ∧ (tryAcquire c b now).1.permits = b.permits - 1 ∧
    ((record c (tryAcquire c b now).1 now v via).tag = .halfOpen →
      (record c (tryAcquire c b now).1 now v via).permits = b.permits) := by
  have ht : tryAcquire c b now = ({ b with permits := b.permits - 1 }, true) := by
    unfold tryAcquire; simp [hb, hp]
  rw [ht]
  refine ⟨rfl, rfl, ?_⟩
  intro hstay
  have hb' : ({ b with permits := b.permits - 1 } : B).tag = .halfOpen := hb
  have hrec := halfOpen_record c { b with permits := b.permits - 1 } now v via hb'
  cases hd1 : (halfOpenDecision c (({ b with permits := b.permits - 1 } : B).stats.record now v)).1
  · cases hd2 : (halfOpenDecision c (({ b with permits := b.permits - 1 } : B).stats.record now v)).2
    · rw [hrec.2.2 hd1 hd2]; simp only; omega
    · rw [hrec.2.1 hd1 hd2] at hstay; cases hstay
  · rw [hrec.1 hd1] at hstay; cases hstay

/-! ## Events -/

/-- the events emitted so far form a connected path from `closed` to the current state, never a self-loop -/
def PathTo : Tag → List Event → Prop
  | tag, [] => tag = .closed
  | tag, evs@(_ :: _) => (evs.getLast?.map (·.new)) = some tag

def Chain : Tag → List Event → Prop
  | _, [] => True
  | from_, e :: es => e.old = from_ ∧ e.old ≠ e.new ∧ Chain e.new es

def endOf : Tag → List Event → Tag
  | from_, [] => from_
  | _, e :: es => endOf e.new es

theorem chain_append (from_ : Tag) (es : List Event) (e : Event) (h : Chain from_ es) (ho : e.old = endOf from_ es)
    (hne : e.old ≠ e.new) : Chain from_ (es ++ [e]) ∧ endOf from_ (es ++ [e]) = e.new := by
  induction es generalizing from_ with
  | nil =>
    simp only [List.nil_append, Chain, endOf] at *
    refine ⟨⟨ho, hne, trivial⟩, ?_⟩
    first | rfl | trivial
  | cons x xs ih =>
    simp only [List.cons_append, Chain, endOf] at *
    have := ih x.new h.2.2 ho
    exact ⟨⟨h.1, h.2.1, this.1⟩, this.2⟩

/-- invariant: the event log is a connected path from `closed` ending in the current state -/
def EvInv (b : B) : Prop := Chain .closed b.events ∧ endOf .closed b.events = b.tag

theorem transition_evinv (c : Cfg) (b : B) (now : Int) (new : Tag) (via : Bool) (h : EvInv b) :
    EvInv (transition c b now new via) ∧
    (b.tag ≠ new → (transition c b now new via).events = b.events ++ [⟨b.tag, new, snapshot b.stats⟩] ∧
                    (transition c b now new via).tag = new) ∧
    (b.tag = new → transition c b now new via = b) := by
  unfold transition
  by_cases he : b.tag = new
  · simp [he, h]
  · simp only [he, if_false]
    have hc := chain_append .closed b.events ⟨b.tag, new, snapshot b.stats⟩ h.1 h.2.symm he
    cases new <;> simp_all [EvInv]

theorem evinv_permits (b : B) (n : Nat) (h : EvInv b) : EvInv { b with permits := n } := h

theorem evinv_bump (b1 : B) (h : EvInv b1) :
    EvInv (if b1.tag = .halfOpen then { b1 with permits := b1.permits + 1 } else b1) := by
  split
  · exact evinv_permits b1 _ h
  · exact h

theorem check_evinv (c : Cfg) (b : B) (now : Int) (via : Bool) (h : EvInv b) : EvInv (check c b now via) := by
  unfold check
  split
  · split
    · exact (transition_evinv c b now .opened via h).1
    · exact h
  · exact h
  · simp only
    apply evinv_bump
    split
    · exact (transition_evinv c b now .closed false h).1
    · split
      · exact (transition_evinv c b now .opened via h).1
      · exact h

theorem record_evinv (c : Cfg) (b : B) (now : Int) (v via : Bool) (h : EvInv b) : EvInv (record c b now v via) := by
  unfold record
  exact check_evinv c _ now via (by simpa [EvInv] using h)

theorem tryAcquire_evinv (c : Cfg) (b : B) (now : Int) (h : EvInv b) : EvInv (tryAcquire c b now).1 := by
  unfold tryAcquire
  split
  · exact h
  · have ht := (transition_evinv c b now .halfOpen false h).1
    by_cases hd : now - b.start ≥ b.delay
    · simp only [hd, if_true]
      by_cases hp : (transition c b now .halfOpen).permits > 0
      · simp only [hp, if_true]; exact evinv_permits _ _ ht
      · simp only [hp, if_false]; exact ht
    · simp only [hd, if_false]; exact h
  · by_cases hp : b.permits > 0
    · simp only [hp, if_true]; exact evinv_permits _ _ h
    · simp only [hp, if_false]; exact h

/-- the public operations of the breaker -/
inductive Op
  | adv (d : Int) | record (v : Bool) (via : Bool) | try_ | open_ | halfOpen_ | close_

def apply (c : Cfg) (bn : B × Int) : Op → B × Int
  | .adv d => (bn.1, bn.2 + d)
  | .record v via => (record c bn.1 bn.2 v via, bn.2)
  | .try_ => ((tryAcquire c bn.1 bn.2).1, bn.2)
  | .open_ => (transition c bn.1 bn.2 .opened, bn.2)
  | .halfOpen_ => (transition c bn.1 bn.2 .halfOpen, bn.2)
  | .close_ => (transition c bn.1 bn.2 .closed, bn.2)

/-- **events form a connected path**: for every history of operations, the state-change events emitted (each carrying the
metrics of the state it leaves, see `transition_evinv`) start at `closed`, each event's old state is the previous event's
new state, no event is a self-loop, and the last event's new state is the current state -/
theorem events_connected_path (c : Cfg) (t0 : Int) (ops : List Op) :
    EvInv (ops.foldl (apply c) (B.new c, t0)).1 := by
  suffices ∀ (bn : B × Int), EvInv bn.1 → EvInv (ops.foldl (apply c) bn).1 from
    this (B.new c, t0) ⟨trivial, rfl⟩
  induction ops with
  | nil => intro bn h; exact h
  | cons op ops ih =>
    intro bn h
    simp only [List.foldl_cons]
    apply ih
    cases op with
    | adv d => exact h
    | record v via => exact record_evinv c bn.1 bn.2 v via h
    | try_ => exact tryAcquire_evinv c bn.1 bn.2 h
    | open_ => exact (transition_evinv c bn.1 bn.2 .opened false h).1
    | halfOpen_ => exact (transition_evinv c bn.1 bn.2 .halfOpen false h).1
    | close_ => exact (transition_evinv c bn.1 bn.2 .closed false h).1

/-! ## Non-vacuity -/

example : (⟨2, 0, 3, 0, 0, 1, 2, 50, -1⟩ : Cfg).WF := by decide
example : (⟨1, 40, 1, 4, 100, 0, 0, 50, -1⟩ : Cfg).WF := by decide
/-- two failures out of the last three open a ratio breaker; it stays open for exactly the delay; one trial success closes -/
example :
    let c : Cfg := ⟨2, 0, 3, 0, 0, 1, 1, 50, -1⟩
    let b1 := record c (record c (record c (B.new c) 0 false) 0 true) 0 false
    b1.tag = .opened ∧ (tryAcquire c b1 49).2 = false ∧ (tryAcquire c b1 50).2 = true ∧
    (record c (tryAcquire c b1 50).1 50 true).tag = .closed := by decide

/-! ## Inside policy compositions the breaker is only ever driven at non-decreasing instants

The theorems above take operation sequences at non-decreasing clock values. In the composition model time passes *during* an
execution (an invocation of the wrapped function may advance the clock, `Exec.Item.adv`); the clock a breaker or rate limiter is
consulted with never goes back, for every policy list and every layer of it. -/

/-- **the clock never goes back during an execution**: if every remaining invocation advances the clock by a non-negative amount,
every layer of every stack leaves the clock at or after where it found it (and that hypothesis still holds afterwards, so the
statement chains over successive executions) -/
theorem composition_clock_monotone (fuel : Nat) (ps : List Failsafe.Exec.Policy) (pos : Nat) (r : Failsafe.Exec.Run) (res : Failsafe.PR)
    (r' : Failsafe.Exec.Run) (h : Failsafe.Exec.executeStack fuel pos ps r = some (res, r')) (hnn : Failsafe.Lemmas.Clock.NN r) :
    r.w.now ≤ r'.w.now ∧ Failsafe.Lemmas.Clock.NN r' :=
  Failsafe.Lemmas.Clock.executeStack_clock fuel ps pos r res r' h hnn

/-- the same for whatever a single policy wraps: a layer whose inside never turns the clock back does not either -/
theorem layer_clock_monotone (t0 : Int) (fuel pos : Nat) (p : Failsafe.Exec.Policy) (inner : Failsafe.Exec.Layer)
    (hi : Failsafe.Lemmas.Clock.Preserves t0 inner) : Failsafe.Lemmas.Clock.Preserves t0 (Failsafe.Exec.applyPolicy fuel pos p inner) :=
  Failsafe.Lemmas.Clock.applyPolicy_preserves t0 fuel pos p inner hi

end Failsafe.Props.C03
