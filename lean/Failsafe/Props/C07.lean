import Failsafe.Conc.Timeout
import Failsafe.Conc.TraceTimeout
import Failsafe.Exec
/-!
# C07 — the timeout outcome is exclusive and consistent, and never early

For **every interleaving** of the timer callback with the function returning (the model's actions may be scheduled in any
order), for functions that return on their own and for functions that only return on cancellation.
-/
namespace Failsafe.Props.C07
open Failsafe.Conc Failsafe.Conc.Timeout

theorem reach_closed_false : closedB (sys false) (reach false) = true := by decide
theorem reach_closed_true : closedB (sys true) (reach true) = true := by decide

/-- **exclusive and consistent**: in every reachable state in which the call has returned and the timer side is quiet, either
the inner result was returned, the listener was never called and the execution is not cancelled by the Timeout; or
`ErrExceeded` was returned, the listener was called exactly once and the execution is cancelled -/
theorem timeout_exclusive (fnBlocks : Bool) (s : St) (h : Reachable (sys fnBlocks) s) : exclusive s = true := by
  cases fnBlocks
  · exact invariant_of_closed (sys false) (reach false) exclusive reach_closed_false (by decide) s h
  · exact invariant_of_closed (sys true) (reach true) exclusive reach_closed_true (by decide) s h

/-- **safety at every instant** (not only at the end): at most one listener call, only together with the timeout result;
cancellation by the Timeout only after its listener; `ErrExceeded` never before the limit elapsed; an inner result never
together with a listener call -/
theorem timeout_safe (fnBlocks : Bool) (s : St) (h : Reachable (sys fnBlocks) s) : safe s = true := by
  cases fnBlocks
  · exact invariant_of_closed (sys false) (reach false) safe reach_closed_false (by decide) s h
  · exact invariant_of_closed (sys true) (reach true) safe reach_closed_true (by decide) s h

/-- **never early** -/
theorem timeout_not_early (fnBlocks : Bool) (s : St) (h : Reachable (sys fnBlocks) s) (hr : s.ret = .exceeded) :
    s.elapsed = true := by
  have := timeout_safe fnBlocks s h
  simp only [safe, Bool.and_eq_true, Bool.or_eq_true, bne_iff_ne, ne_eq] at this
  rcases this.1.1.1.2 with h1 | h1
  · exact absurd hr (by simpa using h1)
  · exact h1

/-- **a function that only returns on cancellation always ends in `ErrExceeded`** (whenever the call returns at all) -/
theorem blocked_fn_times_out (s : St) (h : Reachable (sys true) s) (hd : s.main = .done) : s.ret = .exceeded := by
  have hs := timeout_safe true s h
  have hblk : ∀ s, Reachable (sys true) s → s.fnBlocks = true := by
    intro s hr
    induction hr with
    | init => rfl
    | step s s' a _ _ hst ih =>
      cases a <;> simp only [sys, step] at hst <;> (repeat' (split at hst)) <;>
        first | (cases hst; done) | (simp only [Option.some.injEq] at hst; subst hst; exact ih)
  have : (reach true).all (fun s => !(s.main == .done) || s.ret == .exceeded) = true := by decide
  have := invariant_of_closed (sys true) (reach true) _ reach_closed_true this s h
  simpa [hd] using this

/-- the limit applies afresh to each attempt when a retry encloses the Timeout: every `Apply` call arms its own timer — in the
composition model each application of the timeout layer opens a new cancel scope (`Exec.applyPolicy … .timeout`) -/
theorem fresh_state_per_apply : (sys false).init.elapsed = false ∧ (sys false).init.timer = .armed ∧ (sys false).init.cell = .empty :=
  ⟨rfl, rfl, rfl⟩

/-- non-vacuity: both outcomes are reachable, and the race state (callback fired, function returned) as well -/
example : (reach false).any (fun s => s.main == .done && s.ret == .inner) = true := by decide
example : (reach false).any (fun s => s.main == .done && s.ret == .exceeded && s.listener == 1) = true := by decide
example : (reach false).any (fun s => s.timer == .fired && s.main == .returned) = true := by decide
example : (reach false).length = 26 := by decide

/-! ## The Timeout layer inside a composition (`Exec.applyPolicy … .timeout`)

The interleaving model above is one application of a Timeout. In the composition model every application opens its own cancel
scope; these theorems are about an arbitrary inner layer, so they cover every placement of the Timeout. -/
section Composition
open Failsafe Failsafe.Exec

/-- the cancel scope of a Timeout is local to one application: whatever happened inside (also when it fired), afterwards the
enclosing scope's cancellation state and last outcome are what they were. With a retry policy around the Timeout the next
attempt therefore starts uncancelled: **the limit applies afresh to each attempt**. -/

theorem timeout_scope_local (fuel pos : Nat) (inner : Layer) (r r' : Run) (res : PR)
    (h : applyPolicy fuel pos .timeout inner r = some (res, r')) :
    r'.cancelled = r.cancelled ∧ r'.inTimeout = r.inTimeout ∧ r'.timeoutPos = r.timeoutPos ∧ r'.last = r.last := by
  simp only [applyPolicy] at h
  split at h
  · cases h
  · rename_i res0 r0 _
    split at h
    · cases h; exact ⟨rfl, rfl, rfl, rfl⟩
    · (repeat' (split at h)) <;> (cases h; exact ⟨rfl, rfl, rfl, rfl⟩)

/-- **exclusive outcomes in the composition**: the application returns the timeout result exactly when its own scope was
cancelled, and otherwise the inner result's value and error unchanged -/
theorem timeout_outcome_cases (fuel pos : Nat) (inner : Layer) (r r' : Run) (res : PR)
    (h : applyPolicy fuel pos .timeout inner r = some (res, r')) :
    ∃ res0 r0, inner { r with inTimeout := true, cancelled := false, timeoutPos := pos } = some (res0, r0) ∧
      ((r0.cancelled = true ∧ res = timeoutResult.withFailure) ∨
       (r0.cancelled = false ∧ res.val = res0.val ∧ res.err = res0.err)) := by
  simp only [applyPolicy] at h
  split at h
  · cases h
  · rename_i res0 r0 hin
    refine ⟨res0, r0, hin, ?_⟩
    split at h
    · rename_i hf; cases h; exact Or.inl ⟨hf, rfl⟩
    · rename_i hf
      have hf' : r0.cancelled = false := by simpa using hf
      (repeat' (split at h)) <;> (cases h; exact Or.inr ⟨hf', rfl, rfl⟩)

/-- a cancellation from outside that is pending once a Timeout application has returned is reported with its own cause: an
earlier attempt's `ErrExceeded` is never what a later cancellation reports -/
theorem later_cancellation_reports_its_cause (fuel pos : Nat) (inner : Layer) (r r' : Run) (res : PR) (e : Err)
    (h : applyPolicy fuel pos .timeout inner r = some (res, r')) (hc : r.cancelled = false) (he : r'.ext = some e) :
    r'.isCanc = true ∧ r'.cancelRes = failureResult e := by
  have hl := (timeout_scope_local fuel pos inner r r' res h).1
  constructor
  · simp [Run.isCanc, he]
  · simp [Run.cancelRes, hl, hc, he]

/-- non-vacuity: an inner layer whose scope was cancelled (the Timeout fired): the application returns the timeout result and the
enclosing scope is uncancelled afterwards -/
example : ∃ res r', applyPolicy 0 3 .timeout (fun r => some (fnResult 7 none, { r with cancelled := true }))
    { w := {}, script := [] } = some (res, r') ∧ r'.cancelled = false ∧ res = timeoutResult.withFailure := ⟨_, _, rfl, rfl, rfl⟩

end Composition

/-! ## TRACE tie: recorded runs of the real Timeout are replayed through the model

`TraceTimeout.osys` is `Conc.Timeout` plus observation points (what user code can see). The acceptor `Trace.accepts` is exact
(`Trace.accepts_iff`): a recorded event list is accepted iff some interleaving of the model shows it. The theorems below say what
acceptance implies — they are the observable part of C07, proved for **every** accepted trace. -/
section trace
open Failsafe.Conc.TraceTimeout

/-- every model state an accepted trace can end in is a reachable state of `Conc.Timeout`: all theorems above apply to it -/
theorem accepted_states_reachable (fuel : Nat) (tr : List Ev) (Y : List St) (h : Trace.accepts osys fuel tr = some Y) (t : St) (ht : t ∈ Y) :
    Reachable (sys false) t :=
  reach_core t (Trace.accepted_state_reachable osys fuel tr Y h t ht)

/-- **the final sample of an accepted trace is one of the two legal outcomes**: inner result, no listener call, not cancelled — or
`ErrExceeded`, exactly one listener call, cancelled -/
theorem final_sample_exclusive (s : St) (hr : Trace.Reach osys s) (k : Nat) (c : Bool)
    (hst : TraceTimeout.step s .final = some s) (hsh : shows s .final (.final k c) = true) :
    (s.ret = .inner ∧ k = 0 ∧ c = false) ∨ (s.ret = .exceeded ∧ k = 1 ∧ c = true) := by
  have hx := timeout_exclusive false s (reach_core s hr)
  simp only [TraceTimeout.step] at hst
  split at hst
  · rename_i hq
    simp only [shows, Bool.and_eq_true, beq_iff_eq] at hsh
    simp only [exclusive, hq.1, hq.2, beq_self_eq_true, Bool.and_self, ↓reduceIte, Bool.or_eq_true, Bool.and_eq_true, beq_iff_eq,
      Bool.not_eq_true'] at hx
    rcases hx with ⟨⟨h1, h2⟩, h3⟩ | ⟨⟨h1, h2⟩, h3⟩
    · exact Or.inl ⟨h1, by omega, by rw [← hsh.2]; exact h3⟩
    · exact Or.inr ⟨h1, by omega, by rw [← hsh.2]; exact h3⟩
  · cases hst

theorem timer_past_armed_elapsed (s : St) (h : Reachable (sys false) s) (ht : s.timer ≠ .armed) : s.elapsed = true := by
  have : (reach false).all (fun s => s.timer == .armed || s.elapsed) = true := by decide
  have := invariant_of_closed (sys false) (reach false) _ reach_closed_false this s h
  simp only [Bool.or_eq_true, beq_iff_eq] at this
  rcases this with h1 | h1
  · exact absurd h1 ht
  · exact h1

/-- **never early, on traces**: a listener call or an `ErrExceeded` return stamped before the limit can have elapsed is shown by no
state of the model — a recorded run containing one is rejected -/
theorem early_listener_impossible (s s' : St) (hr : Trace.Reach osys s)
    (hst : TraceTimeout.step s (.core .cbListener) = some s') : shows s (.core .cbListener) (.listener true) = false := by
  have hreach := reach_core s hr
  simp only [TraceTimeout.step, Timeout.step] at hst
  split at hst
  · rename_i hw
    have := timer_past_armed_elapsed s hreach (by rw [hw]; decide)
    simp [shows, earlyOk, this]
  · cases hst

theorem early_exceeded_impossible (s : St) (hr : Trace.Reach osys s) :
    shows s .callerRet (.callerRet .exceeded true) = false := by
  have hreach := reach_core s hr
  by_cases h : s.ret = .exceeded
  · have := timeout_not_early false s hreach h
    simp [shows, earlyOk, this]
  · simp [shows, h]

/-- a cancellation the function observes before the limit elapsed is not the Timeout's doing: the model never shows it -/
theorem early_cancellation_impossible (s : St) (hr : Trace.Reach osys s) :
    shows s .seeCancelled (.seeCancelled true true) = false := by
  have hs := timeout_safe false s (reach_core s hr)
  by_cases hc : s.cancelled = true
  · have : (reach false).all (fun s => !s.cancelled || s.elapsed) = true := by decide
    have := invariant_of_closed (sys false) (reach false) _ reach_closed_false this s (reach_core s hr)
    simp only [hc, Bool.not_true, Bool.false_or] at this
    simp [shows, earlyOk, this]
  · simp [shows, hc]

def isListenerEv : Ev → Bool | .listener _ => true | _ => false

/-- the model's listener counter is the number of `listener` events shown: along any run -/
theorem listener_count_is_events (a b : St) (tr : List Ev) (h : Trace.Run osys a tr b) :
    b.listener = a.listener + (tr.filter isListenerEv).length := by
  induction h with
  | nil s => simp
  | silent s s' s'' x tr hm hs hst _ ih =>
    have hl : s'.listener = s.listener := by
      cases x with
      | core c =>
        cases c <;> simp only [osys, TraceTimeout.step, Timeout.step] at hst <;> (try (simp [osys, silent] at hs; done)) <;>
          (repeat' (split at hst)) <;> first | (cases hst; done) | (simp only [Option.some.injEq] at hst; subst hst; rfl)
      | seeCancelled => simp [osys, silent] at hs
      | callerRet => simp [osys, silent] at hs
      | final => simp [osys, silent] at hs
    rw [ih, hl]
  | vis s s' s'' x e tr hm hs hsh hst _ ih =>
    cases x with
    | core c =>
      cases c with
      | cbListener =>
        have hl : s'.listener = s.listener + 1 := by
          simp only [osys, TraceTimeout.step, Timeout.step] at hst
          split at hst
          · simp only [Option.some.injEq] at hst; subst hst; rfl
          · cases hst
        have he : isListenerEv e = true := by
          cases e <;> simp [osys, shows] at hsh <;> rfl
        rw [ih, hl]; simp [List.filter_cons, he]; omega
      | fnReturn =>
        have hl : s'.listener = s.listener := by
          simp only [osys, TraceTimeout.step, Timeout.step] at hst
          split at hst
          · simp only [Option.some.injEq] at hst; subst hst; rfl
          · cases hst
        have he : isListenerEv e = false := by
          cases e <;> simp [osys, shows] at hsh <;> rfl
        rw [ih, hl]; simp [List.filter_cons, he]
      | tick => simp [osys, silent] at hs
      | mainCAS => simp [osys, silent] at hs
      | mainPost => simp [osys, silent] at hs
      | fire => simp [osys, silent] at hs
      | cbCAS => simp [osys, silent] at hs
      | cbCancel => simp [osys, silent] at hs
    | seeCancelled =>
      have he : isListenerEv e = false := by cases e <;> simp [osys, shows] at hsh <;> rfl
      have hl : s' = s := by simp only [osys, TraceTimeout.step] at hst; split at hst <;> simp_all
      rw [ih, hl]; simp [List.filter_cons, he]
    | callerRet =>
      have he : isListenerEv e = false := by cases e <;> simp [osys, shows] at hsh <;> rfl
      have hl : s' = s := by simp only [osys, TraceTimeout.step] at hst; split at hst <;> simp_all
      rw [ih, hl]; simp [List.filter_cons, he]
    | final =>
      have he : isListenerEv e = false := by cases e <;> simp [osys, shows] at hsh <;> rfl
      have hl : s' = s := by simp only [osys, TraceTimeout.step] at hst; split at hst <;> simp_all
      rw [ih, hl]; simp [List.filter_cons, he]

/-- **on traces**: in every trace the model can show — hence in every recorded run the acceptor accepts — that ends with the final
sample, the number of `OnTimeoutExceeded` calls *in the trace* is 0 when the inner result was returned and exactly 1 when
`ErrExceeded` was, and the sample agrees with it -/
theorem trace_listener_calls_match_outcome (tr : List Ev) (k : Nat) (c : Bool) (t : St)
    (h : Trace.Run osys osys.init (tr ++ [Ev.final k c]) t) :
    k = (tr.filter isListenerEv).length ∧ ((k = 0 ∧ c = false) ∨ (k = 1 ∧ c = true)) := by
  obtain ⟨b, hb1, hb2⟩ := Trace.Run.split_append tr [Ev.final k c] h
  obtain ⟨s, s', x, htau, hx, hsil, hsh, hst, _⟩ := Trace.Run.single_vis hb2
  have hrun : Trace.Run osys osys.init tr s := by
    have := Trace.Run.append hb1 (Trace.Run.of_tau htau (Trace.Run.nil s))
    simpa using this
  have hreach : Trace.Reach osys s := Trace.Run.reach hrun Trace.Reach.init
  have hcount := listener_count_is_events osys.init s tr hrun
  cases x with
  | final =>
    have hss : s' = s := by simp only [osys, TraceTimeout.step] at hst; split at hst <;> simp_all
    rw [hss] at hst
    have hk : s.listener = k := by
      have h0 : shows s .final (.final k c) = true := hsh
      simp only [shows, Bool.and_eq_true, beq_iff_eq] at h0
      exact h0.1
    have hex := final_sample_exclusive s hreach k c hst hsh
    refine ⟨by rw [← hk, hcount]; simp [osys], ?_⟩
    rcases hex with ⟨_, h2, h3⟩ | ⟨_, h2, h3⟩
    · exact Or.inl ⟨h2, h3⟩
    · exact Or.inr ⟨h2, h3⟩
  | core cc => cases cc <;> simp [osys, shows] at hsh
  | seeCancelled => simp [osys, shows] at hsh
  | callerRet => simp [osys, shows] at hsh

/-- non-vacuity: both outcomes are accepted, and the forbidden mixtures are rejected (decided by running the acceptor) -/
example : (Trace.accepts osys 20 [.fnRet true, .callerRet .inner true, .final 0 false]).map (·.isEmpty) = some false := by decide
example : (Trace.accepts osys 20 [.listener false, .seeCancelled true false, .fnRet false, .callerRet .exceeded false, .final 1 true]).map (·.isEmpty) = some false := by decide
example : (Trace.accepts osys 20 [.fnRet false, .listener false, .callerRet .inner false, .final 1 true]).map (·.isEmpty) = some true := by decide
example : (Trace.accepts osys 20 [.listener true, .fnRet false, .callerRet .exceeded false, .final 1 true]).map (·.isEmpty) = some true := by decide

end trace

end Failsafe.Props.C07
