import Failsafe.Conc.Bulkhead
/-!
# C06 — the bulkhead never exceeds its concurrency limit and never loses permits

For every number of executions, every schedule (list of actions) and every mix of outcomes, cancellations and timeouts while
waiting for or holding a permit. The sequential behaviour inside policy stacks is covered by the composition model (C01).
-/
namespace Failsafe.Props.C06
open Failsafe.Conc.Bulkhead

/-- reachable states: any schedule from an initial state with all threads idle and no permit taken -/
def init (cap n : Nat) : St := ⟨cap, 0, 0, List.replicate n .idle⟩

theorem init_inv (cap n : Nat) : Failsafe.Conc.Bulkhead.Inv (init cap n) := by
  simp [Failsafe.Conc.Bulkhead.Inv, init, holders, List.count_replicate]

/-- **at no instant are more than `maxConcurrency` executions in progress, standalone permits included**, for every schedule
and any number of threads -/
theorem inflight_le_cap (cap n : Nat) (as : List Act) (s' : St)
    (h : as.foldlM (m := Option) step (init cap n) = some s') :
    holders s'.ths + s'.ext ≤ s'.cap ∧ s'.held = holders s'.ths + s'.ext := by
  have := inv_run (init cap n) as (init_inv cap n) s' h
  exact ⟨by rw [← this.1]; exact this.2, this.1⟩

/-- **every admitted execution returns its permit exactly once**: `finish` is only enabled while holding, and it leaves the
thread in a terminal state in which nothing is enabled for it any more -/
theorem release_exactly_once (s s' : St) (i : Nat) (h : step s (.finish i) = some s') :
    s.ths[i]? = some .holding ∧ s'.held = s.held - 1 ∧ step s' (.finish i) = none := by
  simp only [step] at h
  split at h
  · rename_i hi
    simp only [Option.some.injEq] at h
    subst h
    refine ⟨hi, rfl, ?_⟩
    simp only [step]
    have hlt : i < s.ths.length := by
      cases hl : s.ths[i]? with
      | none => rw [hl] at hi; cases hi
      | some x => exact (List.getElem?_eq_some_iff.1 hl).1
    simp [List.getElem?_set, hlt]
  · cases h

/-- **executions that were refused or cancelled while waiting never return a permit they did not get** -/
theorem refused_never_release (s : St) (i : Nat) (h : s.ths[i]? = some .doneFull ∨ s.ths[i]? = some .doneCanceled ∨ s.ths[i]? = some .waiting ∨ s.ths[i]? = some .idle) :
    step s (.finish i) = none := by
  simp only [step]
  rcases h with h | h | h | h <;> simp [h]

/-- **after all executions finish exactly `maxConcurrency` permits are available again** (minus those still held through
the standalone API) -/
theorem quiescent_all_free (cap n : Nat) (as : List Act) (s' : St)
    (h : as.foldlM (m := Option) step (init cap n) = some s') (hq : holders s'.ths = 0) :
    s'.held = s'.ext := by
  have := inflight_le_cap cap n as s' h
  omega

/-- the capacity never changes -/
theorem cap_const (s s' : St) (a : Act) (h : step s a = some s') : s'.cap = s.cap := by
  cases a <;> simp only [step] at h <;> (repeat' (split at h)) <;>
    first | (cases h; done) | (simp only [Option.some.injEq] at h; subst h; rfl)

example : Failsafe.Conc.Bulkhead.Inv (init 2 5) := init_inv 2 5
example : (([Act.tryFast 0, .tryFast 1, .tryFast 2, .finish 0, .acquireSlow 2] : List Act).foldlM (m := Option) step (init 2 3)).map (·.held) = some 2 := by
  decide

end Failsafe.Props.C06
