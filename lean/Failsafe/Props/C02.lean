import Failsafe.Exec
import Failsafe.Lemmas.ExecBodiesLink
/-!
# C02 — retry: bounded attempts, stops at first success or abort, correct final result

Theorems are about `retryLoop` / `retryOnFailure` of the composition model for an **arbitrary inner layer** unless stated.
`pos` is the retry policy's position; its executor state (`failedAttempts`, `retriesExceeded`) is per execution and per
position (`Run.failed`, `Run.exceeded`), created empty by every execution (the world carries no retry state at all).
-/
namespace Failsafe.Props.C02
open Failsafe Failsafe.Exec Failsafe.Classify

/-! ## bookkeeping lemmas -/

theorem getFailed_setFailed (r : Run) (pos n : Nat) : getFailed (setFailed r pos n) pos = n := by
  simp [getFailed, setFailed]

theorem getFailed_emit (r : Run) (nm : String) (p pos : Nat) : getFailed (r.emit nm p) pos = getFailed r pos := rfl

def failedAt (pos : Nat) (r : Run) : Nat := getFailed r pos

@[simp] theorem failedAt_emit (pos : Nat) (r : Run) (nm : String) (p : Nat) : failedAt pos (r.emit nm p) = failedAt pos r := rfl
@[simp] theorem failedAt_emitSeen (pos : Nat) (r : Run) (nm : String) (p : Nat) (o : Outcome) : failedAt pos (r.emitSeen nm p o) = failedAt pos r := rfl
@[simp] theorem failedAt_emitLast (pos : Nat) (r : Run) (nm : String) (p : Nat) : failedAt pos (r.emitLast nm p) = failedAt pos r := rfl
@[simp] theorem failedAt_exceeded (pos : Nat) (r : Run) (l : List Nat) : failedAt pos { r with exceeded := l } = failedAt pos r := rfl
@[simp] theorem failedAt_setFailed (pos : Nat) (r : Run) (n : Nat) : failedAt pos (setFailed r pos n) = n :=
  getFailed_setFailed r pos n

@[simp] theorem failedAt_trigger (pos : Nat) (r : Run) (nm : String) : failedAt pos (r.trigger nm) = failedAt pos r := by
  simp [failedAt, getFailed]
@[simp] theorem failedAt_last (pos : Nat) (r : Run) (o : Outcome) : failedAt pos { r with last := o } = failedAt pos r := rfl

/-- `OnFailure` counts the failure -/
theorem retryOnFailure_failed (pos : Nat) (m : Int) (rl : Bool) (a : List Cond) (res : PR) (r : Run) :
    failedAt pos (retryOnFailure pos m rl a res r).2 = failedAt pos r + 1 := by
  unfold retryOnFailure
  simp only
  split <;>
    simp only [apply_ite (failedAt pos), failedAt_emit, failedAt_emitSeen, failedAt_exceeded, failedAt_setFailed, ite_self] <;> rfl

/-- a retry is only decided while the budget is not exhausted -/
theorem retryOnFailure_not_done (pos : Nat) (m : Int) (rl : Bool) (a : List Cond) (res : PR) (r : Run)
    (h : (retryOnFailure pos m rl a res r).1.done = false) :
    ¬ (m ≠ -1 ∧ ((failedAt pos r + 1 : Nat) : Int) > m) ∧ durExceeded pos r = false ∧ (m = -1 ∨ m > 0) ∧ isAbortable a res.outcome = false := by
  unfold retryOnFailure at h
  simp only at h
  split at h
  · simp [failureResult] at h
  · rename_i hne
    simp only [PR.withDone, Bool.or_eq_false_iff, Bool.not_eq_false', Bool.and_eq_true, Bool.not_eq_true',
      decide_eq_false_iff_not, decide_eq_true_eq] at h
    obtain ⟨hab, ⟨_, hexc, hdur⟩, hallow⟩ := h
    exact ⟨hexc, hdur, hallow, hab⟩

def excAt (pos : Nat) (r : Run) : Bool := r.exceeded.contains pos

@[simp] theorem excAt_emit (pos : Nat) (r : Run) (nm : String) (p : Nat) : excAt pos (r.emit nm p) = excAt pos r := rfl
@[simp] theorem excAt_emitSeen (pos : Nat) (r : Run) (nm : String) (p : Nat) (o : Outcome) : excAt pos (r.emitSeen nm p o) = excAt pos r := rfl
@[simp] theorem excAt_emitLast (pos : Nat) (r : Run) (nm : String) (p : Nat) : excAt pos (r.emitLast nm p) = excAt pos r := rfl
@[simp] theorem excAt_setFailed (pos : Nat) (r : Run) (p n : Nat) : excAt pos (setFailed r p n) = excAt pos r := rfl
@[simp] theorem excAt_cons (pos : Nat) (r : Run) : excAt pos { r with exceeded := pos :: r.exceeded } = true := by
  simp [excAt]

@[simp] theorem excAt_trigger (pos : Nat) (r : Run) (nm : String) : excAt pos (r.trigger nm) = excAt pos r := by
  simp [excAt]
@[simp] theorem excAt_last (pos : Nat) (r : Run) (o : Outcome) : excAt pos { r with last := o } = excAt pos r := rfl

/-- `OnFailure` sets `retriesExceeded` exactly when the count passes `maxRetries` -/
theorem retryOnFailure_exceeded (pos : Nat) (m : Int) (rl : Bool) (a : List Cond) (res : PR) (r : Run) :
    excAt pos (retryOnFailure pos m rl a res r).2 =
      (decide (m ≠ -1 ∧ ((failedAt pos r + 1 : Nat) : Int) > m) || durExceeded pos r || excAt pos r) := by
  unfold retryOnFailure
  simp only
  have hg : getFailed (r.emitSeen "rp.onFailure" pos res.outcome) pos = failedAt pos r := rfl
  by_cases hexc : (m ≠ -1 ∧ ((failedAt pos r + 1 : Nat) : Int) > m) <;> cases hd : durExceeded pos r <;>
    (split <;> simp [apply_ite (excAt pos), hg, hexc, hd])

/-! ## the budget -/

/-- executor invariant: at most `m + 1` failures have been counted, and once the count passes `m` the executor is exhausted -/
def Budget (pos : Nat) (m : Int) (r : Run) : Prop :=
  (failedAt pos r : Int) ≤ m + 1 ∧ ((failedAt pos r : Int) > m → excAt pos r = true)

/-- **bounded**: with `maxRetries = m ≥ 0`, whatever is inside (as long as it leaves this executor's state alone, which every
layer at a different position does), the retry layer counts at most `m + 1` failures per execution — it re-invokes what it
wraps at most `m` times -/
theorem retry_budget (pos : Nat) (m : Int) (hm : 0 ≤ m) (rl : Bool) (h a : List Cond) (inner : Layer)
    (hin : ∀ r res r1, inner r = some (res, r1) → failedAt pos r1 = failedAt pos r ∧ excAt pos r1 = excAt pos r) :
    ∀ fuel r res r', retryLoop pos m rl h a inner fuel r = some (res, r') → Budget pos m r → Budget pos m r' := by
  intro fuel
  induction fuel with
  | zero => intro r res r' hh; simp [retryLoop] at hh
  | succ n ih =>
    intro r res r' hh hb
    simp only [retryLoop] at hh
    cases hi : inner r with
    | none => simp [hi] at hh
    | some x =>
      obtain ⟨res1, r1⟩ := x
      obtain ⟨hf1, he1⟩ := hin r res1 r1 hi
      have hb1 : Budget pos m r1 := by unfold Budget; rw [hf1, he1]; exact hb
      simp only [hi] at hh
      by_cases hc : r1.isCanc = true
      · simp only [hc, if_true, Option.some.injEq, Prod.mk.injEq] at hh
        obtain ⟨_, rfl⟩ := hh; exact hb1
      · simp only [hc] at hh
        by_cases he : r1.exceeded.contains pos = true
        · simp only [he, if_true, Option.some.injEq, Prod.mk.injEq] at hh
          obtain ⟨_, rfl⟩ := hh; exact hb1
        · simp only [he] at hh
          have hle : (failedAt pos r1 : Int) ≤ m := by
            by_cases hgt : (failedAt pos r1 : Int) > m
            · exact absurd (hb1.2 hgt) he
            · omega
          by_cases hfl : isFailure h res1.outcome = true
          · simp only [hfl, if_true] at hh
            have hcount := retryOnFailure_failed pos m rl a res1.withFailure r1
            have hexc := retryOnFailure_exceeded pos m rl a res1.withFailure r1
            have hb2 : Budget pos m (retryOnFailure pos m rl a res1.withFailure r1).2 := by
              unfold Budget
              rw [hcount, hexc]
              refine ⟨by push_cast; omega, ?_⟩
              intro hgt
              have : (m ≠ -1 ∧ ((failedAt pos r1 + 1 : Nat) : Int) > m) := ⟨by omega, hgt⟩
              rw [decide_eq_true this]; simp
            by_cases hd : (retryOnFailure pos m rl a res1.withFailure r1).1.done = true
            · simp only [hd, if_true, Option.some.injEq, Prod.mk.injEq] at hh
              obtain ⟨_, rfl⟩ := hh; exact hb2
            · simp only [hd] at hh
              -- the state handed on (last outcome recorded, listener, scripted cancellation point) has the same executor state
              generalize hX : (({ (retryOnFailure pos m rl a res1.withFailure r1).2 with
                  last := (retryOnFailure pos m rl a res1.withFailure r1).1.outcome }).emitLast "rp.onRetryScheduled" pos).trigger "rp.onRetryScheduled" = X at hh
              have hbX : Budget pos m X := by
                rw [← hX]; unfold Budget
                simp only [failedAt_trigger, failedAt_emit, failedAt_last, excAt_trigger, excAt_emit, excAt_last]; exact hb2
              by_cases hx : X.isCanc = true
              · simp only [hx, if_true, Option.some.injEq, Prod.mk.injEq] at hh
                obtain ⟨_, rfl⟩ := hh; exact hbX
              · simp only [hx] at hh
                refine ih _ res r' hh ?_
                unfold Budget at hbX ⊢
                exact hbX
          · simp only [hfl, Option.some.injEq, Prod.mk.injEq] at hh
            obtain ⟨_, rfl⟩ := hh; exact hb1

theorem retryOnFailure_inv (pos : Nat) (m : Int) (rl : Bool) (a : List Cond) (res : PR) (r : Run) :
    (retryOnFailure pos m rl a res r).2.inv = r.inv := by
  unfold retryOnFailure
  simp only
  split <;> (repeat' split) <;> rfl

/-- **at most `maxRetries + 1` invocations**: with `maxRetries = m ≥ 0` and an inner layer that invokes the function at most once
per call (the function itself, or any stack of policies that do not re-invoke), an execution through the retry layer invokes
the function at most `m + 1 - (failures counted so far)` more times — `m + 1` times for a fresh execution -/
theorem retry_invocations_bounded (pos : Nat) (m : Int) (hm : 0 ≤ m) (rl : Bool) (h a : List Cond) (inner : Layer)
    (hin : ∀ r res r1, inner r = some (res, r1) →
      failedAt pos r1 = failedAt pos r ∧ excAt pos r1 = excAt pos r ∧ r1.inv ≤ r.inv + 1) :
    ∀ fuel r res r', retryLoop pos m rl h a inner fuel r = some (res, r') → (failedAt pos r : Int) ≤ m →
      (r'.inv : Int) ≤ r.inv + (m + 1 - failedAt pos r) := by
  intro fuel
  induction fuel with
  | zero => intro r res r' hh; simp [retryLoop] at hh
  | succ n ih =>
    intro r res r' hh hb
    simp only [retryLoop] at hh
    cases hi : inner r with
    | none => simp [hi] at hh
    | some x =>
      obtain ⟨res1, r1⟩ := x
      obtain ⟨hf1, he1, hi1⟩ := hin r res1 r1 hi
      simp only [hi] at hh
      by_cases hc : r1.isCanc = true
      · simp only [hc, if_true, Option.some.injEq, Prod.mk.injEq] at hh
        obtain ⟨_, rfl⟩ := hh; omega
      · simp only [hc] at hh
        by_cases he : r1.exceeded.contains pos = true
        · simp only [he, if_true, Option.some.injEq, Prod.mk.injEq] at hh
          obtain ⟨_, rfl⟩ := hh; omega
        · simp only [he] at hh
          by_cases hfl : isFailure h res1.outcome = true
          · simp only [hfl, if_true] at hh
            have hcount := retryOnFailure_failed pos m rl a res1.withFailure r1
            have hinv := retryOnFailure_inv pos m rl a res1.withFailure r1
            by_cases hd : (retryOnFailure pos m rl a res1.withFailure r1).1.done = true
            · simp only [hd, if_true, Option.some.injEq, Prod.mk.injEq] at hh
              obtain ⟨_, rfl⟩ := hh; rw [hinv]; omega
            · simp only [hd] at hh
              have hnd := (retryOnFailure_not_done pos m rl a res1.withFailure r1 (by simpa using hd)).1
              generalize hX : (({ (retryOnFailure pos m rl a res1.withFailure r1).2 with
                  last := (retryOnFailure pos m rl a res1.withFailure r1).1.outcome }).emitLast "rp.onRetryScheduled" pos).trigger "rp.onRetryScheduled" = X at hh
              have hXf : failedAt pos X = failedAt pos r1 + 1 := by
                rw [← hX]; simp only [failedAt_trigger, failedAt_emit, failedAt_last]; exact hcount
              have hXi : X.inv = r1.inv := by
                rw [← hX]; simp only [Run.trigger_inv]; exact hinv
              by_cases hx : X.isCanc = true
              · simp only [hx, if_true, Option.some.injEq, Prod.mk.injEq] at hh
                obtain ⟨_, rfl⟩ := hh; rw [hXi]; omega
              · simp only [hx] at hh
                have hle : ((failedAt pos r1 + 1 : Nat) : Int) ≤ m := by
                  by_cases hm1 : m = -1
                  · omega
                  · have := fun hgt => hnd ⟨hm1, hgt⟩; omega
                have := ih _ res r' hh (by
                  show (failedAt pos ((({ X with attempts := X.attempts + 1, retries := X.retries + 1 } : Run)).emitLast "rp.onRetry" pos) : Int) ≤ m
                  simp only [failedAt_emitLast]
                  have : failedAt pos ({ X with attempts := X.attempts + 1, retries := X.retries + 1 } : Run) = failedAt pos X := rfl
                  rw [this, hXf]; exact hle)
                have e1 : failedAt pos ((({ X with attempts := X.attempts + 1, retries := X.retries + 1 } : Run)).emitLast "rp.onRetry" pos) = failedAt pos r1 + 1 := by
                  simp only [failedAt_emitLast]
                  have : failedAt pos ({ X with attempts := X.attempts + 1, retries := X.retries + 1 } : Run) = failedAt pos X := rfl
                  rw [this, hXf]
                have e2 : ((({ X with attempts := X.attempts + 1, retries := X.retries + 1 } : Run)).emitLast "rp.onRetry" pos).inv = r1.inv := by
                  show X.inv = r1.inv; exact hXi
                rw [e1, e2] at this
                push_cast at this
                omega
          · simp only [hfl, Option.some.injEq, Prod.mk.injEq] at hh
            obtain ⟨_, rfl⟩ := hh
            show ((r1.emitSeen "rp.onSuccess" pos res1.outcome).inv : Int) ≤ _
            have : (r1.emitSeen "rp.onSuccess" pos res1.outcome).inv = r1.inv := rfl
            rw [this]; omega

/-- the wrapped function is invoked at most once per call of the innermost layer, and the call leaves every retry executor's
state alone -/
theorem base_step (pos : Nat) (r r1 : Run) (res : PR) (h : base r = some (res, r1)) :
    failedAt pos r1 = failedAt pos r ∧ excAt pos r1 = excAt pos r ∧ r1.inv ≤ r.inv + 1 := by
  unfold base at h
  simp only at h
  split at h
  · cases h; refine ⟨?_, ?_, ?_⟩ <;> simp [failedAt, getFailed, excAt, Run.emitSeen]
  · (repeat' (split at h)) <;> first | (cases h; done) | (cases h; refine ⟨?_, ?_, ?_⟩ <;> simp [failedAt, getFailed, excAt, Run.emitSeen, Run.emit])

/-- **at most `maxRetries + 1` invocations when it is the only policy**: a fresh execution of the stack `[retry m …]` around the
function, for every script of outcomes (instant, blocking or sleeping), every handle / abort configuration and whatever
cancellation is scripted, invokes the function at most `m + 1` times -/
theorem retry_only_policy_invocations (m : Int) (hm : 0 ≤ m) (rl : Bool) (h a : List Cond) (fuel : Nat)
    (w : World) (sc : List Item) (ck : Option String) (res : PR) (r' : Run)
    (hx : executeStack fuel 0 [.retry m rl h a] { w := w, script := sc, ctxKey := ck } = some (res, r')) :
    (r'.inv : Int) ≤ m + 1 := by
  have := retry_invocations_bounded 0 m hm rl h a base (fun r res r1 hb => base_step 0 r r1 res hb) fuel
    { w := w, script := sc, ctxKey := ck } res r' (by simpa [executeStack, applyPolicy] using hx)
    (by simp [failedAt, getFailed]; omega)
  simpa [failedAt, getFailed] using this

/-- a fresh execution satisfies the invariant: every execution starts with an empty executor state -/
theorem budget_fresh (pos : Nat) (m : Int) (hm : 0 ≤ m) (w : World) (sc : List Item) (ck : Option String) :
    Budget pos m { w := w, script := sc, ctxKey := ck } := by
  unfold Budget failedAt getFailed excAt
  simp; omega

/-! ## when it stops, and with what -/

/-- **never after a success**: an outcome the policy does not classify as a failure ends the loop at once, unchanged -/
theorem retry_stops_on_success (pos : Nat) (m : Int) (rl : Bool) (h a : List Cond) (inner : Layer) (fuel : Nat) (r : Run)
    (res1 : PR) (r1 : Run) (hi : inner r = some (res1, r1)) (hc : r1.isCanc = false)
    (he : r1.exceeded.contains pos = false) (hs : isFailure h res1.outcome = false) :
    retryLoop pos m rl h a inner (fuel + 1) r = some (res1.withDone true true, r1.emitSeen "rp.onSuccess" pos res1.outcome) := by
  simp only [retryLoop, hi, hc, he, hs, Bool.false_eq_true, if_false]

/-- **the final result**: after a failure that ends the loop the caller gets `ExceededError{last result, last error}` when the
budget is exhausted (unless `ReturnLastFailure`), otherwise the failed outcome itself, unchanged -/
theorem retry_final_result (pos : Nat) (m : Int) (rl : Bool) (a : List Cond) (res1 : PR) (r : Run) :
    let exc : Bool := decide (m ≠ -1 ∧ ((failedAt pos r + 1 : Nat) : Int) > m) || durExceeded pos r
    (retryOnFailure pos m rl a res1 r).1 =
      if exc && !rl then
        failureResult (match res1.err with | some e => .exceededE res1.val e | none => .exceededV res1.val)
      else res1.withDone (isAbortable a res1.outcome || !(!isAbortable a res1.outcome && !exc && decide (m = -1 ∨ m > 0))) false := by
  unfold retryOnFailure
  simp only
  have hg : getFailed (r.emitSeen "rp.onFailure" pos res1.outcome) pos = failedAt pos r := rfl
  rw [hg]
  split <;> rfl

/-- **never after a failure handled once the max duration has elapsed**: such a failure ends the loop, and the caller gets
`ExceededError` carrying that failure (or the failure itself with `ReturnLastFailure`), whatever the retry budget -/
theorem retry_stops_after_max_duration (pos : Nat) (m : Int) (rl : Bool) (a : List Cond) (res1 : PR) (r : Run)
    (hd : durExceeded pos r = true) :
    (retryOnFailure pos m rl a res1 r).1.done = true ∧
    (rl = false → (retryOnFailure pos m rl a res1 r).1 =
        failureResult (match res1.err with | some e => .exceededE res1.val e | none => .exceededV res1.val)) ∧
    (rl = true → (retryOnFailure pos m rl a res1 r).1 = res1.withDone true false) := by
  rw [retry_final_result]
  simp only [hd, Bool.or_true, Bool.true_and]
  cases rl <;> simp [failureResult, PR.withDone]

/-- an abort-matching failure ends the loop (`done`), whatever the budget -/
theorem retry_abort_stops (pos : Nat) (m : Int) (rl : Bool) (a : List Cond) (res1 : PR) (r : Run)
    (hab : isAbortable a res1.outcome = true) : (retryOnFailure pos m rl a res1 r).1.done = true := by
  rw [retry_final_result]
  split
  · rfl
  · simp [PR.withDone, hab]

/-- once exhausted the executor handles nothing more in this execution: inner results pass through untouched -/
theorem retry_exhausted_passthrough (pos : Nat) (m : Int) (rl : Bool) (h a : List Cond) (inner : Layer) (fuel : Nat) (r : Run)
    (res1 : PR) (r1 : Run) (hi : inner r = some (res1, r1)) (hc : r1.isCanc = false)
    (he : r1.exceeded.contains pos = true) :
    retryLoop pos m rl h a inner (fuel + 1) r = some (res1, r1) := by
  simp only [retryLoop, hi, hc, he, Bool.false_eq_true, if_false, if_true]

/-- **the budget belongs to one execution**: the world that survives an execution has no retry component, and every
execution starts from the empty executor state — two executions can only influence each other through the stateful
policies of the world -/
theorem retry_budget_per_execution (w : World) (sc : List Item) (ck : Option String) :
    ({ w := w, script := sc, ctxKey := ck } : Run).failed = [] ∧ ({ w := w, script := sc, ctxKey := ck } : Run).exceeded = [] :=
  ⟨rfl, rfl⟩

example : Budget 0 2 { w := {}, script := [] } := budget_fresh 0 2 (by decide) {} [] none

/-- non-vacuity of `retry_invocations_bounded`: a terminating retry loop around a layer that invokes once per call -/
example : (retryLoop 0 1 false [] [] (fun r => some (⟨0, none, true, true, true⟩, { r with inv := r.inv + 1 })) 1
    { w := {}, script := [] }).isSome = true := by decide

/-! ## The retry decision, on the regenerated body of `retrypolicy.executor.OnFailure`

`ExecBodies.retryOnFailure` is the reference definition the body regenerated from the source on every run is proved equal to
(`Tie/XRetry.lean`); `retryOnFailure_link` shows that the composition model's `Exec.retryOnFailure` computes it. -/
section kernel
open Failsafe.ExecBodies

/-- **the budget**: the executor's `retriesExceeded` is set exactly when this failure is beyond `maxRetries` (never for -1) or was
handled after the max duration had elapsed; each failure counts once -/
theorem kernel_exceeded_iff (c : RCfg) (s : RSt) (el : Int) (ab : Bool) (res : PR) :
    (ExecBodies.retryOnFailure c s el ab res).2.exceeded =
        ((c.maxRetries != -1 && decide (s.failed + 1 > c.maxRetries)) || (c.maxDuration != 0 && decide (el > c.maxDuration))) ∧
      (ExecBodies.retryOnFailure c s el ab res).2.failed = s.failed + 1 := by
  unfold ExecBodies.retryOnFailure retryExceeded
  simp only []
  constructor <;> (split <;> (try split) <;> (try split) <;> simp [rOnAbort, rOnRetriesExceeded, rBaseOnFailure, RSt.emit])

/-- **the final result**: a budget that is exceeded yields `ExceededError` wrapping the last outcome, or the last outcome itself with
`ReturnLastFailure`; otherwise the outcome is returned, final (`Done`) exactly when it aborts or no retry is allowed -/
theorem kernel_result (c : RCfg) (s : RSt) (el : Int) (ab : Bool) (res : PR) :
    let exc := retryExceeded c (s.failed + 1) el
    (ExecBodies.retryOnFailure c s el ab res).1 =
      if exc && !c.returnLastFailure then exceededResult res
      else res.withDone (ab || !(!ab && !exc && allowsRetries c)) false := by
  unfold ExecBodies.retryOnFailure
  simp only [rBaseOnFailure, RSt.emit]
  by_cases h : (retryExceeded c (s.failed + 1) el && !c.returnLastFailure) = true <;> simp [h]

/-- never a success, whatever the configuration: a handled failure leaves the retry policy as a failure -/
theorem kernel_result_not_success (c : RCfg) (s : RSt) (el : Int) (ab : Bool) (res : PR) :
    (ExecBodies.retryOnFailure c s el ab res).1.success = false ∧ (ExecBodies.retryOnFailure c s el ab res).1.successAll = false := by
  have h := kernel_result c s el ab res
  simp only [] at h
  rw [h]
  split <;> simp [exceededResult, failureResult, PR.withDone]

/-- **listeners**: `OnFailure` first, always; then `OnAbort` iff the outcome aborts; then `OnRetriesExceeded` iff the budget is exceeded
and the outcome does not abort — never both for one failure, each at most once -/
theorem kernel_listeners (c : RCfg) (s : RSt) (el : Int) (ab : Bool) (res : PR) (h1 : c.onAbort = some ()) (h2 : c.onRetriesExceeded = some ()) :
    (ExecBodies.retryOnFailure c s el ab res).2.log =
      s.log ++ ["onFailure"] ++ (if ab then ["onAbort"] else []) ++
        (if retryExceeded c (s.failed + 1) el && !ab then ["onRetriesExceeded"] else []) := by
  unfold ExecBodies.retryOnFailure
  simp only [rBaseOnFailure, rOnAbort, rOnRetriesExceeded, RSt.emit, h1, h2, Option.isSome_some, Bool.and_true]
  cases ab <;> cases retryExceeded c (s.failed + 1) el <;> cases c.returnLastFailure <;> simp

/-- **the composition model's retry decision is the code's** -/
theorem model_retry_decision_is_the_codes (pos : Nat) (m : Int) (rl : Bool) (abort : List Cond) (res1 : PR) (r : Run)
    (md elapsed : Int) (hd : (md != 0 && decide (elapsed > md)) = durExceeded pos r) :
    let k := ExecBodies.retryOnFailure ⟨m, md, rl, some (), some ()⟩ (Failsafe.Lemmas.ExecBodiesLink.retrySt r pos) elapsed (isAbortable abort res1.outcome) res1
    let x := Exec.retryOnFailure pos m rl abort res1 r
    x.1 = k.1 ∧ (getFailed x.2 pos : Int) = k.2.failed ∧
      x.2.exceeded = (if k.2.exceeded then pos :: r.exceeded else r.exceeded) ∧
      x.2.log.map (·.name) = r.log.map (·.name) ++ k.2.log.map ("rp." ++ ·) :=
  Failsafe.Lemmas.ExecBodiesLink.retryOnFailure_link pos m rl abort res1 r md elapsed hd

/-- **the composition model's retry loop is the code's loop** (`retrypolicy.executor.Apply`, regenerated and tied on every run): one
unfolding of the model's loop is one iteration of the code's, over the model's operations; whether the loop ends, with what, and in
which order the inner call, the cancellation check, the exhausted pass-through, `PostExecute`, `RecordResult`, `OnRetryScheduled`, the
wait, `InitializeRetry` and `OnRetry` happen is what the source says now -/
theorem model_retry_loop_is_the_codes (pos : Nat) (m : Int) (rl : Bool) (h a : List Cond) (inner : Layer) (fuel : Nat) (r r1 : Run) (res : PR)
    (hi : inner r = some (res, r1)) :
    retryLoop pos m rl h a inner (fuel + 1) r =
      (match ExecBodies.retryIter (Failsafe.Lemmas.ExecBodiesLink.retryOps pos m rl h a res r1) r with
       | (some out, r') => some (out, r')
       | (none, r') => retryLoop pos m rl h a inner fuel r') :=
  Failsafe.Lemmas.ExecBodiesLink.retryLoop_link pos m rl h a inner fuel r r1 res hi

/-- on the code's loop, for every instantiation of its operations: **an exhausted executor passes inner results through unprocessed,
and a cancelled execution returns the cancel result before anything else is looked at** -/
theorem kernel_loop_early_exits {σ : Type} (ops : LoopOps σ) (s : σ) :
    ((ops.isCanc (ops.innerS s)).1 = true → ExecBodies.retryIter ops s = (some (ops.isCanc (ops.innerS s)).2, ops.innerS s)) ∧
    ((ops.isCanc (ops.innerS s)).1 = false → ops.exceeded (ops.innerS s) = true →
        ExecBodies.retryIter ops s = (some (ops.innerV s), ops.innerS s)) := by
  constructor
  · intro h; simp [ExecBodies.retryIter, h]
  · intro h1 h2; simp [ExecBodies.retryIter, h1, h2]

/-- … and **it goes round again only after `InitializeRetry` agreed**: a `none` answer means the result was not final, was recorded, and
the next attempt was initialised -/
theorem kernel_loop_continues_only_after_init {σ : Type} (ops : LoopOps σ) (s s' : σ) (h : ExecBodies.retryIter ops s = (none, s')) :
    (ops.isCanc (ops.innerS s)).1 = false ∧ ops.exceeded (ops.innerS s) = false ∧
      (ops.postV (ops.innerS s) (ops.innerV s)).done = false := by
  simp only [ExecBodies.retryIter] at h
  by_cases h1 : (ops.isCanc (ops.innerS s)).1 = true
  · simp [h1] at h
  · by_cases h2 : ops.exceeded (ops.innerS s) = true
    · simp [h1, h2] at h
    · by_cases h3 : (ops.postV (ops.innerS s) (ops.innerV s)).done = true
      · simp [h1, h2, h3] at h
      · exact ⟨by simpa using h1, by simpa using h2, by simpa using h3⟩

example : (ExecBodies.retryOnFailure ⟨2, 0, false, some (), some ()⟩ ⟨2, false, []⟩ 0 false (fnResult 7 (some Err.full))).1 =
    failureResult (.exceededE 7 Err.full) := by decide

end kernel

end Failsafe.Props.C02
