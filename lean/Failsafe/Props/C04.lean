import Failsafe.Conc.BreakerConc
import Failsafe.Props.C03
import Failsafe.Lemmas.ExecBodiesLink
/-!
# C04 — an open breaker admits nothing; half-open admits at most its trial capacity

Any number of executions, every interleaving of admissions, recordings and the delay elapsing.
-/
namespace Failsafe.Props.C04
open Failsafe.Conc.BreakerConc

/-- **while open and before the delay has elapsed no execution is admitted**: the admission step of every execution, however
many race, leaves it rejected (failed with `ErrOpen`; its function is never invoked) and changes nothing else -/
theorem open_rejects_all (s : St) (i : Nat) (hopen : s.tag = .opened) (hdelay : s.elapsed = false) (hidle : s.ths[i]? = some .idle) :
    step s (.enter i) = some { s with ths := s.ths.set i .rejected } := by
  simp [step, hidle, hopen, hdelay]

/-- a rejected execution never runs: nothing is enabled for it any more -/
theorem rejected_never_runs (s : St) (i : Nat) (h : s.ths[i]? = some .rejected) (v : Verdict) :
    step s (.enter i) = none ∧ step s (.finishRun i v) = none ∧ step s (.finishTrial i v) = none := by
  simp [step, h]

def init (cap n : Nat) : St := ⟨cap, .closed, false, 0, List.replicate n .idle⟩

theorem init_inv (cap n : Nat) : Failsafe.Conc.BreakerConc.Inv (init cap n) := by
  intro h; cases h

/-- **while half-open no more executions admitted in that state run concurrently than the trial capacity**: permits available
plus trials in flight equal the capacity in every reachable half-open state (schedules as in the property's caveat) -/
theorem halfopen_inflight_le_capacity (cap n : Nat) (as : List Act) (s' : St)
    (h : as.foldlM (m := Option) step (init cap n) = some s') (hho : s'.tag = .halfOpen) :
    trials s'.ths ≤ s'.cap ∧ s'.permits + trials s'.ths = s'.cap := by
  have := inv_run (init cap n) as (init_inv cap n) s' h hho
  exact ⟨by omega, this⟩

/-- **every admitted trial gives its permit back when its result is recorded, whatever the result**: if the breaker stays
half-open the permit count goes up by one and the trial is no longer in flight -/
theorem trial_returns_permit (s : St) (i : Nat) (hi : s.ths[i]? = some .trial) (hho : s.tag = .halfOpen) :
    step s (.finishTrial i .stay) = some { s with permits := s.permits + 1, ths := s.ths.set i .done } := by
  simp [step, hi, hho]

/-- why the caveat is needed (not a defect: the property excludes it): a record arriving from an execution admitted before the
opening adds a permit in the real breaker — in the sequential breaker model one stale `RecordSuccess` in half-open state raises
the permits above the capacity -/
theorem stale_record_breaks_bound_witness :
    let c : Failsafe.Breaker.Cfg := ⟨1, 0, 1, 0, 0, 3, 3, 0, -1⟩
    let b0 := Failsafe.Breaker.transition c (Failsafe.Breaker.B.new c) 0 .halfOpen
    let b1 := (Failsafe.Breaker.tryAcquire c b0 0).1          -- one trial out: 2 permits left
    let b2 := Failsafe.Breaker.record c b1 0 true             -- a stale success recorded
    b1.permits = 2 ∧ b2.permits = 3 ∧ b2.tag = .halfOpen := by decide

example : (([Act.enter 0, .finishRun 0 .open_, .enter 1, .tick, .enter 2, .enter 3] : List Act).foldlM (m := Option) step (init 1 4)).map
    (fun s => (s.tag, s.permits, s.ths)) = some (.halfOpen, 0, [.done, .rejected, .trial, .rejected]) := by decide

/-! ## On the regenerated bodies of the breaker executor

`ExecBodies.breakerPre / breakerOnSuccess / breakerOnFailure` are the reference definitions the executor's `PreExecute`, `OnSuccess`
and `OnFailure` — regenerated from the source on every run — are proved equal to (`Tie/XAdmit.lean`), for every instantiation of the
breaker's own operations; `breaker_link` shows that the composition model's breaker layer is `PreExecute`, then what is inside, then
`BaseExecutor.PostExecute` with these two. -/
section kernel
open Failsafe Failsafe.ExecBodies

/-- **a refused admission fails with `ErrOpen` and nothing inside runs** (the executor returns before the inner call); an admitted one
goes on -/
theorem kernel_admission {σ : Type} (ops : AdmitOps σ) (s : σ) :
    (ops.tryV s = false → (breakerPre ops s).1 = some (failureResult Err.opened)) ∧ (ops.tryV s = true → (breakerPre ops s).1 = none) := by
  constructor <;> intro h <;> simp [breakerPre, h]

/-- **every admitted execution's result is recorded exactly once**, after the policy's own listener: a success as a success, a
failure as a failure; the result is handed on unchanged -/
theorem kernel_records_once {σ : Type} (ops : AdmitOps σ) (s : σ) (r : PR) :
    breakerOnSuccess ops s r = ops.recordSuccess (ops.baseOnSuccess s r) ∧
    breakerOnFailure ops s r = (r, ops.recordFailure (ops.baseOnFailure s r) r) := ⟨rfl, rfl⟩

/-- **the composition model's breaker layer is the code's** -/
theorem model_breaker_layer_is_the_codes (fuel pos id : Nat) (h : List Failsafe.Classify.Cond) (inner : Failsafe.Exec.Layer) (r : Failsafe.Exec.Run)
    (c : Failsafe.Breaker.Cfg) (b : Failsafe.Breaker.B) (hb : r.w.breakers[id]? = some (c, b)) :
    Failsafe.Exec.applyPolicy fuel pos (.breaker id h) inner r =
      (let ops := Failsafe.Lemmas.ExecBodiesLink.breakerOps id pos c
       match ExecBodies.breakerPre ops r with
       | (some rej, r1) => some (rej, r1)
       | (none, r1) =>
         match inner r1 with
         | none => none
         | some (res, r2) =>
           some (ExecBodies.postExecute (fun er => Failsafe.Classify.isFailure h er.outcome) (fun s er => ExecBodies.breakerOnFailure ops s er)
                   (fun s er => ExecBodies.breakerOnSuccess ops s er) r2 res)) :=
  Failsafe.Lemmas.ExecBodiesLink.breaker_link fuel pos id h inner r c b hb

end kernel

end Failsafe.Props.C04
