import Failsafe.Adapters
import Failsafe.Delay
import Failsafe.Tie.Adapters
import Failsafe.Conc.Goroutines
/-!
# C18 — HTTP and gRPC adapters are transparent and replay requests faithfully

Property theorems only. The models are in `Failsafe/Adapters.lean`; `Tie/Adapters.lean` proves that the predicates
regenerated from `failsafehttp/policy.go` and `failsafegrpc/policy.go` equal the models used here.
-/
namespace Failsafe.Props.C18
open Failsafe Failsafe.Adapters

/-! ## retried exactly for the documented statuses and errors -/

/-- a response without an error is retried iff its status is 429 or at least 500 and not 501 -/
theorem retryable_status_iff (r : Resp) :
    retryHandle (some r) none = true ↔ (r.status = 429 ∨ (500 ≤ r.status ∧ r.status ≠ 501)) := by
  simp [retryHandle, retryableStatus]

/-- restricted to the status codes that exist: 429 and the 5xx codes except 501 -/
theorem retryable_status_5xx (r : Resp) (h : 100 ≤ r.status ∧ r.status ≤ 599) :
    retryHandle (some r) none = true ↔ (r.status = 429 ∨ (500 ≤ r.status ∧ r.status ≤ 599 ∧ r.status ≠ 501)) := by
  rw [retryable_status_iff]; omega

/-- an error is retried unless it is an unsupported-scheme error, or a `*url.Error` that reports an untrusted certificate,
    too many redirects or an unknown authority — whatever response accompanies it -/
theorem retryable_error_iff (resp : Option Resp) (e : HErr) :
    retryHandle resp (some e) = true ↔
      (e.unsupportedScheme = false ∧
       ¬ (e.isUrlError = true ∧ (e.certNotTrusted = true ∨ e.stoppedAfterRedirects = true ∨ e.unknownAuthority = true))) := by
  obtain ⟨us, u, c, r, ua, cn, dl⟩ := e
  cases us <;> cases u <;> cases c <;> cases r <;> cases ua <;> simp [retryHandle, retryableError]

theorem nothing_to_retry : retryHandle none none = false := rfl

/-- the same facts about the predicate as regenerated from the source -/
theorem generated_retryable_status_iff (r : Resp) :
    Generated.Adapters.retryHandleGen (some r) none = true ↔ (r.status = 429 ∨ (500 ≤ r.status ∧ r.status ≠ 501)) := by
  rw [Tie.Adapters.tie_retryHandle]; exact retryable_status_iff r

/-! ## Retry-After -/

/-- `DelayFunc` returns the header's seconds for a 429 / 503 with an integer `Retry-After`, and -1 ("no opinion") otherwise -/
theorem delayFn_spec (r : Resp) :
    delayFn (some r) = (if (r.status = 429 ∨ r.status = 503) then (match r.ra with | .int n => 1000000000 * n | _ => -1) else -1) := by
  obtain ⟨st, ra⟩ := r
  cases ra <;> by_cases h1 : st = 429 <;> by_cases h2 : st = 503 <;> simp [delayFn, h1, h2]

theorem delayFn_none : delayFn none = -1 := rfl

/-- the delay the retry policy schedules after a 429 / 503 carrying `Retry-After: n` is at least `n` seconds (and exactly
    `n` seconds when `n ≥ 0`), for the builder's default delay configuration (no jitter, no max duration), any backoff state
    and any attempt number. The wait itself is never shorter than the scheduled delay: C13 `attempt_not_before_delay`. -/
theorem retry_after_respected (c : Delay.Cfg) (r : Resp) (n : Int) (hs : r.status = 429 ∨ r.status = 503) (hra : r.ra = .int n)
    (hfn : c.delayFn = delayFn (some r)) (hj : c.jitter = 0) (hjf : (c.jitterFactor != 0) = false) (hmd : c.maxDuration = 0)
    (last retries elapsed ranged addend factored : Int) :
    let d := (Delay.getDelay c last retries elapsed ranged addend factored).1
    1000000000 * n ≤ d ∧ (0 ≤ n → d = 1000000000 * n) := by
  have hd : c.delayFn = 1000000000 * n := by rw [hfn, delayFn_spec]; simp [hs, hra]
  have h2 : c.delayFn ≠ -2 := by omega
  have h1 : c.delayFn ≠ -1 := by omega
  have hc : c.delayFn ≠ -2 ∧ c.delayFn ≠ -1 := ⟨h2, h1⟩
  simp only [Delay.getDelay, if_pos hc, Delay.adjustForJitter, Delay.adjustForMaxDuration, hj, hjf, hmd]
  by_cases h0 : c.delayFn = 0
  · simp [h0]; omega
  · simp [h0]; omega

/-! ## gRPC -/

/-- with the code table extracted from the source, exactly Unavailable, DeadlineExceeded and ResourceExhausted status errors
    are retried; plain errors and successful calls are not -/
theorem grpc_retryable_iff (e : Option GErr) :
    grpcHandle Generated.Facts.grpcRetryableCodes e = true ↔ (e = some (.status 4) ∨ e = some (.status 8) ∨ e = some (.status 14)) := by
  rw [Tie.Adapters.grpc_table]
  cases e with
  | none => simp [grpcHandle]
  | some g =>
    cases g with
    | plain => simp [grpcHandle]
    | status c => simp [grpcHandle]

theorem generated_grpc_retryable_iff (e : Option GErr) :
    Generated.Adapters.grpcHandleGen Generated.Facts.grpcRetryableCodes e = true ↔
      (e = some (.status 4) ∨ e = some (.status 8) ∨ e = some (.status 14)) := by
  rw [Tie.Adapters.tie_grpcHandle]; exact grpc_retryable_iff e

/-! ## the attempt loop: how many attempts, and which response is returned -/

/-- Complete characterisation of the retry loop over any script, for every retry budget `b` and start index `i`:
    attempts `i … n-1` are made; every attempt before the last was retryable and did not abort; the loop stops early only at an
    attempt that is not retryable or aborts; the final result is the last attempt's; `ExceededError` is reported only when the
    budget is used up by a retryable attempt. -/
theorem retryLoop_spec {α : Type} (retryable aborts : α → Bool) (script : Nat → α) (rlf : Bool) (b i : Nat) :
    let n := (retryLoop retryable aborts script rlf b i).1
    let f := (retryLoop retryable aborts script rlf b i).2
    i < n ∧ n ≤ i + b + 1 ∧
    (∀ j, i ≤ j → j + 1 < n → retryable (script j) = true ∧ aborts (script j) = false) ∧
    f.att = script (n - 1) ∧
    (n < i + b + 1 → retryable (script (n - 1)) = false ∨ aborts (script (n - 1)) = true) ∧
    (∀ a, f = .exceeded a → retryable a = true ∧ n = i + b + 1 ∧ rlf = false) := by
  induction b generalizing i with
  | zero =>
    unfold retryLoop
    by_cases hr : retryable (script i) = true
    · cases rlf <;> simp [hr, Final.att] <;> (intros; omega)
    · simp [hr, Final.att]; intros; omega
  | succ b ih =>
    unfold retryLoop
    by_cases hr : retryable (script i) = true
    · by_cases ha : aborts (script i) = true
      · simp [hr, ha, Final.att]; intros; omega
      · simp only [hr, ha]
        have := ih (i + 1)
        simp only [Bool.not_true, Bool.false_eq_true, ↓reduceIte]
        obtain ⟨h1, h2, h3, h4, h5, h6⟩ := this
        refine ⟨by omega, by omega, ?_, h4, ?_, ?_⟩
        · intro j hj hjn
          by_cases hji : j = i
          · subst hji; simp [hr]; simpa using ha
          · exact h3 j (by omega) hjn
        · intro hn; exact h5 (by omega)
        · intro a hfa; obtain ⟨x, y, z⟩ := h6 a hfa; exact ⟨x, by omega, z⟩
    · simp [hr, Final.att]; intros; omega

theorem retryRun_spec (script : Nat → Att) (rlf : Bool) (b i : Nat) :
    let n := (retryRun script rlf b i).1
    let f := (retryRun script rlf b i).2
    i < n ∧ n ≤ i + b + 1 ∧
    (∀ j, i ≤ j → j + 1 < n → (script j).retryable = true ∧ (script j).aborts = false) ∧
    f.att = script (n - 1) ∧
    (n < i + b + 1 → (script (n - 1)).retryable = false ∨ (script (n - 1)).aborts = true) ∧
    (∀ a, f = .exceeded a → a.retryable = true ∧ n = i + b + 1 ∧ rlf = false) :=
  retryLoop_spec Att.retryable Att.aborts script rlf b i

/-- at most `maxRetries + 1` attempts reach the server -/
theorem attempts_le (script : Nat → Att) (rlf : Bool) (m : Nat) : (retryRun script rlf m 0).1 ≤ m + 1 := by
  have := (retryRun_spec script rlf m 0).2.1; omega

/-- attempt `j+1` is made iff every attempt up to `j` was retryable and not aborting, and the budget allows it -/
theorem next_attempt_iff (script : Nat → Att) (rlf : Bool) (m j : Nat) :
    j + 2 ≤ (retryRun script rlf m 0).1 ↔
      (j < m ∧ ∀ k, k ≤ j → (script k).retryable = true ∧ (script k).aborts = false) := by
  obtain ⟨h1, h2, h3, _, h5, _⟩ := retryRun_spec script rlf m 0
  constructor
  · intro h
    exact ⟨by omega, fun k hk => h3 k (by omega) (by omega)⟩
  · intro ⟨hj, hall⟩
    by_cases hlt : j + 2 ≤ (retryRun script rlf m 0).1
    · exact hlt
    · exfalso
      have hn : (retryRun script rlf m 0).1 < 0 + m + 1 := by omega
      have hk := hall ((retryRun script rlf m 0).1 - 1) (by omega)
      rcases h5 hn with h | h
      · rw [hk.1] at h; cases h
      · rw [hk.2] at h; cases h

/-- the result handed back is the last attempt's own response / error (wrapped in `ExceededError` when the budget ran out) -/
theorem returned_is_last_attempt (script : Nat → Att) (rlf : Bool) (m : Nat) :
    (retryRun script rlf m 0).2.att = script ((retryRun script rlf m 0).1 - 1) :=
  (retryRun_spec script rlf m 0).2.2.2.1

/-- a non-retryable first response is returned as it is after exactly one attempt -/
theorem non_retryable_returned_at_once (script : Nat → Att) (rlf : Bool) (m : Nat) (h : (script 0).retryable = false) :
    retryRun script rlf m 0 = (1, .returned (script 0)) := by
  unfold retryRun retryLoop; cases m <;> simp [h]

/-- gRPC: a call is re-invoked iff every earlier outcome was a status error with a code of the table, within the budget;
    the error handed back is the last invocation's -/
theorem grpc_next_attempt_iff (script : Nat → Option GErr) (m j : Nat) :
    j + 2 ≤ (grpcRun Generated.Facts.grpcRetryableCodes script m).1 ↔
      (j < m ∧ ∀ k, k ≤ j → (script k = some (.status 4) ∨ script k = some (.status 8) ∨ script k = some (.status 14))) := by
  obtain ⟨h1, h2, h3, _, h5, _⟩ := retryLoop_spec (grpcHandle Generated.Facts.grpcRetryableCodes) (fun _ => false) script false m 0
  unfold grpcRun
  constructor
  · intro h
    exact ⟨by omega, fun k hk => (grpc_retryable_iff _).1 (h3 k (by omega) (by omega)).1⟩
  · intro ⟨hj, hall⟩
    by_cases hlt : j + 2 ≤ (retryLoop (grpcHandle Generated.Facts.grpcRetryableCodes) (fun _ => false) script false m 0).1
    · exact hlt
    · exfalso
      have hn : (retryLoop (grpcHandle Generated.Facts.grpcRetryableCodes) (fun _ => false) script false m 0).1 < 0 + m + 1 := by omega
      have hk := (grpc_retryable_iff _).2 (hall ((retryLoop (grpcHandle Generated.Facts.grpcRetryableCodes) (fun _ => false) script false m 0).1 - 1) (by omega))
      rcases h5 hn with h | h
      · rw [hk] at h; cases h
      · cases h

theorem grpc_returned_is_last (script : Nat → Option GErr) (m : Nat) :
    (grpcRun Generated.Facts.grpcRetryableCodes script m).2.att = script ((grpcRun Generated.Facts.grpcRetryableCodes script m).1 - 1) :=
  (retryLoop_spec (grpcHandle Generated.Facts.grpcRetryableCodes) (fun _ => false) script false m 0).2.2.2.1

/-! ## the request body is replayed in full -/

theorem attemptsRead_spec (c : Captured) (n : Nat) (s : Src) (exp : List Nat)
    (h : ∀ s' : Src, s'.content = s.content → (attemptRead c s').1 = exp) :
    ∀ b ∈ attemptsRead c n s, b = exp := by
  induction n generalizing s with
  | zero => simp [attemptsRead]
  | succ n ih =>
    intro b hb
    simp only [attemptsRead, List.mem_cons] at hb
    rcases hb with hb | hb
    · rw [hb]; exact h s rfl
    · have hc : (attemptRead c s).2.content = s.content := by
        unfold attemptRead; cases c <;> rfl
      exact ih (attemptRead c s).2 (fun s' hs' => h s' (hs'.trans hc)) b hb

/-- Every body kind, content, initial read position and number of sequential attempts: each attempt reads exactly the bytes
    the caller's request would have sent (everything from the reader's position at hand-over), none for a nil body. -/
theorem body_replayed_in_full (k : BodyKind) (s : Src) (n : Nat) :
    ∀ b ∈ attemptsRead (capture k s).1 n (capture k s).2, b = (if k = .none then [] else s.rest) := by
  apply attemptsRead_spec
  intro s' hs'
  cases k <;> simp [capture, attemptRead, Src.rest] at hs' ⊢
  · rw [hs']

theorem attemptsRead_length (c : Captured) (n : Nat) (s : Src) : (attemptsRead c n s).length = n := by
  induction n generalizing s with
  | zero => rfl
  | succ n ih => simp [attemptsRead, ih]

/-! concurrent attempts (hedging) -/

theorem getD_setKV_same {α} (l : List (Nat × α)) (k : Nat) (v d : α) : getD (setKV l k v) k d = v := by
  simp [getD, setKV]

theorem getD_setKV_other {α} (l : List (Nat × α)) (k k' : Nat) (v d : α) (h : k' ≠ k) : getD (setKV l k v) k' d = getD l k' d := by
  have hne : (k == k') = false := by simpa using fun e => h e.symm
  simp only [getD, setKV, List.find?_cons, hne]
  congr 2
  induction l with
  | nil => rfl
  | cons x xs ih =>
    by_cases hx : x.1 = k
    · have h1 : (x.1 != k) = false := by simp [hx]
      have h2 : (x.1 == k') = false := by simpa [hx] using fun e => h e.symm
      simp [List.filter_cons, h1, List.find?_cons, h2, ih]
    · have h1 : (x.1 != k) = true := by simpa using hx
      simp only [List.filter_cons, h1, ↓reduceIte, List.find?_cons]
      cases hxx : (x.1 == k') <;> simp [ih]

theorem take_chunk (bytes : List Nat) (p n : Nat) :
    bytes.take p ++ (bytes.drop p).take n = bytes.take (p + ((bytes.drop p).take n).length) := by
  rw [List.take_add]
  congr 1
  simp only [List.length_take, List.length_drop]
  rw [List.take_eq_take_iff]
  simp [List.length_drop]

/-- Buffered bodies (every kind `http.Request.Body` can hold except seekable streams): whatever the interleaving of the
    attempts' reads, what an attempt has received is always a prefix of the full body, determined by its own reads only. -/
theorem buffered_attempts_independent (bytes : List Nat) (acts : List RAct) (st : ConcSt)
    (h : ∀ a, getD st.got a [] = bytes.take (getD st.priv a 0)) :
    ∀ a, getD (acts.foldl (concStep (.buffered bytes)) st).got a [] =
         bytes.take (getD (acts.foldl (concStep (.buffered bytes)) st).priv a 0) := by
  induction acts generalizing st with
  | nil => simpa using h
  | cons act acts ih =>
    apply ih
    intro a
    cases act with
    | start a' =>
      by_cases haa : a = a'
      · subst haa; simp [concStep, getD_setKV_same]
      · simp [concStep, getD_setKV_other _ _ _ _ _ haa, h a]
    | read a' n =>
      by_cases haa : a = a'
      · subst haa
        simp only [concStep, getD_setKV_same]
        rw [h a, take_chunk]
      · simp [concStep, getD_setKV_other _ _ _ _ _ haa, h a]

/-- a seekable stream body is shared by concurrent attempts: a schedule exists in which the first attempt receives bytes
    `[1,2,2,3,4]` of the body `[1,2,3,4]` (known finding D9; sequential attempts are covered by `body_replayed_in_full`) -/
theorem seekable_shared_witness :
    let st0 : ConcSt := ⟨⟨[1, 2, 3, 4], 0⟩, [], []⟩
    let acts := [RAct.start 0, .read 0 2, .start 1, .read 1 1, .read 0 4, .read 1 4]
    let st := acts.foldl (concStep (.seek 0)) st0
    getD st.got 0 [] = [1, 2, 2, 3, 4] ∧ getD st.got 1 [] = [1] := by decide

/-! ## the context an attempt runs under -/

theorem attempt_ctx_carries_caller_values (a b : Ctx) (own : Nat) (ha : a.WF) (k v : Nat) (h : a.lookup k = some v) :
    (merge a b own).lookup k = some v := by
  unfold merge
  by_cases hbg : a.isBg = true
  · have := (ha hbg).1
    simp [Ctx.lookup, this] at h
  · by_cases hb : b.isBg = true
    · simp [hbg, hb, h]
    · simpa [hbg, hb, Ctx.lookup] using h

theorem attempt_ctx_carries_caller_deadline (a b : Ctx) (own : Nat) (ha : a.WF) (d : Int) (h : a.deadline = some d) :
    (merge a b own).deadline = some d := by
  unfold merge
  by_cases hbg : a.isBg = true
  · have := (ha hbg).2.1
    rw [this] at h; cases h
  · by_cases hb : b.isBg = true <;> simp [hbg, hb, h]

/-- done when the caller's context is -/
theorem attempt_ctx_done_when_caller_done (a b : Ctx) (own : Nat) (ha : a.WF) (fired : Nat → Bool) (h : a.done fired = true) :
    (merge a b own).done fired = true := by
  unfold merge
  by_cases hbg : a.isBg = true
  · have := (ha hbg).2.2
    simp [Ctx.done, this] at h
  · by_cases hb : b.isBg = true
    · simp [hbg, hb, h]
    · simp only [hbg, hb, Ctx.done, Bool.false_eq_true, ↓reduceIte, List.any_append, Bool.or_eq_true] at h ⊢
      exact Or.inl (Or.inl h)

/-- … and when the execution's context is (timeout, hedge cancellation, executor context) -/
theorem attempt_ctx_done_when_exec_done (a b : Ctx) (own : Nat) (hb : b.WF) (fired : Nat → Bool) (h : b.done fired = true) :
    (merge a b own).done fired = true := by
  unfold merge
  by_cases hbg : a.isBg = true
  · simp [hbg, h]
  · by_cases hbb : b.isBg = true
    · have := (hb hbb).2.2
      simp [Ctx.done, this] at h
    · simp only [hbg, hbb, Ctx.done, Bool.false_eq_true, ↓reduceIte, List.any_append, Bool.or_eq_true] at h ⊢
      exact Or.inl (Or.inr h)

/-- … and never otherwise: only the caller, the execution or the attempt's own release end it -/
theorem attempt_ctx_done_only_if (a b : Ctx) (own : Nat) (fired : Nat → Bool) (h : (merge a b own).done fired = true) :
    a.done fired = true ∨ b.done fired = true ∨ fired own = true := by
  unfold merge at h
  by_cases hbg : a.isBg = true
  · simp [hbg] at h; exact Or.inr (Or.inl h)
  · by_cases hbb : b.isBg = true
    · simp [hbg, hbb] at h; exact Or.inl h
    · simp only [hbg, hbb, Ctx.done, Bool.false_eq_true, ↓reduceIte, List.any_append, Bool.or_eq_true, List.any_cons,
        List.any_nil, Bool.or_false] at h
      rcases h with (h | h) | h
      · exact Or.inl h
      · exact Or.inr (Or.inl h)
      · exact Or.inr (Or.inr h)

/-! ## the returned response can be read to the end -/

section readable
open Failsafe.Conc.Goroutines

/-- a response body is readable while the per-attempt context it was obtained under has not been released (net/http behaviour:
modelled, validated by DIFF with streamed bodies read after the call returned) -/
def readable (s : HttpSt) (j : Nat) : Bool := s.liveCtxs.contains j

/-- with the source's shape (FACTS: the context is released when the body is closed, not when the attempt returns) the response
of the last attempt is open and readable after any sequence of attempts, whatever happened to the earlier ones -/
theorem returned_body_readable (rs : List Bool) (s : HttpSt) (i : Nat) :
    (httpAttempts ⟨true, true⟩ s i (rs ++ [true])).lastResp = some (i + rs.length) ∧
    readable (httpAttempts ⟨true, true⟩ s i (rs ++ [true])) (i + rs.length) = true ∧
    (i + rs.length) ∈ (httpAttempts ⟨true, true⟩ s i (rs ++ [true])).openBodies := by
  induction rs generalizing s i with
  | nil =>
    cases hl : s.lastResp <;> simp [httpAttempts, httpAttempt, hl, readable, closeBody]
  | cons x xs ih =>
    have := ih (httpAttempt ⟨true, true⟩ s i x) (i + 1)
    have e : i + 1 + xs.length = i + (xs.length + 1) := by omega
    simp only [List.cons_append, httpAttempts, List.length_cons]
    rw [e] at this
    exact this

/-- the defective shape (D6: release when the attempt returns): the returned response's context is already gone -/
theorem body_unreadable_witness : readable (httpAttempts ⟨true, false⟩ {} 0 [true]) 0 = false := by decide

/-- the source has the repaired shape -/
theorem http_release_shape : Generated.Facts.httpReleaseOnBodyClose = true := by decide

end readable

/-! ## non-vacuity -/

example : retryHandle (some ⟨503, .int 2⟩) none = true ∧ retryHandle (some ⟨501, .absent⟩) none = false ∧ delayFn (some ⟨503, .int 2⟩) = 2000000000 := by decide
example : retryRun (fun i => if i < 2 then .resp ⟨503, .absent⟩ else .resp ⟨200, .absent⟩) false 3 0 = (3, .returned (.resp ⟨200, .absent⟩)) := by decide
example : retryRun (fun _ => .resp ⟨500, .absent⟩) false 2 0 = (3, .exceeded (.resp ⟨500, .absent⟩)) := by decide
example : (attemptsRead (capture .seekable ⟨[1,2,3,4,5], 2⟩).1 3 (capture .seekable ⟨[1,2,3,4,5], 2⟩).2) = [[3,4,5],[3,4,5],[3,4,5]] := by decide
example : (⟨false, [(1, 7)], some 99, [5]⟩ : Ctx).WF ∧ (merge ⟨false, [(1, 7)], some 99, [5]⟩ ⟨false, [(1, 8)], none, [6]⟩ 9).lookup 1 = some 7 := by
  constructor
  · intro h; cases h
  · decide

end Failsafe.Props.C18
