/-!
# Retry delay computation (retrypolicy/retryexecutor.go: getDelay, getFixedOrRandomDelay, adjustForJitter, adjustForMaxDuration;
internal/util: RandomDelayInRange, RandomDelay, RandomDelayFactor)

Durations are integer nanoseconds. The backoff product is computed in `float32` and truncated (`time.Duration(float32(last) *
factor)`); Lean's native `Float32`/`Float` are IEEE-754 like Go's (validated bit for bit by the `retrydelay` differential
slice through the `VerifDelaySequence` hook). Random draws are inputs.
-/
namespace Failsafe.Delay

structure Cfg where
  delay : Int := 0
  delayMin : Int := 0
  delayMax : Int := 0
  delayFactor : Float32 := 0
  maxDelay : Int := 0
  jitter : Int := 0
  jitterFactor : Float32 := 0
  maxDuration : Int := 0
  delayFn : Int := -2          -- value a configured DelayFunc returns (-1 = "no delay computed"), -2 = no DelayFunc

/-- `time.Duration(float32(last) * factor)` -/
def scale (last : Int) (factor : Float32) : Int := (Float32.ofInt last * factor).toInt64.toInt

/-- `util.RandomDelayInRange(min, max, random)` = `T(random*(max64-min64) + min64)` -/
def randomInRange (lo hi : Int) (rnd : Float) : Int :=
  (rnd * (Float.ofInt hi - Float.ofInt lo) + Float.ofInt lo).toInt64.toInt

/-- `util.RandomDelay(delay, jitter, random)`: the addend `T((1 - random*2) * float64(jitter))` -/
def jitterAddend (jitter : Int) (rnd : Float) : Int := ((1 - rnd * 2) * Float.ofInt jitter).toInt64.toInt

/-- `util.RandomDelayFactor(delay, jitterFactor, random)` = `T(float32(delay) * (1 + (1-random*2)*jitterFactor))` -/
def jitterByFactor (delay : Int) (jf rnd : Float32) : Int :=
  (Float32.ofInt delay * (1 + (1 - rnd * 2) * jf)).toInt64.toInt

/-- `getFixedOrRandomDelay`: returns (delay, new lastDelay). `retries` is `exec.Retries()`; `ranged` is the value
`RandomDelayInRange` produced (an input) -/
def fixedOrRandom (c : Cfg) (last : Int) (retries : Int) (ranged : Int) : Int × Int :=
  if c.delay ≠ 0 then
    let nl := if last ≠ 0 ∧ retries ≥ 1 ∧ c.maxDelay ≠ 0 then min (scale last c.delayFactor) c.maxDelay else c.delay
    (nl, nl)
  else if c.delayMin ≠ 0 ∧ c.delayMax ≠ 0 then (ranged, last)
  else (0, last)

/-- `adjustForJitter`; `addend` / `factored` are what `RandomDelay` / `RandomDelayFactor` produced (inputs) -/
def adjustForJitter (c : Cfg) (d : Int) (addend : Int) (factored : Int) : Int :=
  if c.jitter ≠ 0 then d + addend
  else if c.jitterFactor != 0 then factored
  else d

/-- `adjustForMaxDuration` -/
def adjustForMaxDuration (c : Cfg) (d elapsed : Int) : Int :=
  let d := if c.maxDuration ≠ 0 then min d (c.maxDuration - elapsed) else d
  max 0 d

/-- `getDelay`: (scheduled delay, new lastDelay) -/
def getDelay (c : Cfg) (last : Int) (retries elapsed : Int) (ranged addend factored : Int) : Int × Int :=
  let (d, nl) := if c.delayFn ≠ -2 ∧ c.delayFn ≠ -1 then (c.delayFn, last) else fixedOrRandom c last retries ranged
  let d := if d ≠ 0 then adjustForJitter c d addend factored else d
  (adjustForMaxDuration c d elapsed, nl)

end Failsafe.Delay
