import Lean
/-! `#audit_module M` prints every theorem declared in module `M` together with the axioms it depends on. -/
open Lean Elab Command in
elab "#audit_module " m:ident : command => do
  let env ← getEnv
  let some idx := env.getModuleIdx? m.getId | throwError "unknown module {m.getId}"
  let mut names : Array Name := #[]
  for (n, ci) in env.constants.map₁.toList do
    if env.getModuleIdxFor? n == some idx then
      if let .thmInfo _ := ci then
        if !n.isInternal then names := names.push n
  for n in names.qsort (fun a b => a.toString < b.toString) do
    let ax ← collectAxioms n
    IO.println s!"THEOREM {n} AXIOMS {ax.toList}"
