import Failsafe.Limiter
