import Failsafe.Adapters
import Driver.ErrParse
/-!
Line protocol of the `adapters` slice (C18). The harness observes the real adapters from both ends (loopback server,
instrumented inner RoundTripper, fake gRPC invoker / handler); the driver predicts every observation with the definitions
of `Failsafe/Adapters.lean`. Real-time gaps between attempts are checked as lower bounds (`gaps=` field).
-/
namespace Driver.Adapters
open Failsafe.Adapters

structure St where
  nontrivial : Nat := 0
  httpRuns : Nat := 0
  attempts : Nat := 0
  waited : Nat := 0

def kvOf (toks : List String) (k : String) : String :=
  match toks.find? (fun t => t.startsWith (k ++ "=")) with
  | some t => (t.drop (k.length + 1)).toString
  | none => ""

def hexVal (c : Char) : Option Nat :=
  if c.isDigit then some (c.toNat - '0'.toNat)
  else if 'a' ≤ c ∧ c ≤ 'f' then some (c.toNat - 'a'.toNat + 10)
  else if 'A' ≤ c ∧ c ≤ 'F' then some (c.toNat - 'A'.toNat + 10)
  else none

/-- `url.PathUnescape` on the characters the protocol uses -/
def unescape : List Char → List Char
  | '%' :: a :: b :: r =>
    match hexVal a, hexVal b with
    | some x, some y => Char.ofNat (x * 16 + y) :: unescape r
    | _, _ => '%' :: unescape (a :: b :: r)
  | c :: r => c :: unescape r
  | [] => []

/-- `strconv.Atoi`: optional sign, at least one digit, digits only, within int64 -/
def atoi (s : List Char) : Option Int :=
  let (neg, ds) := match s with | '-' :: r => (true, r) | '+' :: r => (false, r) | _ => (false, s)
  if ds.isEmpty || !ds.all Char.isDigit then none
  else
    let n : Nat := ds.foldl (fun acc c => acc * 10 + (c.toNat - '0'.toNat)) 0
    if neg then (if n ≤ 9223372036854775808 then some (-(n : Int)) else none)
    else (if n ≤ 9223372036854775807 then some (n : Int) else none)

def raOfText (present : Bool) (text : String) : RA :=
  if !present then .absent
  else match atoi (unescape text.toList) with
    | some n => .int n
    | none => .unparsable

/-- script element of the loopback server → what the attempt hands to the executor -/
def parseEl (entry : String) (canceled : Bool) (el : String) : Att :=
  let el := if el.startsWith "gate" then (el.drop 4).toString else el
  if el == "slow" then .err { unsupportedScheme := false, isUrlError := entry == "req" && canceled, certNotTrusted := false, stoppedAfterRedirects := false, unknownAuthority := false, isCanceled := canceled, isDeadline := false }
  else if el == "err" then .err { unsupportedScheme := false, isUrlError := entry == "req", certNotTrusted := false, stoppedAfterRedirects := false, unknownAuthority := false, isCanceled := false, isDeadline := false }
  else
    let cs := el.toList
    let ds := cs.takeWhile Char.isDigit
    let rest := cs.dropWhile Char.isDigit
    let st : Int := (String.ofList ds).toNat?.getD 0
    -- r<text> up to the next 'b' / 's'
    let ra := match rest with
      | 'r' :: r => raOfText true (String.ofList (r.takeWhile (fun c => c != 'b' && c != 's')))
      | _ => .absent
    .resp ⟨st, ra⟩

def scriptFn (els : List Att) (i : Nat) : Att := els.getD i (.resp ⟨200, .absent⟩)

structure Stack where
  timeoutFires : Bool := false         -- a short Timeout inside the retry policy: a `slow` attempt ends with timeout.ErrExceeded
  hedges : Bool := false               -- a short hedge delay: a `gate` attempt overlaps with a second one
  fb : Bool := false
  rp : Option (Nat × Bool) := none     -- (maxRetries, returnLastFailure)
  ctxCreating : Bool := false          -- a Timeout or Hedge policy gives every attempt a child context

/-- `rp2b` / `rp2d`: the same retry policy with an exponential backoff / a random delay configured as well (does not change the expectation: a
Retry-After takes precedence, `retry_after_respected` holds for every delay configuration) -/
def noB (s : String) : String := if s.endsWith "b" || s.endsWith "d" then (s.dropEnd 1).toString else s

def parseStack (s : String) : Stack :=
  (s.splitOn ",").foldl (fun st p =>
    if p == "fb" then { st with fb := true }
    else if p.startsWith "rpl" then { st with rp := some (nat! (noB (p.drop 3).toString), true) }
    else if p.startsWith "rp" then { st with rp := some (nat! (noB (p.drop 2).toString), false) }
    else if p == "to" || p == "hp" then { st with ctxCreating := true }
    else if p == "tos" then { st with ctxCreating := true, timeoutFires := true }
    else if p == "hps" then { st with ctxCreating := true, hedges := true }
    else st) {}

/-- the harness's context kinds, for side a (caller; key 1, deadline 1, source 10) or b (executor; key 2, deadline 2, source 20) -/
def mkCtx (kind : String) (sideA : Bool) : Ctx :=
  let key := if sideA then 1 else 2
  let tag := if sideA then 1 else 2
  let src := if sideA then 10 else 20
  let vals := [(key, tag), (3, tag)]
  match kind with
  | "bg" | "none" | "" => Ctx.bg
  | "todo" => {}
  | "val" => { vals := vals }
  | "cancel" => { srcs := [src] }
  | "valcancel" => { vals := vals, srcs := [src] }
  | "deadline" => { vals := vals, deadline := some tag, srcs := [src] }
  | _ => {}

def tagStr : Option Nat → String | some 1 => "a" | some 2 => "b" | some _ => "?" | none => "-"
def dlStr : Option Int → String | some 1 => "a" | some 2 => "b" | some _ => "other" | none => "-"

def view (c : Ctx) (sep : String) : String :=
  s!"va={tagStr (c.lookup 1)}{sep}vb={tagStr (c.lookup 2)}{sep}vs={tagStr (c.lookup 3)}{sep}dl={dlStr c.deadline}"

/-- the context `exec.Context()` returns: the executor's context, or a child of it under a context-creating policy -/
def execCtx (ectx : Ctx) (ctxCreating : Bool) : Ctx :=
  if ctxCreating then { ectx with isBg := false, srcs := ectx.srcs ++ [40] } else ectx

def gerrStr : Option GErr → String
  | none => "ok"
  | some (.status c) => s!"c{c}"
  | some .plain => "plain"

def parseG (s : String) : Option GErr :=
  if s == "ok" then none else if s == "plain" then some .plain else some (.status (nat! s))

def msList (s : String) : List Int := (s.splitOn ",").filterMap (fun x => if x.isEmpty then none else some (int! x))

/-- expected observation (everything before ` gaps=`) and the required minimum gaps in ms -/
def httpExpect (toks : List String) : String × List Int × Nat :=
  let entry := kvOf toks "entry"
  let bodyKind := ((kvOf toks "body").splitOn ":").headD "none"
  let stack := parseStack (kvOf toks "stack")
  let canceled := kvOf toks "cancel" == "1"
  let elTexts := (kvOf toks "srv").splitOn ";"
  let els := elTexts.map (parseEl entry canceled)
  let script := scriptFn els
  let attStr (i : Nat) (a : Att) : String := match a with
    | .resp r => toString r.status
    | .err _ => if elTexts.getD i "" == "slow" then (if canceled then "canceled" else "timeout") else "conn"
  let (n, fin) := match stack.rp with
    | some (m, rlf) => retryRun script rlf m 0
    | none => (1, Final.returned (script 0))
  -- a hedge whose delay elapses while the first attempt is held adds exactly one concurrent attempt; both see the same script outcome
  let hedged := stack.hedges && (elTexts.headD "").startsWith "gate"
  let failed := match fin with | .exceeded _ => true | .returned (.err _) => true | .returned (.resp _) => false
  let finStr :=
    if stack.fb && failed then "299"
    else match fin with
      | .returned a => attStr (n - 1) a
      | .exceeded a => s!"exceeded({attStr (n - 1) a})"
  let n := if hedged then n + 1 else n
  let hasResp := (stack.fb && failed) || (match fin.att with | .resp _ => true | .err _ => false)
  let method := if bodyKind == "none" then "GET" else "POST"
  let atts := (List.range n).foldl (fun acc i => acc ++ s!" a{i}={method},url,hdr,ok") ""
  let merged := merge (mkCtx (kvOf toks "rctx") true) (execCtx (mkCtx (kvOf toks "ectx") false) stack.ctxCreating) 30
  -- lower bounds on the gaps between arrivals at the server: the scheduled retry delay (an attempt's arrival precedes its
  -- response, which precedes the delay). A hedge's distance from the first attempt is C09's subject: no bound here, because the
  -- first arrival is stamped after connection set-up, which has no causal relation to the hedge timer
  let gaps := if hedged then [0] else (List.range (n - 1)).map (fun i => (scheduledDelay (script i)) / 1000000)
  (s!"att={n} fin={finStr} rbody={if hasResp then "ok" else "-"}{atts} ctx={view merged ","}", gaps, n)

def grpcExpect (toks : List String) : String :=
  let side := kvOf toks "side"
  let stack := parseStack (kvOf toks "stack")
  let els := ((kvOf toks "script").splitOn ";").map parseG
  let script := fun i => els.getD i none
  let (n, fin) := match stack.rp with
    | some (m, _) => grpcRun [4, 8, 14] script m
    | none => (1, Final.returned (script 0))
  let finStr := match fin with
    | .returned a => gerrStr a
    | .exceeded a => s!"exceeded({gerrStr a})"
  -- the harness attaches gRPC metadata to the caller's context, so it is never the identical Background value
  let merged := merge { mkCtx (kvOf toks "ctx") true with isBg := false } (execCtx (mkCtx (kvOf toks "ectx") false) stack.ctxCreating) 30
  s!"att={n} fin={finStr} pass=ok ctx={view merged ","},md={if side == "client" then "out" else "in"}"

def mergeExpect (toks : List String) : String :=
  let a := mkCtx (kvOf toks "a") true
  let b := mkCtx (kvOf toks "b") false
  let m := merge a b 30
  let fire := kvOf toks "fire"
  let fired : Nat → Bool := fun s => (fire == "a" && s == 10) || (fire == "b" && s == 20)
  let d := m.done fired
  let released := if m.srcs.contains 30 then "1" else "-"
  s!"{view m " "} done=0{if d then 1 else 0} err={if d then "canceled" else "-"} released={released}"

/-- returns the new state and `none` when the observation agrees with the model, else what the model expects -/
def check (st : St) (toks : List String) (obs : Option String) : St × Option String :=
  let agree (exp : String) (st : St) : St × Option String :=
    match obs with
    | none => (st, none)
    | some o => if o.trim == exp then (st, none) else (st, some exp)
  match toks with
  | ["cls", "s", s] =>
    let r : Resp := ⟨int! s, .absent⟩
    let a := Att.resp r
    agree s!"retry={if a.retryable && !a.aborts then 1 else 0}" { st with nontrivial := st.nontrivial + (if a.retryable then 1 else 0) }
  | "cls" :: "e" :: rest =>
    let b (k : String) : Bool := kvOf rest k == "1"
    let e : HErr := ⟨b "us", b "url", b "cert", b "redir", b "ua", b "canc", b "dl"⟩
    let a := Att.err e
    agree s!"retry={if a.retryable && !a.aborts then 1 else 0}" { st with nontrivial := st.nontrivial + 1 }
  | ["delay", s, h] =>
    let resp : Option Resp := if s == "nil" then none else some ⟨int! s, raOfText (h.startsWith "hdr:") (h.drop 4).toString⟩
    agree (toString (delayFn resp)) { st with nontrivial := st.nontrivial + (if delayFn resp != -1 then 1 else 0) }
  | ["gcls", c] =>
    let e : Option GErr := if c == "nil" then none else if c == "plain" then some .plain else some (.status (nat! c))
    agree s!"retry={if grpcHandle [4, 8, 14] e then 1 else 0}" st
  | "merge" :: rest => agree (mergeExpect rest) { st with nontrivial := st.nontrivial + 1 }
  | "grpc" :: rest => agree (grpcExpect rest) { st with nontrivial := st.nontrivial + 1 }
  | "http" :: rest =>
    let (exp, gaps, n) := httpExpect rest
    let st := { st with httpRuns := st.httpRuns + 1, attempts := st.attempts + n, nontrivial := st.nontrivial + (if n > 1 then 1 else 0),
                        waited := st.waited + (gaps.filter (· > 0)).length }
    match obs with
    | none => (st, none)
    | some o =>
      match o.trim.splitOn " gaps=" with
      | [pre, g] =>
        if pre != exp then (st, some (exp ++ " gaps>=" ++ toString gaps))
        else
          let og := msList g
          if og.length == gaps.length && (List.zip og gaps).all (fun (x, y) => x ≥ y) then (st, none)
          else (st, some (exp ++ " gaps>=" ++ toString gaps))
      | _ => (st, some (exp ++ " gaps>=" ++ toString gaps))
  | _ => (st, some "bad-op")

end Driver.Adapters
